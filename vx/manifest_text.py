HOOK_COMMITS = ['261c63d']
NOTES = ('All checks regenerate their verified text from /repo\'s working tree on every run. exit 0 = all obligations discharged; '
         'exit 1 = VIOLATION (an obligation that verifies on the unchanged tree failed with a genuine verifier verdict); '
         'exit 2 = undecided (lost anchor / construct outside the subset / resource limit), never printed as a violation. '
         'Genuine defects found on the pinned tree were repaired by fix: commits in /repo and are listed as fixed in known_findings.json.')
_PENDING = 'not yet built in this session (planned, see DESIGN.md §6); listed here until its check exists'
NOT_APPLICABLE = {
    'C05': 'trace property of the socket I/O loop and of every handler\'s error path; no function contract within Verus/Kani reach (the framing clause is decided under C20)',
    'C12': 'relational equivalence of two command implementations through an FFI Lua VM; neither verifier can execute or specify it',
    'C16': 'pending-entry accounting is BTreeMap/HashMap<String,_>/Mutex-counter code that Verus rejects and that Kani cannot execute in useful time (probed); no obligation can be discharged',
    'C17': 'dominance of the auth gate over all dispatch paths in process_connection/process_frame (sockets, closures, string matching): callers cannot be verified, so handler preconditions cannot be discharged',
    'C18': 'data-flow of the db index through four dispatch paths in the server/Lua/blocking layers; only the trivial storage half is provable',
    'C14': 'the delivery rule lives in PubSubManager::publish (nested iteration over HashMap<Vec<u8>,HashSet<u64>> behind Mutexes), which is not yet a verifiable unit: Verus needs ghost-iterator invariants over two hash containers and Kani cannot execute them; the glob matcher alone does not carry the property. A C14 defect (per-connection de-duplication) was found by reading and repaired (fix 7e3f5e6) but no registered check would detect its return, so nothing is claimed',
}
_TB = 'Trusted: Verus/Z3, Kani/CBMC; the std contracts and stubs listed verbatim in evidence coverage.trusted_base (assume_specification / external_body / axioms in /verif/prelude); R2 lock elimination; same-instant clock assumption. '
CHECKS = {
    'C01': {'technique': 'Verus contracts on extracted storage-engine functions (shard level)', 'design_ref': '§6 C01',
            'text': 'Deductive proof, for all keys/values/shard states, that the storage-engine functions behind the string and key commands (get, exists, delete, set_value, set_string_nx[_ex], incr_by, strlen, expire, persist, ttl, Value::integer/as_integer) meet postconditions taken from the Redis semantics, change nothing but the named key, and leave the shard unchanged when they refuse. Kernel-scoped: option parsing, dispatch and reply construction in the server layer are not under contract.',
            'note': _TB + 'Not covered: handlers, MGET/MSET/GETSET/TYPE/KEYS/RANDOMKEY/FLUSH*, multi-shard operations.'},
    'C02': {'technique': 'Verus representation invariant (index_ok) + lazy-expiry postconditions on extracted functions', 'design_ref': '§6 C02',
            'text': 'Deductive proof that every shard operation under contract preserves the invariant "the sweeper\'s deadline index names exactly the keys that carry a deadline, with that deadline" (so a key without TTL, or whose TTL was removed/extended, cannot be collected), that get/exists/set-if-absent treat a key past its deadline as absent, and that ttl reports the exact remaining time. Kernel-scoped.',
            'note': _TB + 'Not covered: real time, the sweeper schedule, handlers; operations not listed in evidence.functions_under_contract.'},
    'C03': {'technique': 'Verus contracts on extracted index arithmetic of list commands', 'design_ref': '§6 C03',
            'text': 'Deductive proof for all lengths and all isize start/stop that LRANGE/LTRIM normalise their bounds to exactly the Redis range. Kernel-scoped.',
            'note': _TB + 'Not covered: handlers, iterator bodies (bounded Kani units when present).'},
    'C04': {'technique': 'Verus contracts on extracted rank arithmetic; skip list behind an assumed contract', 'design_ref': '§6 C04',
            'text': 'Deductive proof for all cardinalities and all isize start/stop that ZRANGE/ZREVRANGE return exactly the Redis rank range of the skip list\'s sequence and that ZRANK/ZREVRANK translate ranks correctly. The skip list itself is an assumed contract here.',
            'note': _TB + 'Assumed: SkipList::{len, range_by_rank, get_rank} contracts (prelude/skiplist_stub.rs).'},
    'C08': {'technique': 'Verus frame-plus-ghost-log postcondition (step_ok) on every extracted mutator', 'design_ref': '§6 C08',
            'text': 'Deductive proof that every shard mutator under contract records the key it changes in the modification log whenever the key\'s stored state (value or deadline) changes, and records no other key. Kernel-scoped: storage half only.',
            'note': _TB + 'Assumed: ShardWatchTracker turns a mark into was_modified_since == true (atomics + inner RwLock<HashMap>, not under contract); handle_watch/handle_exec wiring.'},
}

CHECKS.update({
    'C06': {'technique': 'safety obligations (overflow, bounds, unwrap, allocation budget) of all Verus units + complete Kani harnesses', 'design_ref': '§6 C06',
            'text': 'For every function under contract in any check, deductive proof for ALL argument values that no index/slice-range error, arithmetic overflow/underflow, failing unwrap, or reservation larger than the bytes received can occur, and that its loops terminate; plus complete Kani proofs for stream-ID generation and the RDB length reader on arbitrary bytes. The claim is "no panic in these functions", listed in evidence, not "no panic in the server".',
            'note': _TB + 'Not covered: recursion depth, heap exhaustion in general, deadlock/hang, any function not under contract (server dispatch layer, Lua). Known finding: StreamId sequence overflow.'},
    'C07': {'technique': 'Verus contracts on extracted transaction-state functions + exhaustive table enumeration', 'design_ref': '§6 C07',
            'text': 'Deductive proof that MULTI, DISCARD and the queueing step change the per-connection transaction state exactly as prescribed (order-preserving push, nothing else touched, errors leave the state unchanged); should_queue_command (real body) evaluated on every dispatched command name. EXEC atomicity/isolation/ordering are NOT decided (single-thread schedule property of Server::handle_exec).',
            'note': _TB + 'Connection is a two-field stub (any other field access fails to compile = exit 2). Not covered: Server::handle_exec, disconnect handling.'},
    'C09': {'technique': 'Kani complete harnesses on extracted codec functions + Verus contract on the expiry-on-load computation', 'design_ref': '§6 C09',
            'text': 'Complete proofs (full input domains) that the RDB length encoding and the fixed-width integer/float fields decode to exactly what was encoded and consume exactly the bytes written, and a deductive proof that a key read with a deadline is never loaded without one (passed deadline = zero TTL, future deadline = exact remaining time). Value-level round trip (lists/sets/hashes/zsets/streams through hash containers) is not under contract.',
            'note': _TB + 'Byte sink/source replaced by arrays in the extracted twin (stated in contracts/kani/rdb_codec.rs); lengths >= 2^32 excluded (cannot be encoded).'},
    'C10': {'technique': 'Kani complete harness: RDB length reader total on arbitrary bytes', 'design_ref': '§6 C10',
            'text': 'Only the corrupted-input clause, and only for the length reader: for arbitrary source bytes read_length never panics, never reads past the data, and reports a short read as an error. Crash points inside save, the bgsave flag, and per-key consistency under concurrent writers are about failures and interleavings and are NOT decided by any contract here.',
            'note': _TB + 'read_string\'s `vec![0u8; len]` sized by a file length field (<= 4 GiB) is a known limitation of the reader (no notion of remaining length), not under contract.'},
    'C11': {'technique': 'exhaustive enumeration of the extracted classification function over the extracted dispatch table', 'design_ref': '§6 C11',
            'text': 'is_write_command (real body, extracted each run) evaluated on every command name the server dispatches (table extracted each run) against a fixed catalogue of Redis write commands: every dispatched write command is logged, no read command is. Classification kernel only: append-before-dispatch order, EXEC/script/blocking paths, determinism of random commands and the (unimplemented) replay are not decided.',
            'note': 'Trusted: the catalogue spec/write_catalogue.txt; rustc. Known finding: BLPOP/BRPOP/XREADGROUP.'},
    'C13': {'technique': 'Verus contracts on extracted blocking-registry functions', 'design_ref': '§6 C13',
            'text': 'Deductive proof that the registry serves waiters of a key in the order they blocked, keeps its invariant (key set = domain of the waiter map, no empty queues), leaves other keys untouched, and that the branch of notify_key_ready which picks a client leaves no registration of that client behind. Registry kernel only.',
            'note': _TB + 'Assumed: unregister_client (iter_mut/retain closures) contract; not covered: wake_client/process_wakeups/connection state, timeouts, the conservation law pushed = delivered + remaining.'},
    'C15': {'technique': 'Kani complete harnesses on extracted StreamId functions; bounded Kani stand-ins for log reads', 'design_ref': '§6 C15',
            'text': 'Complete proofs over the full u64 domains that an auto-generated ID is strictly greater than the previous top ID and that the duplicated atomics agree with it (one known finding: sequence overflow), and that ID packing/ordering is lexicographic on (millis, seq). Explicit-ID admission and XREAD (range_after) are checked only boundedly (<= 3 entries) and are labelled so.',
            'note': _TB + 'StreamEntry payload type replaced by () in the extracted twin; clock = arbitrary u64; atomics sequential (callers hold the stream mutex). XRANGE/XREVRANGE (StreamData::range) is NOT under contract: CBMC needs > 7 min per single-entry instance.'},
    'C19': {'technique': 'Verus loop invariant on the extracted SCAN window + lemmas over the contract', 'design_ref': '§6 C19',
            'text': 'Deductive proof for all key lists, cursors, COUNT values and patterns that one SCAN step returns exactly the matching keys of the window it examined, in order, stops early only when a budget is exhausted and then with progress, and returns cursor 0 exactly at the end; lemmas show a full iteration over an unchanged key space is complete and sound. Stability under concurrent deletions (the property\'s hard part) is FALSE for this cursor design and is a listed known finding.',
            'note': _TB + 'Assumed: glob matcher pattern_matches as an uninterpreted relation; the key collection/sort prelude and HSCAN/SSCAN/ZSCAN are not under contract.'},
    'C20': {'technique': 'Verus contracts on extracted parser functions against a RESP grammar oracle', 'design_ref': '§6 C20',
            'text': 'Deductive proof for arbitrary bytes that parse_line and parse_bulk_string compute exactly the RESP grammar oracle (frame, request for more data, or error) with payload bytes and consumed count exact; chunking lemmas over the oracle (a complete frame or an error never changes when more bytes arrive); all aggregate parsers and the dispatcher are total, progressing, terminating and never reserve more than the bytes received.',
            'note': _TB + 'Assumed: the four line-frame parsers using tuple-pattern closures (consumed-bounds contract only); not covered: serializer round trip, RespParser::feed/parse buffer management.'},
})
