HOOK_COMMITS = []
NOTES = ('All checks regenerate their verified text from /repo\'s working tree on every run. exit 0 = all obligations discharged; '
         'exit 1 = VIOLATION (an obligation that verifies on the unchanged tree failed with a genuine verifier verdict); '
         'exit 2 = undecided (lost anchor / construct outside the subset / resource limit), never printed as a violation. '
         'Genuine defects found on the pinned tree were repaired by fix: commits in /repo and are listed as fixed in known_findings.json.')
_PENDING = 'not yet built in this session (planned, see DESIGN.md §6); listed here until its check exists'
NOT_APPLICABLE = {
    'C05': 'trace property of the socket I/O loop and of every handler\'s error path; no function contract within Verus/Kani reach (the framing clause is decided under C20)',
    'C12': 'relational equivalence of two command implementations through an FFI Lua VM; neither verifier can execute or specify it',
    'C16': 'pending-entry accounting is BTreeMap/HashMap<String,_>/Mutex-counter code that Verus rejects and that Kani cannot execute in useful time (probed); no obligation can be discharged',
    'C17': 'dominance of the auth gate over all dispatch paths in process_connection/process_frame (sockets, closures, string matching): callers cannot be verified, so handler preconditions cannot be discharged',
    'C18': 'data-flow of the db index through four dispatch paths in the server/Lua/blocking layers; only the trivial storage half is provable',
    'C06': _PENDING, 'C07': _PENDING, 'C09': _PENDING, 'C10': _PENDING, 'C11': _PENDING, 'C13': _PENDING, 'C14': _PENDING,
    'C15': _PENDING, 'C19': _PENDING, 'C20': _PENDING,
}
_TB = 'Trusted: Verus/Z3, Kani/CBMC; the std contracts and stubs listed verbatim in evidence coverage.trusted_base (assume_specification / external_body / axioms in /verif/prelude); R2 lock elimination; same-instant clock assumption. '
CHECKS = {
    'C01': {'technique': 'Verus contracts on extracted storage-engine functions (shard level)', 'design_ref': '§6 C01',
            'text': 'Deductive proof, for all keys/values/shard states, that the storage-engine functions behind the string and key commands (get, exists, delete, set_value, set_string_nx[_ex], incr_by, strlen, expire, persist, ttl, Value::integer/as_integer) meet postconditions taken from the Redis semantics, change nothing but the named key, and leave the shard unchanged when they refuse. Kernel-scoped: option parsing, dispatch and reply construction in the server layer are not under contract.',
            'note': _TB + 'Not covered: handlers, MGET/MSET/GETSET/TYPE/KEYS/RANDOMKEY/FLUSH*, multi-shard operations.'},
    'C02': {'technique': 'Verus representation invariant (index_ok) + lazy-expiry postconditions on extracted functions', 'design_ref': '§6 C02',
            'text': 'Deductive proof that every shard operation under contract preserves the invariant "the sweeper\'s deadline index names exactly the keys that carry a deadline, with that deadline" (so a key without TTL, or whose TTL was removed/extended, cannot be collected), that get/exists/set-if-absent treat a key past its deadline as absent, and that ttl reports the exact remaining time. Kernel-scoped.',
            'note': _TB + 'Not covered: real time, the sweeper schedule, handlers; operations not listed in evidence.functions_under_contract.'},
    'C03': {'technique': 'Verus contracts on extracted index arithmetic of list commands', 'design_ref': '§6 C03',
            'text': 'Deductive proof for all lengths and all isize start/stop that LRANGE/LTRIM normalise their bounds to exactly the Redis range. Kernel-scoped.',
            'note': _TB + 'Not covered: handlers, iterator bodies (bounded Kani units when present).'},
    'C04': {'technique': 'Verus contracts on extracted rank arithmetic; skip list behind an assumed contract', 'design_ref': '§6 C04',
            'text': 'Deductive proof for all cardinalities and all isize start/stop that ZRANGE/ZREVRANGE return exactly the Redis rank range of the skip list\'s sequence and that ZRANK/ZREVRANK translate ranks correctly. The skip list itself is an assumed contract here.',
            'note': _TB + 'Assumed: SkipList::{len, range_by_rank, get_rank} contracts (prelude/skiplist_stub.rs).'},
    'C08': {'technique': 'Verus frame-plus-ghost-log postcondition (step_ok) on every extracted mutator', 'design_ref': '§6 C08',
            'text': 'Deductive proof that every shard mutator under contract records the key it changes in the modification log whenever the key\'s stored state (value or deadline) changes, and records no other key. Kernel-scoped: storage half only.',
            'note': _TB + 'Assumed: ShardWatchTracker turns a mark into was_modified_since == true (atomics + inner RwLock<HashMap>, not under contract); handle_watch/handle_exec wiring.'},
}
