#!/usr/bin/env python3
"""./check <ID> [quick|thorough] [--replay <file>]

Decides one property: regenerates every unit from /repo's working tree, runs the verifiers, names
failing obligations, applies known_findings.json, writes evidence/<ID>.json.
exit 0 = every obligation discharged (known findings printed, not counted)
exit 1 = VIOLATION line(s) printed
exit 2 = undecided (lost anchor, unsupported construct, rlimit, tool failure) — never a VIOLATION line
"""
import concurrent.futures, json, os, re, subprocess, sys, time
from . import gen, verus as vverus, props

VERIF = gen.VERIF
BUILD = os.path.join(VERIF, 'build')
EVID = os.path.join(VERIF, 'evidence')


def load_known():
    p = os.path.join(VERIF, 'known_findings.json')
    if not os.path.exists(p):
        return []
    return json.load(open(p))['findings']


def scan_trusted(paths):
    """mechanical scan for every assumption construct in generated text"""
    pats = [
        (r'assume_specification\s*(<[^>]*>)?\s*\[\s*([^\]]+?)\s*\]', 'assume_specification'),
        (r'#\[verifier::external_body\]\s*(?:pub\s+)?(?:proof\s+|exec\s+|broadcast\s+)*(fn|struct)\s+(\w+)', 'external_body'),
        (r'#\[verifier::external_type_specification\]', 'external_type_specification'),
        (r'#\[verifier::external_trait_specification\]', 'external_trait_specification'),
        (r'\bassume\s*\(', 'assume'),
        (r'\badmit\s*\(', 'admit'),
        (r'#\[verifier::external\]', 'external'),
        (r'\bbroadcast\s+axiom\s+fn\s+(\w+)', 'axiom'),
        (r'\baxiom\s+fn\s+(\w+)', 'axiom'),
        (r'kani::assume\s*\(', 'kani::assume'),
        (r'kani::stub\s*\(', 'kani::stub'),
    ]
    out = set()
    for p in paths:
        if not os.path.exists(p):
            continue
        txt = open(p, errors='replace').read()
        for (rx, tag) in pats:
            for m in re.finditer(rx, txt):
                detail = ''
                if tag == 'assume_specification':
                    detail = gen.norm(m.group(2))
                elif tag == 'external_body':
                    detail = m.group(2)
                elif tag == 'axiom':
                    detail = m.group(1)
                elif tag in ('assume', 'admit', 'kani::assume'):
                    ln = txt.count('\n', 0, m.start()) + 1
                    line = txt.split('\n')[ln - 1].strip()
                    detail = line[:160]
                elif tag == 'external_type_specification':
                    after = txt[m.end():m.end() + 200]
                    mm = re.search(r'struct\s+\w+\s*(<[^>]*>)?\s*\(([^)]*)\)', after)
                    detail = gen.norm(mm.group(2)) if mm else ''
                out.add(f'{tag}: {detail}'.strip())
    return sorted(out)


def match_known(known, pid, name):
    for k in known:
        if k.get('fixed'):
            continue
        if k['property'] != pid:
            continue
        if re.search(k['obligation_regex'], name):
            return k
    return None


def main(argv):
    if len(argv) < 2:
        print(__doc__)
        return 2
    pid = argv[1]
    tier = os.environ.get('VERIF_TIER') or 'quick'
    args = argv[2:]
    if args and args[0] in ('quick', 'thorough', 'exhaustive'):
        tier = args[0]
        args = args[1:]
    if args and args[0] == '--replay':
        from . import replay
        return replay.replay_file(args[1])
    seed = int(os.environ.get('VERIF_SEED', '0') or 0)
    if pid not in props.PROPS:
        print(f'property {pid} is not claimed (see MANIFEST.json not_applicable)')
        return 2
    cfg = props.PROPS[pid]
    t0 = time.time()
    os.makedirs(BUILD, exist_ok=True)
    os.makedirs(EVID, exist_ok=True)
    known = load_known()

    # ---- Verus groups (parallel) ---------------------------------------------------------
    groups = cfg.get('verus', [])
    results = {}
    with concurrent.futures.ThreadPoolExecutor(max_workers=4) as ex:
        futs = {ex.submit(vverus.run_group, g['group']): g for g in groups}
        for f in concurrent.futures.as_completed(futs):
            results[futs[f]['group']] = f.result()

    # ---- thorough tier: the same groups under two further solver seeds (verdict stability; recorded, never changes the exit code) --
    stability = {}
    if tier in ('thorough', 'exhaustive'):
        todo = [(g['group'], s) for g in groups for s in (3, 11) if results[g['group']].get('status') != 'undecided']
        with concurrent.futures.ThreadPoolExecutor(max_workers=4) as ex:
            futs = {ex.submit(vverus.verdict_under_seed, grp, s): (grp, s) for (grp, s) in todo}
            for f in concurrent.futures.as_completed(futs):
                grp, s = futs[f]
                stability.setdefault(grp, {})[str(s)] = f.result()

    # ---- Kani units ----------------------------------------------------------------------
    kani_results = []
    kunits = [k for k in cfg.get('kani', []) if tier == 'exhaustive' or (tier == 'thorough' and k.get('tier', 'quick') != 'exhaustive') or k.get('tier', 'quick') == 'quick']
    if kunits:
        from . import kani as vkani
        kani_results = vkani.run_units(kunits, pid)

    # ---- table units (finite exhaustive enumeration over extracted tables) ----------------
    table_results = []
    for tcfg in cfg.get('tables', []):
        from . import tables
        table_results.append(tables.run_dispatch(tcfg, pid) if tcfg.get('kind') == 'dispatch' else tables.run_script_parse(tcfg, pid) if tcfg.get('kind') == 'script_parse' else tables.run(tcfg, pid))

    # ---- collect ---------------------------------------------------------------------------
    undecided, violations, known_seen = [], [], []
    obligations = discharged = 0
    fn_under_contract, backends, samples, bounded_units = [], [], [], []
    gen_paths = []
    for gcfg in groups:
        r = results[gcfg['group']]
        gen_paths.append(os.path.join(BUILD, gcfg['group'] + '.rs'))
        if r['status'] == 'undecided':
            undecided.append({'group': r['group'], 'reason': r.get('reason'), 'compile_errors': [c.get('message') + ' @ ' + json.dumps(c.get('origin')) for c in r.get('compile_errors', [])][:8]})
            continue
        unit_filter = gcfg.get('units')
        kinds = gcfg.get('kinds')
        excl = set(gcfg.get('exclude_units', []))
        names = [u['name'] for u in r['units'] if (not unit_filter or u['name'] in unit_filter) and u['name'] not in excl]
        # obligations: measured from the AIR log, per function belonging to the selected units
        failed_units = set()
        model_domain_hits = []
        for e in r['errors']:
            if e.get('unit') not in names and e.get('unit') is not None:
                continue
            if kinds and not any(e['kind'].startswith(k) for k in kinds):
                continue
            k = match_known(known, pid, e['name'])
            rec = {'group': r['group'], 'obligation': e['name'], 'kind': e['kind'], 'origin': e.get('origin'), 'message': e['message'], 'rendered': e['rendered'], 'unit': e.get('unit')}
            if e['kind'] == 'requires-at-call' and 'model_domain(' in (e.get('rendered') or ''):
                # the code calls a MODEL method with arguments the model does not describe: the unit cannot be decided
                # (same status as an unsupported construct), not a property verdict
                model_domain_hits.append({'group': r['group'], 'unit': e.get('unit'), 'reason': 'call outside the modelled domain of an assumed contract: ' + e['name'][:200]})
                continue
            if k:
                known_seen.append((k, rec))
            else:
                violations.append(rec)
            failed_units.add(e.get('unit'))
        if model_domain_hits:
            # everything else this unit reports rests on an unconstrained model call: drop its other errors, mark undecided
            bad_units = {h['unit'] for h in model_domain_hits}
            violations[:] = [v for v in violations if not (v.get('group') == r['group'] and v.get('unit') in bad_units)]
            undecided.extend(model_domain_hits)
        air = r.get('air_asserts', {})
        for u in r['units']:
            if u['name'] not in names:
                continue
            # a unit's query is named after its header function: the unit name for free functions, Type::method (the repo path) for
            # methods kept inside an impl block of the same type
            n = sum(v for fn, v in air.items() if fn.split('::')[-1] == u['name'] or fn.endswith('::' + u['fn']))
            nfail = len([e for e in r['errors'] if e.get('unit') == u['name'] and (not kinds or any(e['kind'].startswith(k) for k in kinds))])
            obligations += n
            discharged += max(0, n - nfail)
            fn_under_contract.append({'unit': u['name'], 'repo': f"{u['file']}:{u['span_lines'][0]}-{u['span_lines'][1]}", 'fn': u['fn'], 'kind': u['kind'],
                                      'sha256': u['sha256'], 'rewrites': u['rewrites'], 'air_assertions': n, 'backend': 'verus/z3'})
        # lemmas / spec proofs (functions in the file that are not units)
        unit_names = {u['name'] for u in r['units']}
        if not unit_filter and not kinds:
            unit_fns = {u['fn'] for u in r['units']}
            extra = sum(v for fn, v in air.items() if fn.split('::')[-1] not in unit_names and not any(fn.endswith('::' + f) for f in unit_fns))
            obligations += extra
            spec_fail = len([e for e in r['errors'] if e.get('unit') is None])
            discharged += max(0, extra - spec_fail)
        be = {'backend': 'verus/z3', 'group': r['group'], 'wall_s': r.get('wall_s'), 'smt_ms': r.get('smt_ms'), 'verified_fns': r.get('verified_fns'), 'error_fns': r.get('error_fns'), 'version': r.get('verus_version')}
        if r['group'] in stability:
            st = stability[r['group']]
            be['other_seeds'] = {k: ({'verified_fns': v[0], 'error_fns': v[1]} if v else None) for k, v in st.items()}
            be['verdict_independent_of_seed'] = all(v is not None and v == (r.get('verified_fns'), r.get('error_fns')) for v in st.values())
        backends.append(be)
    for kr in kani_results:
        backends.append({'backend': kr['backend'], 'unit': kr['unit'], 'wall_s': kr.get('wall_s'), 'checks': kr.get('checks'), 'failed_checks': kr.get('failed')})
        if kr['status'] == 'undecided':
            reason = kr.get('reason') or ''
            if kr.get('bounded') and re.search(r'timeout after|run out of memory|No exit code', reason):
                # a BOUNDED stand-in that hit a resource limit was not explored: it is never counted as proved anyway, so it is recorded
                # (bounded_units, explored=False) and does not make the run undecided — "held on everything explored" still stands
                bounded_units.append({'unit': kr['unit'], 'bound': kr['bounded'], 'checks': 0, 'explored': False, 'reason': reason[-300:]})
                continue
            undecided.append({'kani_unit': kr['unit'], 'reason': kr.get('reason')})
            continue
        if kr.get('bounded'):
            bounded_units.append({'unit': kr['unit'], 'bound': kr['bounded'], 'checks': kr.get('checks'), 'wall_s': kr.get('wall_s')})
        else:
            obligations += kr.get('checks', 0)
            discharged += kr.get('checks', 0) - kr.get('failed', 0)
        fn_under_contract.append({'unit': kr['unit'], 'repo': kr.get('repo'), 'backend': kr['backend'], 'bounded': kr.get('bounded')})
        for f in kr.get('failures', []):
            name = f"{kr['unit']}::kani::{f['desc']}"
            k = match_known(known, pid, name)
            rec = {'group': 'kani', 'obligation': name, 'kind': 'kani', 'origin': f.get('loc'), 'message': f['desc'], 'rendered': f.get('trace', ''), 'unit': kr['unit'], 'inputs': f.get('inputs')}
            if k:
                known_seen.append((k, rec))
            else:
                violations.append(rec)
    for tr in table_results:
        backends.append({'backend': 'exhaustive-table', 'unit': tr['unit'], 'wall_s': tr.get('wall_s'), 'cases': tr.get('cases')})
        if tr['status'] == 'undecided':
            undecided.append({'table_unit': tr['unit'], 'reason': tr.get('reason')})
            continue
        obligations += tr['cases']
        discharged += tr['cases'] - len(tr['failures'])
        fn_under_contract.append({'unit': tr['unit'], 'repo': tr.get('repo'), 'backend': 'exhaustive-table', 'sha256': tr.get('sha256')})
        samples += tr.get('samples', [])[:3]
        for f in tr['failures']:
            name = f"{tr['unit']}::table::{f['case']}"
            k = match_known(known, pid, name)
            rec = {'group': 'table', 'obligation': name, 'kind': 'table', 'origin': tr.get('repo'), 'message': f['what'], 'rendered': json.dumps(f), 'unit': tr['unit'], 'inputs': f.get('inputs')}
            if k:
                known_seen.append((k, rec))
            else:
                violations.append(rec)

    # samples: a few obligations written out
    for gcfg in groups:
        r = results[gcfg['group']]
        for u in r.get('units', [])[:2]:
            samples.append({'unit': u['name'], 'code': f"{u['file']}:{u['span_lines'][0]}-{u['span_lines'][1]}", 'contract': f"contracts/{r['group']}.rs", 'sha256': u['sha256']})

    # obligations covered by a listed known finding are reported separately, not counted as obligations of the proof claim
    kf_obl = len({rec['obligation'] for (k, rec) in known_seen})
    obligations = max(0, obligations - kf_obl)
    discharged = min(discharged, obligations)
    trusted = scan_trusted(gen_paths)
    trusted += cfg.get('trusted_extra', [])

    # ---- report ----------------------------------------------------------------------------
    for (k, rec) in known_seen:
        pass
    printed = set()
    for (k, rec) in known_seen:
        key = k['id']
        if key in printed:
            continue
        printed.add(key)
        print(f"KNOWN-FINDING: property={pid} {k['what_fails']}")
    rc = 0
    replay_paths = []
    if violations:
        os.makedirs(os.path.join(BUILD, 'replay'), exist_ok=True)
        from . import replay
        for i, v in enumerate(violations):
            path = replay.write_violation(pid, i, v, results)
            replay_paths.append(path)
            suffix = '' if v.get('inputs') else ' no-failing-input-found'
            print(f"VIOLATION property={pid} replay={path}{suffix}")
            print(f"  obligation: {v['obligation']}")
            print(f"  at: {json.dumps(v['origin'])}")
        rc = 1
    if undecided and rc == 0:
        for u in undecided:
            print(f"UNDECIDED property={pid} {json.dumps(u)[:1500]}")
        rc = 2
    level = cfg.get('level', 'proof')
    ev = {
        'property_id': pid, 'tier': tier, 'seed': seed, 'level': level,
        'coverage': {
            'obligations': obligations, 'discharged': discharged,
            'checker_cmd': f'./check {pid} {tier}  (per group: verus build/<group>.rs --output-json --error-format=json --multiple-errors 50 --log air; per Kani unit: cargo kani --harness <h>)',
            'trusted_base': trusted,
            'functions_under_contract': fn_under_contract,
            'backends': backends,
            'bounded_units': bounded_units,
            'undecided': undecided,
            'known_findings_seen': [dict(id=k['id'], obligation=rec['obligation']) for (k, rec) in known_seen],
            'violations': [dict(obligation=v['obligation'], origin=v['origin']) for v in violations],
            'samples': samples[:8],
            'explanation': cfg.get('explanation', ''),
            'obligation_count_rule': 'obligations = number of AIR `assert` statements Verus generated in the verification queries of the functions under contract (measured from --log air on this run) + Kani property checks of complete (loop-free, full-domain) harnesses + enumerated table cases; bounded Kani units are listed under bounded_units and NOT counted',
        },
        'assumptions': cfg.get('assumptions', []) + props.COMMON_ASSUMPTIONS,
        'wall_s': round(time.time() - t0, 2),
        'violations': len(violations),
    }
    with open(os.path.join(EVID, pid + '.json'), 'w') as f:
        json.dump(ev, f, indent=1)
    if rc == 0:
        print(f'OK property={pid} tier={tier} obligations={obligations} discharged={discharged} known_findings={len(printed)} wall_s={ev["wall_s"]}')
    return rc


if __name__ == '__main__':
    sys.exit(main(sys.argv))
