#!/usr/bin/env python3
"""Kani units: (a) extracted twins — real function text spliced into a small stand-alone crate (build/kani_units),
(b) in-place harnesses compiled into the real crate through cfg(kani) hook lines.
A unit is `complete` (loop-free harness over full-domain symbolic inputs: counted as discharged obligations) or
`bounded` (needs #[kani::unwind]/input-size bound: a bounded stand-in, labelled and never counted as proved)."""
import concurrent.futures, json, os, re, subprocess, time
from . import gen

VERIF = gen.VERIF
BUILD = os.path.join(VERIF, 'build')
KDIR = os.path.join(BUILD, 'kani_units')


def gen_units_crate(templates):
    os.makedirs(os.path.join(KDIR, 'src'), exist_ok=True)
    metas = {}
    mods = []
    for t in templates:
        tmpl = os.path.join(VERIF, 'contracts', 'kani', t + '.rs')
        out = os.path.join(KDIR, 'src', t + '.rs')
        g, bm, text = gen.generate(tmpl, out)
        metas[t] = {'units': [dict(name=u.name, **u.meta) for u in g.units], 'items': g.items, 'bm': bm, 'text': text}
        mods.append(t)
    with open(os.path.join(KDIR, 'src', 'lib.rs'), 'w') as f:
        f.write('#![allow(dead_code, unused_variables, unused_mut, unused_imports, unused_assignments, unused_comparisons, unreachable_code, unused_parens)]\n')
        for m in mods:
            f.write(f'pub mod {m};\n')
    with open(os.path.join(KDIR, 'Cargo.toml'), 'w') as f:
        f.write('[package]\nname = "kani_units"\nversion = "0.1.0"\nedition = "2021"\n\n[dependencies]\n\n[workspace]\n\n'
                '[lints.rust]\nunexpected_cfgs = { level = "allow", check-cfg = [\'cfg(kani)\'] }\n')
    return metas


def parse_kani_output(out):
    res = {'checks': 0, 'failed': 0, 'failures': [], 'verdict': None, 'covers': None, 'playback': None}
    m = re.search(r'\*\* (\d+) of (\d+) failed', out)
    if m:
        res['failed'], res['checks'] = int(m.group(1)), int(m.group(2))
    m = re.search(r'\*\* (\d+) of (\d+) cover properties satisfied', out)
    if m:
        res['covers'] = (int(m.group(1)), int(m.group(2)))
    m = re.search(r'VERIFICATION:- (\w+)', out)
    if m:
        res['verdict'] = m.group(1)
    for fm in re.finditer(r'Failed Checks: (.*)\n File: "([^"]*)", line (\d+), in (\S+)', out):
        res['failures'].append({'desc': fm.group(1).strip(), 'file': fm.group(2), 'line': int(fm.group(3)), 'fn': fm.group(4)})
    blocks = []
    for pm in re.finditer(r'Concrete playback unit test for.*?```\n(.*?)```', out, re.S):
        txt = pm.group(1)
        cm = re.search(r'/// Check for `(\w+)`: "(.*)"', txt)
        vals = [m.group(1).strip() for m in re.finditer(r'^\s*// (.+)$', txt, re.M)]
        blocks.append({'kind': cm.group(1) if cm else None, 'desc': cm.group(2) if cm else None, 'values': vals})
    res['playback'] = blocks
    return res


def playback_values(blocks, desc):
    for b in blocks or []:
        if b['kind'] != 'cover' and b['desc'] and (b['desc'] in desc or desc.startswith(b['desc'])):
            return b['values']
    return []


def run_one(u, metas):
    t0 = time.time()
    r = {'unit': u['name'], 'backend': 'kani-complete' if not u.get('bounded') else 'kani-bounded', 'bounded': u.get('bounded'), 'status': None,
         'failures': [], 'checks': 0, 'failed': 0}
    if u['kind'] == 'extracted':
        cwd = KDIR
        meta = metas.get(u['template'], {})
        units = meta.get('units', [])
        r['repo'] = '; '.join(f"{x['file']}:{x['span_lines'][0]}-{x['span_lines'][1]} ({x['fn']})" for x in units)
        r['sha256'] = [x['sha256'] for x in units]
        r['rewrites'] = sum([x['rewrites'] for x in units], [])
        cmd = ['cargo', 'kani', '--harness', u['harness'], '--target-dir', os.path.join(BUILD, 'kani-target-units')]
    else:
        cwd = gen.REPO
        r['repo'] = u.get('repo')
        cmd = ['cargo', 'kani', '--lib', '--harness', u['harness'], '--target-dir', os.path.join(BUILD, 'kani-target')]
    cmd += ['-Z', 'stubbing'] + u.get('kani_args', [])
    if u.get('playback', True):
        cmd += ['-Z', 'concrete-playback', '--concrete-playback=print']
    env = dict(os.environ, CARGO_NET_OFFLINE='true')
    r['checker_cmd'] = ' '.join(cmd)
    try:
        p = subprocess.run(cmd, cwd=cwd, capture_output=True, text=True, timeout=u.get('timeout', 900), env=env)
    except subprocess.TimeoutExpired:
        r['status'] = 'undecided'
        r['reason'] = f"kani timeout after {u.get('timeout', 900)}s"
        return r
    out = p.stdout + '\n' + p.stderr
    r['wall_s'] = round(time.time() - t0, 1)
    po = parse_kani_output(out)
    r.update({k: po[k] for k in ('checks', 'failed')})
    if po['verdict'] is None:
        r['status'] = 'undecided'
        r['reason'] = 'kani produced no verdict (compile error = lost anchor / unsupported construct): ' + out[-1500:]
        return r
    if po['covers'] and po['covers'][0] < po['covers'][1]:
        r['status'] = 'undecided'
        r['reason'] = f"vacuity guard: only {po['covers'][0]} of {po['covers'][1]} cover properties satisfiable"
        return r
    for f in po['failures']:
        vals = playback_values(po['playback'], f['desc'])
        f2 = {'desc': f['desc'] + ' @ ' + f['fn'].split('::')[-1], 'loc': {'file': f['file'], 'line': f['line'], 'fn': f['fn']}, 'trace': out[-3000:]}
        if vals:
            f2['inputs'] = {'kani_any_values_in_order': vals}
            if u.get('replay'):
                try:
                    f2['inputs']['replay_script'] = u['replay'](vals)
                except Exception as e:  # noqa
                    f2['inputs']['replay_script_error'] = str(e)
        r['failures'].append(f2)
    if po['verdict'] == 'FAILED' and not po['failures']:
        # e.g. unwinding assertion failures are listed as failed checks too; if nothing parsed, stay undecided
        r['status'] = 'undecided'
        r['reason'] = 'kani FAILED without a parsable failed check: ' + out[-1200:]
        return r
    if any('unwinding assertion' in f['desc'] for f in po['failures']):
        r['status'] = 'undecided'
        r['reason'] = 'unwinding assertion failed: the stated bound no longer covers the loop (not a property verdict)'
        r['failures'] = []
        return r
    r['status'] = 'failed' if po['failures'] else 'verified'
    return r


def run_units(units, pid):
    templates = sorted({u['template'] for u in units if u['kind'] == 'extracted'})
    metas = {}
    results = []
    try:
        if templates:
            metas = gen_units_crate(templates)
    except gen.GenError as e:
        for u in units:
            if u['kind'] == 'extracted':
                results.append({'unit': u['name'], 'backend': 'kani', 'status': 'undecided', 'reason': str(e), 'failures': []})
        units = [u for u in units if u['kind'] != 'extracted']
    # first harness builds the crate; run it alone, then the rest in parallel
    ext = [u for u in units if u['kind'] == 'extracted']
    inp = [u for u in units if u['kind'] != 'extracted']
    for group in (ext, inp):
        if not group:
            continue
        results.append(run_one(group[0], metas))
        # the in-place skip-list instances need 10-20 GB each in CBMC: two at a time (four ran out of memory on the 62 GB machine)
        heavy = any(u.get('timeout', 900) >= 1500 for u in group)
        with concurrent.futures.ThreadPoolExecutor(max_workers=2 if heavy else 4) as ex:
            for r in ex.map(lambda u: run_one(u, metas), group[1:]):
                results.append(r)
    return results
