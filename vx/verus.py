#!/usr/bin/env python3
"""Run Verus on a generated group file and turn its verdicts into named obligations."""
import json, os, re, subprocess, time, hashlib
from . import gen

VERIF = gen.VERIF
BUILD = os.path.join(VERIF, 'build')


def unit_ranges(bm):
    """[(start_byte, end_byte, unit_name)] in the generated file"""
    marks = []
    pos_units = []
    for (a, b, o, t) in bm:
        if o == ('gen', 'unit'):
            m = re.match(r'// ==== unit (\S+):', t)
            pos_units.append((a, m.group(1)))
    out = []
    for i, (a, name) in enumerate(pos_units):
        end = pos_units[i + 1][0] if i + 1 < len(pos_units) else 1 << 60
        out.append((a, end, name))
    return out


def classify(msg):
    m = msg.lower()
    if 'postcondition not satisfied' in m or 'unable to prove post-condition of closure' in m:
        return 'ensures'
    if 'precondition not satisfied' in m:
        return 'requires-at-call'
    if 'invariant not satisfied' in m:
        return 'invariant'
    if 'arithmetic underflow/overflow' in m or 'overflow' in m and 'possible' in m:
        return 'safety:arith'
    if 'assertion failed' in m:
        return 'assert'
    if 'decreases' in m or 'termination' in m:
        return 'decreases'
    if 'bit shift' in m or 'division by zero' in m or 'divide by zero' in m:
        return 'safety:arith'
    if 'possible' in m and 'out of' in m:
        return 'safety:bounds'
    if 'unreachable' in m or 'unwrap' in m:
        return 'safety:unreachable'
    if 'rlimit' in m or 'resource limit' in m:
        return 'rlimit'
    return 'other'


def count_air_asserts(logdir):
    """measured obligation count: `(assert` statements inside Function-Def / Function-Termination queries, per function"""
    counts = {}
    if not os.path.isdir(logdir):
        return counts
    for fn in os.listdir(logdir):
        if not fn.endswith('.air'):
            continue
        cur, kind = None, None
        for line in open(os.path.join(logdir, fn), errors='replace'):
            m = re.match(r';; (Function-\S+) (\S+)', line)
            if m:
                kind, cur = m.group(1), m.group(2)
                continue
            if cur and kind in ('Function-Def', 'Function-Termination', 'Function-Decl-Check-Recommends', 'Function-Proof') and '(assert' in line:
                counts[cur] = counts.get(cur, 0) + line.count('(assert')
    return counts


def run_group(group, rlimit=None, extra_args=(), timeout=1800):
    """Generate build/<group>.rs from contracts/<group>.rs, run Verus, return a result dict."""
    tmpl = os.path.join(VERIF, 'contracts', group + '.rs')
    out = os.path.join(BUILD, group + '.rs')
    res = {'group': group, 'status': None, 'units': [], 'errors': [], 'notes': []}
    t0 = time.time()
    try:
        g, bm, text = gen.generate(tmpl, out)
    except gen.GenError as e:
        res['status'] = 'undecided'
        res['reason'] = str(e)
        return res
    res['units'] = [dict(name=u.name, **u.meta) for u in g.units]
    res['items'] = g.items
    res['includes'] = g.includes
    logdir = os.path.join(BUILD, 'log_' + group)
    subprocess.run(['rm', '-rf', logdir])
    cmd = ['verus', out, '--output-json', '--time-expanded', '--error-format=json', '--multiple-errors', '50',
           '--log', 'air', '--log-dir', logdir, '--num-threads', '8']
    if rlimit:
        cmd += ['--rlimit', str(rlimit)]
    cmd += list(extra_args)
    res['checker_cmd'] = ' '.join(cmd)
    try:
        p = subprocess.run(cmd, capture_output=True, text=True, timeout=timeout, cwd=VERIF)
    except subprocess.TimeoutExpired:
        res['status'] = 'undecided'
        res['reason'] = f'verus timeout after {timeout}s'
        return res
    res['wall_s'] = round(time.time() - t0, 2)
    try:
        j = json.loads(p.stdout)
    except Exception:
        j = None
    diags = []
    for line in p.stderr.splitlines():
        line = line.strip()
        if line.startswith('{'):
            try:
                diags.append(json.loads(line))
            except Exception:
                pass
    ur = unit_ranges(bm)
    compile_errors = []
    for d in diags:
        if d.get('level') != 'error':
            continue
        msg = d.get('message', '')
        if msg.startswith('aborting due to'):
            continue
        spans = d.get('spans', [])
        prim = [s for s in spans if s.get('is_primary')] or spans
        kind = classify(msg)
        ent = {'message': msg, 'kind': kind, 'rendered': d.get('rendered', '')[:4000]}
        if prim:
            s = prim[0]
            ent['gen_line'] = s['line_start']
            ent['origin'] = gen.origin_of(bm, None, s['byte_start'])
            ent['text'] = gen.norm(text.encode()[s['byte_start']:s['byte_end']].decode(errors='replace'))[:200]
            for (a, b, name) in ur:
                if a <= s['byte_start'] < b:
                    ent['unit'] = name
            # secondary labelled spans (e.g. "failed this postcondition")
            labs = []
            for s2 in spans:
                if s2.get('label'):
                    labs.append({'label': s2['label'], 'origin': gen.origin_of(bm, None, s2['byte_start']),
                                 'text': gen.norm(text.encode()[s2['byte_start']:s2['byte_end']].decode(errors='replace'))[:300]})
            ent['labels'] = labs
        if d.get('code') is not None or kind == 'other':
            # rustc / VIR front-end error => not a verification verdict
            if d.get('code') is not None or not re.search(r'not satisfied|failed|possible|rlimit|resource limit', msg.lower()):
                compile_errors.append(ent)
                continue
        res['errors'].append(ent)
    if j is None:
        res['status'] = 'undecided'
        res['reason'] = 'verus produced no JSON: ' + (p.stderr[-1500:] if p.stderr else '')
        res['compile_errors'] = compile_errors
        return res
    vr = j.get('verification-results', {})
    res['verified_fns'] = vr.get('verified', 0)
    res['error_fns'] = vr.get('errors', 0)
    tm = j.get('times-ms', {})
    res['smt_ms'] = tm.get('smt', {}).get('total')
    res['verus_total_ms'] = tm.get('total')
    res['verus_version'] = tm.get('verus-build', {}).get('version')
    res['air_asserts'] = count_air_asserts(logdir)
    if vr.get('encountered-vir-error') or compile_errors or (not vr.get('success') and not res['errors']):
        res['status'] = 'undecided'
        res['reason'] = 'front-end (rustc/VIR) error: generated text outside the accepted subset or anchor drift'
        res['compile_errors'] = compile_errors
        if not compile_errors:
            res['reason'] += ' :: ' + p.stderr[-1500:]
        return res
    for e in res['errors']:
        e['name'] = obligation_name(e)
    if any(e['kind'] == 'rlimit' for e in res['errors']):
        res['status'] = 'undecided'
        res['reason'] = 'resource limit exceeded'
    elif res['errors']:
        res['status'] = 'failed'
    else:
        res['status'] = 'verified'
    return res


def obligation_name(e):
    """stable name: unit :: kind :: normalised text of the flagged clause/expression (no line numbers)"""
    unit = e.get('unit', '<prelude-or-spec>')
    kind = e['kind']
    what = e.get('text', '')
    if kind == 'ensures':
        for l in e.get('labels', []):
            if 'failed this postcondition' in l['label']:
                what = l['text']
    elif kind == 'invariant' or kind == 'requires-at-call':
        # for requires-at-call the primary span is the call expression; labels may point to the callee's clause
        pass
    return f'{unit}::{kind}::{what}'


def verdict_under_seed(group, seed, timeout=1800):
    """Thorough tier: re-run Verus on the ALREADY generated build/<group>.rs under another Z3 seed and return (verified, errors).
    Used only to record whether the verdict depends on the solver's random choices (brittle proofs are tomorrow's false alarms)."""
    out = os.path.join(BUILD, group + '.rs')
    cmd = ['verus', out, '--output-json', '--multiple-errors', '50', '--num-threads', '8',
           '--smt-option', f'smt.random_seed={seed}', '--smt-option', f'sat.random_seed={seed}']
    try:
        p = subprocess.run(cmd, capture_output=True, text=True, timeout=timeout, cwd=VERIF)
        vr = json.loads(p.stdout).get('verification-results', {})
        return (vr.get('verified', 0), vr.get('errors', 0))
    except Exception as e:
        return None
