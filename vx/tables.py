#!/usr/bin/env python3
"""Finite exhaustive enumeration of command-classification functions over the dispatch table extracted from the
real server on every run. The function BODY is extracted verbatim from /repo and compiled as a free function
(the body never mentions `self`; rustc confirms), then evaluated on EVERY command name the server dispatches.
Finite domain, enumerated completely (exhaustive: true)."""
import hashlib, json, os, re, subprocess, time
from . import gen

VERIF = gen.VERIF
BUILD = os.path.join(VERIF, 'build')


def dispatch_names():
    """every string-literal match-arm pattern in the server's dispatch functions"""
    idx = gen.index('src/network/server.rs')
    names = set()
    for fnpath in ('Server::process_normal_command', 'Server::process_frame', 'Server::process_connection'):
        c = [f for f in idx['fns'] if f['path'] == fnpath]
        if not c:
            raise gen.GenError(f'lost-anchor: {fnpath}')
        for a in c[0]['arms']:
            for m in re.finditer(r'"([A-Z]+)"', a['pat']):
                names.add(m.group(1))
    if len(names) < 50:
        raise gen.GenError(f'lost-anchor: dispatch table has only {len(names)} names')
    return sorted(names)


def extract_body(relfile, fnpath):
    idx = gen.index(relfile)
    fn = gen.find_fn(idx, relfile, fnpath)
    src = idx['src']
    body = src[fn['body'][0]:fn['body'][1]].decode()
    return body, f"{relfile}:{gen.line_of(idx, fn['body'][0])}-{gen.line_of(idx, fn['body'][1])}", hashlib.sha256(body.encode()).hexdigest()


def run(tcfg, pid):
    t0 = time.time()
    r = {'unit': tcfg['name'], 'status': None, 'failures': [], 'cases': 0, 'samples': []}
    try:
        names = dispatch_names()
        body, where, sha = extract_body(tcfg['file'], tcfg['fn'])
    except gen.GenError as e:
        r['status'] = 'undecided'
        r['reason'] = str(e)
        return r
    r['repo'] = where
    r['sha256'] = sha
    extra = tcfg.get('extra_names', [])
    allnames = sorted(set(names) | set(extra))
    d = os.path.join(BUILD, 'tables')
    os.makedirs(d, exist_ok=True)
    src = os.path.join(d, tcfg['name'] + '.rs')
    with open(src, 'w') as f:
        f.write('#![allow(unused)]\n// body extracted verbatim from ' + where + '\n')
        f.write(f'fn {tcfg["name"]}(command: &str) -> bool\n{body}\n')
        f.write('fn main() { for a in std::env::args().skip(1) { println!("{} {}", a, ' + tcfg['name'] + '(&a)); } }\n')
    exe = os.path.join(d, tcfg['name'])
    p = subprocess.run(['rustc', '--edition', '2021', '-O', '-o', exe, src], capture_output=True, text=True)
    if p.returncode != 0:
        r['status'] = 'undecided'
        r['reason'] = 'extracted body does not compile as a free function (lost anchor): ' + p.stderr[-800:]
        return r
    p = subprocess.run([exe] + allnames, capture_output=True, text=True)
    got = dict(l.split() for l in p.stdout.strip().split('\n'))
    expect_true = tcfg['expect_true'](allnames)
    for n in allnames:
        exp = n in expect_true
        obs = got[n] == 'true'
        r['cases'] += 1
        if exp != obs:
            r['failures'].append({'case': n, 'what': f"{tcfg['name']}(\"{n}\") = {obs}, expected {exp} ({tcfg['why']})", 'inputs': {'command': n}})
    r['samples'] = [{'case': n, 'result': got[n]} for n in allnames[:3]]
    r['dispatch_table_size'] = len(names)
    r['status'] = 'failed' if r['failures'] else 'verified'
    r['wall_s'] = round(time.time() - t0, 2)
    return r


def write_catalogue():
    names = set()
    for l in open(os.path.join(VERIF, 'spec', 'write_catalogue.txt')):
        if l.startswith('#'):
            continue
        names |= set(l.split())
    return names


def dispatch_catalogue():
    rows = []
    for l in open(os.path.join(VERIF, 'spec', 'dispatch_catalogue.txt')):
        if l.startswith('#') or not l.strip():
            continue
        cmd, handler, dbf = l.split()
        rows.append((cmd, handler, dbf))
    return rows


def run_dispatch(tcfg, pid):
    """Exhaustive check of the command dispatch of Server::process_normal_command against spec/dispatch_catalogue.txt: for every
    catalogued command, the arm that matches its name calls the catalogued handler first, and — for key-space commands — passes
    the dispatcher's `db` argument (nothing else) as the database. The arms are read from the AST index of the real file on every
    run. Finite domain, enumerated completely."""
    t0 = time.time()
    r = {'unit': tcfg['name'], 'status': None, 'failures': [], 'cases': 0, 'samples': []}
    try:
        idx = gen.index('src/network/server.rs')
        fn = gen.find_fn(idx, 'src/network/server.rs', 'Server::process_normal_command')
        src = idx['src']
        big = max(fn.get('matches', []), key=lambda m: len(m['arms']))
        if len(big['arms']) < 60:
            raise gen.GenError('lost-anchor: dispatch match of process_normal_command not found')
        # the dispatcher's own parameters
        params = [gen.normtok(src[s:e].decode()) for (s, e) in fn['inputs']]
        if 'db:usize' not in params:
            raise gen.GenError('lost-anchor: process_normal_command has no `db: usize` parameter')
    except gen.GenError as e:
        r['status'] = 'undecided'
        r['reason'] = str(e)
        return r
    arms = {}
    for a in big['arms']:
        for m in re.finditer(r'"([A-Z]+)"', a['pat']):
            arms[m.group(1)] = a
    r['repo'] = f"src/network/server.rs:{gen.line_of(idx, big['span'][0])}-{gen.line_of(idx, big['span'][1])}"
    r['sha256'] = hashlib.sha256(src[big['span'][0]:big['span'][1]]).hexdigest()
    for cmd, handler, dbf in dispatch_catalogue():
        r['cases'] += 2 if dbf == 'db' else 1
        a = arms.get(cmd)
        if a is None:
            r['failures'].append({'case': cmd, 'what': f'command {cmd} is no longer dispatched (no arm matches its name)', 'inputs': {'command': cmd}})
            continue
        body = re.sub(r'\s+', ' ', src[a['body'][0]:a['body'][1]].decode())
        m = re.search(r'(self\.|[\w:]+::|)(handle_\w+)\(([^()]*(?:\([^()]*\)[^()]*)*)\)', body)
        if not m:
            r['failures'].append({'case': cmd, 'what': f'arm of {cmd} calls no handler', 'inputs': {'command': cmd}})
            continue
        callee, args = m.group(2), [x.strip() for x in m.group(3).split(',')]
        if callee != handler:
            r['failures'].append({'case': cmd + ':handler', 'what': f'{cmd} is dispatched to {callee}, expected {handler}', 'inputs': {'command': cmd}})
        if dbf == 'db' and args.count('db') != 1:
            r['failures'].append({'case': cmd + ':db', 'what': f'{cmd}: the handler call `{callee}({m.group(3).strip()})` does not pass the dispatcher\'s `db` (the connection\'s database)', 'inputs': {'command': cmd}})
    r['samples'] = [{'case': c, 'handler': h, 'db': d} for (c, h, d) in dispatch_catalogue()[:3]]
    r['status'] = 'failed' if r['failures'] else 'verified'
    r['wall_s'] = round(time.time() - t0, 2)
    return r


def script_catalogue():
    rows = []
    for l in open(os.path.join(VERIF, 'spec', 'script_catalogue.txt')):
        if l.startswith('#') or not l.strip():
            continue
        rows.append(tuple(l.split()))
    return rows


def run_script_parse(tcfg, pid):
    """Exhaustive check of the name match of CommandParser::parse (the script path) against spec/script_catalogue.txt: for every
    catalogued command the arm that matches its name is exactly `Command::<Category>(Self::<parse fn>(frames)?)` — the command's own
    parser, applied to the whole frame list, wrapped in the category whose execute_* function holds the proved arm. Arms are read
    from the AST index of the real file on every run. Finite domain, enumerated completely."""
    t0 = time.time()
    r = {'unit': tcfg['name'], 'status': None, 'failures': [], 'cases': 0, 'samples': []}
    rel = 'src/storage/commands/executor.rs'
    try:
        idx = gen.index(rel)
        fn = gen.find_fn(idx, rel, 'CommandParser::parse')
        src = idx['src']
        big = max(fn.get('matches', []), key=lambda m: len(m['arms']))
        if len(big['arms']) < 40:
            raise gen.GenError('lost-anchor: name match of CommandParser::parse not found')
    except gen.GenError as e:
        r['status'] = 'undecided'
        r['reason'] = str(e)
        return r
    arms = {}
    for a in big['arms']:
        for m in re.finditer(r'"([A-Z]+)"', a['pat']):
            arms.setdefault(m.group(1), []).append(a)
    r['repo'] = f"{rel}:{gen.line_of(idx, big['span'][0])}-{gen.line_of(idx, big['span'][1])}"
    r['sha256'] = hashlib.sha256(src[big['span'][0]:big['span'][1]]).hexdigest()
    for cmd, cat, pfn in script_catalogue():
        r['cases'] += 1
        al = arms.get(cmd)
        if not al:
            r['failures'].append({'case': cmd, 'what': f'command {cmd} is no longer parsed on the script path (no arm matches its name)', 'inputs': {'command': cmd}})
            continue
        # the FIRST arm whose pattern names the command is the one that runs
        a = min(al, key=lambda x: x['span'][0] if 'span' in x else x['body'][0])
        body = gen.normtok(src[a['body'][0]:a['body'][1]].decode()).rstrip(',')
        want = f'Command::{cat}(Self::{pfn}(frames)?)'
        if body != want:
            r['failures'].append({'case': cmd, 'what': f'{cmd} is parsed by `{body[:120]}`, expected `{want}`', 'inputs': {'command': cmd}})
    r['samples'] = [{'case': c, 'category': k, 'parser': f} for (c, k, f) in script_catalogue()[:3]]
    r['status'] = 'failed' if r['failures'] else 'verified'
    r['wall_s'] = round(time.time() - t0, 2)
    return r
