#!/usr/bin/env python3
"""Finite exhaustive enumeration of command-classification functions over the dispatch table extracted from the
real server on every run. The function BODY is extracted verbatim from /repo and compiled as a free function
(the body never mentions `self`; rustc confirms), then evaluated on EVERY command name the server dispatches.
Finite domain, enumerated completely (exhaustive: true)."""
import hashlib, json, os, re, subprocess, time
from . import gen

VERIF = gen.VERIF
BUILD = os.path.join(VERIF, 'build')


def dispatch_names():
    """every string-literal match-arm pattern in the server's dispatch functions"""
    idx = gen.index('src/network/server.rs')
    names = set()
    for fnpath in ('Server::process_normal_command', 'Server::process_frame', 'Server::process_connection'):
        c = [f for f in idx['fns'] if f['path'] == fnpath]
        if not c:
            raise gen.GenError(f'lost-anchor: {fnpath}')
        for a in c[0]['arms']:
            for m in re.finditer(r'"([A-Z]+)"', a['pat']):
                names.add(m.group(1))
    if len(names) < 50:
        raise gen.GenError(f'lost-anchor: dispatch table has only {len(names)} names')
    return sorted(names)


def extract_body(relfile, fnpath):
    idx = gen.index(relfile)
    fn = gen.find_fn(idx, relfile, fnpath)
    src = idx['src']
    body = src[fn['body'][0]:fn['body'][1]].decode()
    return body, f"{relfile}:{gen.line_of(idx, fn['body'][0])}-{gen.line_of(idx, fn['body'][1])}", hashlib.sha256(body.encode()).hexdigest()


def run(tcfg, pid):
    t0 = time.time()
    r = {'unit': tcfg['name'], 'status': None, 'failures': [], 'cases': 0, 'samples': []}
    try:
        names = dispatch_names()
        body, where, sha = extract_body(tcfg['file'], tcfg['fn'])
    except gen.GenError as e:
        r['status'] = 'undecided'
        r['reason'] = str(e)
        return r
    r['repo'] = where
    r['sha256'] = sha
    extra = tcfg.get('extra_names', [])
    allnames = sorted(set(names) | set(extra))
    d = os.path.join(BUILD, 'tables')
    os.makedirs(d, exist_ok=True)
    src = os.path.join(d, tcfg['name'] + '.rs')
    with open(src, 'w') as f:
        f.write('#![allow(unused)]\n// body extracted verbatim from ' + where + '\n')
        f.write(f'fn {tcfg["name"]}(command: &str) -> bool\n{body}\n')
        f.write('fn main() { for a in std::env::args().skip(1) { println!("{} {}", a, ' + tcfg['name'] + '(&a)); } }\n')
    exe = os.path.join(d, tcfg['name'])
    p = subprocess.run(['rustc', '--edition', '2021', '-O', '-o', exe, src], capture_output=True, text=True)
    if p.returncode != 0:
        r['status'] = 'undecided'
        r['reason'] = 'extracted body does not compile as a free function (lost anchor): ' + p.stderr[-800:]
        return r
    p = subprocess.run([exe] + allnames, capture_output=True, text=True)
    got = dict(l.split() for l in p.stdout.strip().split('\n'))
    expect_true = tcfg['expect_true'](allnames)
    for n in allnames:
        exp = n in expect_true
        obs = got[n] == 'true'
        r['cases'] += 1
        if exp != obs:
            r['failures'].append({'case': n, 'what': f"{tcfg['name']}(\"{n}\") = {obs}, expected {exp} ({tcfg['why']})", 'inputs': {'command': n}})
    r['samples'] = [{'case': n, 'result': got[n]} for n in allnames[:3]]
    r['dispatch_table_size'] = len(names)
    r['status'] = 'failed' if r['failures'] else 'verified'
    r['wall_s'] = round(time.time() - t0, 2)
    return r


def write_catalogue():
    names = set()
    for l in open(os.path.join(VERIF, 'spec', 'write_catalogue.txt')):
        if l.startswith('#'):
            continue
        names |= set(l.split())
    return names
