"""Which units decide which property."""
COMMON_ASSUMPTIONS = [
    'Verus 0.2026.09.13 + Z3 and Kani 0.68 + CBMC are sound; rustc compiles the extracted bytes as it compiles them in place',
    'every assume_specification / external_body / axiom listed in coverage.trusted_base (contracts on std and on callees not under contract)',
    'Vec/slice lengths <= isize::MAX (Rust allocation guarantee)',
    'R2: the lock guard held by the real function is the shard of (db,key) and gives exclusive access; lock poisoning and the InvalidDatabase path are outside the unit',
]

PROPS = {
    'C01': {
        'level': 'proof',
        'verus': [{'group': 'c01_strings_arith'}],
        'explanation': 'kernel-scoped: storage-engine string/key functions proved against Redis-semantics spec functions; handlers/dispatch are unverified surroundings',
    },
}
