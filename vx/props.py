"""Which units decide which property."""
COMMON_ASSUMPTIONS = [
    'Verus 0.2026.09.13 + Z3 and Kani 0.68 + CBMC are sound; rustc compiles the extracted bytes as it compiles them in place',
    'every assume_specification / external_body / axiom listed in coverage.trusted_base (contracts on std and on callees not under contract)',
    'Vec/slice lengths <= isize::MAX (Rust allocation guarantee)',
    'R2: the lock guard held by the real function is the shard of (db,key) and gives exclusive access; lock poisoning and the InvalidDatabase path are outside the unit',
    'all clock reads inside one storage operation return the same instant (spec_now); Instant + Duration does not overflow (precondition left to callers)',
    'mark_modified(&self) is modelled as appending the key to a ghost log (interior mutability of ShardWatchTracker is outside Verus)',
]

SHARD_VALUE_UNITS = ['vm_new', 'vm_with_expiration', 'vm_is_expired', 'vm_set_expiration', 'vm_clear_expiration',
                     'sv_new', 'sv_with_expiration', 'sv_is_expired', 'value_integer', 'value_as_integer']

PROPS = {
    'C01': {
        'level': 'proof',
        'verus': [{'group': 'shard_core'}],
        'explanation': 'kernel-scoped: storage-engine string/key functions proved against Redis-semantics spec functions on one shard; handlers/dispatch are unverified surroundings',
    },
    'C02': {
        'level': 'proof',
        'verus': [{'group': 'shard_core'}],
        'explanation': 'deadline-index invariant index_ok preserved by every shard operation under contract; lazy expiry of get/exists/set_nx; ttl arithmetic',
    },
    'C03': {
        'level': 'proof',
        'verus': [{'group': 'c03_lists_arith'}],
        'explanation': 'index arithmetic of list commands against spec_range',
    },
    'C04': {
        'level': 'proof',
        'verus': [{'group': 'c04_zset_arith'}],
        'explanation': 'rank-range arithmetic of ZRANGE/ZREVRANGE/ZRANK against spec_zrange with the skip list behind an assumed contract',
    },
    'C20': {
        'level': 'proof',
        'verus': [{'group': 'c20_parser'}],
        'explanation': 'request-grammar parser functions proved against the RESP oracle (spec/resp.rs) incl. chunking lemmas over the oracle; aggregate parsers proved safe, progressing and allocation-bounded',
    },
    'C08': {
        'level': 'proof',
        'verus': [{'group': 'shard_core'}],
        'explanation': 'every shard mutator under contract marks the key it changes and no other (step_ok)',
    },
}
