"""Which units decide which property."""
COMMON_ASSUMPTIONS = [
    'Verus 0.2026.09.13 + Z3 and Kani 0.68 + CBMC are sound; rustc compiles the extracted bytes as it compiles them in place',
    'every assume_specification / external_body / axiom listed in coverage.trusted_base (contracts on std and on callees not under contract)',
    'Vec/slice lengths <= isize::MAX (Rust allocation guarantee)',
    'R2: the lock guard held by the real function is the shard of (db,key) and gives exclusive access; lock poisoning and the InvalidDatabase path are outside the unit',
    'all clock reads inside one storage operation return the same instant (spec_now); Instant + Duration does not overflow (precondition left to callers)',
    'mark_modified(&self) is modelled as appending the key to a ghost log (interior mutability of ShardWatchTracker is outside Verus)',
]

SHARD_VALUE_UNITS = ['purge_if_expired', 'deadline_after', 'vm_new', 'vm_with_expiration', 'vm_is_expired', 'vm_set_expiration', 'vm_clear_expiration',
                     'sv_new', 'sv_with_expiration', 'sv_is_expired', 'value_integer', 'value_as_integer']

from . import tables as _t

def _kx(name, template, bounded=None, tier='quick', timeout=600, **kw):
    d = {'name': name, 'kind': 'extracted', 'template': template, 'harness': name, 'tier': tier, 'timeout': timeout}
    if bounded:
        d['bounded'] = bounded
    d.update(kw)
    return d

STREAM_KANI = [
    _kx('gen_next_atomic', 'stream_id'),
    _kx('sid_pack_order', 'stream_id'),
    _kx('stream_add_with_id_admission_bounded', 'stream_log', bounded='2 present entries with symbolic IDs, symbolic top ID and candidate ID'),
    _kx('stream_range_after_n0', 'stream_log', bounded='empty log'),
    _kx('stream_range_after_n2', 'stream_log', bounded='2 entries, symbolic IDs, COUNT <= 4 or none'),
    _kx('stream_range_after_n3', 'stream_log', bounded='3 entries, symbolic IDs, COUNT <= 4 or none', tier='thorough'),
]
RDB_KANI = [
    _kx('rdb_length_roundtrip', 'rdb_codec'),
    _kx('rdb_fixed_roundtrip', 'rdb_codec'),
]
RDB_TOTAL_KANI = [
    _kx('rdb_read_length_total', 'rdb_codec'),
]

CMD_SHARED = ['resp_from_bytes', 'resp_null_bulk']
def _cg(group, first=False):
    return {'group': group} if first else {'group': group, 'exclude_units': CMD_SHARED}

def _sg(group):
    # secondary shard groups re-verify the shared value.rs units; count them once (in shard_core)
    return {'group': group, 'exclude_units': SHARD_VALUE_UNITS}

GLOB_KANI = [
    _kx('glob_matches_reference_bounded', 'glob', bounded='pattern <= 3 bytes, channel <= 3 bytes over the alphabet {a, b, *, ?, \\}; unwind 18', timeout=600),
]
SETRANGE_KANI = [
    _kx('setrange_new_bounded', 'setrange', bounded='offset <= 6, value <= 3 symbolic bytes'),
    _kx('setrange_existing_bounded', 'setrange', bounded='existing string <= 4, offset <= 6, value <= 3 symbolic bytes', timeout=900),
]

def _ki(name, bounded=None, tier='thorough', timeout=1500):
    d = {'name': name, 'kind': 'inplace', 'harness': name, 'tier': tier, 'timeout': timeout, 'repo': 'src/storage/skiplist.rs (insert_new_node, remove_node_by_score, get_by_rank, range_by_rank, range_by_score, compare_nodes, compare_with_query) via cfg(kani) hook'}
    if bounded:
        d['bounded'] = bounded
    return d
_SLB = '2 inserted nodes with CONCRETE tower heights (this instance), symbolic distinct members (u8) and scores (f64, non-NaN); then one removal; unwind 34'
# Each in-place instance costs 10-25 minutes and 10-20 GB in CBMC. The thorough tier runs four removal instances (both removal positions for
# the lowest and for the highest pair of tower heights) and two query instances, two at a time (79 minutes measured, all six instances explored: 1250-1310 s each, the 1/1 pair 2110-2120 s
# within its 2400 s limit); the remaining five are kept
# under tier 'exhaustive', which no registered command runs (VERIF_TIER=exhaustive ./check C04 runs them all).
_SL_THOROUGH_RM = {('00', 'first'), ('00', 'second'), ('11', 'first'), ('11', 'second')}
_SL_THOROUGH_Q = {'00', '10'}
SKIPLIST_KANI = [_ki('skiplist_comparators', tier='quick', timeout=300)] + \
    [_ki(f'skiplist_2ins_rm_h{h}_{w}', bounded=_SLB, tier=('thorough' if (h, w) in _SL_THOROUGH_RM else 'exhaustive'), timeout=(2400 if h == '11' else 1500)) for h in ('00', '01', '10', '11') for w in ('first', 'second')] + \
    [_ki(f'skiplist_2ins_queries_h{h}', bounded='2 inserted nodes (concrete heights), symbolic members/scores; symbolic rank and score ranges', tier=('thorough' if h in _SL_THOROUGH_Q else 'exhaustive')) for h in ('00', '01', '10')]

PROPS = {
    'C01': {
        'level': 'proof',
        'verus': [{'group': 'shard_core'}, _sg('shard_strings'), {'group': 'shard_sweeper', 'units': ['rename_same_shard', 'rename_cross_shard']}, _cg('cmd_strings', True), _cg('srv_strings'), {'group': 'srv_conn'}, _cg('exec_strings')],
        'kani': SETRANGE_KANI,
        'tables': [{'name': 'dispatch_table', 'kind': 'dispatch'}],
        'explanation': 'kernel-scoped: storage-engine string/key functions proved against Redis-semantics spec functions on one shard; handlers/dispatch are unverified surroundings',
    },
    'C02': {
        'level': 'proof',
        'verus': [{'group': 'shard_core'}, _sg('shard_strings'), _sg('shard_lists'), _sg('shard_sweeper'), _sg('shard_sets'), _sg('shard_hashes'), _sg('shard_zsets'), {'group': 'shard_flush', 'exclude_units': SHARD_VALUE_UNITS},
                  {'group': 'exec_strings', 'units': ['exec_set']}, {'group': 'exec_keys', 'units': ['exec_ttl', 'exec_renamenx', 'exec_expire']},
                  {'group': 'srv_strings', 'units': ['handle_ttl', 'handle_expire', 'handle_setex', 'handle_psetex', 'handle_set', 'handle_setnx', 'handle_renamenx']},
                  # overwriting commands at handler level: the TTL goes with the old value (GETSET also when the new value equals the old one)
                  {'group': 'cmd_strings', 'units': ['handle_getset', 'handle_append', 'handle_setrange', 'handle_mset']}],
        'explanation': 'deadline-index invariant index_ok preserved by every shard operation under contract; lazy expiry of get/exists/set_nx; ttl arithmetic',
    },
    'C03': {
        'level': 'proof',
        'verus': [{'group': 'c03_lists_arith'}, _sg('shard_lists'), _sg('shard_sets'), _sg('shard_hashes'), _cg('cmd_lists', True), _cg('cmd_sets'), _cg('cmd_hashes'), _cg('cmd_setops'), _cg('exec_lists'), _cg('exec_sets')],
        'explanation': 'index arithmetic of list commands against spec_range',
    },
    'C04': {
        'level': 'proof',
        'verus': [{'group': 'c04_zset_arith'}, {'group': 'shard_zsets', 'units': ['zadd', 'zincrby', 'zrem', 'zscore', 'zcard', 'zrangebyscore']}, _cg('srv_zsets'), _cg('exec_zsets'), _cg('srv_zranges')],
        'kani': SKIPLIST_KANI,
        'explanation': 'rank-range arithmetic of ZRANGE/ZREVRANGE/ZRANK against spec_zrange with the skip list behind an assumed contract',
    },
    'C05': {
        'level': 'proof',
        'verus': [{'group': 'srv_reply'}, {'group': 'srv_conn', 'units': ['conn_frame_step']}, {'group': 'srv_frame'}, {'group': 'c20_parser'}, {'group': 'c20_serializer'}],
        'explanation': 'the three phases of process_connection, step by step: the parse loop takes every complete frame in order and records any parser error that is neither "no complete frame yet" nor a failed socket; a recorded violation becomes exactly one error reply after the replies to everything parsed before it, and the connection is closed; every parsed frame yields exactly one response appended in order, also when its handler fails; each response is handed to the write buffer exactly once, in order, NoResponse markers produce nothing; process_frame answers non-command frames with an error; framing of requests under arbitrary segmentation and of replies under arbitrary content is C20 (same units)',
    },
    'C06': {
        'level': 'proof',
        # C06 = the safety obligations (overflow, bounds, slice ranges, unwrap, preconditions of callees such as the
        # allocation budget) of EVERY unit under contract, for all argument values
        'verus': [{'group': g, 'kinds': ['safety', 'requires-at-call', 'decreases', 'invariant']} for g in
                  ['shard_core', 'shard_strings', 'shard_lists', 'shard_sweeper', 'shard_sets', 'shard_hashes', 'shard_zsets', 'cmd_strings', 'cmd_lists', 'cmd_sets', 'cmd_hashes', 'c03_lists_arith', 'c04_zset_arith', 'c19_scan', 'c20_parser', 'c20_serializer', 'c10_bgsave', 'c11_aof', 'c09_rdb', 'c13_blocking', 'c07_transactions', 'shard_flush', 'c14_pubsub', 'srv_strings', 'srv_zsets', 'cmd_scan', 'cmd_setops', 'exec_strings', 'exec_lists', 'exec_sets', 'exec_route', 'exec_keys', 'exec_zsets', 'c16_pel', 'c12_parse', 'srv_reply', 'cmd_groups', 'c09_load', 'srv_timeout', 'cmd_lua', 'exec_bits', 'srv_zranges']]
                 # server-level units: their index/slice/overflow/unwrap/termination obligations only (their call preconditions are model permissions, not crashes)
                 + [{'group': g, 'kinds': ['safety', 'decreases']} for g in ['srv_exec', 'srv_frame', 'srv_conn', 'srv_auth', 'srv_push', 'srv_notify', 'srv_aof', 'srv_select', 'srv_wake', 'srv_pubsub']],
        'kani': STREAM_KANI[:1] + RDB_TOTAL_KANI,
        'explanation': 'function by function: every unit under contract is proved free of index/slice errors, arithmetic overflow, failing unwraps and unbounded reservations for ALL argument values; the claim is "no panic in these functions", not "no panic in the server"',
    },
    'C07': {
        'level': 'proof',
        'verus': [{'group': 'c07_transactions'}, {'group': 'srv_exec'}, {'group': 'srv_frame'}, {'group': 'srv_push'}, {'group': 'srv_notify'}],
        'tables': [{'name': 'should_queue_command', 'file': 'src/storage/commands/transactions.rs', 'fn': 'should_queue_command',
                    'extra_names': ['MULTI', 'EXEC', 'DISCARD', 'WATCH', 'UNWATCH'],
                    'expect_true': lambda names: set(names) - {'MULTI', 'EXEC', 'DISCARD', 'WATCH', 'UNWATCH'},
                    'why': 'inside MULTI every command except the five transaction-control commands is queued'}],
        'explanation': 'queueing kernel only: MULTI/DISCARD/queue_command state transitions proved; should_queue_command enumerated over the dispatch table. EXEC atomicity/isolation is a schedule property and is NOT decided',
    },
    'C08': {
        'level': 'proof',
        'verus': [{'group': 'shard_core'}, _sg('shard_strings'), _sg('shard_lists'), _sg('shard_sweeper'), _sg('shard_sets'), _sg('shard_hashes'), _sg('shard_zsets'), {'group': 'srv_exec'}, {'group': 'shard_flush', 'exclude_units': SHARD_VALUE_UNITS}, {'group': 'c07_transactions', 'units': ['handle_watch']}],
        'explanation': 'every shard mutator under contract marks the key it changes and no other (step_ok); handle_watch registers every key argument under its own bytes, in the connection\'s database, with the baseline the engine reports for those bytes',
    },
    'C09': {
        'level': 'proof',
        # the loader re-inserts through set_value/expire with the TTL computed by rdb_load_ttl: the deadline those install is part of the round trip
        'verus': [{'group': 'c09_rdb'}, {'group': 'c09_load'}, {'group': 'shard_lists', 'units': ['rpush']}, {'group': 'shard_sets', 'units': ['sadd']}, {'group': 'shard_hashes', 'units': ['hset']}, {'group': 'shard_core', 'units': ['deadline_after', 'vm_with_expiration', 'vm_set_expiration', 'vm_is_expired', 'sv_with_expiration', 'sv_is_expired', 'set_value', 'expire']}],
        'kani': RDB_KANI,
        'explanation': 'codec level: length / fixed-width field encoders and decoders are inverse for every value (Kani, complete); expiry-on-load computation proved (Verus); value level for STRINGS, LISTS, SETS, HASHES and SORTED SETS: the writer\'s and the loader\'s match arms proved against one item-level record format; streams are not under contract at value level',
    },
    'C10': {
        'level': 'proof',
        'verus': [{'group': 'c10_bgsave'}, {'group': 'c09_load', 'units': ['load_stream_arm', 'load_list_arm', 'load_string_arm', 'load_zset_arm', 'load_set_arm', 'load_hash_arm', 'save_ttl_prefix']}],
        # "loadable": what the writer's length/fixed-width encoders emit must be what the reader decodes
        'kani': RDB_TOTAL_KANI + RDB_KANI,
        'explanation': 'corrupted-input clause only: read_length is total on arbitrary bytes (no panic, no read past the data, short read = error); the loader\'s LIST and STREAM record arms neither overflow nor loop for ever whatever counts the file contains. Crash points and save/command interleavings are not decidable by function contracts here',
    },
    'C11': {
        'level': 'proof',
        'verus': [{'group': 'c11_aof'}, {'group': 'srv_frame'}, {'group': 'srv_aof'}],
        'tables': [{'name': 'is_write_command', 'file': 'src/network/server.rs', 'fn': 'Server::is_write_command',
                    'expect_true': lambda names: set(names) & _t.write_catalogue(),
                    'why': 'a dispatched command is appended to the AOF iff it is a Redis write command (spec/write_catalogue.txt)'}],
        'explanation': 'classification kernel only: is_write_command (real body) enumerated exhaustively over the dispatch table extracted from the server on every run against the fixed Redis write-command catalogue',
    },
    'C12': {
        'level': 'proof',
        'verus': [_cg('c12_parse', True), _cg('cmd_lua'), _cg('exec_route'), _cg('exec_strings'), _cg('exec_lists'), _cg('exec_sets'), _cg('exec_keys'), _cg('exec_zsets'), {'group': 'srv_zsets', 'units': ['handle_zadd', 'handle_zrem', 'handle_zscore', 'handle_zcard', 'handle_zpopmin', 'handle_zpopmax'], 'exclude_units': CMD_SHARED}, {'group': 'shard_zsets', 'units': ['zadd', 'zrem']}, _cg('srv_strings'), _cg('cmd_strings'), _cg('cmd_lists'), _cg('cmd_sets'), _cg('cmd_hashes'),
                  # the engine functions both paths call (the EngineModel contracts the arms and handlers assume are what these units prove)
                  {'group': 'shard_core'}, _sg('shard_strings'), _sg('shard_lists'), _sg('shard_sets'), _sg('shard_hashes')],
        'tables': [{'name': 'script_parse_table', 'kind': 'script_parse'}],
        'explanation': 'parity clause only: the script path (CommandParser::parse_<cmd>, then the execute_string / execute_list arm) and the direct handler of the same command are proved against the SAME reference functions of (dataset, db, arg, num_arg, set_opts): the parser refuses exactly the argument shapes the direct handler refuses and yields the very argument values the direct handler uses; the arm has the effect and the reply of the reference function',
    },
    'C13': {
        'level': 'proof',
        'verus': [{'group': 'c13_blocking'}, {'group': 'srv_push'}, {'group': 'srv_notify'}, {'group': 'srv_wake'}, {'group': 'srv_timeout'}],
        'explanation': 'registry kernel: FIFO service, registry invariant, and no leftover registration of a served client (with unregister_client as assumed contract)',
    },
    'C14': {
        'level': 'proof',
        'verus': [{'group': 'c14_pubsub'}, {'group': 'srv_pubsub'}, {'group': 'srv_wake', 'units': ['cleanup_select_step', 'cleanup_step', 'is_closing']}],
        'kani': GLOB_KANI,
        'explanation': 'PubSubManager::publish returns exactly one entry per matching subscription and nothing else; subscribe/psubscribe/unsubscribe/punsubscribe keep the three maps in agreement, change only the issuing connection, and acknowledge each name in order with the count right after it; the message/acknowledgement formatters keep channel, pattern and payload bytes intact; Server::handle_publish appends to each receiving connection exactly the frames of its entries, in order, and replies with the number of entries; disconnect: cleanup_connections selects every Closing connection (subscribed or not) and its removal step drops the subscriptions (unsubscribe_all as assumed contract; its loop bodies and last statement are under contract, its HashMap::iter_mut loops are not)',
    },
    'C15': {
        'level': 'proof',
        'verus': [{'group': 'shard_zsets', 'units': ['xdel', 'xtrim', 'xrange', 'xrevrange', 'xlen', 'xread_step']}, {'group': 'c16_pel', 'units': ['data_add_with_id', 'stream_trim_by_count', 'stream_trim_by_min_id', 'stream_delete', 'data_range', 'data_range_after', 'stream_range', 'stream_range_after', 'stream_len', 'sid_new', 'sid_min', 'sid_max', 'sid_parse_u64_fast']}, {'group': 'cmd_groups', 'units': ['xrange_args', 'xrevrange_bounds', 'xadd_fields', 'xread_pairs', 'xadd_explicit_id', 'xdel_ids']}],
        'kani': STREAM_KANI,
        'explanation': 'ID generation (complete Kani proof over full u64 domains), ID packing/order (complete); StreamData::range (XRANGE / XREVRANGE) and StreamData::range_after (XREAD / XREADGROUP cursor read) proved in Verus against window contracts for all stream contents, bounds and counts; explicit-ID admission (bounded stand-in, not counted)',
    },
    'C16': {
        'level': 'proof',
        'verus': [{'group': 'c16_pel'}, _cg('cmd_groups')],
        'explanation': 'the pending-entries list (two indexes + cached id bounds), the group counters and the group cursor: every operation of PendingEntryList and ConsumerGroup preserves the invariant that the four representations of the pending set agree, with the exact effect XREADGROUP / XACK / XCLAIM / XGROUP administration names; StreamData::range_after and the body of Stream::read_group return the next entries after the cursor, in order, skipping none, and move the cursor past them with or without NOACK; exactly-once / no-gap as lemmas over that contract',
    },
    'C17': {
        'level': 'proof',
        'verus': [{'group': 'srv_frame'}, {'group': 'srv_conn'}, {'group': 'srv_auth'}],
        'explanation': 'the password gate: process_frame (whole function) refuses every command but AUTH/PING/QUIT from a connection that has not authenticated, without running any handler or touching any connection entry; the frame loop of process_connection hands such a frame to process_frame only (no replication handshake); handle_auth authenticates exactly on the configured password and only the issuing connection',
    },
    'C18': {
        'level': 'proof',
        'verus': [{'group': 'srv_select'}, {'group': 'srv_frame'}, {'group': 'srv_exec'}, {'group': 'c13_blocking', 'units': ['notify_served_arm']}, _cg('cmd_strings', True), _cg('cmd_lists'), _cg('cmd_sets'), _cg('cmd_hashes'), {'group': 'shard_flush', 'exclude_units': SHARD_VALUE_UNITS}, _cg('exec_route'), _cg('exec_strings'), _cg('exec_lists'), _cg('exec_sets'), _cg('exec_keys'), _cg('exec_zsets')],
        'tables': [{'name': 'dispatch_table', 'kind': 'dispatch'}],
        'explanation': 'the db index along the direct and the EXEC path: SELECT (refusal / per-connection effect), process_frame dispatches with the issuing connection\'s selection, EXEC runs the queue on the connection\'s database, get_shard maps db to a shard of that database, the command handlers under contract read and write only (db, .) entries of the reference dataset, flush of a shard touches that shard only',
    },
    'C19': {
        'level': 'proof',
        'verus': [{'group': 'c19_scan'}, _cg('cmd_scan')],
        'explanation': 'the cursor window of SCAN (real loop, extracted) proved against the filtered-window contract; lemmas A (static key space: complete, sound, progressing) proved over the contract; lemma B (stability under deletions) is a known finding',
    },
    'C20': {
        'level': 'proof',
        'verus': [{'group': 'c20_parser'}, {'group': 'c20_serializer'}],
        'explanation': 'request-grammar parser functions proved against the RESP oracle (spec/resp.rs) incl. chunking lemmas over the oracle; aggregate parsers proved safe, progressing and allocation-bounded',
    },
}
