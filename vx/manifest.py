#!/usr/bin/env python3
"""Regenerate MANIFEST.json from vx/props.py (+ vx/manifest_text.py)."""
import json, os, subprocess
from . import props, manifest_text as T
VERIF = os.path.dirname(os.path.dirname(os.path.abspath(__file__)))

def main():
    all_ids = [json.loads(l)['id'] for l in open(os.path.join(VERIF, 'properties.jsonl'))]
    checks = []
    for pid in all_ids:
        if pid not in props.PROPS:
            continue
        t = T.CHECKS[pid]
        checks.append({
            'property_id': pid,
            'quick_cmd': f'./check {pid} quick',
            'thorough_cmd': f'./check {pid} thorough',
            'evidence_file': f'/verif/evidence/{pid}.json',
            'replay_cmd_template': f'./check {pid} --replay {{path}}',
            'engine': 'vx',
            'level_claimed': {'category': props.PROPS[pid].get('level', 'proof'), 'text': t['text'], 'design_ref': t['design_ref']},
            'level_note': t['note'],
            'technique': t['technique'],
        })
    na = [{'property_id': pid, 'reason': T.NOT_APPLICABLE[pid]} for pid in all_ids if pid not in props.PROPS]
    hooks_commits = T.HOOK_COMMITS
    m = {
        'version': 1,
        'setup_cmd': 'cd /verif && ./setup.sh',
        'hooks': {'guard': 'cfg(kani)', 'enable': 'cargo kani sets --cfg kani; no cargo build/test of /repo ever sees the hooks',
                  'baseline_off_cmd': 'cd /repo && (cargo nextest run --workspace --no-fail-fast --offline || cargo test --workspace --no-fail-fast --offline)',
                  'source_commits': hooks_commits, 'add_only': True},
        'engines': [{'name': 'vx', 'path': '/verif/vx', 'serves_properties': [c['property_id'] for c in checks],
                     'kind_free_text': 'contract-based deductive verification: real functions/arms/statement ranges extracted from /repo by AST path on every run (tools/extract, syn), contracts spliced from /verif/contracts, discharged by Verus (unbounded); Kani for code outside Verus\' subset (complete when loop-free over full domains, otherwise labelled bounded); exhaustive enumeration of extracted command tables'}],
        'checks': checks,
        'not_applicable': na,
        'notes': T.NOTES,
    }
    with open(os.path.join(VERIF, 'MANIFEST.json'), 'w') as f:
        json.dump(m, f, indent=1)
    print('MANIFEST.json written:', len(checks), 'checks,', len(na), 'not applicable')

if __name__ == '__main__':
    main()
