"""Violation records and replay of counterexamples against the real library."""
import json, os, subprocess
from . import gen
BUILD = os.path.join(gen.VERIF, 'build')


def write_violation(pid, i, v, results):
    safe = ''.join(c if c.isalnum() else '_' for c in v['obligation'])[:80]
    path = os.path.join(BUILD, 'replay', f'{pid}-{i}-{safe}.json')
    rec = {
        'property': pid,
        'obligation': v['obligation'],
        'kind': v['kind'],
        'repo_location': v.get('origin'),
        'verifier_message': v['message'],
        'verifier_output': v.get('rendered'),
        'inputs': v.get('inputs'),
        'replay': None,
    }
    if v.get('inputs') and v.get('replay_api'):
        rec['replay'] = run_replay(v['replay_api'], v['inputs'])
    with open(path, 'w') as f:
        json.dump(rec, f, indent=1)
    return path


def run_replay(api, inputs):
    exe = os.path.join(gen.VERIF, 'tools/replay/target/debug/vx-replay')
    if not os.path.exists(exe):
        return {'error': 'replay tool not built'}
    p = subprocess.run([exe, api, json.dumps(inputs)], capture_output=True, text=True, timeout=120)
    return {'exit': p.returncode, 'stdout': p.stdout[-2000:], 'stderr': p.stderr[-2000:]}


def replay_file(path):
    rec = json.load(open(path))
    print(json.dumps(rec, indent=1)[:6000])
    return 0
