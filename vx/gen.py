#!/usr/bin/env python3
"""Template expander: builds one Verus (or plain Rust / Kani) source file from a template in
/verif/contracts by splicing in REAL source text extracted from /repo by AST path.

Template directives (lines starting with `//@@`):

  //@@ include <path relative to /verif>
  //@@ item <repo-file> <item-path> [as-is]          copy a struct/enum/const/type/impl item verbatim (attrs dropped, R4)
  //@@ unit <name> fn    <repo-file> <fn-path>
  //@@ unit <name> arm   <repo-file> <fn-path> "<pattern tokens>" [#k]
  //@@ unit <name> stmts <repo-file> <fn-path> "<stmt text prefix>" [#k]
  //@@ unit <name> loopbody <repo-file> <fn-path> <loop ordinal>
      followed by option lines:
  //@@   params drop "<param text>" ... add "<param text>" ...     (fn units: declared signature differences, R2)
  //@@   rewrite R1 | R2 | R3 | R7 "<binop expr text>" <fn> | RT "<old>" "<new>" | RCALL "<method>" "<recv text>" <fn>
  //@@   loop <ordinal relative to fragment> [<<< ... lines ... >>>]   loop spec (invariant/decreases), lines prefixed `//@@|`
  //@@   at "<stmt text prefix>" [#k]  ... lines prefixed `//@@|`     proof text inserted BEFORE the first stmt with that prefix
      then raw Verus lines (header + requires/ensures), then
  //@@ body                                          emits the extracted block with rewrites/splices applied
  //@@ end
  //@@ sig <ret-name> [drop-self]                    (inside a fn unit) emits the real signature with `-> (ret-name: T)`

Everything not produced from /repo bytes comes from the template/prelude text and is attributed to it in the line map.
"""
import hashlib, json, os, re, subprocess, sys

VERIF = os.path.dirname(os.path.dirname(os.path.abspath(__file__)))
REPO = os.environ.get('VERIF_REPO', '/repo')
EXTRACT = os.path.join(VERIF, 'tools/extract/target/release/vx-extract')


class GenError(Exception):
    """lost anchor / unsupported template situation -> exit 2 (undecided), never a violation"""


_index_cache = {}


def index(relfile):
    path = os.path.join(REPO, relfile)
    if relfile in _index_cache:
        return _index_cache[relfile]
    if not os.path.exists(path):
        raise GenError(f'lost-anchor: file {relfile} missing')
    p = subprocess.run([EXTRACT, path], capture_output=True, text=True)
    if p.returncode != 0:
        raise GenError(f'lost-anchor: cannot parse {relfile}: {p.stderr.strip()[:300]}')
    d = json.loads(p.stdout)
    d['src'] = open(path, 'rb').read()
    d['line_starts'] = [0] + [i + 1 for i, b in enumerate(d['src']) if b == 10]
    _index_cache[relfile] = d
    return d


def line_of(idx, off):
    import bisect
    return bisect.bisect_right(idx['line_starts'], off)


def norm(s):
    return re.sub(r'\s+', ' ', s.strip())


def normtok(s):
    """token-ish normalisation: remove all whitespace"""
    return re.sub(r'\s+', '', s)


def find_fn(idx, relfile, path):
    c = [f for f in idx['fns'] if f['path'] == path]
    if len(c) != 1:
        raise GenError(f'lost-anchor: fn {path} in {relfile}: {len(c)} candidates')
    return c[0]


def inside(span, outer):
    return outer[0] <= span[0] and span[1] <= outer[1]


class Seg:
    __slots__ = ('text', 'origin')

    def __init__(self, text, origin):
        self.text = text
        self.origin = origin  # ('repo', relfile, byte_off) | ('tmpl', path, line) | ('gen', what)


class Unit:
    def __init__(self, name, kind, relfile, fnpath, sel, tmpl, tline):
        self.name, self.kind, self.relfile, self.fnpath, self.sel = name, kind, relfile, fnpath, sel
        self.tmpl, self.tline = tmpl, tline
        self.rewrites = []
        self.loops = {}
        self.loopstarts = {}
        self.afters = []
        self.afterloops = {}
        self.atend = None
        self.ats = []
        self.params_drop, self.params_add = [], []
        self.header_lines = []
        self.meta = {}
        self.tail = None
        self.opts = []


def parse_args(s):
    """split directive args honoring double quotes"""
    out, cur, q = [], '', False
    i = 0
    while i < len(s):
        ch = s[i]
        if q:
            if ch == '\\' and i + 1 < len(s):
                cur += s[i + 1]
                i += 2
                continue
            if ch == '"':
                q = False
                out.append(('q', cur))
                cur = ''
            else:
                cur += ch
        else:
            if ch == '"':
                q = True
                cur = ''
            elif ch.isspace():
                if cur:
                    out.append(('w', cur))
                    cur = ''
            else:
                cur += ch
        i += 1
    if cur:
        out.append(('w', cur))
    return [v for _, v in out]


class Generator:
    def __init__(self, template_path):
        self.template_path = template_path
        self.segs = []
        self.units = []
        self.includes = []
        self.items = []

    def emit(self, text, origin):
        if text:
            self.segs.append(Seg(text, origin))

    # ---- fragment selection -------------------------------------------------------------
    def select(self, u):
        idx = index(u.relfile)
        fn = find_fn(idx, u.relfile, u.fnpath)
        src = idx['src']
        u.meta['fn_item'] = fn['item']
        if u.kind == 'fn':
            span = fn['body']
            wrap = False
        elif u.kind == 'arm':
            k = int(u.sel[1][1:]) if len(u.sel) > 1 else 0
            if ' if ' in u.sel[0]:
                # `PAT if GUARD`: the arm is named by its pattern AND its guard text (robust against arms being added or reordered)
                ptxt, gtxt = u.sel[0].split(' if ', 1)
                pat, gw = normtok(ptxt), normtok(gtxt)
                c = []
                for m in fn.get('matches', []):
                    for a in m['arms']:
                        if a.get('guard') and normtok(a['pat']) == pat and normtok(src[a['guard']['expr'][0]:a['guard']['expr'][1]].decode()) == gw:
                            c.append(a)
            else:
                pat = normtok(u.sel[0])
                c = [a for a in fn['arms'] if normtok(a['pat']) == pat]
            if len(c) <= k:
                raise GenError(f'lost-anchor: arm "{u.sel[0]}" #{k} in {u.fnpath}')
            span = c[k]['body']
            wrap = src[span[0]:span[0] + 1] != b'{'
        elif u.kind == 'stmts':
            pre = normtok(u.sel[0])
            rest = list(u.sel[1:])
            k = 0
            if rest and rest[0].startswith('#'):
                k = int(rest.pop(0)[1:])
            c = [s for s in fn['stmts'] if normtok(src[s['span'][0]:s['span'][1]].decode()).startswith(pre)]
            if len(c) <= k:
                raise GenError(f'lost-anchor: stmt "{u.sel[0]}" #{k} in {u.fnpath}')
            st = c[k]
            span = [st['span'][0], st['block_end']]
            if rest and rest[0] == 'upto':
                pre2 = normtok(rest[1])
                c2 = [s for s in fn['stmts'] if s['block_end'] == st['block_end'] and s['depth'] == st['depth'] and s['span'][0] > st['span'][0]
                      and normtok(src[s['span'][0]:s['span'][1]].decode()).startswith(pre2)]
                if not c2:
                    raise GenError(f'lost-anchor: upto-stmt "{rest[1]}" after "{u.sel[0]}" in {u.fnpath}')
                span = [st['span'][0], c2[0]['span'][0]]
                if any(inside(r, span) for r in fn['returns'] + fn['tries']) and 'same-return-type' not in u.opts:
                    raise GenError(f'unsupported: bounded stmts fragment of {u.fnpath} contains return/?')
            # include a trailing `;` that syn leaves outside a `let` stmt span? (syn includes it) – nothing to do
            wrap = True
            frag_has_exit = any(inside(r, span) for r in fn['returns'] + fn['tries'])
            if frag_has_exit and st['depth'] != 1 and 'same-return-type' not in u.opts:
                raise GenError(f'unsupported: stmts fragment of {u.fnpath} contains return/? but is not at function-body level')
        elif u.kind == 'loopbody':
            if re.fullmatch(r'\d+', u.sel[0]):
                k = int(u.sel[0])
                if len(fn['loops']) <= k:
                    raise GenError(f'lost-anchor: loop #{k} in {u.fnpath}')
                span = fn['loops'][k]['body']
            else:
                pre = normtok(u.sel[0])
                c = [l for l in fn['loops'] if normtok(src[l['span'][0]:l['body'][0]].decode()).startswith(pre)]
                if len(u.sel) > 1 and u.sel[1].startswith('#'):
                    # `"<header prefix>" #k of n`: the k-th of exactly n loops with that header (n pins the shape of the function)
                    k, want_n = int(u.sel[1][1:]), int(u.sel[3]) if len(u.sel) > 3 and u.sel[2] == 'of' else None
                    if len(c) <= k or (want_n is not None and len(c) != want_n):
                        raise GenError(f'lost-anchor: loop "{u.sel[0]}" #{k} in {u.fnpath}: {len(c)} candidates')
                    span = c[k]['body']
                else:
                    if len(c) != 1:
                        raise GenError(f'lost-anchor: loop "{u.sel[0]}" in {u.fnpath}: {len(c)} candidates')
                    span = c[0]['body']
            wrap = False
        else:
            raise GenError(f'bad unit kind {u.kind}')
        if u.kind in ('arm', 'loopbody'):
            if any(inside(r, span) for r in fn['returns'] + fn['tries']):
                u.meta['has_exit'] = True
        return idx, fn, span, wrap

    # ---- body emission ------------------------------------------------------------------
    def emit_body(self, u):
        idx, fn, span, wrap = self.select(u)
        src = idx['src']
        edits = []  # (start, end, replacement, tag)
        applied = []

        def add_edit(s, e, rep, tag):
            edits.append((s, e, rep, tag))

        rbstr_on = any(rw[0] == 'RBSTR' for rw in u.rewrites)
        rct_taken = set()
        guarded_spans = []
        carried = set()   # ids of edits (made by rewrites listed BEFORE RGUARD) that RGUARD also applied to its copy of the else-body
        deref_bodies = {}

        def text_of(s, e):
            """source text of [s,e); when RBSTR is active, byte-string literals inside it are already in array-literal form
            (so that an enclosing RCALL/R7 replacement carries the same RBSTR rewrite instead of overlapping with it)"""
            if not rbstr_on:
                return src[s:e].decode()
            out = b''
            pos = s
            for b in sorted(fn['bytestrs'], key=lambda b: b['span'][0]):
                if inside(b['span'], (s, e)):
                    out += src[pos:b['span'][0]] + ('(&[' + ', '.join(f'{x}u8' for x in b['bytes']) + '])').encode()
                    pos = b['span'][1]
            out += src[pos:e]
            return out.decode()

        def apply_rw(rw):
            kind = rw[0]
            if kind == 'R1':
                n = 0
                for c in fn['closures']:
                    for w in c['wild_params']:
                        if inside(w, span):
                            add_edit(w[0], w[1], '_e', 'R1')
                            n += 1
                applied.append(f'R1 x{n}')
            elif kind == 'R2':
                n = 0
                for st in fn['stmts']:
                    if not inside(st['span'], span):
                        continue
                    t = normtok(src[st['span'][0]:st['span'][1]].decode())
                    if re.match(r'^let\w*=self\.get_shard\(.*\)\?;$', t) or re.match(r'^let(mut)?\w+=(self\.)?\w+\.(read|write|lock)\(\)\.unwrap\(\);(//.*)?$', t):
                        txt = src[st['span'][0]:st['span'][1]].decode()
                        add_edit(st['span'][0], st['span'][1], '/*R2*/' + ''.join('\n' for ch in txt if ch == '\n'), 'R2')
                        n += 1
                if n == 0:
                    raise GenError(f'lost-anchor: R2 found no lock prelude in {u.fnpath}')
                # a TEMPORARY guard on the same lock (`shard.read().unwrap().data...` before the write guard is taken) reads the
                # state the unit's guard parameter stands for: the expression becomes that parameter (sequential reading of the
                # code: what another thread does between the two lock scopes is not visible to contracts)
                removed = [(x[0], x[1]) for x in edits if x[3] == 'R2']
                lock_of = {}
                for st in fn['stmts']:
                    if inside(st['span'], span):
                        m = re.match(r'^let(?:mut)?(\w+)=(?:self\.)?(\w+)\.(?:read|write|lock)\(\)\.unwrap\(\);', normtok(src[st['span'][0]:st['span'][1]].decode()))
                        if m:
                            lock_of.setdefault(m.group(2), m.group(1))
                t = 0
                for cc in fn['calls']:
                    if not inside(cc['span'], span) or cc['method'] != 'unwrap' or any(inside(cc['span'], r) for r in removed):
                        continue
                    m = re.fullmatch(r'(?:self\.)?(\w+)\.(?:read|write|lock)\(\)', normtok(src[cc['recv'][0]:cc['recv'][1]].decode()))
                    if m and m.group(1) in lock_of:
                        add_edit(cc['span'][0], cc['span'][1], lock_of[m.group(1)], 'R2t')
                        t += 1
                applied.append(f'R2 x{n}' + (f' + {t} temporary guard(s) read through the guard parameter' if t else ''))
            elif kind == 'R3':
                n = 0
                for m in fn['macros']:
                    if inside(m['span'], span) and m['name'] in ('format', 'println', 'eprintln'):
                        rep = 'verif_fmt()' if m['name'] == 'format' else 'verif_print()'
                        add_edit(m['span'][0], m['span'][1], rep, 'R3')
                        n += 1
                applied.append(f'R3 x{n}')
            elif kind == 'R7':
                want, func = normtok(rw[1]), rw[2]
                n = 0
                for b in fn['binops']:
                    if inside(b['span'], span) and normtok(src[b['span'][0]:b['span'][1]].decode()) == want:
                        lhs = text_of(b['lhs'][0], b['lhs'][1])
                        rhs = text_of(b['rhs'][0], b['rhs'][1])
                        if len(rw) > 3 and rw[3] == 'byref':
                            add_edit(b['span'][0], b['span'][1], f'{func}(&({lhs}), &({rhs}))', 'R7')
                        else:
                            add_edit(b['span'][0], b['span'][1], f'{func}({lhs}, {rhs})', 'R7')
                        n += 1
                if n == 0:
                    raise GenError(f'lost-anchor: R7 operator site "{rw[1]}" not found in {u.fnpath}')
                applied.append(f'R7 {rw[1]} -> {func} x{n}')
            elif kind == 'RCALL':
                # method call `recv.method(args)` -> func(recv, args) at sites with that method and receiver text (`*` = any receiver)
                meth, recv_want, func = rw[1], normtok(rw[2]), rw[3]
                n = 0
                for c in fn['calls']:
                    if inside(c['span'], span) and c['method'] == meth and (recv_want == '*' or normtok(src[c['recv'][0]:c['recv'][1]].decode()) == recv_want):
                        full = text_of(c['span'][0], c['span'][1])
                        recv = text_of(c['recv'][0], c['recv'][1])
                        rest = full[len(recv):]
                        m = re.match(r'\s*\.\s*' + re.escape(meth) + r'\s*(::<[^>]*>)?\s*\(', rest, re.S)
                        if not m:
                            raise GenError(f'unsupported: RCALL shape at {meth}')
                        args = rest[m.end():-1].strip()
                        turbo = m.group(1) or ''
                        rep = f'{func}{turbo}({recv}{", " + args if args else ""})'
                        add_edit(c['span'][0], c['span'][1], rep, 'RCALL')
                        n += 1
                if n == 0:
                    raise GenError(f'lost-anchor: RCALL site {rw[2]}.{meth} not found in {u.fnpath}')
                applied.append(f'RCALL {rw[2]}.{meth} -> {func} x{n}')
            elif kind == 'RBSTR':
                # byte-string literal b"..." -> the same bytes as an array-literal reference &[b0, b1, ..] (Verus knows array
                # literal views, not byte-string literal views); computed mechanically from the literal's value
                n = 0
                for b in fn['bytestrs']:
                    if inside(b['span'], span):
                        add_edit(b['span'][0], b['span'][1], '(&[' + ', '.join(f'{x}u8' for x in b['bytes']) + '])', 'RBSTR')
                        n += 1
                applied.append(f'RBSTR x{n}')
            elif kind == 'RXPR':
                # whole method-call expression (e.g. an iterator-adapter chain) whose normalised text equals rw[1] -> replacement text
                want, rep = normtok(rw[1]), rw[2]
                n = 0
                for c in fn['calls']:
                    if inside(c['span'], span) and normtok(src[c['span'][0]:c['span'][1]].decode()) == want:
                        add_edit(c['span'][0], c['span'][1], rep, 'RXPR')
                        n += 1
                if n == 0:
                    raise GenError(f'lost-anchor: RXPR expression "{rw[1]}" not found in {u.fnpath}')
                applied.append(f'RXPR "{rw[1]}" -> "{rep}" x{n}')
            elif kind == 'RPCALL':
                # path call `a::b(args)` -> `helper(args)` (callee path replaced, arguments verbatim)
                want, func = normtok(rw[1]), rw[2]
                n = 0
                for c in fn['pcalls']:
                    if inside(c['span'], span) and c['func'] == want:
                        add_edit(c['func_span'][0], c['func_span'][1], func, 'RPCALL')
                        n += 1
                if n == 0:
                    raise GenError(f'lost-anchor: RPCALL site {rw[1]} not found in {u.fnpath}')
                applied.append(f'RPCALL {rw[1]} -> {func} x{n}')
            elif kind == 'RFOR':
                # ghost iterator name for a `for` loop: `for x in EXPR` -> `for x in NAME: EXPR` (annotation only)
                k, name = int(rw[1]), rw[2]
                fl = [l for l in fn['loops'] if inside(l['span'], span)]
                if k >= len(fl) or fl[k]['kind'] != 'for':
                    raise GenError(f'lost-anchor: for-loop #{k} in {u.fnpath}')
                add_edit(fl[k]['iter'][0], fl[k]['iter'][0], f'{name}: ', 'RFOR')
                applied.append(f'RFOR loop#{k} ghost iterator {name}')
            elif kind == 'RFORC':
                # `for i in A..B { BODY }`  ->  `{ let mut i__n = A; let i__end = B; while i__n < i__end INV { let i = i__n; i__n += 1; BODY } }`
                # (the increment comes first, so a `continue` in BODY behaves as in the for loop; `i__n < i__end` excludes
                # overflow of the increment). Needed because the installed Verus rejects `continue` inside `for`.
                k = int(rw[1])
                fl = [l for l in fn['loops'] if inside(l['span'], span)]
                if k >= len(fl) or fl[k]['kind'] != 'for':
                    raise GenError(f'lost-anchor: for-loop #{k} in {u.fnpath}')
                l = fl[k]
                var = src[l['pat'][0]:l['pat'][1]].decode().strip()
                itxt = src[l['iter'][0]:l['iter'][1]].decode()
                m = re.fullmatch(r'\s*(.+?)\s*\.\.\s*(.+?)\s*', itxt, re.S)
                if not re.fullmatch(r'\w+', var) or not m or '..' in m.group(1) or m.group(2).startswith('='):
                    raise GenError(f'unsupported: RFORC needs `for <ident> in A..B` in {u.fnpath}')
                a_txt, b_txt = m.group(1), m.group(2)
                if src[l['body'][0]:l['body'][0] + 1] != b'{':
                    raise GenError(f'unsupported: for-loop body of {u.fnpath} is not a block')
                # header `for i in A..B ` (everything before the body) is replaced; loop-spec splice for this loop goes right after it
                add_edit(l['span'][0], l['body'][0], f'{{ let mut {var}__n = {a_txt}; let {var}__end = {b_txt}; while {var}__n < {var}__end ', 'RFORC')
                deref_bodies[l['body'][0] + 1] = f' let {var} = {var}__n; {var}__n += 1;'
                add_edit(l['body'][1], l['body'][1], ' }', 'RFORC')
                applied.append(f'RFORC loop#{k}: for {var} in {a_txt}..{b_txt} -> while with leading increment')
            elif kind == 'RFORI':
                # inclusive ranges, which the installed Verus does not take in `for` (and `.rev()` on them):
                #   `for i in A..=B { BODY }`        -> { let mut i__n = A; let i__end = B; let mut i__go = i__n <= i__end;
                #                                         while i__go INV { let i = i__n; if i__n < i__end { i__n += 1; } else { i__go = false; } BODY } }
                #   `for i in (A..=B).rev() { BODY }` -> { let i__lo = A; let mut i__n = B; let mut i__go = i__lo <= i__n;
                #                                         while i__go INV { let i = i__n; if i__n > i__lo { i__n -= 1; } else { i__go = false; } BODY } }
                # A and B are evaluated once, A first; the step comes before BODY, so `continue` and `break` keep their meaning; no step is
                # taken past the last index (no overflow / underflow at the ends of the type).
                k = int(rw[1])
                fl = [l for l in fn['loops'] if inside(l['span'], span)]
                if k >= len(fl) or fl[k]['kind'] != 'for':
                    raise GenError(f'lost-anchor: for-loop #{k} in {u.fnpath}')
                l = fl[k]
                var = src[l['pat'][0]:l['pat'][1]].decode().strip()
                itxt = src[l['iter'][0]:l['iter'][1]].decode().strip()
                rev = False
                if itxt.endswith('.rev()'):
                    rev = True
                    itxt = itxt[:-len('.rev()')].strip()
                    if not (itxt.startswith('(') and itxt.endswith(')')):
                        raise GenError(f'unsupported: RFORI needs `(A..=B).rev()` in {u.fnpath}')
                    itxt = itxt[1:-1].strip()
                depth, cut = 0, -1
                for pos, ch in enumerate(itxt):
                    if ch in '([{':
                        depth += 1
                    elif ch in ')]}':
                        depth -= 1
                    elif depth == 0 and itxt.startswith('..=', pos):
                        cut = pos
                        break
                if cut < 0 or not re.fullmatch(r'\w+', var):
                    raise GenError(f'unsupported: RFORI needs `for <ident> in A..=B` in {u.fnpath}')
                a_txt, b_txt = itxt[:cut].strip(), itxt[cut + 3:].strip()
                if src[l['body'][0]:l['body'][0] + 1] != b'{':
                    raise GenError(f'unsupported: for-loop body of {u.fnpath} is not a block')
                if rev:
                    add_edit(l['span'][0], l['body'][0], f'{{ let {var}__lo = {a_txt}; let mut {var}__n = {b_txt}; let mut {var}__go = {var}__lo <= {var}__n; while {var}__go ', 'RFORI')
                    deref_bodies[l['body'][0] + 1] = f' let {var} = {var}__n; if {var}__n > {var}__lo {{ {var}__n -= 1; }} else {{ {var}__go = false; }}'
                else:
                    add_edit(l['span'][0], l['body'][0], f'{{ let mut {var}__n = {a_txt}; let {var}__end = {b_txt}; let mut {var}__go = {var}__n <= {var}__end; while {var}__go ', 'RFORI')
                    deref_bodies[l['body'][0] + 1] = f' let {var} = {var}__n; if {var}__n < {var}__end {{ {var}__n += 1; }} else {{ {var}__go = false; }}'
                add_edit(l['body'][1], l['body'][1], ' }', 'RFORI')
                applied.append(f'RFORI loop#{k}: for {var} in {"(" if rev else ""}{a_txt}..={b_txt}{").rev()" if rev else ""} -> while with the step before the body')
            elif kind == 'RFORK':
                # stepped half-open ranges (`Iterator::step_by` is outside the installed Verus):
                #   `for i in (A..B).step_by(K) { BODY }` -> { let mut i__n = A; let i__end = B; let i__k = K;
                #        while i__n < i__end INV { let i = i__n; if i__end - i__n > i__k { i__n += i__k; } else { i__n = i__end; } BODY } }
                # A, B, K are evaluated once, in that order; the items are A, A+K, A+2K, ... below B; the step comes before BODY (so `continue`
                # and `break` keep their meaning) and never passes B (no overflow). K == 0 makes step_by panic: K must be a positive literal.
                k = int(rw[1])
                fl = [l for l in fn['loops'] if inside(l['span'], span)]
                if k >= len(fl) or fl[k]['kind'] != 'for':
                    raise GenError(f'lost-anchor: for-loop #{k} in {u.fnpath}')
                l = fl[k]
                var = src[l['pat'][0]:l['pat'][1]].decode().strip()
                itxt = src[l['iter'][0]:l['iter'][1]].decode().strip()
                m = re.fullmatch(r'\((.*)\)\s*\.\s*step_by\(\s*([1-9][0-9]*)\s*\)', itxt, re.S)
                if not m or not re.fullmatch(r'\w+', var):
                    raise GenError(f'unsupported: RFORK needs `for <ident> in (A..B).step_by(<positive literal>)` in {u.fnpath}')
                rtxt, k_txt = m.group(1).strip(), m.group(2)
                depth, cut = 0, -1
                for pos, ch in enumerate(rtxt):
                    if ch in '([{':
                        depth += 1
                    elif ch in ')]}':
                        depth -= 1
                    elif depth == 0 and rtxt.startswith('..', pos) and not rtxt.startswith('..=', pos):
                        cut = pos
                        break
                if cut < 0:
                    raise GenError(f'unsupported: RFORK needs a half-open range `A..B` in {u.fnpath}')
                a_txt, b_txt = rtxt[:cut].strip(), rtxt[cut + 2:].strip()
                if src[l['body'][0]:l['body'][0] + 1] != b'{':
                    raise GenError(f'unsupported: for-loop body of {u.fnpath} is not a block')
                add_edit(l['span'][0], l['body'][0], f'{{ let mut {var}__n = {a_txt}; let {var}__end = {b_txt}; let {var}__k = {k_txt}; while {var}__n < {var}__end ', 'RFORK')
                deref_bodies[l['body'][0] + 1] = f' let {var} = {var}__n; if {var}__end - {var}__n > {var}__k {{ {var}__n += {var}__k; }} else {{ {var}__n = {var}__end; }}'
                add_edit(l['body'][1], l['body'][1], ' }', 'RFORK')
                applied.append(f'RFORK loop#{k}: for {var} in ({a_txt}..{b_txt}).step_by({k_txt}) -> while with the step before the body')
            elif kind == 'RFORS':
                # `for x in E { BODY }` over a slice / &Vec  ->  `{ let mut x__n: usize = 0; while x__n < (E).len() INV { let x = &(E)[x__n]; x__n += 1; BODY } }`
                # (items of `for x in <slice>` are references to the elements in order; the increment comes first, so a `continue`
                # in BODY behaves as in the for loop). Needed because the installed Verus rejects `continue` inside `for`.
                k = int(rw[1])
                fl = [l for l in fn['loops'] if inside(l['span'], span)]
                if k >= len(fl) or fl[k]['kind'] != 'for':
                    raise GenError(f'lost-anchor: for-loop #{k} in {u.fnpath}')
                l = fl[k]
                var = src[l['pat'][0]:l['pat'][1]].decode().strip()
                itxt = src[l['iter'][0]:l['iter'][1]].decode().strip()
                rev = False
                m_rev = re.fullmatch(r'([\w.]+)\s*\.\s*iter\(\)\s*\.\s*rev\(\)', itxt)
                if m_rev:
                    # `for x in E.iter().rev()`: the elements last to first
                    rev, itxt = True, m_rev.group(1)
                if not re.fullmatch(r'\w+', var) or not re.fullmatch(r'&?[\w.]+', itxt):
                    raise GenError(f'unsupported: RFORS needs `for <ident> in <path>` (or `<path>.iter().rev()`) in {u.fnpath}')
                if src[l['body'][0]:l['body'][0] + 1] != b'{':
                    raise GenError(f'unsupported: for-loop body of {u.fnpath} is not a block')
                if rev:
                    add_edit(l['span'][0], l['body'][0], f'{{ let mut {var}__n: usize = ({itxt}).len(); while {var}__n > 0 ', 'RFORS')
                    deref_bodies[l['body'][0] + 1] = f' {var}__n -= 1; let {var} = &({itxt})[{var}__n];'
                else:
                    add_edit(l['span'][0], l['body'][0], f'{{ let mut {var}__n: usize = 0; while {var}__n < ({itxt}).len() ', 'RFORS')
                    deref_bodies[l['body'][0] + 1] = f' let {var} = &({itxt})[{var}__n]; {var}__n += 1;'
                add_edit(l['body'][1], l['body'][1], ' }', 'RFORS')
                applied.append(f'RFORS loop#{k}: for {var} in {itxt}{".iter().rev()" if rev else ""} -> indexed while with the step first')
            elif kind == 'RDEREF':
                # `for &x in E { B }` -> `for x__r in E { let x = *x__r; B }` (the reference pattern of a Copy item spelled out;
                # Verus does not take `&` patterns in `for`)
                n = 0
                for l in fn['loops']:
                    if l['kind'] != 'for' or not inside(l['span'], span):
                        continue
                    ptxt = src[l['pat'][0]:l['pat'][1]].decode().strip()
                    m = re.fullmatch(r'&\s*(\w+)', ptxt)
                    if not m:
                        continue
                    name = m.group(1)
                    add_edit(l['pat'][0], l['pat'][1], name + '__r', 'RDEREF')
                    if src[l['body'][0]:l['body'][0] + 1] != b'{':
                        raise GenError(f'unsupported: for-loop body of {u.fnpath} is not a block')
                    deref_bodies[l['body'][0] + 1] = f' let {name} = *{name}__r;'
                    n += 1
                if n == 0:
                    raise GenError(f'lost-anchor: RDEREF found no `for &x in ..` loop in {u.fnpath}')
                applied.append(f'RDEREF x{n} (`for &x in E` -> `for x__r in E {{ let x = *x__r; ..`)')
            elif kind == 'RC':
                # closure contract: `|p| body` -> `|p| -> (cr: T) ensures E { body }` (body verbatim)
                k, rty, ens = int(rw[1]), rw[2], rw[3]
                cl = [c for c in fn['closures'] if inside(c['span'], span)]
                if k >= len(cl):
                    raise GenError(f'lost-anchor: closure #{k} in {u.fnpath}')
                c = cl[k]
                add_edit(c['body'][0], c['body'][0], f'-> (cr: {rty}) ensures {ens} {{ ', 'RC')
                add_edit(c['body'][1], c['body'][1], ' }', 'RC')
                applied.append(f'RC closure#{k} annotated: -> (cr: {rty}) ensures {ens}')
            elif kind == 'RCT':
                # closure contract selected by CONTENT: every closure of the fragment whose body contains the needle (token-normalised)
                # and that no earlier RCT rule has taken gets `-> (cr: T) ensures E`; robust against closures being added/merged/reordered
                needle, rty, ens = normtok(rw[1]), rw[2], rw[3]
                n = 0
                for c in fn['closures']:
                    if not inside(c['span'], span) or tuple(c['span']) in rct_taken:
                        continue
                    if needle in normtok(src[c['body'][0]:c['body'][1]].decode()):
                        rct_taken.add(tuple(c['span']))
                        # an explicit `-> T` on the closure is replaced by the annotated form (same type, named result)
                        start = c['ret'][0] if c.get('ret') else c['body'][0]
                        add_edit(start, c['body'][0], f'-> (cr: {rty}) ensures {ens} {{ ', 'RC')
                        add_edit(c['body'][1], c['body'][1], ' }', 'RC')
                        n += 1
                if n == 0:
                    raise GenError(f'lost-anchor: no closure containing "{rw[1]}" in {u.fnpath}')
                applied.append(f'RCT closures containing "{rw[1]}" x{n} annotated: -> (cr: {rty}) ensures {ens}')
            elif kind == 'RGUARD':
                # `match X { P if G => B, _ => E }`  ->  `match X { P => { if G B' else { E } }, _ => E }`  (B' = B as a block)
                # Same evaluation order, same bindings, G evaluated once, E duplicated textually. Only this two-arm shape is
                # rewritten (first arm guarded, second arm a bare `_`). Reason: the installed Verus loses the state of `&mut`
                # variables across a match arm that has a guard.
                n = 0
                for m in fn.get('matches', []):
                    if not inside(m['span'], span) or len(m['arms']) != 2:
                        continue
                    a0, a1 = m['arms']
                    if not a0['guard'] or a1['guard'] or normtok(a1['pat']) != '_':
                        continue
                    g = a0['guard']
                    gtxt = src[g['expr'][0]:g['expr'][1]].decode()
                    # the guard moves and the else-body is duplicated: the moved / copied text carries the textual rewrites already
                    # registered inside it (rewrites listed BEFORE RGUARD in the unit); splices (hints) inside cannot be carried
                    def carry(s, e, drop=False):
                        inner = sorted([x for x in edits if s <= x[0] and x[1] <= e], key=lambda x: x[0])
                        if any(isinstance(x[2], tuple) for x in inner) or any(b[0] < a[1] for a, b in zip(inner, inner[1:])):
                            raise GenError(f'unsupported: hint or overlapping rewrites inside text moved by RGUARD in {u.fnpath}')
                        if not inner:
                            return text_of(s, e)
                        out, pos = '', s
                        for x in inner:
                            out += src[pos:x[0]].decode() + x[2]
                            pos = x[1]
                            carried.add(id(x))
                            if drop:
                                edits.remove(x)     # the original place of this text is deleted by RGUARD
                        return out + src[pos:e].decode()
                    gtxt = carry(g['expr'][0], g['expr'][1], drop=True)
                    etxt = carry(a1['body'][0], a1['body'][1])
                    guarded_spans.append((g['if'][0], g['expr'][1]))
                    guarded_spans.append(tuple(a1['body']))
                    add_edit(g['if'][0], g['expr'][1], '', 'RGUARD')
                    bblock = src[a0['body'][0]:a0['body'][0] + 1] == b'{'
                    add_edit(a0['body'][0], a0['body'][0], '{ if ' + gtxt + (' ' if bblock else ' { '), 'RGUARD')
                    add_edit(a0['body'][1], a0['body'][1], ('' if bblock else ' }') + ' else { ' + etxt + ' } }', 'RGUARD')
                    n += 1
                if n == 0:
                    raise GenError(f'lost-anchor: RGUARD found no `P if G => B, _ => E` match in {u.fnpath}')
                applied.append(f'RGUARD x{n} (guarded two-arm match -> if/else inside the arm)')
            elif kind == 'RT':
                old, new = rw[1], rw[2]
                body = src[span[0]:span[1]].decode()
                n = 0
                start = 0
                while True:
                    i = body.find(old, start)
                    if i < 0:
                        break
                    add_edit(span[0] + len(body[:i].encode()), span[0] + len(body[:i + len(old)].encode()), new, 'RT')
                    n += 1
                    start = i + len(old)
                if n == 0:
                    raise GenError(f'lost-anchor: RT text "{old}" not found in {u.fnpath}')
                applied.append(f'RT "{old}" -> "{new}" x{n}')
            else:
                raise GenError(f'unknown rewrite {kind}')

        for rw0 in u.rewrites:
            if rw0[0] == '?':
                edits_before, applied_before = len(edits), len(applied)
                try:
                    apply_rw(rw0[1:])
                except GenError as e:
                    if 'lost-anchor' not in str(e):
                        raise
                    del edits[edits_before:]
                    del applied[applied_before:]
                    applied.append(f'{rw0[1]} (optional) not applicable: {e}')
            else:
                apply_rw(rw0)

        # loop specs: ordinal relative to loops inside the fragment
        frag_loops = [l for l in fn['loops'] if inside(l['span'], span)]
        for k, text in u.loops.items():
            if k >= len(frag_loops):
                raise GenError(f'lost-anchor: loop #{k} in fragment of {u.fnpath} (has {len(frag_loops)})')
            l = frag_loops[k]
            add_edit(l['body'][0], l['body'][0], ('SPLICE', text), 'loop')
        for k, text in u.loopstarts.items():
            # proof text spliced as the first thing inside loop #k's body (anchored to the loop, not to a statement in it)
            if k >= len(frag_loops):
                raise GenError(f'lost-anchor: loop #{k} in fragment of {u.fnpath} (has {len(frag_loops)})')
            l = frag_loops[k]
            if src[l['body'][0]:l['body'][0] + 1] != b'{':
                raise GenError(f'unsupported: loop #{k} body of {u.fnpath} is not a block')
            add_edit(l['body'][0] + 1, l['body'][0] + 1, ('SPLICE', [(tl, '\n' + line) if i == 0 else (tl, line) for i, (tl, line) in enumerate(text)]), 'loopstart')
        for k, text in u.afterloops.items():
            # proof text spliced right after loop #k (anchored to the loop, not to the statement that follows it)
            if k >= len(frag_loops):
                raise GenError(f'lost-anchor: loop #{k} in fragment of {u.fnpath} (has {len(frag_loops)})')
            add_edit(frag_loops[k]['span'][1], frag_loops[k]['span'][1], ('SPLICE', [(tl, '\n' + line) if i == 0 else (tl, line) for i, (tl, line) in enumerate(text)]), 'afterloop')
        if u.atend is not None:
            # proof text spliced as the last thing in the function body (anchored to the body, not to its last statement);
            # only for bodies that end in a statement, not in a tail expression
            if u.kind != 'fn' or src[span[1] - 1:span[1]] != b'}':
                raise GenError(f'unsupported: atend needs a whole-function unit in {u.fnpath}')
            add_edit(span[1] - 1, span[1] - 1, ('SPLICE', [(tl, '\n' + line) if i == 0 else (tl, line) for i, (tl, line) in enumerate(u.atend)]), 'atend')
        for (prefix, k, text) in u.afters:
            # proof text spliced right AFTER a statement (for facts about what the statement just did)
            pre = normtok(prefix)
            cands = [s for s in fn['stmts'] if inside(s['span'], span) and normtok(src[s['span'][0]:s['span'][1]].decode()).startswith(pre)]
            if len(cands) <= k:
                raise GenError(f'lost-anchor: after-stmt "{prefix}" #{k} in {u.fnpath}')
            add_edit(cands[k]['span'][1], cands[k]['span'][1], ('SPLICE', [(tl, '\n' + line) if i == 0 else (tl, line) for i, (tl, line) in enumerate(text)]), 'after')
        for pos, txt in deref_bodies.items():
            add_edit(pos, pos, txt, 'RDEREF-let')
        for (prefix, k, text) in u.ats:
            pre = normtok(prefix)
            c = [s for s in fn['stmts'] if inside(s['span'], span) and normtok(src[s['span'][0]:s['span'][1]].decode()).startswith(pre)]
            if len(c) <= k:
                raise GenError(f'lost-anchor: at-stmt "{prefix}" #{k} in {u.fnpath}')
            add_edit(c[k]['span'][0], c[k]['span'][0], ('SPLICE', text), 'at')

        for (gs, ge) in guarded_spans:
            for x in edits:
                if x[3] != 'RGUARD' and id(x) not in carried and gs <= x[0] and x[1] <= ge and not (x[0] == x[1] == gs) and not (x[3] == 'RBSTR'):
                    raise GenError(f'unsupported: rewrite {x[3]} inside a guard / else-body moved by RGUARD in {u.fnpath}')
        # an RBSTR edit inside a larger replacement is already carried by that replacement (text_of)
        edits = [x for x in edits if not (x[3] == 'RBSTR' and any(y is not x and y[3] != 'RBSTR' and y[0] <= x[0] and x[1] <= y[1] and not isinstance(y[2], tuple) for y in edits))]
        edits.sort(key=lambda e: (e[0], e[1], 0 if e[3] == 'RDEREF-let' else 1))
        for a, b in zip(edits, edits[1:]):
            if b[0] < a[1]:
                raise GenError(f'unsupported: overlapping rewrites in {u.fnpath}: {a[3]} / {b[3]}')

        arm_tail = (u.kind in ('arm', 'loopbody') and u.tail and not wrap)
        if arm_tail:
            self.emit('{\n', ('gen', 'wrap'))
        if wrap:
            self.emit('{\n', ('gen', 'wrap'))
        pos = span[0]
        recon = b''
        for (s, e, rep, tag) in edits:
            self.emit(src[pos:s].decode(), ('repo', u.relfile, pos))
            recon += src[pos:s]
            if isinstance(rep, tuple):
                for (tl, line) in rep[1]:
                    self.emit('/*@*/ ' + line + '\n', ('tmpl', u.tmpl, tl))
            else:
                self.emit(rep, ('rewrite', tag, u.relfile, s))
            recon += src[s:e]
            pos = e
        self.emit(src[pos:span[1]].decode(), ('repo', u.relfile, pos))
        recon += src[pos:span[1]]
        assert recon == src[span[0]:span[1]]
        if wrap:
            if u.tail:
                self.emit('\n/*@*/ ' + u.tail, ('tmpl', u.tmpl, u.tline))
            self.emit('\n}\n', ('gen', 'wrap'))
        elif arm_tail:
            self.emit(';\n/*@*/ ' + u.tail + '\n}\n', ('tmpl', u.tmpl, u.tline))
        else:
            self.emit('\n', ('gen', 'nl'))
        u.meta.update({
            'file': u.relfile, 'fn': u.fnpath, 'kind': u.kind, 'selector': u.sel,
            'span_bytes': span, 'span_lines': [line_of(idx, span[0]), line_of(idx, span[1])],
            'sha256': hashlib.sha256(src[span[0]:span[1]]).hexdigest(),
            'rewrites': applied,
        })
        # safety-site census of the fragment (used for evidence only)
        arith = [b for b in fn['binops'] if inside(b['span'], span) and b['op'] in ('+', '-', '*', '/', '%', '+=', '-=', '*=', '<<', '>>')]
        u.meta['arith_sites'] = len(arith)
        u.meta['loops'] = len(frag_loops)

    def check_header(self, u):
        """fn units: the hand-written header must carry the real parameters and return type (modulo declared drops/adds)."""
        if u.kind != 'fn':
            return
        idx = index(u.relfile)
        fn = find_fn(idx, u.relfile, u.fnpath)
        src = idx['src']
        hdr = ' '.join(u.header_lines)
        m = re.search(r'\bfn\s+\w+\s*(<[^(]*>)?\s*\(', hdr)
        if not m:
            raise GenError(f'template error: no fn header in unit {u.name}')
        # find matching paren
        i = m.end()
        depth = 1
        j = i
        while j < len(hdr) and depth:
            if hdr[j] in '([{<':
                depth += 1 if hdr[j] != '<' else 0
            if hdr[j] in ')]}':
                depth -= 1
            j += 1
        plist = hdr[i:j - 1]
        hparams = [normtok(p) for p in split_top(plist) if p.strip()]
        rparams = [normtok(src[s:e].decode()) for (s, e) in fn['inputs']]
        drops = [normtok(x) for x in u.params_drop]
        adds = [normtok(x) for x in u.params_add]
        for rp in rparams:
            if rp in drops:
                continue
            if rp not in hparams:
                raise GenError(f'lost-anchor: real parameter `{rp}` of {u.fnpath} not in contract header of unit {u.name}')
        for hp in hparams:
            if hp not in rparams and hp not in adds:
                raise GenError(f'lost-anchor: contract header of unit {u.name} has parameter `{hp}` that {u.fnpath} lacks')
        # return type
        rest = hdr[j:]
        mret = re.match(r'\s*->\s*\(\s*\w+\s*:\s*(.*?)\)\s*(requires|ensures|recommends|decreases|$|no_unwind|opens_invariants)', rest)
        rret = normtok(src[fn['ret'][0]:fn['ret'][1]].decode()) if fn['ret'] else None
        if rret is None:
            if re.match(r'\s*->', rest):
                raise GenError(f'lost-anchor: {u.fnpath} returns nothing but contract header of {u.name} has a return type')
        else:
            if not mret:
                # allow plain `-> T`
                mret2 = re.match(r'\s*->\s*([^{]*?)\s*(requires|ensures|recommends|decreases|$)', rest)
                got = normtok(mret2.group(1)) if mret2 else None
            else:
                got = normtok(mret.group(1))
            if got != rret:
                raise GenError(f'lost-anchor: return type of {u.fnpath} is `{rret}` but contract header of {u.name} says `{got}`')

    # ---- template driver ----------------------------------------------------------------
    def run(self):
        self.expand_file(self.template_path)
        return ''.join(s.text for s in self.segs)

    def expand_file(self, path):
        lines = open(path).read().split('\n')
        cur = None
        pending = None  # (target list) collecting //@@| lines
        i = 0
        while i < len(lines):
            ln = lines[i]
            lineno = i + 1
            st = ln.strip()
            if st.startswith('//@@|'):
                if pending is None:
                    raise GenError(f'template error {path}:{lineno}: continuation without target')
                pending.append((lineno, st[5:].rstrip()))
                i += 1
                continue
            if st.startswith('//@@'):
                args = parse_args(st[4:])
                if not args:
                    i += 1
                    continue
                d = args[0]
                pending = None
                if d == 'include':
                    inc = os.path.join(VERIF, args[1])
                    self.includes.append(args[1])
                    self.emit(f'// ---- include {args[1]}\n', ('gen', 'include'))
                    self.expand_file(inc)
                elif d == 'item':
                    self.emit_item(args[1], args[2], path, lineno, args[3:])
                elif d == 'unit':
                    cur = Unit(args[1], args[2], args[3], args[4], args[5:], path, lineno)
                    self.units.append(cur)
                    self.emit(f'// ==== unit {cur.name}: {cur.kind} {cur.relfile} :: {cur.fnpath} {" ".join(cur.sel)}\n', ('gen', 'unit'))
                elif d == 'params':
                    mode = None
                    for a in args[1:]:
                        if a in ('drop', 'add'):
                            mode = a
                        elif mode == 'drop':
                            cur.params_drop.append(a)
                        else:
                            cur.params_add.append(a)
                elif d == 'opt':
                    cur.opts += args[1:]
                elif d == 'tail':
                    cur.tail = st[4:].strip()[len('tail'):].strip()
                elif d == 'rewrite':
                    cur.rewrites.append(args[1:])
                elif d == 'rewrite?':
                    # optional rewrite: applied where its site exists, skipped (and logged) where it does not — for helper
                    # substitutions that only matter if the code uses the construct at all
                    cur.rewrites.append(['?'] + args[1:])
                elif d == 'loop':
                    k = int(args[1])
                    cur.loops[k] = []
                    pending = cur.loops[k]
                elif d == 'loopstart':
                    k = int(args[1])
                    cur.loopstarts[k] = []
                    pending = cur.loopstarts[k]
                elif d == 'at':
                    k = int(args[2][1:]) if len(args) > 2 else 0
                    lst = []
                    cur.ats.append((args[1], k, lst))
                    pending = lst
                elif d == 'atend':
                    cur.atend = []
                    pending = cur.atend
                elif d == 'afterloop':
                    k = int(args[1])
                    cur.afterloops[k] = []
                    pending = cur.afterloops[k]
                elif d == 'after':
                    k = int(args[2][1:]) if len(args) > 2 else 0
                    lst = []
                    cur.afters.append((args[1], k, lst))
                    pending = lst
                elif d == 'sig':
                    self.emit_sig(cur, args[1], 'drop-self' in args[2:], path, lineno)
                elif d == 'body':
                    self.check_header(cur)
                    self.emit_body(cur)
                elif d == 'end':
                    cur = None
                else:
                    raise GenError(f'template error {path}:{lineno}: unknown directive {d}')
            else:
                if cur is not None and 'sha256' not in cur.meta:
                    cur.header_lines.append(ln)
                self.emit(ln + '\n', ('tmpl', path, lineno))
            i += 1

    def emit_item(self, relfile, ipath, tmpl, tline, opts):
        idx = index(relfile)
        c = [it for it in idx['items'] if it['path'] == ipath]
        ordn = [o for o in opts if o.startswith('#')]
        if ordn:
            k = int(ordn[0][1:])
            c = c[k:k + 1]
        elif len(c) > 1:
            c = [it for it in c if it['kind'] != 'impl']
        if len(c) != 1:
            raise GenError(f'lost-anchor: item {ipath} in {relfile}: {len(c)} candidates')
        it = c[0]
        src = idx['src']
        s, e = it['after_attrs'], it['item'][1]
        txt = src[s:e].decode()
        self.emit(f'// ==== item {ipath} from {relfile} (attributes dropped, R4)\n', ('gen', 'item'))
        self.emit(txt.lstrip('\n'), ('repo', relfile, s + (len(txt) - len(txt.lstrip('\n')))))
        self.emit('\n', ('gen', 'nl'))
        self.items.append({'file': relfile, 'item': ipath, 'span_lines': [line_of(idx, s), line_of(idx, e)],
                           'sha256': hashlib.sha256(src[s:e]).hexdigest()})

    def emit_sig(self, u, retname, drop_self, tmpl, tline):
        idx = index(u.relfile)
        fn = find_fn(idx, u.relfile, u.fnpath)
        src = idx['src']
        sig = src[fn['sig_start']:fn['body'][0]].decode()
        if fn['ret'] and retname != '-':
            rs, re_ = fn['ret']
            a = src[fn['sig_start']:rs].decode()
            t = src[rs:re_].decode()
            b = src[re_:fn['body'][0]].decode()
            sig = f'{a}({retname}: {t}){b}'
        if drop_self and fn['self_span']:
            ss = src[fn['self_span'][0]:fn['self_span'][1]].decode()
            sig = re.sub(re.escape(ss) + r'\s*,?\s*', '', sig, count=1)
        self.emit(sig.rstrip() + '\n', ('repo', u.relfile, fn['sig_start']))
        u.header_lines.append('__real_sig__')

    # ---- maps ---------------------------------------------------------------------------
    def byte_map(self):
        """list of (out_start, out_end, origin) for diagnostics mapping"""
        out, pos = [], 0
        for s in self.segs:
            n = len(s.text.encode())
            out.append((pos, pos + n, s.origin, s.text))
            pos += n
        return out


def split_top(s):
    out, cur, depth = [], '', 0
    for ch in s:
        if ch in '([{<':
            depth += 1
        elif ch in ')]}>':
            depth -= 1
        if ch == ',' and depth == 0:
            out.append(cur)
            cur = ''
        else:
            cur += ch
    if cur.strip():
        out.append(cur)
    return out


def generate(template_path, out_path):
    g = Generator(template_path)
    orig_check = g.check_header

    def chk(u):
        if '__real_sig__' in u.header_lines:
            return
        orig_check(u)
    g.check_header = chk
    text = g.run()
    os.makedirs(os.path.dirname(out_path), exist_ok=True)
    with open(out_path, 'w') as f:
        f.write(text)
    bm = g.byte_map()
    # unit byte ranges in output: from its '==== unit' marker to next unit marker / EOF
    marks = [(a, o) for (a, b, o, t) in bm if o == ('gen', 'unit')]
    return g, bm, text


def origin_of(bm, idx_cache, byte_off):
    for (a, b, o, t) in bm:
        if a <= byte_off < b:
            if o[0] == 'repo':
                idx = index(o[1])
                delta = byte_off - a
                return {'kind': 'repo', 'file': o[1], 'line': line_of(idx, o[2] + delta)}
            if o[0] == 'tmpl':
                return {'kind': 'tmpl', 'file': os.path.relpath(o[1], VERIF), 'line': o[2]}
            if o[0] == 'rewrite':
                idx = index(o[2])
                return {'kind': 'repo', 'file': o[2], 'line': line_of(idx, o[3]), 'rewrite': o[1]}
            return {'kind': 'gen', 'what': o[1]}
    return {'kind': 'unknown'}


if __name__ == '__main__':
    try:
        g, bm, text = generate(sys.argv[1], sys.argv[2])
        print(json.dumps([dict(name=u.name, **u.meta) for u in g.units], indent=1))
    except GenError as e:
        print('GENERATION FAILED:', e)
        sys.exit(2)
