//@@ include contracts/inc_srv_header.rs
verus! {
/// what one iteration of process_connection's frame loop may set in motion (ghost log written by the MODEL methods)
pub enum Eff {
    /// handle_sync_command: registers the peer as a replica and streams the whole dataset (RDB) to it
    Sync(u64),
    /// the frame went through process_frame (whose own gate is the subject of unit process_frame)
    Frame(RespFrame, u64),
}
pub struct ConfigStub { pub password: Option<String> }
pub enum Ordering { Relaxed }
pub struct CounterStub { pub g: Ghost<int> }
impl CounterStub { #[verifier::external_body] pub fn fetch_add(&self, n: u64, o: Ordering) -> u64 { unimplemented!() } }
pub struct StatsStub { pub total_commands_processed: CounterStub, pub auth_successes: CounterStub, pub auth_failures: CounterStub }
/// UTF-8 decoding of the AUTH argument (uninterpreted; `String::from_utf8` is its std implementation — RPCALL site)
pub uninterp spec fn spec_utf8_decode(b: Seq<u8>) -> Option<Seq<char>>;
pub struct Utf8Err { pub g: Ghost<int> }
#[verifier::external_body]
pub fn verif_from_utf8(v: Vec<u8>) -> (r: std::result::Result<String, Utf8Err>)
    ensures match spec_utf8_decode(v@) { Some(s) => r matches Ok(st) && st@ == s, None => r is Err },
{ unimplemented!() }
/// `String == String` (R7 site, by reference)
#[verifier::external_body]
pub fn verif_string_eq2(a: &String, b: &String) -> (r: bool) ensures r == (a@ == b@), { unimplemented!() }
/// the bytes of the AUTH argument, if the command has the right shape
pub open spec fn auth_arg(parts: Seq<RespFrame>) -> Option<Seq<u8>> {
    if parts.len() == 2 { match parts[1] { RespFrame::BulkString(Some(b)) => Some(b@), _ => None } } else { None }
}
/// AUTH succeeds exactly when the argument decodes to the configured password
pub open spec fn auth_accepts(s: Server, parts: Seq<RespFrame>) -> bool {
    s.config.password matches Some(pw) && auth_arg(parts) matches Some(b) && spec_utf8_decode(b) == Some(pw@)
}
pub struct Server {
    pub config: ConfigStub,
    pub connections: ConnModel,
    pub stats: StatsStub,
    pub effects: Ghost<Seq<Eff>>,
}
pub uninterp spec fn spec_upper_name(b: Seq<u8>) -> Seq<char>;
/// `String::from_utf8_lossy(bytes).to_uppercase()` (RXPR site)
#[verifier::external_body]
pub fn verif_upper_name(bytes: &Arc<Vec<u8>>) -> (r: String) ensures r@ == spec_upper_name(bytes@), { unimplemented!() }
/// `e.to_string()` on the crate's error type (Display; RCALL site)
#[verifier::external_body]
pub fn verif_err_to_string(e: FerrousError) -> String { unimplemented!() }
/// `String == &str` (R7 site, by reference)
#[verifier::external_body]
pub fn verif_string_eq(a: &String, b: &&str) -> (r: bool) ensures r == (a@ == b@), { unimplemented!() }

/// `a == b` on ConnectionState (#[derive(PartialEq)], dropped by R4; R7 operator site, by reference)
#[verifier::external_body]
pub fn verif_state_eq(a: &ConnectionState, b: &ConnectionState) -> (r: bool) ensures r == (*a == *b), { unimplemented!() }
/// the frame is a SYNC / PSYNC command (as process_connection decodes the name: lossy UTF-8, upper-cased)
pub open spec fn sync_frame(frame: RespFrame) -> bool {
    frame matches RespFrame::Array(Some(parts)) && parts@.len() > 0 && (parts@[0] matches RespFrame::BulkString(Some(b))
        && (spec_upper_name(b@) == "SYNC"@ || spec_upper_name(b@) == "PSYNC"@))
}
pub open spec fn gate_closed(s: Server, conn_id: u64) -> bool {
    s.config.password is Some && s.connections.map@.contains_key(conn_id) && s.connections.map@[conn_id].state != ConnectionState::Authenticated
}

impl Server {
    #[verifier::external_body]
    fn handle_sync_command(&mut self, command: &str, parts: &Vec<RespFrame>, conn_id: u64) -> (r: Result<RespFrame>)
        ensures final(self).effects@ == old(self).effects@.push(Eff::Sync(conn_id)), final(self).config == old(self).config,
    { unimplemented!() }
    #[verifier::external_body]
    fn process_frame(&mut self, frame: RespFrame, conn_id: u64) -> (r: Result<RespFrame>)
        ensures final(self).effects@ == old(self).effects@.push(Eff::Frame(frame, conn_id)), final(self).config == old(self).config,
    { unimplemented!() }

    /// ASSUMED CONTRACT, proved in group srv_auth (unit connection_is_authorized) against the real function
    #[verifier::external_body]
    fn connection_is_authorized(&mut self, conn_id: u64) -> (r: bool)
        ensures r ==> !gate_closed(*old(self), conn_id), final(self).effects@ == old(self).effects@, final(self).config == old(self).config,
            final(self).connections.map@ =~= old(self).connections.map@,
    { unimplemented!() }

//@@ unit conn_frame_step loopbody src/network/server.rs Server::process_connection "for frame in frames_to_process"
//@@   rewrite R3
//@@   rewrite? RCALL to_string "e" verif_err_to_string
//@@   opt same-return-type
//@@   tail Ok(true)
//@@   rewrite RXPR "String::from_utf8_lossy(bytes).to_uppercase()" "verif_upper_name(bytes)"
//@@   rewrite R7 "command == \"QUIT\"" verif_string_eq byref
//@@   rewrite R7 "command == \"SYNC\"" verif_string_eq byref
//@@   rewrite R7 "command == \"PSYNC\"" verif_string_eq byref
    fn conn_frame_step(&mut self, frame: RespFrame, id: u64, responses: &mut Vec<RespFrame>, mut needs_immediate_flush: bool, mut should_close: bool) -> (r: Result<bool>)
        ensures
            // C17: with a password set, a frame read from a connection that has not authenticated is handed to process_frame
            // (whose gate refuses it) and to nothing else: in particular the replication handshake (SYNC / PSYNC), which
            // streams the whole dataset to the peer, is not served
            gate_closed(*old(self), id) ==> forall|i: int| old(self).effects@.len() <= i < final(self).effects@.len() ==> !(#[trigger] final(self).effects@[i] is Sync),
            // every frame is handed to exactly one of the two
            final(self).effects@.len() == old(self).effects@.len() + 1,
            // C05 / C01: a frame that is not a replication handshake ALWAYS produces exactly one response, appended in order —
            // also when its handler fails (the failure becomes an error reply; the connection is not dropped)
            !sync_frame(frame) ==> r is Ok && final(responses)@.len() == old(responses)@.len() + 1
                && final(responses)@.take(old(responses)@.len() as int) =~= old(responses)@,
//@@ body
//@@ end
}

} // verus!
fn main() {}
