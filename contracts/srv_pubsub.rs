//@@ include contracts/inc_srv_header.rs
verus! {
/// MODEL of PubSubManager::publish: returns the receiver list (its exactness is unit `publish` in c14_pubsub)
pub struct PubSubModel { pub g: Ghost<int> }
pub uninterp spec fn spec_receivers(g: int, channel: Seq<u8>) -> Seq<(u64, Option<Vec<u8>>)>;
impl PubSubModel {
    #[verifier::external_body]
    pub fn publish(&self, channel: &[u8], message: &[u8]) -> (r: Result<Vec<(u64, Option<Vec<u8>>)>>)
        ensures r matches Ok(v) ==> v@ == spec_receivers(self.g@, channel@),
    { unimplemented!() }
}
/// the frame owed to one receiver entry (contracts proved on the real formatters in c14_pubsub: bytes intact)
pub uninterp spec fn spec_message(channel: Seq<u8>, payload: Seq<u8>) -> RespFrame;
pub uninterp spec fn spec_pmessage(pattern: Seq<u8>, channel: Seq<u8>, payload: Seq<u8>) -> RespFrame;
/// ASSUMED CONTRACTS (pubsub.rs format_message / format_pmessage; proved in c14_pubsub): a function of the bytes
#[verifier::external_body]
pub fn format_message(channel: &[u8], message: &[u8]) -> (r: RespFrame) ensures r == spec_message(channel@, message@), { unimplemented!() }
#[verifier::external_body]
pub fn format_pmessage(pattern: &[u8], channel: &[u8], message: &[u8]) -> (r: RespFrame) ensures r == spec_pmessage(pattern@, channel@, message@), { unimplemented!() }
pub open spec fn frame_for(e: (u64, Option<Vec<u8>>), channel: Seq<u8>, payload: Seq<u8>) -> RespFrame {
    match e.1 { Some(p) => spec_pmessage(p@, channel, payload), None => spec_message(channel, payload) }
}
/// the frames the first n receiver entries owe to connection c, in order
pub open spec fn owed_frames(rv: Seq<(u64, Option<Vec<u8>>)>, n: int, c: u64, channel: Seq<u8>, payload: Seq<u8>) -> Seq<RespFrame>
    decreases n
{
    if n <= 0 { Seq::empty() } else {
        let prev = owed_frames(rv, n - 1, c, channel, payload);
        if rv[n - 1].0 == c { prev.push(frame_for(rv[n - 1], channel, payload)) } else { prev }
    }
}
impl Connection {
    /// ASSUMED CONTRACT (connection.rs Connection::send_frame): serialising a message frame into the in-memory write buffer
    /// succeeds and appends exactly that frame
    #[verifier::external_body]
    pub fn send_frame(&mut self, frame: &RespFrame) -> (r: Result<()>)
        ensures r is Ok, final(self).db_index == old(self).db_index, final(self).transaction_state == old(self).transaction_state, final(self).state == old(self).state,
            final(self).is_monitoring == old(self).is_monitoring, final(self).out.sent@ == old(self).out.sent@.push(*frame),
    { unimplemented!() }
}
pub struct Server { pub pubsub: PubSubModel, pub connections: ConnModel }
/// `bytes.as_ref()` on an `Arc<Vec<u8>>` payload (RCALL site)
#[verifier::external_body]
pub fn verif_arc_bytes(b: &Arc<Vec<u8>>) -> (r: &[u8]) ensures r@ == b@, { unimplemented!() }
pub open spec fn bulk_arg(parts: Seq<RespFrame>, i: int) -> Option<Seq<u8>> {
    match parts[i] { RespFrame::BulkString(Some(b)) => Some(b@), _ => None }
}

impl Server {
//@@ unit handle_publish fn src/network/server.rs Server::handle_publish
//@@   rewrite R3
//@@   params drop "&self" add "&mut self"
//@@   rewrite RCALL as_ref "bytes" verif_arc_bytes
//@@   rewrite RCT "conn.send_frame(&frame)" "Result<()>" "final(conn).db_index == old(conn).db_index && final(conn).transaction_state == old(conn).transaction_state && final(conn).state == old(conn).state && final(conn).is_monitoring == old(conn).is_monitoring && final(conn).out.sent@ == old(conn).out.sent@.push(frame)"
//@@   rewrite RFOR 0 it
//@@   at "let num_receivers = receivers.len();"
//@@|     let ghost rv = receivers@;
//@@   loopstart 0
//@@|     let ghost i = it.index@ as int; let ghost m0 = self.connections.map@;
//@@|     proof { assert(rv[i] == (conn_id, pattern)); }
//@@   loop 0
//@@|     invariant
//@@|         it.seq() == rv, it.history@ =~= it.seq().take(it.index@),
//@@|         self.pubsub == old(self).pubsub,
//@@|         self.connections.map@.dom() =~= old(self).connections.map@.dom(),
//@@|         forall|c: u64| #[trigger] old(self).connections.map@.contains_key(c) ==> publish_progress(old(self).connections.map@[c], self.connections.map@[c], owed_frames(rv, it.index@ as int, c, channel@, message@)),
    fn handle_publish(&mut self, parts: &[RespFrame]) -> (r: Result<RespFrame>)
        ensures
            final(self).pubsub == old(self).pubsub,
            final(self).connections.map@.dom() =~= old(self).connections.map@.dom(),
            // malformed PUBLISH: an error reply, nobody receives anything
            (parts@.len() != 3 || bulk_arg(parts@, 1) is None || bulk_arg(parts@, 2) is None) ==> (r matches Ok(f) && f is Error) && final(self).connections.map@ == old(self).connections.map@,
            // otherwise: every connection still present gets exactly the frames of ITS receiver entries, in order, appended
            // to what it had; nothing else about any connection changes; the reply is the number of receiver entries
            (parts@.len() == 3 && bulk_arg(parts@, 1) is Some && bulk_arg(parts@, 2) is Some && r is Ok) ==> {
                let rv = spec_receivers(old(self).pubsub.g@, bulk_arg(parts@, 1)->Some_0);
                &&& r->Ok_0 == RespFrame::Integer(rv.len() as i64)
                &&& forall|c: u64| #[trigger] old(self).connections.map@.contains_key(c) ==> publish_progress(old(self).connections.map@[c], final(self).connections.map@[c],
                        owed_frames(rv, rv.len() as int, c, bulk_arg(parts@, 1)->Some_0, bulk_arg(parts@, 2)->Some_0))
            },
//@@ body
//@@ end
}
/// connection entry after a publish: same as before except that `frames` were appended to its output
pub open spec fn publish_progress(o: Connection, f: Connection, frames: Seq<RespFrame>) -> bool {
    f.db_index == o.db_index && f.transaction_state == o.transaction_state && f.state == o.state && f.is_monitoring == o.is_monitoring
    && f.out.sent@ =~= o.out.sent@ + frames
}

} // verus!
fn main() {}
