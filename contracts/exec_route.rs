//@@ include contracts/inc_cmd_header.rs
verus! {
// OPAQUE stand-ins for the per-category command enums: `execute` only passes them on
pub struct StringCommand { pub g: Ghost<int> }
pub struct ListCommand { pub g: Ghost<int> }
pub struct SetCommand { pub g: Ghost<int> }
pub struct HashCommand { pub g: Ghost<int> }
pub struct SortedSetCommand { pub g: Ghost<int> }
pub struct KeyCommand { pub g: Ghost<int> }
pub struct ServerCommand { pub g: Ghost<int> }
pub struct StreamCommand { pub g: Ghost<int> }
pub struct ScanCommand { pub g: Ghost<int> }
pub struct DatabaseCommand { pub g: Ghost<int> }
pub struct ConsumerGroupCommand { pub g: Ghost<int> }
pub struct PersistenceCommand { pub g: Ghost<int> }
pub struct BitCommand { pub g: Ghost<int> }
pub struct ConfigCommand { pub g: Ghost<int> }
//@@ item src/storage/commands/executor.rs Command
//@@ item src/storage/commands/executor.rs ParsedCommand
//@@ item src/storage/commands/executor.rs ConnectionContext
/// MODEL of UnifiedCommandExecutor for the routing function: the connection context, and a ghost log of (category, database) of the
/// execute_* function that ran
pub struct UnifiedCommandExecutor { pub conn_context: Option<ConnectionContext>, pub ran: Ghost<Seq<(int, int)>> }
pub open spec fn cat_of(c: Command) -> int {
    match c {
        Command::String(_) => 0,
        Command::List(_) => 1,
        Command::Set(_) => 2,
        Command::Hash(_) => 3,
        Command::SortedSet(_) => 4,
        Command::Key(_) => 5,
        Command::Server(_) => 6,
        Command::Stream(_) => 7,
        Command::Scan(_) => 8,
        Command::Database(_) => 9,
        Command::ConsumerGroup(_) => 10,
        Command::Persistence(_) => 11,
        Command::Bit(_) => 12,
        Command::Config(_) => 13,
    }
}
pub open spec fn takes_db(c: Command) -> bool {
    match c {
        Command::String(_) => true,
        Command::List(_) => true,
        Command::Set(_) => true,
        Command::Hash(_) => true,
        Command::SortedSet(_) => true,
        Command::Key(_) => true,
        Command::Server(_) => false,
        Command::Stream(_) => true,
        Command::Scan(_) => true,
        Command::Database(_) => true,
        Command::ConsumerGroup(_) => true,
        Command::Persistence(_) => false,
        Command::Bit(_) => true,
        Command::Config(_) => false,
    }
}
/// `cmd.db_override.or_else(|| self.conn_context.as_ref().map(|c| c.db_index)).unwrap_or(0)` (RXPR site; Option adapters with closures)
pub fn verif_pick_db(over: Option<usize>, ctx: &Option<ConnectionContext>) -> (r: usize)
    ensures r == (match over { Some(d) => d, None => match *ctx { Some(c) => c.db_index, None => 0usize } }),
{ match over { Some(d) => d, None => match ctx { Some(c) => c.db_index, None => 0 } } }

impl UnifiedCommandExecutor {
    /// MODEL of execute_string: records the category and the database it was given
    #[verifier::external_body]
    fn execute_string(&mut self, db: usize, cmd: StringCommand) -> (r: Result<RespFrame>)
        ensures final(self).ran@ == old(self).ran@.push((0int, db as int)), final(self).conn_context == old(self).conn_context,
    { unimplemented!() }
    /// MODEL of execute_list: records the category and the database it was given
    #[verifier::external_body]
    fn execute_list(&mut self, db: usize, cmd: ListCommand) -> (r: Result<RespFrame>)
        ensures final(self).ran@ == old(self).ran@.push((1int, db as int)), final(self).conn_context == old(self).conn_context,
    { unimplemented!() }
    /// MODEL of execute_set: records the category and the database it was given
    #[verifier::external_body]
    fn execute_set(&mut self, db: usize, cmd: SetCommand) -> (r: Result<RespFrame>)
        ensures final(self).ran@ == old(self).ran@.push((2int, db as int)), final(self).conn_context == old(self).conn_context,
    { unimplemented!() }
    /// MODEL of execute_hash: records the category and the database it was given
    #[verifier::external_body]
    fn execute_hash(&mut self, db: usize, cmd: HashCommand) -> (r: Result<RespFrame>)
        ensures final(self).ran@ == old(self).ran@.push((3int, db as int)), final(self).conn_context == old(self).conn_context,
    { unimplemented!() }
    /// MODEL of execute_sorted_set: records the category and the database it was given
    #[verifier::external_body]
    fn execute_sorted_set(&mut self, db: usize, cmd: SortedSetCommand) -> (r: Result<RespFrame>)
        ensures final(self).ran@ == old(self).ran@.push((4int, db as int)), final(self).conn_context == old(self).conn_context,
    { unimplemented!() }
    /// MODEL of execute_key: records the category and the database it was given
    #[verifier::external_body]
    fn execute_key(&mut self, db: usize, cmd: KeyCommand) -> (r: Result<RespFrame>)
        ensures final(self).ran@ == old(self).ran@.push((5int, db as int)), final(self).conn_context == old(self).conn_context,
    { unimplemented!() }
    /// MODEL of execute_server: records that this category ran (it takes no database)
    #[verifier::external_body]
    fn execute_server(&mut self, cmd: ServerCommand) -> (r: Result<RespFrame>)
        ensures final(self).ran@ == old(self).ran@.push((6int, -1int)), final(self).conn_context == old(self).conn_context,
    { unimplemented!() }
    /// MODEL of execute_stream: records the category and the database it was given
    #[verifier::external_body]
    fn execute_stream(&mut self, db: usize, cmd: StreamCommand) -> (r: Result<RespFrame>)
        ensures final(self).ran@ == old(self).ran@.push((7int, db as int)), final(self).conn_context == old(self).conn_context,
    { unimplemented!() }
    /// MODEL of execute_scan: records the category and the database it was given
    #[verifier::external_body]
    fn execute_scan(&mut self, db: usize, cmd: ScanCommand) -> (r: Result<RespFrame>)
        ensures final(self).ran@ == old(self).ran@.push((8int, db as int)), final(self).conn_context == old(self).conn_context,
    { unimplemented!() }
    /// MODEL of execute_database (FLUSHDB, DBSIZE, KEYS act on ONE database): records the category and the database it was given
    #[verifier::external_body]
    fn execute_database(&mut self, db: usize, cmd: DatabaseCommand) -> (r: Result<RespFrame>)
        ensures final(self).ran@ == old(self).ran@.push((9int, db as int)), final(self).conn_context == old(self).conn_context,
    { unimplemented!() }
    /// MODEL of execute_consumer_group: records the category and the database it was given
    #[verifier::external_body]
    fn execute_consumer_group(&mut self, db: usize, cmd: ConsumerGroupCommand) -> (r: Result<RespFrame>)
        ensures final(self).ran@ == old(self).ran@.push((10int, db as int)), final(self).conn_context == old(self).conn_context,
    { unimplemented!() }
    /// MODEL of execute_persistence: records that this category ran (it takes no database)
    #[verifier::external_body]
    fn execute_persistence(&mut self, cmd: PersistenceCommand) -> (r: Result<RespFrame>)
        ensures final(self).ran@ == old(self).ran@.push((11int, -1int)), final(self).conn_context == old(self).conn_context,
    { unimplemented!() }
    /// MODEL of execute_bit: records the category and the database it was given
    #[verifier::external_body]
    fn execute_bit(&mut self, db: usize, cmd: BitCommand) -> (r: Result<RespFrame>)
        ensures final(self).ran@ == old(self).ran@.push((12int, db as int)), final(self).conn_context == old(self).conn_context,
    { unimplemented!() }
    /// MODEL of execute_config: records that this category ran (it takes no database)
    #[verifier::external_body]
    fn execute_config(&mut self, cmd: ConfigCommand) -> (r: Result<RespFrame>)
        ensures final(self).ran@ == old(self).ran@.push((13int, -1int)), final(self).conn_context == old(self).conn_context,
    { unimplemented!() }

//@@ unit exec_execute fn src/storage/commands/executor.rs UnifiedCommandExecutor::execute
//@@   params drop "&self" add "&mut self"
//@@   rewrite RXPR "cmd.db_override .or_else(|| self.conn_context.as_ref().map(|c| c.db_index)) .unwrap_or(0)" "verif_pick_db(cmd.db_override, &self.conn_context)"
    fn execute(&mut self, cmd: ParsedCommand) -> (r: Result<RespFrame>)
        ensures
            // C12 / C18: a command reached through redis.call runs in exactly one category function — its own — and on the database of
            // the connection context the caller attached (an explicit override first; 0 only when there is neither)
            final(self).ran@ == old(self).ran@.push((cat_of(cmd.command), if takes_db(cmd.command) { (match cmd.db_override { Some(d) => d as int, None => match old(self).conn_context { Some(c) => c.db_index as int, None => 0int } }) } else { -1int })),
//@@ body
//@@ end
}

/// MODEL of CommandParser::parse for the adapter below: some parsed command (the parsers themselves are group c12_parse)
pub struct CommandParser;
impl CommandParser {
    #[verifier::external_body]
    pub fn parse(frames: &Vec<RespFrame>) -> (r: Result<ParsedCommand>) { unimplemented!() }
}
/// `args.into_iter().map(|s| RespFrame::bulk_string(s)).collect()` (RXPR site): one bulk string per argument
#[verifier::external_body]
pub fn verif_args_to_frames(args: Vec<String>) -> (r: Vec<RespFrame>) ensures r@.len() == args@.len(), { unimplemented!() }
/// MODEL of LuaCommandAdapter: the executor it wraps
pub struct LuaCommandAdapter { pub executor: UnifiedCommandExecutor }
impl LuaCommandAdapter {
//@@ unit exec_lua_command fn src/storage/commands/executor.rs LuaCommandAdapter::execute_lua_command
//@@   params drop "&self" add "&mut self"
//@@   rewrite RXPR "args .into_iter() .map(|s| RespFrame::bulk_string(s)) .collect()" "verif_args_to_frames(args)"
    fn execute_lua_command(&mut self, args: Vec<String>, db_index: usize) -> (r: Result<RespFrame>)
        ensures
            // C18 / C12: a command issued by a script runs on the database the script was started on (the database selected on the
            // connection that sent EVAL / EVALSHA), whatever connection context the executor carries: either nothing ran (the command
            // did not parse) or exactly one category function ran, and if it takes a database it was given db_index
            final(self).executor.ran@ == old(self).executor.ran@
                || (final(self).executor.ran@.len() == old(self).executor.ran@.len() + 1 && final(self).executor.ran@.take(old(self).executor.ran@.len() as int) =~= old(self).executor.ran@
                    && (final(self).executor.ran@.last().1 == db_index as int || final(self).executor.ran@.last().1 == -1)),
//@@ body
//@@ end
}
} // verus!
fn main() {}
