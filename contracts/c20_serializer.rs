//@@ include prelude/head.rs
use std::sync::Arc;
//@@ include prelude/slice.rs
//@@ include prelude/strnum.rs
verus! {
broadcast use {group_slice, group_strnum};
//@@ item src/error.rs FerrousError
//@@ item src/error.rs CommandError
//@@ item src/error.rs StorageError
//@@ item src/error.rs ScriptError
//@@ item src/protocol/resp.rs Bytes
//@@ item src/protocol/resp.rs RespFrame
pub type Result<T> = std::result::Result<T, FerrousError>;
}
//@@ include spec/resp.rs
verus! {
/// STUB of the byte sink `W: Write`: ASSUMED CONTRACT of write_all — on Ok the bytes are appended (std::io::Write contract);
/// the io::Error -> FerrousError conversion of `?` is folded into the stub's error type.
pub struct Sink { pub out: Ghost<Seq<u8>> }
impl Sink {
    #[verifier::external_body]
    pub fn write_all(&mut self, buf: &[u8]) -> (r: Result<()>)
        ensures r is Ok ==> final(self).out@ == old(self).out@ + buf@,
    { unimplemented!() }
}
/// decimal text of a length / integer, as bytes (`n.to_string().as_bytes()` at RXPR sites; body = that expression)
pub uninterp spec fn usize_str(n: usize) -> Seq<u8>;
#[verifier::external_body]
pub fn verif_usize_dec(n: usize) -> (r: Vec<u8>) ensures r@ == usize_str(n), { n.to_string().into_bytes() }
#[verifier::external_body]
pub fn verif_i64_dec(n: i64) -> (r: Vec<u8>) ensures r@ == i64_str(n), { n.to_string().into_bytes() }

pub open spec fn crlf() -> Seq<u8> { seq![13u8, 10u8] }
/// wire form of a bulk string
pub open spec fn enc_bulk(b: Seq<u8>) -> Seq<u8> { seq![36u8] + usize_str(b.len() as usize) + crlf() + b + crlf() }
pub open spec fn enc_int(n: i64) -> Seq<u8> { seq![58u8] + i64_str(n) + crlf() }
/// payload of a line frame as it appears on the wire: CR and LF replaced by spaces (they would end the frame early)
pub open spec fn sanitize(b: Seq<u8>) -> Seq<u8> { Seq::new(b.len(), |i: int| if b[i] == 13u8 || b[i] == 10u8 { 32u8 } else { b[i] }) }
pub open spec fn enc_simple(b: Seq<u8>) -> Seq<u8> { seq![43u8] + sanitize(b) + crlf() }
pub open spec fn enc_error(b: Seq<u8>) -> Seq<u8> { seq![45u8] + sanitize(b) + crlf() }

//@@ unit sanitize_line fn src/protocol/serializer.rs sanitize_line
//@@   rewrite RFOR 0 it
//@@   loop 0
//@@|     invariant clean@ =~= sanitize(bytes@).subrange(0, it.index@ as int), it.index@ <= bytes@.len(),
fn sanitize_line(bytes: &[u8]) -> (clean: Vec<u8>)
    ensures clean@ == sanitize(bytes@),
//@@ body
//@@ end


//@@ unit ser_bulk_some arm src/protocol/serializer.rs serialize_resp_frame "Some(bytes)"
//@@   tail Ok(())
//@@   rewrite RBSTR
//@@   rewrite RXPR "bytes.len().to_string().as_bytes()" "verif_usize_dec(bytes.len()).as_slice()"
fn ser_bulk_some(bytes: &Arc<Vec<u8>>, writer: &mut Sink) -> (r: Result<()>)
    ensures r is Ok ==> final(writer).out@ =~= old(writer).out@ + enc_bulk(bytes@),
//@@ body
//@@ end

//@@ unit ser_integer arm src/protocol/serializer.rs serialize_resp_frame "RespFrame::Integer(n)"
//@@   tail Ok(())
//@@   rewrite RBSTR
//@@   rewrite RXPR "n.to_string().as_bytes()" "verif_i64_dec(*n).as_slice()"
fn ser_integer(n: &i64, writer: &mut Sink) -> (r: Result<()>)
    ensures r is Ok ==> final(writer).out@ =~= old(writer).out@ + enc_int(*n),
//@@ body
//@@ end

//@@ unit ser_simple arm src/protocol/serializer.rs serialize_resp_frame "RespFrame::SimpleString(bytes)"
//@@   tail Ok(())
//@@   rewrite RBSTR
fn ser_simple(bytes: &Arc<Vec<u8>>, writer: &mut Sink) -> (r: Result<()>)
    ensures r is Ok ==> final(writer).out@ =~= old(writer).out@ + enc_simple(bytes@),
//@@ body
//@@ end

//@@ unit ser_error arm src/protocol/serializer.rs serialize_resp_frame "RespFrame::Error(bytes)"
//@@   tail Ok(())
//@@   rewrite RBSTR
fn ser_error(bytes: &Arc<Vec<u8>>, writer: &mut Sink) -> (r: Result<()>)
    ensures r is Ok ==> final(writer).out@ =~= old(writer).out@ + enc_error(bytes@),
//@@ body
//@@ end

// ---- FRAMING (C05/C20): whatever bytes a simple string or error carries, its encoding contains exactly one CRLF, at the
// end — request content echoed into such a reply cannot change the framing — and the line parser reads back the
// (sanitised) payload and consumes exactly the encoding, whatever follows.
proof fn lemma_line_frame_roundtrip(b: Seq<u8>, rest: Seq<u8>, tag: u8)
    ensures spec_line(seq![tag] + sanitize(b) + crlf() + rest, 1) == Some((sanitize(b), (1 + b.len() + 2) as int)),
{
    let s = sanitize(b);
    let all = seq![tag] + s + crlf() + rest;
    let h: int = 1 + s.len() as int;
    assert(all[h] == 13u8 && all[h + 1] == 10u8);
    assert forall|j: int| 1 <= j < h implies !is_crlf_at(all, j) by { assert(all[j] == s[j - 1]); }
    lemma_first_crlf_unique(all, 1, h);
    assert(all.subrange(1, h) =~= s);
}

// ---- ROUND TRIP over the two contracts (serializer arm above; parser units of c20_parser prove parse == spec_bulk):
// a bulk string of ANY content (binary, CR/LF inside) and any length parses back to exactly its payload and consumes
// exactly the encoding, whatever follows.  ASSUMED about decimal printing: digits only, and print/parse are inverse.
pub broadcast axiom fn axiom_usize_str_digits(n: usize)
    ensures #![trigger usize_str(n)] usize_str(n).len() >= 1, forall|i: int| 0 <= i < usize_str(n).len() ==> 48 <= #[trigger] usize_str(n)[i] <= 57,
        spec_parse_i64(usize_str(n)) == Some(n as i64) || n > i64::MAX;

proof fn lemma_bulk_roundtrip(b: Seq<u8>, rest: Seq<u8>)
    requires b.len() <= i64::MAX,
    ensures spec_bulk(enc_bulk(b) + rest) == BulkSpec::Data(b, enc_bulk(b).len() as int),
{
    broadcast use axiom_usize_str_digits;
    let n = b.len() as usize;
    let nn: int = b.len() as int;
    let d = usize_str(n);
    let e = enc_bulk(b);
    let all = e + rest;
    let h: int = 1 + d.len() as int;          // position of the header CRLF
    assert(all[h] == 13u8 && all[h + 1] == 10u8) by { assert(e[h] == 13u8); assert(e[h + 1] == 10u8); }
    assert forall|j: int| 1 <= j < h implies !is_crlf_at(all, j) by { assert(all[j] == d[j - 1]); }
    lemma_first_crlf_unique(all, 1, h);
    assert(all.subrange(1, h) =~= d);
    let hh: int = h + 2;
    assert(all.len() >= hh + nn + 2);
    assert(is_crlf_at(all, hh + nn)) by { assert(e[hh + nn] == 13u8); assert(e[hh + nn + 1] == 10u8); assert(all[hh + nn] == e[hh + nn]); assert(all[hh + nn + 1] == e[hh + nn + 1]); }
    assert(all.subrange(hh, hh + nn) =~= b);
    assert(e.len() == hh + nn + 2);
}

} // verus!
fn main() {}
