//@@ include prelude/head.rs
//@@ include prelude/cmp.rs
//@@ include prelude/slice.rs
//@@ include spec/strings.rs
verus! {

//@@ unit getrange_arm arm src/storage/engine.rs StorageEngine::getrange "Value::String(bytes)"
pub fn getrange_arm(bytes: &Vec<u8>, start: isize, end: isize) -> (substring: Vec<u8>)
    ensures substring@ == spec_getrange(bytes@, start as int, end as int),
//@@ body
//@@ end

} // verus!
fn main() {}
