//@@ include contracts/inc_shard_header.rs
//@@ include contracts/inc_value_units.rs
//@@ include spec/lists.rs
//@@ include spec/ranges.rs
verus! {
/// the list stored under `key`, if the key holds a list
spec fn list_at(s: SV, key: Vec<u8>) -> Option<Seq<Vec<u8>>> {
    if s.data.contains_key(key) { match s.data[key].value { Value::List(l) => Some(l@), _ => None } } else { None }
}
spec fn holds_non_list(s: SV, key: Vec<u8>) -> bool {
    s.data.contains_key(key) && !(s.data[key].value is List)
}

impl StorageEngine {
//@@ unit lpush fn src/storage/engine.rs StorageEngine::lpush
//@@   params drop "db: DatabaseIndex" add "shard_guard: &mut DatabaseShard"
//@@   rewrite R2
//@@   rewrite RFOR 0 it
//@@   rewrite RFOR 1 it
//@@   loop 0
//@@|     invariant list@ == rev_prefix(elements@, it.index@ as int) + old_list,
//@@   loop 1
//@@|     invariant list@ == rev_prefix(elements@, it.index@ as int),
//@@   at "for element in elements"
//@@| let ghost old_list = list@;
    fn lpush(&self, shard_guard: &mut DatabaseShard, key: Key, elements: Vec<Vec<u8>>) -> (r: Result<usize>)
        requires elements@.len() > 0,     // arity check of the handler (unverified surroundings)
        ensures
            coll_ok(eff(*old(shard_guard), key)) ==> coll_ok(sv(*final(shard_guard))),
            step_ok(eff(*old(shard_guard), key), sv(*final(shard_guard)), key),
            holds_non_list(eff(*old(shard_guard), key), key) ==> r is Err && unchanged(eff(*old(shard_guard), key), sv(*final(shard_guard))),
            // existing list: elements go to the head one after another; TTL survives
            list_at(eff(*old(shard_guard), key), key) matches Some(l) ==> r == Ok::<usize, FerrousError>((l.len() + elements@.len()) as usize)
                && list_at(sv(*final(shard_guard)), key) == Some(spec_lpush(l, elements@))
                && sv(*final(shard_guard)).data[key].metadata == eff(*old(shard_guard), key).data[key].metadata,
            // absent: a new list without TTL
            !eff(*old(shard_guard), key).data.contains_key(key) ==> r == Ok::<usize, FerrousError>(elements@.len() as usize)
                && list_at(sv(*final(shard_guard)), key) == Some(spec_lpush(Seq::<Vec<u8>>::empty(), elements@))
                && sv(*final(shard_guard)).data[key].metadata.expires_at is None,
//@@ body
//@@ end

//@@ unit rpush fn src/storage/engine.rs StorageEngine::rpush
//@@   params drop "db: DatabaseIndex" add "shard_guard: &mut DatabaseShard"
//@@   rewrite R2
//@@   rewrite RFOR 0 it
//@@   rewrite RFOR 1 it
//@@   loop 0
//@@|     invariant list@ == old_list + elements@.subrange(0, it.index@ as int),
//@@   loop 1
//@@|     invariant list@ == elements@.subrange(0, it.index@ as int),
//@@   at "for element in elements"
//@@| let ghost old_list = list@;
    fn rpush(&self, shard_guard: &mut DatabaseShard, key: Key, elements: Vec<Vec<u8>>) -> (r: Result<usize>)
        requires elements@.len() > 0,     // arity check of the handler (unverified surroundings)
        ensures
            coll_ok(eff(*old(shard_guard), key)) ==> coll_ok(sv(*final(shard_guard))),
            step_ok(eff(*old(shard_guard), key), sv(*final(shard_guard)), key),
            holds_non_list(eff(*old(shard_guard), key), key) ==> r is Err && unchanged(eff(*old(shard_guard), key), sv(*final(shard_guard))),
            list_at(eff(*old(shard_guard), key), key) matches Some(l) ==> r == Ok::<usize, FerrousError>((l.len() + elements@.len()) as usize)
                && list_at(sv(*final(shard_guard)), key) == Some(spec_rpush(l, elements@))
                && sv(*final(shard_guard)).data[key].metadata == eff(*old(shard_guard), key).data[key].metadata,
            !eff(*old(shard_guard), key).data.contains_key(key) ==> r == Ok::<usize, FerrousError>(elements@.len() as usize)
                && list_at(sv(*final(shard_guard)), key) == Some(spec_rpush(Seq::<Vec<u8>>::empty(), elements@))
                && sv(*final(shard_guard)).data[key].metadata.expires_at is None,
//@@ body
//@@ end

//@@ unit lpop fn src/storage/engine.rs StorageEngine::lpop
//@@   params drop "db: DatabaseIndex" add "shard_guard: &mut DatabaseShard"
//@@   rewrite R2
    fn lpop(&self, shard_guard: &mut DatabaseShard, key: &[u8]) -> (r: Result<Option<Vec<u8>>>)
        requires coll_ok(eff(*old(shard_guard), key_of(key@))),
        ensures
            coll_ok(sv(*final(shard_guard))),
            step_ok(eff(*old(shard_guard), key_of(key@)), sv(*final(shard_guard)), key_of(key@)),
            holds_non_list(eff(*old(shard_guard), key_of(key@)), key_of(key@)) ==> r is Err && unchanged(eff(*old(shard_guard), key_of(key@)), sv(*final(shard_guard))),
            !eff(*old(shard_guard), key_of(key@)).data.contains_key(key_of(key@)) ==> r == Ok::<Option<Vec<u8>>, FerrousError>(None) && unchanged(eff(*old(shard_guard), key_of(key@)), sv(*final(shard_guard))),
            // the head is returned; the rest keeps its order; a list that becomes empty ceases to exist as a key
            list_at(eff(*old(shard_guard), key_of(key@)), key_of(key@)) matches Some(l) ==> l.len() > 0 ==> r == Ok::<Option<Vec<u8>>, FerrousError>(Some(l[0]))
                && (if l.len() == 1 { !sv(*final(shard_guard)).data.contains_key(key_of(key@)) }
                    else { list_at(sv(*final(shard_guard)), key_of(key@)) == Some(l.subrange(1, l.len() as int))
                           && sv(*final(shard_guard)).data[key_of(key@)].metadata == eff(*old(shard_guard), key_of(key@)).data[key_of(key@)].metadata }),
//@@ body
//@@ end

//@@ unit rpop fn src/storage/engine.rs StorageEngine::rpop
//@@   params drop "db: DatabaseIndex" add "shard_guard: &mut DatabaseShard"
//@@   rewrite R2
    fn rpop(&self, shard_guard: &mut DatabaseShard, key: &[u8]) -> (r: Result<Option<Vec<u8>>>)
        requires coll_ok(eff(*old(shard_guard), key_of(key@))),
        ensures
            coll_ok(sv(*final(shard_guard))),
            step_ok(eff(*old(shard_guard), key_of(key@)), sv(*final(shard_guard)), key_of(key@)),
            holds_non_list(eff(*old(shard_guard), key_of(key@)), key_of(key@)) ==> r is Err && unchanged(eff(*old(shard_guard), key_of(key@)), sv(*final(shard_guard))),
            !eff(*old(shard_guard), key_of(key@)).data.contains_key(key_of(key@)) ==> r == Ok::<Option<Vec<u8>>, FerrousError>(None) && unchanged(eff(*old(shard_guard), key_of(key@)), sv(*final(shard_guard))),
            list_at(eff(*old(shard_guard), key_of(key@)), key_of(key@)) matches Some(l) ==> l.len() > 0 ==> r == Ok::<Option<Vec<u8>>, FerrousError>(Some(l[l.len() - 1]))
                && (if l.len() == 1 { !sv(*final(shard_guard)).data.contains_key(key_of(key@)) }
                    else { list_at(sv(*final(shard_guard)), key_of(key@)) == Some(l.subrange(0, l.len() - 1))
                           && sv(*final(shard_guard)).data[key_of(key@)].metadata == eff(*old(shard_guard), key_of(key@)).data[key_of(key@)].metadata }),
//@@ body
//@@ end

//@@ unit llen fn src/storage/engine.rs StorageEngine::llen
//@@   params drop "db: DatabaseIndex" add "shard_guard: &mut DatabaseShard"
//@@   rewrite R2
    fn llen(&self, shard_guard: &mut DatabaseShard, key: &[u8]) -> (r: Result<usize>)
        ensures
            unchanged(eff(*old(shard_guard), key_of(key@)), sv(*final(shard_guard))),
            holds_non_list(eff(*old(shard_guard), key_of(key@)), key_of(key@)) ==> r is Err,
            !eff(*old(shard_guard), key_of(key@)).data.contains_key(key_of(key@)) ==> r == Ok::<usize, FerrousError>(0),
            list_at(eff(*old(shard_guard), key_of(key@)), key_of(key@)) matches Some(l) ==> r == Ok::<usize, FerrousError>(l.len() as usize),
//@@ body
//@@ end

//@@ unit lset fn src/storage/engine.rs StorageEngine::lset
//@@   params drop "db: DatabaseIndex" add "shard_guard: &mut DatabaseShard"
//@@   rewrite R2
    fn lset(&self, shard_guard: &mut DatabaseShard, key: Key, index: isize, value: Vec<u8>) -> (r: Result<()>)
        ensures
            coll_ok(eff(*old(shard_guard), key)) ==> coll_ok(sv(*final(shard_guard))),
            step_ok(eff(*old(shard_guard), key), sv(*final(shard_guard)), key),
            // refused (no such key, wrong type, index out of range): nothing changes
            r is Err ==> unchanged(eff(*old(shard_guard), key), sv(*final(shard_guard))),
            !eff(*old(shard_guard), key).data.contains_key(key) ==> r is Err,
            holds_non_list(eff(*old(shard_guard), key), key) ==> r is Err,
            list_at(eff(*old(shard_guard), key), key) matches Some(l) ==> (match spec_index(l.len() as int, index as int) {
                None => r is Err,
                Some(i) => r is Ok && list_at(sv(*final(shard_guard)), key) == Some(l.update(i, value))
                    && sv(*final(shard_guard)).data[key].metadata == eff(*old(shard_guard), key).data[key].metadata,
            }),
//@@ body
//@@ end

// LINDEX: the element at the Redis index (negative = from the tail), nil outside the list; a read through the lazy purge
//@@ unit lindex fn src/storage/engine.rs StorageEngine::lindex
//@@   params drop "db: DatabaseIndex" add "shard_guard: &mut DatabaseShard"
//@@   rewrite R2
//@@   rewrite RT "list.get(idx as usize).cloned()" "verif_deque_get_cloned(list, idx as usize)"
    fn lindex(&self, shard_guard: &mut DatabaseShard, key: &[u8], index: isize) -> (r: Result<Option<Vec<u8>>>)
        ensures
            unchanged(eff(*old(shard_guard), key_of(key@)), sv(*final(shard_guard))),
            holds_non_list(eff(*old(shard_guard), key_of(key@)), key_of(key@)) ==> r is Err,
            !eff(*old(shard_guard), key_of(key@)).data.contains_key(key_of(key@)) ==> r == Ok::<Option<Vec<u8>>, FerrousError>(None),
            list_at(eff(*old(shard_guard), key_of(key@)), key_of(key@)) matches Some(l) ==> (match spec_index(l.len() as int, index as int) {
                None => r == Ok::<Option<Vec<u8>>, FerrousError>(None),
                Some(i) => r matches Ok(Some(v)) && v == l[i],
            }),
//@@ body
//@@ end
}
/// `list.get(i).cloned()` on the VecDeque (RT site): a copy of the i-th element, None past the end
#[verifier::external_body]
pub fn verif_deque_get_cloned(l: &VecDeque<Vec<u8>>, i: usize) -> (r: Option<Vec<u8>>)
    ensures i < l@.len() ==> r == Some(l@[i as int]), i >= l@.len() ==> r is None,
{ unimplemented!() }

} // verus!
fn main() {}
