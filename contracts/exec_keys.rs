//@@ include contracts/inc_cmd_header.rs
//@@ include prelude/str_eq.rs
verus! {
//@@ include contracts/inc_set_grammar.rs
/// MODEL of UnifiedCommandExecutor (the implementation scripts reach through redis.call): the storage engine model
pub struct UnifiedCommandExecutor { pub storage: EngineModel }
impl UnifiedCommandExecutor {
//@@ unit exec_ttl arm src/storage/commands/executor.rs UnifiedCommandExecutor::execute_key "KeyCommand::Ttl { key }"
    fn exec_ttl(&mut self, db: usize, key: Vec<u8>) -> (r: Result<RespFrame>)
        ensures (r is Ok || !mem_exhausted(old(self).storage)) ==> ({
                let k = key@;
                &&& final(self).storage.ds@ == old(self).storage.ds@ && final(self).storage.ttl@ == old(self).storage.ttl@
                // C12 / C02: exactly what the direct TTL answers (handle_ttl): -2 absent, -1 no TTL, else the remaining whole seconds rounded up
                &&& !old(self).storage.ds@.contains_key((db as int, k)) ==> r->Ok_0 == RespFrame::Integer(-2i64)
                &&& old(self).storage.ds@.contains_key((db as int, k)) && !old(self).storage.ttl@.contains_key((db as int, k)) ==> r->Ok_0 == RespFrame::Integer(-1i64)
                &&& old(self).storage.ds@.contains_key((db as int, k)) && old(self).storage.ttl@.contains_key((db as int, k)) ==>
                        r->Ok_0 == RespFrame::Integer(ttl_seconds(remaining_ns(old(self).storage, db as int, k)) as i64)
            }),
//@@ body
//@@ end

//@@ unit exec_renamenx arm src/storage/commands/executor.rs UnifiedCommandExecutor::execute_key "KeyCommand::RenameNx { old_key, new_key }"
//@@   rewrite R3
    fn exec_renamenx(&mut self, db: usize, old_key: Vec<u8>, new_key: Vec<u8>) -> (r: Result<RespFrame>)
        ensures (r is Ok || !mem_exhausted(old(self).storage)) ==> ({
                let a = (db as int, old_key@); let b = (db as int, new_key@);
                let ds = old(self).storage.ds@; let ttl = old(self).storage.ttl@;
                // C12: exactly what the direct RENAMENX does (handle_renamenx): no such key -> error; target exists -> 0 and nothing
                // happens; otherwise the value and its TTL move and the reply is 1
                if !ds.contains_key(a) { !(r matches Ok(fr) && !(fr is Error)) && final(self).storage.ds@ == ds && final(self).storage.ttl@ == ttl }
                else if ds.contains_key(b) { r matches Ok(fr) && fr == RespFrame::Integer(0i64) && final(self).storage.ds@ == ds && final(self).storage.ttl@ == ttl }
                else { r matches Ok(fr) && fr == RespFrame::Integer(1i64) && final(self).storage.ds@ == ds.remove(a).insert(b, ds[a])
                        && final(self).storage.ttl@ == (if ttl.contains_key(a) { ttl.remove(a).insert(b, ttl[a]) } else { ttl.remove(a).remove(b) }) }
            }),
//@@ body
//@@ end
}
} // verus!
fn main() {}
