//@@ include contracts/inc_cmd_header.rs
//@@ include prelude/str_eq.rs
verus! {
//@@ include contracts/inc_set_grammar.rs
/// DEL / EXISTS over the key list the script path's parser hands on (the direct handlers are proved against del_upto / exists_upto over
/// the argument frames; the lemmas say the two forms agree when every argument is a bulk string — the only shape a script can produce)
pub open spec fn del_vec(ds: DS, ttl: TTL, db: int, keys: Seq<Vec<u8>>, n: int) -> (int, DS, TTL)
    decreases n
{
    if n <= 0 { (0, ds, ttl) } else {
        let p = del_vec(ds, ttl, db, keys, n - 1);
        (p.0 + (if p.1.contains_key((db, keys[n - 1]@)) { 1int } else { 0int }), p.1.remove((db, keys[n - 1]@)), p.2.remove((db, keys[n - 1]@)))
    }
}
pub open spec fn exists_vec(ds: DS, db: int, keys: Seq<Vec<u8>>, n: int) -> int
    decreases n
{
    if n <= 0 { 0 } else { exists_vec(ds, db, keys, n - 1) + (if ds.contains_key((db, keys[n - 1]@)) { 1int } else { 0int }) }
}
pub proof fn lemma_del_vec_is_upto(ds: DS, ttl: TTL, db: int, parts: Seq<RespFrame>, n: int)
    requires all_bulk(parts, 1), 0 <= n <= parts.len() - 1,
    ensures del_vec(ds, ttl, db, args_from(parts, 1), n) == del_upto(ds, ttl, db, parts, n + 1),
    decreases n
{
    if n > 0 { lemma_del_vec_is_upto(ds, ttl, db, parts, n - 1); assert(parts[n] matches RespFrame::BulkString(Some(_))); }
}
pub proof fn lemma_exists_vec_is_upto(ds: DS, db: int, parts: Seq<RespFrame>, n: int)
    requires all_bulk(parts, 1), 0 <= n <= parts.len() - 1,
    ensures exists_vec(ds, db, args_from(parts, 1), n) == exists_upto(ds, db, parts, n + 1),
    decreases n
{
    if n > 0 { lemma_exists_vec_is_upto(ds, db, parts, n - 1); assert(parts[n] matches RespFrame::BulkString(Some(_))); }
}
/// MODEL of UnifiedCommandExecutor (the implementation scripts reach through redis.call): the storage engine model
pub struct UnifiedCommandExecutor { pub storage: EngineModel }
impl UnifiedCommandExecutor {
//@@ unit exec_ttl arm src/storage/commands/executor.rs UnifiedCommandExecutor::execute_key "KeyCommand::Ttl { key }"
    fn exec_ttl(&mut self, db: usize, key: Vec<u8>) -> (r: Result<RespFrame>)
        ensures (r is Ok || !mem_exhausted(old(self).storage)) ==> ({
                let k = key@;
                &&& final(self).storage.ds@ == old(self).storage.ds@ && final(self).storage.ttl@ == old(self).storage.ttl@
                // C12 / C02: exactly what the direct TTL answers (handle_ttl): -2 absent, -1 no TTL, else the remaining whole seconds rounded up
                &&& !old(self).storage.ds@.contains_key((db as int, k)) ==> r->Ok_0 == RespFrame::Integer(-2i64)
                &&& old(self).storage.ds@.contains_key((db as int, k)) && !old(self).storage.ttl@.contains_key((db as int, k)) ==> r->Ok_0 == RespFrame::Integer(-1i64)
                &&& old(self).storage.ds@.contains_key((db as int, k)) && old(self).storage.ttl@.contains_key((db as int, k)) ==>
                        r->Ok_0 == RespFrame::Integer(ttl_seconds(remaining_ns(old(self).storage, db as int, k)) as i64)
            }),
//@@ body
//@@ end

//@@ unit exec_renamenx arm src/storage/commands/executor.rs UnifiedCommandExecutor::execute_key "KeyCommand::RenameNx { old_key, new_key }"
//@@   rewrite R3
    fn exec_renamenx(&mut self, db: usize, old_key: Vec<u8>, new_key: Vec<u8>) -> (r: Result<RespFrame>)
        ensures (r is Ok || !mem_exhausted(old(self).storage)) ==> ({
                let a = (db as int, old_key@); let b = (db as int, new_key@);
                let ds = old(self).storage.ds@; let ttl = old(self).storage.ttl@;
                // C12: exactly what the direct RENAMENX does (handle_renamenx): no such key -> error; target exists -> 0 and nothing
                // happens; otherwise the value and its TTL move and the reply is 1
                if !ds.contains_key(a) { !(r matches Ok(fr) && !(fr is Error)) && final(self).storage.ds@ == ds && final(self).storage.ttl@ == ttl }
                else if ds.contains_key(b) { r matches Ok(fr) && fr == RespFrame::Integer(0i64) && final(self).storage.ds@ == ds && final(self).storage.ttl@ == ttl }
                else { r matches Ok(fr) && fr == RespFrame::Integer(1i64) && final(self).storage.ds@ == ds.remove(a).insert(b, ds[a])
                        && final(self).storage.ttl@ == (if ttl.contains_key(a) { ttl.remove(a).insert(b, ttl[a]) } else { ttl.remove(a).remove(b) }) }
            }),
//@@ body
//@@ end

//@@ unit exec_expire arm src/storage/commands/executor.rs UnifiedCommandExecutor::execute_key "KeyCommand::Expire { key, seconds }"
    fn exec_expire(&mut self, db: usize, key: Vec<u8>, seconds: i64) -> (r: Result<RespFrame>)
        ensures (r is Ok || !mem_exhausted(old(self).storage)) ==> ({
                let k = key@; let present = old(self).storage.ds@.contains_key((db as int, k));
                // C12 / C02: exactly the direct EXPIRE (handle_expire): a time that is not in the future deletes the key at once;
                // otherwise a present key gets exactly that many seconds; the reply says whether the key was there
                &&& r matches Ok(fr) && fr == RespFrame::Integer(if present { 1i64 } else { 0i64 })
                &&& seconds <= 0 ==> final(self).storage.ds@ == old(self).storage.ds@.remove((db as int, k)) && final(self).storage.ttl@ == old(self).storage.ttl@.remove((db as int, k))
                &&& seconds > 0 ==> final(self).storage.ds@ == old(self).storage.ds@
                        && final(self).storage.ttl@ == (if present { old(self).storage.ttl@.insert((db as int, k), seconds as int * 1_000_000_000) } else { old(self).storage.ttl@ })
            }),
//@@ body
//@@ end

//@@ unit exec_del arm src/storage/commands/executor.rs UnifiedCommandExecutor::execute_string "StringCommand::Del { keys }"
//@@   rewrite RT "let mut deleted = 0;" "let mut deleted: i64 = 0;"
//@@   rewrite RFOR 0 it
//@@   loop 0
//@@|     invariant
//@@|         it.seq() == keys@, it.history@ =~= it.seq().take(it.index@), 0 <= deleted <= it.index@,
//@@|         (deleted as int, self.storage.ds@, self.storage.ttl@) == del_vec(old(self).storage.ds@, old(self).storage.ttl@, db as int, keys@, it.index@ as int),
//@@|     ensures it.index@ == keys@.len(),
//@@   loopstart 0
//@@|     proof { assert(keys@[it.index@ as int] == key); reveal_with_fuel(del_vec, 2); }
    fn exec_del(&mut self, db: usize, keys: Vec<Vec<u8>>) -> (r: Result<RespFrame>)
        ensures ({
                let s = del_vec(old(self).storage.ds@, old(self).storage.ttl@, db as int, keys@, keys@.len() as int);
                // C12: the keys go left to right, a key named twice counts once, the reply is the number that were there (handle_del)
                r == Ok::<RespFrame, FerrousError>(RespFrame::Integer(s.0 as i64)) && final(self).storage.ds@ == s.1 && final(self).storage.ttl@ == s.2
            }),
//@@ body
//@@ end

//@@ unit exec_exists arm src/storage/commands/executor.rs UnifiedCommandExecutor::execute_key "KeyCommand::Exists { keys }"
//@@   rewrite RT "let mut count = 0;" "let mut count: i64 = 0;"
//@@   rewrite RFOR 0 it
//@@   loop 0
//@@|     invariant
//@@|         it.seq() == keys@, it.history@ =~= it.seq().take(it.index@), 0 <= count <= it.index@,
//@@|         self.storage.ds@ == old(self).storage.ds@, self.storage.ttl@ == old(self).storage.ttl@,
//@@|         count as int == exists_vec(old(self).storage.ds@, db as int, keys@, it.index@ as int),
//@@|     ensures it.index@ == keys@.len(),
//@@   loopstart 0
//@@|     proof { assert(keys@[it.index@ as int] == key); reveal_with_fuel(exists_vec, 2); }
    fn exec_exists(&mut self, db: usize, keys: Vec<Vec<u8>>) -> (r: Result<RespFrame>)
        ensures final(self).storage.ds@ == old(self).storage.ds@, final(self).storage.ttl@ == old(self).storage.ttl@,
            // C12: a key named twice counts twice (handle_exists)
            r == Ok::<RespFrame, FerrousError>(RespFrame::Integer(exists_vec(old(self).storage.ds@, db as int, keys@, keys@.len() as int) as i64)),
//@@ body
//@@ end
}
} // verus!
fn main() {}
