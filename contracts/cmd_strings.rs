//@@ include contracts/inc_shard_header.rs
use std::borrow::Cow;
//@@ include prelude/lossy.rs
//@@ include prelude/arc.rs
verus! {
//@@ item src/protocol/resp.rs Bytes
//@@ item src/protocol/resp.rs RespFrame

impl RespFrame {
    /// ASSUMED CONTRACT (`impl Into<Vec<u8>>` argument): builds an Error frame
    #[verifier::external_body]
    pub fn error<T>(msg: T) -> (r: Self) ensures r is Error, { unimplemented!() }
//@@ unit resp_from_bytes fn src/protocol/resp.rs RespFrame::from_bytes
    pub fn from_bytes(bytes: Vec<u8>) -> (r: Self)
        ensures r == RespFrame::BulkString(Some(Arc::new(bytes))),
//@@ body
//@@ end
//@@ unit resp_null_bulk fn src/protocol/resp.rs RespFrame::null_bulk
    pub fn null_bulk() -> (r: Self)
        ensures r == RespFrame::BulkString(None),
//@@ body
//@@ end
}
}
//@@ include spec/strings.rs
//@@ include spec/dataset.rs
//@@ include prelude/engine_model.rs
verus! {
/// argument i of the command is a bulk string with these bytes
pub open spec fn arg(parts: Seq<RespFrame>, i: int) -> Option<Seq<u8>> {
    if 0 <= i < parts.len() { match parts[i] { RespFrame::BulkString(Some(b)) => Some(b@), _ => None } } else { None }
}
pub open spec fn bulk_reply(r: RespFrame) -> Option<Option<Seq<u8>>> {
    match r { RespFrame::BulkString(Some(b)) => Some(Some(b@)), RespFrame::BulkString(None) => Some(None), _ => None }
}

//@@ unit handle_getset fn src/storage/commands/strings.rs handle_getset
//@@   params drop "storage: &Arc<StorageEngine>" add "storage: &mut EngineModel"
pub fn handle_getset(storage: &mut EngineModel, db: usize, parts: &[RespFrame]) -> (r: Result<RespFrame>)
    ensures
        // bad arity / argument shape: an error reply, dataset untouched
        (parts@.len() != 3 || arg(parts@, 1) is None || arg(parts@, 2) is None) ==> (r matches Ok(f) && f is Error) && final(storage).ds@ == old(storage).ds@,
        parts@.len() == 3 && arg(parts@, 1) is Some && arg(parts@, 2) is Some ==> ({
            let k = arg(parts@, 1)->Some_0; let v = arg(parts@, 2)->Some_0;
            match ds_get(old(storage).ds@, db as int, k) {
                // refused (wrong type): the dataset is exactly as it was
                Some(DV::List(_)) | Some(DV::Set(_)) | Some(DV::Hash(_)) | Some(DV::ZSet) | Some(DV::Stream) => !(r matches Ok(f) && !(f is Error)) && final(storage).ds@ == old(storage).ds@,
                // string or absent: old value (or nil) returned, new value stored
                Some(DV::Str(b)) => r is Err || ((r matches Ok(f) && bulk_reply(f) == Some(Some(b))) && final(storage).ds@ == old(storage).ds@.insert((db as int, k), DV::Str(v))),
                None => r is Err || ((r matches Ok(f) && bulk_reply(f) == Some(None::<Seq<u8>>)) && final(storage).ds@ == old(storage).ds@.insert((db as int, k), DV::Str(v))),
            }
        }),
//@@ body
//@@ end

} // verus!
fn main() {}
