//@@ include contracts/inc_cmd_header.rs
verus! {

//@@ unit handle_getset fn src/storage/commands/strings.rs handle_getset
//@@   params drop "storage: &Arc<StorageEngine>" add "storage: &mut EngineModel"
//@@   rewrite RT "storage.set_string(" "storage.set_string_t("
pub fn handle_getset(storage: &mut EngineModel, db: usize, parts: &[RespFrame]) -> (r: Result<RespFrame>)
    ensures
        (parts@.len() != 3 || arg(parts@, 1) is None || arg(parts@, 2) is None) ==> cmd_refused(r, old(storage).ds@, final(storage).ds@),
        parts@.len() == 3 && arg(parts@, 1) is Some && arg(parts@, 2) is Some ==> ({
            let k = arg(parts@, 1)->Some_0; let v = arg(parts@, 2)->Some_0;
            match ds_get(old(storage).ds@, db as int, k) {
                // refused (wrong type): no success reply and the dataset is exactly as it was
                Some(DV::List(_)) | Some(DV::Set(_)) | Some(DV::Hash(_)) | Some(DV::ZSet) | Some(DV::Stream) => !(r matches Ok(f) && !(f is Error)) && final(storage).ds@ == old(storage).ds@,
                // string or absent: old value (or nil) returned, new value stored
                // (C02: GETSET is an overwrite — whatever TTL the key had is gone, also when the new value equals the old one)
                Some(DV::Str(b)) => r is Err || (cmd_ok(r, final(storage).ds@, (RV::Bulk(Some(b)), old(storage).ds@.insert((db as int, k), DV::Str(v)))) && final(storage).ttl@ == old(storage).ttl@.remove((db as int, k))),
                None => r is Err || (cmd_ok(r, final(storage).ds@, (RV::Bulk(None), old(storage).ds@.insert((db as int, k), DV::Str(v)))) && final(storage).ttl@ == old(storage).ttl@.remove((db as int, k))),
            }
        }),
//@@ body
//@@ end

//@@ unit handle_append fn src/storage/commands/strings.rs handle_append
//@@   params drop "storage: &Arc<StorageEngine>" add "storage: &mut EngineModel"
//@@   rewrite R3
pub fn handle_append(storage: &mut EngineModel, db: usize, parts: &[RespFrame]) -> (r: Result<RespFrame>)
    ensures
        (parts@.len() != 3 || arg(parts@, 1) is None || arg(parts@, 2) is None) ==> cmd_refused(r, old(storage).ds@, final(storage).ds@),
        parts@.len() == 3 && arg(parts@, 1) is Some && arg(parts@, 2) is Some ==>
            cmd_ok(r, final(storage).ds@, spec_append(old(storage).ds@, db as int, arg(parts@, 1)->Some_0, arg(parts@, 2)->Some_0)),
//@@ body
//@@ end

//@@ unit handle_strlen fn src/storage/commands/strings.rs handle_strlen
//@@   params drop "storage: &Arc<StorageEngine>" add "storage: &mut EngineModel"
//@@   rewrite R3
pub fn handle_strlen(storage: &mut EngineModel, db: usize, parts: &[RespFrame]) -> (r: Result<RespFrame>)
    ensures
        (parts@.len() != 2 || arg(parts@, 1) is None) ==> cmd_refused(r, old(storage).ds@, final(storage).ds@),
        parts@.len() == 2 && arg(parts@, 1) is Some ==> cmd_ok(r, final(storage).ds@, spec_strlen(old(storage).ds@, db as int, arg(parts@, 1)->Some_0)),
//@@ body
//@@ end

//@@ unit handle_getrange fn src/storage/commands/strings.rs handle_getrange
//@@   params drop "storage: &Arc<StorageEngine>" add "storage: &mut EngineModel"
//@@   rewrite R3
//@@   rewrite R1
//@@   rewrite RCALL parse "String::from_utf8_lossy(bytes)" verif_cow_parse
pub fn handle_getrange(storage: &mut EngineModel, db: usize, parts: &[RespFrame]) -> (r: Result<RespFrame>)
    ensures
        (parts@.len() != 4 || arg(parts@, 1) is None || num_arg::<isize>(parts@, 2) is None || num_arg::<isize>(parts@, 3) is None) ==> cmd_refused(r, old(storage).ds@, final(storage).ds@),
        parts@.len() == 4 && arg(parts@, 1) is Some && num_arg::<isize>(parts@, 2) is Some && num_arg::<isize>(parts@, 3) is Some ==>
            cmd_ok(r, final(storage).ds@, spec_getrange_cmd(old(storage).ds@, db as int, arg(parts@, 1)->Some_0, num_arg::<isize>(parts@, 2)->Some_0 as int, num_arg::<isize>(parts@, 3)->Some_0 as int)),
//@@ body
//@@ end

//@@ unit handle_setrange fn src/storage/commands/strings.rs handle_setrange
//@@   params drop "storage: &Arc<StorageEngine>" add "storage: &mut EngineModel"
//@@   rewrite R3
//@@   rewrite R1
//@@   rewrite RCALL parse "String::from_utf8_lossy(bytes)" verif_cow_parse
pub fn handle_setrange(storage: &mut EngineModel, db: usize, parts: &[RespFrame]) -> (r: Result<RespFrame>)
    ensures
        (parts@.len() != 4 || arg(parts@, 1) is None || num_arg::<usize>(parts@, 2) is None || arg(parts@, 3) is None) ==> cmd_refused(r, old(storage).ds@, final(storage).ds@),
        parts@.len() == 4 && arg(parts@, 1) is Some && num_arg::<usize>(parts@, 2) is Some && arg(parts@, 3) is Some ==>
            cmd_ok(r, final(storage).ds@, spec_setrange_cmd(old(storage).ds@, db as int, arg(parts@, 1)->Some_0, num_arg::<usize>(parts@, 2)->Some_0 as int, arg(parts@, 3)->Some_0)),
//@@ body
//@@ end

} // verus!
fn main() {}
