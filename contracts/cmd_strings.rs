//@@ include contracts/inc_cmd_header.rs
verus! {

//@@ unit handle_getset fn src/storage/commands/strings.rs handle_getset
//@@   params drop "storage: &Arc<StorageEngine>" add "storage: &mut EngineModel"
//@@   rewrite RT "storage.set_string(" "storage.set_string_t("
pub fn handle_getset(storage: &mut EngineModel, db: usize, parts: &[RespFrame]) -> (r: Result<RespFrame>)
    ensures
        (parts@.len() != 3 || arg(parts@, 1) is None || arg(parts@, 2) is None) ==> cmd_refused(r, old(storage).ds@, final(storage).ds@),
        parts@.len() == 3 && arg(parts@, 1) is Some && arg(parts@, 2) is Some ==> ({
            let k = arg(parts@, 1)->Some_0; let v = arg(parts@, 2)->Some_0;
            match ds_get(old(storage).ds@, db as int, k) {
                // refused (wrong type): no success reply and the dataset is exactly as it was
                Some(DV::List(_)) | Some(DV::Set(_)) | Some(DV::Hash(_)) | Some(DV::ZSet) | Some(DV::Stream) => !(r matches Ok(f) && !(f is Error)) && final(storage).ds@ == old(storage).ds@,
                // string or absent: old value (or nil) returned, new value stored
                // (C02: GETSET is an overwrite — whatever TTL the key had is gone, also when the new value equals the old one)
                Some(DV::Str(b)) => r is Err || (cmd_ok(r, final(storage).ds@, (RV::Bulk(Some(b)), old(storage).ds@.insert((db as int, k), DV::Str(v)))) && final(storage).ttl@ == old(storage).ttl@.remove((db as int, k))),
                None => r is Err || (cmd_ok(r, final(storage).ds@, (RV::Bulk(None), old(storage).ds@.insert((db as int, k), DV::Str(v)))) && final(storage).ttl@ == old(storage).ttl@.remove((db as int, k))),
            }
        }),
//@@ body
//@@ end

// ======================= MSET =========================
/// the (key, value) pairs MSET names: arguments 1,2 / 3,4 / ...
pub open spec fn mset_pairs(parts: Seq<RespFrame>) -> Seq<(Vec<u8>, Vec<u8>)> {
    Seq::new(((parts.len() - 1) / 2) as nat, |j: int| (arg_vec(parts, 2 * j + 1)->Some_0, arg_vec(parts, 2 * j + 2)->Some_0))
}
/// the dataset / the TTL table after the first n pairs have been written, in order (a later pair for the same key wins; every written key loses its TTL)
pub open spec fn mset_ds(ds: DS, db: int, p: Seq<(Vec<u8>, Vec<u8>)>, n: int) -> DS
    decreases n
{ if n <= 0 { ds } else { mset_ds(ds, db, p, n - 1).insert((db, p[n - 1].0@), DV::Str(p[n - 1].1@)) } }
pub open spec fn mset_ttl(t: Map<(int, Seq<u8>), int>, db: int, p: Seq<(Vec<u8>, Vec<u8>)>, n: int) -> Map<(int, Seq<u8>), int>
    decreases n
{ if n <= 0 { t } else { mset_ttl(t, db, p, n - 1).remove((db, p[n - 1].0@)) } }
//@@ unit handle_mset fn src/storage/commands/strings.rs handle_mset
//@@   params drop "storage: &Arc<StorageEngine>" add "storage: &mut EngineModel"
//@@   rewrite RT "storage.set_string(" "storage.set_string_t("
//@@   rewrite RT "bytes.as_ref().clone()" "verif_clone_arc_bytes(bytes)"
//@@   rewrite RFORK 0
//@@   rewrite RFOR 1 it
//@@   loop 0
//@@|     invariant
//@@|         parts@.len() >= 3, parts@.len() % 2 == 1, i__end == parts@.len(), i__k == 2, 1 <= i__n <= i__end, i__n % 2 == 1,
//@@|         *storage == *old(storage),
//@@|         forall|j: int| 1 <= j < i__n ==> (#[trigger] parts@[j] matches RespFrame::BulkString(Some(_))),
//@@|         pairs@.len() == (i__n - 1) / 2,
//@@|         forall|j: int| 0 <= j < pairs@.len() ==> #[trigger] pairs@[j] == mset_pairs(parts@)[j],
//@@|     decreases i__end - i__n,
//@@   loop 1
//@@|     invariant
//@@|         it.seq() == mset_pairs(parts@), it.history@ =~= it.seq().take(it.index@), all_bulk(parts@, 1), parts@.len() >= 3, parts@.len() % 2 == 1,
//@@|         storage.ds@ == mset_ds(old(storage).ds@, db as int, mset_pairs(parts@), it.index@ as int),
//@@|         storage.ttl@ == mset_ttl(old(storage).ttl@, db as int, mset_pairs(parts@), it.index@ as int),
//@@   at "for (key, value) in pairs"
//@@|     proof { assert(pairs@ =~= mset_pairs(parts@)); assert(all_bulk(parts@, 1)); }
pub fn handle_mset(storage: &mut EngineModel, db: usize, parts: &[RespFrame]) -> (r: Result<RespFrame>)
    ensures
        // C01: a refused MSET — wrong number of arguments, or an argument that is not a bulk string WHEREVER it stands — leaves the dataset as it was
        (parts@.len() < 3 || parts@.len() % 2 == 0 || !all_bulk(parts@, 1)) ==> cmd_refused(r, old(storage).ds@, final(storage).ds@) && final(storage).ttl@ == old(storage).ttl@,
        // accepted: every pair is written, in order, and each written key loses its TTL (C02)
        parts@.len() >= 3 && parts@.len() % 2 == 1 && all_bulk(parts@, 1) && r is Ok ==> (r->Ok_0 is SimpleString)
            && final(storage).ds@ == mset_ds(old(storage).ds@, db as int, mset_pairs(parts@), mset_pairs(parts@).len() as int)
            && final(storage).ttl@ == mset_ttl(old(storage).ttl@, db as int, mset_pairs(parts@), mset_pairs(parts@).len() as int),
        // (r is Err: the engine refused one of the writes — the memory limit — after the earlier pairs had been written; not constrained here)
        r is Err ==> mem_exhausted_s(final(storage).ds@, final(storage).ttl@),
//@@ body
//@@ end
/// `bytes.as_ref().clone()` on an Arc<Vec<u8>> (RT site): a copy of the argument
#[verifier::external_body]
pub fn verif_clone_arc_bytes(b: &Arc<Vec<u8>>) -> (r: Vec<u8>) ensures r == **b, { unimplemented!() }

// RENAME: the source must exist — also when both names are the same — or the command is refused without effect; otherwise the value (and its TTL)
// moves to the new name, replacing whatever was there
//@@ unit handle_rename fn src/storage/commands/strings.rs handle_rename
//@@   params drop "storage: &Arc<StorageEngine>" add "storage: &mut EngineModel"
//@@   rewrite RT "bytes.as_ref().clone()" "verif_clone_arc_bytes(bytes)"
pub fn handle_rename(storage: &mut EngineModel, db: usize, parts: &[RespFrame]) -> (r: Result<RespFrame>)
    ensures
        (parts@.len() != 3 || arg(parts@, 1) is None || arg(parts@, 2) is None) ==> cmd_refused(r, old(storage).ds@, final(storage).ds@) && final(storage).ttl@ == old(storage).ttl@,
        parts@.len() == 3 && arg(parts@, 1) is Some && arg(parts@, 2) is Some ==> ({
            let o = arg(parts@, 1)->Some_0; let n = arg(parts@, 2)->Some_0;
            if !old(storage).ds@.contains_key((db as int, o)) {
                // no such key: no success reply (the error travels as Err or as an error frame), nothing changes
                !(r matches Ok(f) && !(f is Error)) && final(storage).ds@ == old(storage).ds@ && final(storage).ttl@ == old(storage).ttl@
            } else {
                (r matches Ok(f) && f is SimpleString)
                && final(storage).ds@ == old(storage).ds@.remove((db as int, o)).insert((db as int, n), old(storage).ds@[(db as int, o)])
            }
        }),
//@@ body
//@@ end

// ---- script path (C12): the GETSET arm of execute_string hands the command to the direct handler, the RENAME arm of execute_key calls the engine
// as the direct handler does — same effect, same reply
impl RespFrame {
    /// `RespFrame::from_string("<NAME>")` (the command-name slot of the rebuilt frame; no handler looks at it): some frame
    #[verifier::external_body]
    pub fn from_string(s: &str) -> (r: Self) { unimplemented!() }
}
/// MODEL of UnifiedCommandExecutor (the implementation scripts reach through redis.call): the storage engine model
pub struct UnifiedCommandExecutor { pub storage: EngineModel }
impl UnifiedCommandExecutor {
//@@ unit exec_getset arm src/storage/commands/executor.rs UnifiedCommandExecutor::execute_string "StringCommand::GetSet { key, value }"
//@@   params drop "&self" add "&mut self"
//@@   rewrite RT "use crate::storage::commands::strings::handle_getset;" ""
//@@   rewrite RT "handle_getset(&self.storage, db, &frames)" "handle_getset(&mut self.storage, db, frames.as_slice())"
    fn exec_getset(&mut self, db: usize, key: Vec<u8>, value: Vec<u8>) -> (r: Result<RespFrame>)
        ensures
            match ds_get(old(self).storage.ds@, db as int, key@) {
                Some(DV::List(_)) | Some(DV::Set(_)) | Some(DV::Hash(_)) | Some(DV::ZSet) | Some(DV::Stream) => !(r matches Ok(f) && !(f is Error)) && final(self).storage.ds@ == old(self).storage.ds@,
                Some(DV::Str(b)) => r is Err || (cmd_ok(r, final(self).storage.ds@, (RV::Bulk(Some(b)), old(self).storage.ds@.insert((db as int, key@), DV::Str(value@)))) && final(self).storage.ttl@ == old(self).storage.ttl@.remove((db as int, key@))),
                None => r is Err || (cmd_ok(r, final(self).storage.ds@, (RV::Bulk(None), old(self).storage.ds@.insert((db as int, key@), DV::Str(value@)))) && final(self).storage.ttl@ == old(self).storage.ttl@.remove((db as int, key@))),
            },
//@@ body
//@@ end
//@@ unit exec_rename arm src/storage/commands/executor.rs UnifiedCommandExecutor::execute_key "KeyCommand::Rename { old_key, new_key }"
//@@   params drop "&self" add "&mut self"
    fn exec_rename(&mut self, db: usize, old_key: Vec<u8>, new_key: Vec<u8>) -> (r: Result<RespFrame>)
        ensures
            if !old(self).storage.ds@.contains_key((db as int, old_key@)) {
                !(r matches Ok(f) && !(f is Error)) && final(self).storage.ds@ == old(self).storage.ds@ && final(self).storage.ttl@ == old(self).storage.ttl@
            } else {
                (r matches Ok(f) && f is SimpleString)
                && final(self).storage.ds@ == old(self).storage.ds@.remove((db as int, old_key@)).insert((db as int, new_key@), old(self).storage.ds@[(db as int, old_key@)])
            },
//@@ body
//@@ end
}

//@@ unit handle_append fn src/storage/commands/strings.rs handle_append
//@@   params drop "storage: &Arc<StorageEngine>" add "storage: &mut EngineModel"
//@@   rewrite R3
pub fn handle_append(storage: &mut EngineModel, db: usize, parts: &[RespFrame]) -> (r: Result<RespFrame>)
    ensures
        (parts@.len() != 3 || arg(parts@, 1) is None || arg(parts@, 2) is None) ==> cmd_refused(r, old(storage).ds@, final(storage).ds@),
        parts@.len() == 3 && arg(parts@, 1) is Some && arg(parts@, 2) is Some ==>
            cmd_ok(r, final(storage).ds@, spec_append(old(storage).ds@, db as int, arg(parts@, 1)->Some_0, arg(parts@, 2)->Some_0)),
//@@ body
//@@ end

//@@ unit handle_strlen fn src/storage/commands/strings.rs handle_strlen
//@@   params drop "storage: &Arc<StorageEngine>" add "storage: &mut EngineModel"
//@@   rewrite R3
pub fn handle_strlen(storage: &mut EngineModel, db: usize, parts: &[RespFrame]) -> (r: Result<RespFrame>)
    ensures
        (parts@.len() != 2 || arg(parts@, 1) is None) ==> cmd_refused(r, old(storage).ds@, final(storage).ds@),
        parts@.len() == 2 && arg(parts@, 1) is Some ==> cmd_ok(r, final(storage).ds@, spec_strlen(old(storage).ds@, db as int, arg(parts@, 1)->Some_0)),
//@@ body
//@@ end

//@@ unit handle_getrange fn src/storage/commands/strings.rs handle_getrange
//@@   params drop "storage: &Arc<StorageEngine>" add "storage: &mut EngineModel"
//@@   rewrite R3
//@@   rewrite R1
//@@   rewrite RCALL parse "String::from_utf8_lossy(bytes)" verif_cow_parse
pub fn handle_getrange(storage: &mut EngineModel, db: usize, parts: &[RespFrame]) -> (r: Result<RespFrame>)
    ensures
        (parts@.len() != 4 || arg(parts@, 1) is None || num_arg::<isize>(parts@, 2) is None || num_arg::<isize>(parts@, 3) is None) ==> cmd_refused(r, old(storage).ds@, final(storage).ds@),
        parts@.len() == 4 && arg(parts@, 1) is Some && num_arg::<isize>(parts@, 2) is Some && num_arg::<isize>(parts@, 3) is Some ==>
            cmd_ok(r, final(storage).ds@, spec_getrange_cmd(old(storage).ds@, db as int, arg(parts@, 1)->Some_0, num_arg::<isize>(parts@, 2)->Some_0 as int, num_arg::<isize>(parts@, 3)->Some_0 as int)),
//@@ body
//@@ end

//@@ unit handle_setrange fn src/storage/commands/strings.rs handle_setrange
//@@   params drop "storage: &Arc<StorageEngine>" add "storage: &mut EngineModel"
//@@   rewrite R3
//@@   rewrite R1
//@@   rewrite RCALL parse "String::from_utf8_lossy(bytes)" verif_cow_parse
pub fn handle_setrange(storage: &mut EngineModel, db: usize, parts: &[RespFrame]) -> (r: Result<RespFrame>)
    ensures
        (parts@.len() != 4 || arg(parts@, 1) is None || num_arg::<usize>(parts@, 2) is None || arg(parts@, 3) is None) ==> cmd_refused(r, old(storage).ds@, final(storage).ds@),
        parts@.len() == 4 && arg(parts@, 1) is Some && num_arg::<usize>(parts@, 2) is Some && arg(parts@, 3) is Some ==>
            cmd_ok(r, final(storage).ds@, spec_setrange_cmd(old(storage).ds@, db as int, arg(parts@, 1)->Some_0, num_arg::<usize>(parts@, 2)->Some_0 as int, arg(parts@, 3)->Some_0)),
//@@ body
//@@ end

} // verus!
fn main() {}
