//@@ include contracts/inc_cmd_header.rs
//@@ include prelude/str_eq.rs
verus! {
//@@ include contracts/inc_zset_model.rs
//@@ include contracts/inc_set_grammar.rs
/// `s.parse::<f64>()` on an owned String (RCALL site) — a deterministic partial function of the text
pub uninterp spec fn spec_str_f64(s: Seq<char>) -> Option<f64>;
#[verifier::external_body]
pub fn verif_parse_f64<F>(s: String) -> (r: std::result::Result<f64, IntErr>)
    ensures match spec_str_f64(s@) { Some(n) => r matches Ok(v) && v == n, None => r is Err },
{ unimplemented!() }
/// TRUSTED: strict decoding + parse (script path) and lossy decoding + parse (direct path) are the same partial function for f64:
/// no float syntax ("1.5", "inf", "nan", "1e3") contains U+FFFD
pub axiom fn axiom_strict_is_lossy_f64(b: Seq<u8>)
    ensures (match spec_utf8(b) { Some(s) => spec_str_f64(s), None => None }) == parse_lossy_spec::<f64>(b);

/// `s.parse::<usize>()` on an owned String (RCALL site) and its relation to the direct path's lossy parse (TRUSTED, as in c12_parse)
pub uninterp spec fn spec_str_usize(s: Seq<char>) -> Option<usize>;
#[verifier::external_body]
pub fn verif_parse_usize<F>(s: String) -> (r: std::result::Result<usize, IntErr>)
    ensures match spec_str_usize(s@) { Some(n) => r matches Ok(v) && v == n, None => r is Err },
{ unimplemented!() }
pub axiom fn axiom_strict_is_lossy_usize(b: Seq<u8>)
    ensures (match spec_utf8(b) { Some(s) => spec_str_usize(s), None => None }) == parse_lossy_spec::<usize>(b);
/// the pairs a well-formed ZADD names, in order
pub open spec fn zadd_pairs(parts: Seq<RespFrame>) -> Seq<(f64, Seq<u8>)> {
    Seq::new(((parts.len() - 2) / 2) as nat, |j: int| (score_arg(parts, 2 + 2 * j)->Some_0, arg(parts, 2 + 2 * j + 1)->Some_0))
}
/// ZADD applied pair by pair (later pairs win); .0 counts the members that were new
pub open spec fn zadd_seq(zm: ZM, pairs: Seq<(f64, Seq<u8>)>, n: int) -> (int, ZM)
    decreases n
{
    if n <= 0 { (0, zm) } else {
        let p = zadd_seq(zm, pairs, n - 1);
        (p.0 + (if p.1.contains_key(pairs[n - 1].1) { 0int } else { 1int }), p.1.insert(pairs[n - 1].1, pairs[n - 1].0))
    }
}
/// the pair-list form is the argument-list form the direct handler is proved against (zadd_upto)
pub proof fn lemma_zadd_seq_is_upto(zm: ZM, parts: Seq<RespFrame>, n: int)
    requires 0 <= n <= (parts.len() - 2) / 2,
    ensures zadd_seq(zm, zadd_pairs(parts), n) == zadd_upto(zm, parts, n),
    decreases n
{
    if n > 0 { lemma_zadd_seq_is_upto(zm, parts, n - 1); }
}
pub open spec fn view_pairs(v: Seq<(f64, Vec<u8>)>) -> Seq<(f64, Seq<u8>)> { v.map_values(|p: (f64, Vec<u8>)| (p.0, p.1@)) }

/// ZREM over the member list the script path's parser hands on; lemma: equal to the direct handler's argument-list form (zrem_upto) when every
/// member argument is a bulk string — the only shape a script can produce
pub open spec fn zrem_vec(m: EngineModel, db: int, k: Seq<u8>, members: Seq<Vec<u8>>, n: int) -> (int, DS, Map<(int, Seq<u8>), int>, ZS)
    decreases n
{
    if n <= 0 { (0, m.ds@, m.ttl@, m.z@) } else {
        let p = zrem_vec(m, db, k, members, n - 1);
        let x = members[n - 1]@; let zm = zmembers(p.3, db, k);
        if !zm.contains_key(x) { p }
        else if zm.remove(x).dom().len() > 0 { (p.0 + 1, p.1, p.2, p.3.insert((db, k), zm.remove(x))) }
        else { (p.0 + 1, p.1.remove((db, k)), p.2.remove((db, k)), p.3.remove((db, k))) }
    }
}
pub proof fn lemma_zrem_vec_is_upto(m: EngineModel, db: int, k: Seq<u8>, parts: Seq<RespFrame>, n: int)
    requires all_bulk(parts, 2), 0 <= n <= parts.len() - 2,
    ensures zrem_vec(m, db, k, args_from(parts, 2), n) == zrem_upto(m, db, k, parts, n + 2),
    decreases n
{
    if n > 0 { lemma_zrem_vec_is_upto(m, db, k, parts, n - 1); assert(parts[n + 1] matches RespFrame::BulkString(Some(_))); }
}

//@@ item src/storage/commands/executor.rs SortedSetCommand
/// the parser of the script path (associated functions only)
pub struct CommandParser;
impl CommandParser {
    /// ASSUMED CONTRACT, proved in group c12_parse (unit extract_bytes)
    #[verifier::external_body]
    fn extract_bytes(frame: &RespFrame) -> (r: Result<Vec<u8>>)
        ensures match *frame { RespFrame::BulkString(Some(b)) => r matches Ok(v) && v == *b, _ => r is Err },
    { unimplemented!() }
    /// ASSUMED CONTRACT, proved in group c12_parse (unit extract_string)
    #[verifier::external_body]
    fn extract_string(frame: &RespFrame) -> (r: Result<String>)
        ensures match *frame { RespFrame::BulkString(Some(b)) => (match spec_utf8(b@) { Some(s) => r matches Ok(st) && st@ == s, None => r is Err }), _ => r is Err },
    { unimplemented!() }

//@@ unit parse_zadd fn src/storage/commands/executor.rs CommandParser::parse_zadd
//@@   rewrite R1
//@@   rewrite RCALL parse "*" verif_parse_f64
//@@   rewrite RT "let mut score_members = Vec::new();" "let mut score_members: Vec<(f64, Vec<u8>)> = Vec::new();"
//@@   loop 0
//@@|     invariant
//@@|         2 <= i <= frames@.len(), i % 2 == 0, frames@.len() % 2 == 0, frames@.len() >= 4, arg(frames@, 1) == Some(key@),
//@@|         score_members@.len() == (i - 2) / 2,
//@@|         forall|j: int| 0 <= j < score_members@.len() ==> #[trigger] pair_ok(frames@, j),
//@@|         forall|j: int| 0 <= j < score_members@.len() ==> score_arg(frames@, 2 + 2 * j) == Some((#[trigger] score_members@[j]).0) && arg(frames@, 2 + 2 * j + 1) == Some(score_members@[j].1@),
//@@|     decreases frames@.len() - i,
//@@   loopstart 0
//@@|     let ghost j0 = (i - 2) / 2; let ghost oldp = score_members@;
//@@|     proof {
//@@|         assert(2 + 2 * j0 == i && 0 <= j0 < (frames@.len() - 2) / 2);
//@@|         assert(pair_ok(frames@, j0) == (score_arg(frames@, i as int) is Some && arg(frames@, i + 1) is Some));
//@@|         if arg(frames@, i as int) is Some { axiom_strict_is_lossy_f64(arg(frames@, i as int)->Some_0); }
//@@|     }
//@@   after "score_members.push((score, member));"
//@@|     proof {
//@@|         assert(score_members@ =~= oldp.push((score, member)));
//@@|         assert forall|j: int| 0 <= j < j0 implies score_members@[j] == oldp[j] by {}
//@@|         assert((i + 2 - 2) / 2 == j0 + 1);
//@@|     }
//@@   at "Ok(SortedSetCommand::ZAdd { key, score_members })"
//@@|     proof {
//@@|         assert forall|j: int| 0 <= j < (frames@.len() - 2) / 2 implies #[trigger] pair_ok(frames@, j) by { let p = score_members@[j]; }
//@@|         assert(view_pairs(score_members@) =~= zadd_pairs(frames@));
//@@|     }
    fn parse_zadd(frames: &[RespFrame]) -> (r: Result<SortedSetCommand>)
        ensures
            // C12 / C04: the script path refuses exactly what the direct ZADD refuses — arity, a missing key, ANY malformed pair (a score
            // that is not a number included) — before anything is applied ...
            (frames@.len() < 4 || frames@.len() % 2 != 0 || arg(frames@, 1) is None) ==> r is Err,
            (frames@.len() >= 4 && frames@.len() % 2 == 0 && arg(frames@, 1) is Some && !zadd_pairs_ok(frames@)) ==> r is Err,
            // ... and otherwise hands on exactly the pairs the direct handler applies
            (frames@.len() >= 4 && frames@.len() % 2 == 0 && arg(frames@, 1) is Some && zadd_pairs_ok(frames@)) ==>
                (r matches Ok(SortedSetCommand::ZAdd { key, score_members }) && key@ == arg(frames@, 1)->Some_0 && view_pairs(score_members@) == zadd_pairs(frames@)),
//@@ body
//@@ end

//@@ unit parse_zpopmin fn src/storage/commands/executor.rs CommandParser::parse_zpopmin
//@@   rewrite R1
//@@   rewrite RCALL parse "*" verif_parse_usize
//@@   at "let count"
//@@|     proof { if frames@.len() == 3 && arg(frames@, 2) is Some { axiom_strict_is_lossy_usize(arg(frames@, 2)->Some_0); } }
    fn parse_zpopmin(frames: &[RespFrame]) -> (r: Result<SortedSetCommand>)
        ensures
            // C12: refused for exactly the shapes the direct command (handle_zpopmin / handle_zpopmax) refuses; the count is the number the argument spells
            (frames@.len() < 2 || frames@.len() > 3 || arg(frames@, 1) is None || (frames@.len() == 3 && num_arg::<usize>(frames@, 2) is None)) ==> r is Err,
            frames@.len() == 2 && arg(frames@, 1) is Some ==> (r matches Ok(SortedSetCommand::ZPopMin { key, count }) && key@ == arg(frames@, 1)->Some_0 && count is None),
            frames@.len() == 3 && arg(frames@, 1) is Some && num_arg::<usize>(frames@, 2) is Some ==>
                (r matches Ok(SortedSetCommand::ZPopMin { key, count }) && key@ == arg(frames@, 1)->Some_0 && count == Some(num_arg::<usize>(frames@, 2)->Some_0)),
//@@ body
//@@ end
//@@ unit parse_zpopmax fn src/storage/commands/executor.rs CommandParser::parse_zpopmax
//@@   rewrite R1
//@@   rewrite RCALL parse "*" verif_parse_usize
//@@   at "let count"
//@@|     proof { if frames@.len() == 3 && arg(frames@, 2) is Some { axiom_strict_is_lossy_usize(arg(frames@, 2)->Some_0); } }
    fn parse_zpopmax(frames: &[RespFrame]) -> (r: Result<SortedSetCommand>)
        ensures
            // C12: refused for exactly the shapes the direct command (handle_zpopmin / handle_zpopmax) refuses; the count is the number the argument spells
            (frames@.len() < 2 || frames@.len() > 3 || arg(frames@, 1) is None || (frames@.len() == 3 && num_arg::<usize>(frames@, 2) is None)) ==> r is Err,
            frames@.len() == 2 && arg(frames@, 1) is Some ==> (r matches Ok(SortedSetCommand::ZPopMax { key, count }) && key@ == arg(frames@, 1)->Some_0 && count is None),
            frames@.len() == 3 && arg(frames@, 1) is Some && num_arg::<usize>(frames@, 2) is Some ==>
                (r matches Ok(SortedSetCommand::ZPopMax { key, count }) && key@ == arg(frames@, 1)->Some_0 && count == Some(num_arg::<usize>(frames@, 2)->Some_0)),
//@@ body
//@@ end
//@@ unit parse_zrem fn src/storage/commands/executor.rs CommandParser::parse_zrem
//@@   rewrite RT "let mut members = Vec::new();" "let mut members: Vec<Vec<u8>> = Vec::new();"
//@@   loop 0
//@@|     invariant 2 <= i <= frames@.len(), members@.len() == i - 2, forall|j: int| 2 <= j < i ==> (#[trigger] frames@[j] matches RespFrame::BulkString(Some(_))),
//@@|         forall|j: int| 0 <= j < i - 2 ==> members@[j] == arg_vec(frames@, j + 2)->Some_0,
//@@   afterloop 0
//@@|     proof { assert(members@ =~= args_from(frames@, 2)); }
    fn parse_zrem(frames: &[RespFrame]) -> (r: Result<SortedSetCommand>)
        ensures
            (frames@.len() < 3 || arg(frames@, 1) is None || !all_bulk(frames@, 2)) ==> r is Err,
            frames@.len() >= 3 && arg(frames@, 1) is Some && all_bulk(frames@, 2) ==>
                (r matches Ok(SortedSetCommand::ZRem { key, members }) && key@ == arg(frames@, 1)->Some_0 && members@ == args_from(frames@, 2)),
//@@ body
//@@ end

//@@ unit parse_zscore fn src/storage/commands/executor.rs CommandParser::parse_zscore
    fn parse_zscore(frames: &[RespFrame]) -> (r: Result<SortedSetCommand>)
        ensures
            (frames@.len() != 3 || arg(frames@, 1) is None || arg(frames@, 2) is None) ==> r is Err,
            frames@.len() == 3 && arg(frames@, 1) is Some && arg(frames@, 2) is Some ==>
                (r matches Ok(SortedSetCommand::ZScore { key, member }) && key@ == arg(frames@, 1)->Some_0 && member@ == arg(frames@, 2)->Some_0),
//@@ body
//@@ end

//@@ unit parse_zcard fn src/storage/commands/executor.rs CommandParser::parse_zcard
    fn parse_zcard(frames: &[RespFrame]) -> (r: Result<SortedSetCommand>)
        ensures
            (frames@.len() != 2 || arg(frames@, 1) is None) ==> r is Err,
            frames@.len() == 2 && arg(frames@, 1) is Some ==> (r matches Ok(SortedSetCommand::ZCard { key }) && key@ == arg(frames@, 1)->Some_0),
//@@ body
//@@ end
}

/// MODEL of UnifiedCommandExecutor (the implementation scripts reach through redis.call): the storage engine model
pub struct UnifiedCommandExecutor { pub storage: EngineModel }
pub open spec fn no_nan(pairs: Seq<(f64, Seq<u8>)>) -> bool { forall|j: int| 0 <= j < pairs.len() ==> !f64_is_nan((#[trigger] pairs[j]).0) }
impl UnifiedCommandExecutor {
//@@ unit exec_zadd arm src/storage/commands/executor.rs UnifiedCommandExecutor::execute_sorted_set "SortedSetCommand::ZAdd { key, score_members }"
//@@   rewrite RT "let mut added = 0;" "let mut added: i64 = 0;"
//@@   rewrite RFOR 0 it
//@@   at "let mut added = 0;"
//@@|     let ghost pairs0 = view_pairs(score_members@); let ghost zm0 = zmembers(old(self).storage.z@, db as int, key@);
//@@   loop 0
//@@|     invariant
//@@|         it.seq() == score_members@, it.history@ =~= it.seq().take(it.index@),
//@@|         pairs0 == view_pairs(score_members@), no_nan(pairs0), zm0 == zmembers(old(self).storage.z@, db as int, key@),
//@@|         0 <= added <= it.index@,
//@@|         self.storage.ttl@ == old(self).storage.ttl@,
//@@|         it.index@ == 0 ==> self.storage.ds@ == old(self).storage.ds@ && self.storage.z@ == old(self).storage.z@,
//@@|         it.index@ > 0 ==> self.storage.ds@ == old(self).storage.ds@.insert((db as int, key@), DV::ZSet)
//@@|             && self.storage.z@ == old(self).storage.z@.insert((db as int, key@), zadd_seq(zm0, pairs0, it.index@ as int).1),
//@@|         added as int == zadd_seq(zm0, pairs0, it.index@ as int).0,
//@@|         it.index@ > 0 ==> !other_type(old(self).storage.ds@, db as int, key@),
//@@|     ensures it.index@ == score_members@.len(),
//@@   loopstart 0
//@@|     let ghost n0 = it.index@ as int;
//@@|     proof {
//@@|         assert(score_members@[n0] == (score, member));
//@@|         assert(pairs0[n0] == (score, member@));
//@@|         assert(zmembers(self.storage.z@, db as int, key@) == zadd_seq(zm0, pairs0, n0).1);
//@@|         reveal_with_fuel(zadd_seq, 2);
//@@|     }
//@@   after "if self.storage.zadd(db, key.clone(), member, score)?"
//@@|     proof {
//@@|         assert(zadd_seq(zm0, pairs0, n0 + 1).1 == zadd_seq(zm0, pairs0, n0).1.insert(member@, score));
//@@|         assert(self.storage.z@ =~= old(self).storage.z@.insert((db as int, key@), zadd_seq(zm0, pairs0, n0 + 1).1));
//@@|         assert(self.storage.ds@ =~= old(self).storage.ds@.insert((db as int, key@), DV::ZSet));
//@@|     }
    fn exec_zadd(&mut self, db: usize, key: Vec<u8>, score_members: Vec<(f64, Vec<u8>)>) -> (r: Result<RespFrame>)
        requires score_members@.len() > 0, no_nan(view_pairs(score_members@)),     // what parse_zadd hands on (unit above)
        ensures ({
                let res = zadd_seq(zmembers(old(self).storage.z@, db as int, key@), view_pairs(score_members@), score_members@.len() as int);
                // C12 / C04: exactly the direct ZADD (handle_zadd, through lemma_zadd_seq_is_upto): a key of another type — no success reply,
                // nothing changes; otherwise every pair applied left to right, the reply counts the members that were new
                &&& other_type(old(self).storage.ds@, db as int, key@) ==> !(r matches Ok(f) && !(f is Error))
                        && final(self).storage.ds@ == old(self).storage.ds@ && final(self).storage.z@ == old(self).storage.z@
                &&& (!other_type(old(self).storage.ds@, db as int, key@) && r is Ok) ==>
                        r == Ok::<RespFrame, FerrousError>(RespFrame::Integer(res.0 as i64))
                        && final(self).storage.ds@ == old(self).storage.ds@.insert((db as int, key@), DV::ZSet)
                        && final(self).storage.z@ == old(self).storage.z@.insert((db as int, key@), res.1)
                        && final(self).storage.ttl@ == old(self).storage.ttl@
            }),
//@@ body
//@@ end
// ZPOPMIN / ZPOPMAX on the script path: exactly min(count, cardinality) members leave, the extreme ones first; a count of 0 pops nothing
//@@ unit exec_zpopmin arm src/storage/commands/executor.rs UnifiedCommandExecutor::execute_sorted_set "SortedSetCommand::ZPopMin { key, count }"
//@@   rewrite RXPR "members.into_iter().next()" "verif_first(members)"
//@@   rewrite RXPR "score.to_string()" "score"
//@@   rewrite RT "RespFrame::from_string(" "verif_score_frame("
//@@   rewrite RT "let mut popped = Vec::new();" "let mut popped: Vec<RespFrame> = Vec::new();"
//@@   rewrite RFORC 0
//@@   loop 0
//@@|     invariant_except_break
//@@|         popped@.len() == 2 * ___n,
//@@|     invariant
//@@|         ___n <= ___end, ___end == count_val, popped@.len() % 2 == 0, popped@.len() / 2 <= count_val,
//@@|         other_type(old(self).storage.ds@, db as int, key@) ==> self.storage.ds@ == old(self).storage.ds@ && self.storage.ttl@ == old(self).storage.ttl@ && self.storage.z@ == old(self).storage.z@ && popped@.len() == 0,
//@@|         !other_type(old(self).storage.ds@, db as int, key@) ==> !other_type(self.storage.ds@, db as int, key@) && ({
//@@|             let s = zpop_upto(old(self).storage, db as int, key@, (popped@.len() / 2) as int, true);
//@@|             self.storage.ds@ == s.1 && self.storage.ttl@ == s.2 && self.storage.z@ == s.3 && zpop_reply(popped@, s.0) && s.0.len() == popped@.len() / 2 }),
//@@|     ensures
//@@|         other_type(old(self).storage.ds@, db as int, key@) ==> count_val == 0,
//@@|         !other_type(old(self).storage.ds@, db as int, key@) ==> (popped@.len() / 2 == count_val || zmembers(self.storage.z@, db as int, key@).dom().len() == 0),
//@@|     decreases ___end - ___n,
//@@   at "let count_val = count.unwrap_or(1);"
//@@|     broadcast use {axiom_zmin_member, axiom_zmax_member};
//@@   loopstart 0
//@@|     let ghost n0 = (popped@.len() / 2) as int; let ghost res0 = popped@;
//@@|     proof { reveal_with_fuel(zpop_upto, 2); }
//@@   at "if self.storage.zrem(db, &key, &member)?"
//@@|     proof {
//@@|         let zm = zmembers(self.storage.z@, db as int, key@);
//@@|         assert(zm.dom().len() > 0);
//@@|         axiom_zmin_member(zm); axiom_zmax_member(zm);
//@@|         assert(zm.contains_key(member@));
//@@|     }
//@@   after "popped.push(RespFrame::from_string(score.to_string()));"
//@@|     proof {
//@@|         let s1 = zpop_upto(old(self).storage, db as int, key@, n0 + 1, true);
//@@|         assert(popped@.len() == res0.len() + 2);
//@@|         assert(popped@.len() / 2 == n0 + 1);
//@@|         assert forall|j: int| 0 <= j < s1.0.len() implies bulk_reply(#[trigger] popped@[2 * j]) == Some(Some(s1.0[j].0)) && popped@[2 * j + 1] == score_text(s1.0[j].1) by {
//@@|             if j < n0 { assert(popped@[2 * j] == res0[2 * j]); assert(popped@[2 * j + 1] == res0[2 * j + 1]); }
//@@|         }
//@@|     }
//@@   afterloop 0
//@@|     proof {
//@@|         if !other_type(old(self).storage.ds@, db as int, key@) && popped@.len() / 2 != count_val {
//@@|             lemma_zpop_stable(old(self).storage, db as int, key@, (popped@.len() / 2) as int, count_val as int, true);
//@@|         }
//@@|     }
    fn exec_zpopmin(&mut self, db: usize, key: Vec<u8>, count: Option<usize>) -> (r: Result<RespFrame>)
        ensures ({
            let n = match count { Some(c) => c as int, None => 1int };
            if other_type(old(self).storage.ds@, db as int, key@) {
                (n > 0 ==> !(r matches Ok(f) && !(f is Error))) && final(self).storage.ds@ == old(self).storage.ds@ && final(self).storage.z@ == old(self).storage.z@
            } else {
                let s = zpop_upto(old(self).storage, db as int, key@, n, true);
                r is Ok && final(self).storage.ds@ == s.1 && final(self).storage.ttl@ == s.2 && final(self).storage.z@ == s.3
                && (r->Ok_0 matches RespFrame::Array(Some(v)) && zpop_reply(v@, s.0))
            }
        }),
//@@ body
//@@ end

//@@ unit exec_zpopmax arm src/storage/commands/executor.rs UnifiedCommandExecutor::execute_sorted_set "SortedSetCommand::ZPopMax { key, count }"
//@@   rewrite RXPR "members.into_iter().next()" "verif_first(members)"
//@@   rewrite RXPR "score.to_string()" "score"
//@@   rewrite RT "RespFrame::from_string(" "verif_score_frame("
//@@   rewrite RT "let mut popped = Vec::new();" "let mut popped: Vec<RespFrame> = Vec::new();"
//@@   rewrite RFORC 0
//@@   loop 0
//@@|     invariant_except_break
//@@|         popped@.len() == 2 * ___n,
//@@|     invariant
//@@|         ___n <= ___end, ___end == count_val, popped@.len() % 2 == 0, popped@.len() / 2 <= count_val,
//@@|         other_type(old(self).storage.ds@, db as int, key@) ==> self.storage.ds@ == old(self).storage.ds@ && self.storage.ttl@ == old(self).storage.ttl@ && self.storage.z@ == old(self).storage.z@ && popped@.len() == 0,
//@@|         !other_type(old(self).storage.ds@, db as int, key@) ==> !other_type(self.storage.ds@, db as int, key@) && ({
//@@|             let s = zpop_upto(old(self).storage, db as int, key@, (popped@.len() / 2) as int, false);
//@@|             self.storage.ds@ == s.1 && self.storage.ttl@ == s.2 && self.storage.z@ == s.3 && zpop_reply(popped@, s.0) && s.0.len() == popped@.len() / 2 }),
//@@|     ensures
//@@|         other_type(old(self).storage.ds@, db as int, key@) ==> count_val == 0,
//@@|         !other_type(old(self).storage.ds@, db as int, key@) ==> (popped@.len() / 2 == count_val || zmembers(self.storage.z@, db as int, key@).dom().len() == 0),
//@@|     decreases ___end - ___n,
//@@   at "let count_val = count.unwrap_or(1);"
//@@|     broadcast use {axiom_zmin_member, axiom_zmax_member};
//@@   loopstart 0
//@@|     let ghost n0 = (popped@.len() / 2) as int; let ghost res0 = popped@;
//@@|     proof { reveal_with_fuel(zpop_upto, 2); }
//@@   at "if self.storage.zrem(db, &key, &member)?"
//@@|     proof {
//@@|         let zm = zmembers(self.storage.z@, db as int, key@);
//@@|         assert(zm.dom().len() > 0);
//@@|         axiom_zmin_member(zm); axiom_zmax_member(zm);
//@@|         assert(zm.contains_key(member@));
//@@|     }
//@@   after "popped.push(RespFrame::from_string(score.to_string()));"
//@@|     proof {
//@@|         let s1 = zpop_upto(old(self).storage, db as int, key@, n0 + 1, false);
//@@|         assert(popped@.len() == res0.len() + 2);
//@@|         assert(popped@.len() / 2 == n0 + 1);
//@@|         assert forall|j: int| 0 <= j < s1.0.len() implies bulk_reply(#[trigger] popped@[2 * j]) == Some(Some(s1.0[j].0)) && popped@[2 * j + 1] == score_text(s1.0[j].1) by {
//@@|             if j < n0 { assert(popped@[2 * j] == res0[2 * j]); assert(popped@[2 * j + 1] == res0[2 * j + 1]); }
//@@|         }
//@@|     }
//@@   afterloop 0
//@@|     proof {
//@@|         if !other_type(old(self).storage.ds@, db as int, key@) && popped@.len() / 2 != count_val {
//@@|             lemma_zpop_stable(old(self).storage, db as int, key@, (popped@.len() / 2) as int, count_val as int, false);
//@@|         }
//@@|     }
    fn exec_zpopmax(&mut self, db: usize, key: Vec<u8>, count: Option<usize>) -> (r: Result<RespFrame>)
        ensures ({
            let n = match count { Some(c) => c as int, None => 1int };
            if other_type(old(self).storage.ds@, db as int, key@) {
                (n > 0 ==> !(r matches Ok(f) && !(f is Error))) && final(self).storage.ds@ == old(self).storage.ds@ && final(self).storage.z@ == old(self).storage.z@
            } else {
                let s = zpop_upto(old(self).storage, db as int, key@, n, false);
                r is Ok && final(self).storage.ds@ == s.1 && final(self).storage.ttl@ == s.2 && final(self).storage.z@ == s.3
                && (r->Ok_0 matches RespFrame::Array(Some(v)) && zpop_reply(v@, s.0))
            }
        }),
//@@ body
//@@ end

//@@ unit exec_zrem arm src/storage/commands/executor.rs UnifiedCommandExecutor::execute_sorted_set "SortedSetCommand::ZRem { key, members }"
//@@   rewrite RT "let mut removed = 0;" "let mut removed: i64 = 0;"
//@@   rewrite RFOR 0 it
//@@   loop 0
//@@|     invariant
//@@|         it.seq() == members@, it.history@ =~= it.seq().take(it.index@), 0 <= removed <= it.index@,
//@@|         other_type(old(self).storage.ds@, db as int, key@) ==> it.index@ == 0 && self.storage.ds@ == old(self).storage.ds@ && self.storage.ttl@ == old(self).storage.ttl@ && self.storage.z@ == old(self).storage.z@,
//@@|         !other_type(old(self).storage.ds@, db as int, key@) ==> !other_type(self.storage.ds@, db as int, key@)
//@@|             && (removed as int, self.storage.ds@, self.storage.ttl@, self.storage.z@) == zrem_vec(old(self).storage, db as int, key@, members@, it.index@ as int),
//@@|     ensures it.index@ == members@.len(),
//@@   loopstart 0
//@@|     proof { assert(members@[it.index@ as int] == member); reveal_with_fuel(zrem_vec, 2); }
    fn exec_zrem(&mut self, db: usize, key: Vec<u8>, members: Vec<Vec<u8>>) -> (r: Result<RespFrame>)
        requires members@.len() > 0,     // the parser refuses ZREM without members (arity)
        ensures
            // C12 / C04: exactly the direct ZREM (handle_zrem, through lemma_zrem_vec_is_upto): a key of another type — no success reply, nothing
            // changes; otherwise members go left to right, the key disappears with its last member, the reply counts the members that were there
            other_type(old(self).storage.ds@, db as int, key@) ==> !(r matches Ok(f) && !(f is Error))
                && final(self).storage.ds@ == old(self).storage.ds@ && final(self).storage.z@ == old(self).storage.z@ && final(self).storage.ttl@ == old(self).storage.ttl@,
            !other_type(old(self).storage.ds@, db as int, key@) ==> ({
                let s = zrem_vec(old(self).storage, db as int, key@, members@, members@.len() as int);
                r == Ok::<RespFrame, FerrousError>(RespFrame::Integer(s.0 as i64)) && final(self).storage.ds@ == s.1 && final(self).storage.ttl@ == s.2 && final(self).storage.z@ == s.3
            }),
//@@ body
//@@ end

//@@ unit exec_zscore arm src/storage/commands/executor.rs UnifiedCommandExecutor::execute_sorted_set "SortedSetCommand::ZScore { key, member }"
//@@   rewrite RT "RespFrame::from_string(score.to_string())" "verif_score_frame(score)"
    fn exec_zscore(&mut self, db: usize, key: Vec<u8>, member: Vec<u8>) -> (r: Result<RespFrame>)
        ensures final(self).storage.ds@ == old(self).storage.ds@ && final(self).storage.ttl@ == old(self).storage.ttl@ && final(self).storage.z@ == old(self).storage.z@,
            ({  let zm = zmembers(old(self).storage.z@, db as int, key@);
                // C12 / C04: exactly the direct ZSCORE (handle_zscore)
                if other_type(old(self).storage.ds@, db as int, key@) { !(r matches Ok(f) && !(f is Error)) }
                else if zm.contains_key(member@) { r == Ok::<RespFrame, FerrousError>(score_text(zm[member@])) }
                else { r == Ok::<RespFrame, FerrousError>(RespFrame::BulkString(None)) } }),
//@@ body
//@@ end

//@@ unit exec_zcard arm src/storage/commands/executor.rs UnifiedCommandExecutor::execute_sorted_set "SortedSetCommand::ZCard { key }"
    fn exec_zcard(&mut self, db: usize, key: Vec<u8>) -> (r: Result<RespFrame>)
        ensures final(self).storage.ds@ == old(self).storage.ds@ && final(self).storage.ttl@ == old(self).storage.ttl@ && final(self).storage.z@ == old(self).storage.z@,
            // C12 / C04: exactly the direct ZCARD (handle_zcard)
            if other_type(old(self).storage.ds@, db as int, key@) { !(r matches Ok(f) && !(f is Error)) }
            else { r == Ok::<RespFrame, FerrousError>(RespFrame::Integer(zmembers(old(self).storage.z@, db as int, key@).dom().len() as i64)) },
//@@ body
//@@ end
}
} // verus!
fn main() {}