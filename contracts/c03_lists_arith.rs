//@@ include prelude/head.rs
//@@ include prelude/cmp.rs
//@@ include spec/ranges.rs
verus! {

// LRANGE: the three statements that normalise (start, stop); the loop that applies them is a bounded Kani unit.
//@@ unit lrange_norm stmts src/storage/engine.rs StorageEngine::lrange "let len = list.len() as isize;" upto "let mut result"
//@@   tail (start, stop)
pub fn lrange_norm(list: &std::collections::VecDeque<Vec<u8>>, start: isize, stop: isize) -> (r: (isize, isize))
    requires list@.len() <= isize::MAX,
    ensures forall|i: int| 0 <= i < list@.len() ==> ((r.0 <= i && i <= r.1) <==> in_spec_range(list@.len() as int, start as int, stop as int, i)),
//@@ body
//@@ end

//@@ unit ltrim_norm stmts src/storage/engine.rs StorageEngine::ltrim "let len = list.len() as isize;" upto "let mut new_list"
//@@   tail (start, stop)
pub fn ltrim_norm(list: &mut std::collections::VecDeque<Vec<u8>>, start: isize, stop: isize) -> (r: (isize, isize))
    requires old(list)@.len() <= isize::MAX,
    ensures forall|i: int| 0 <= i < old(list)@.len() ==> ((r.0 <= i && i <= r.1) <==> in_spec_range(old(list)@.len() as int, start as int, stop as int, i)),
        final(list)@ == old(list)@,
//@@ body
//@@ end

} // verus!
fn main() {}
