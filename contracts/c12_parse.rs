//@@ include contracts/inc_cmd_header.rs
//@@ include prelude/str_eq.rs
verus! {
//@@ item src/storage/commands/executor.rs SetOptions
//@@ item src/storage/commands/executor.rs StringCommand

/// the parser of the script path (associated functions only)
pub struct CommandParser;

impl CommandParser {
//@@ unit extract_bytes fn src/storage/commands/executor.rs CommandParser::extract_bytes
    fn extract_bytes(frame: &RespFrame) -> (r: Result<Vec<u8>>)
        ensures match *frame { RespFrame::BulkString(Some(b)) => r matches Ok(v) && v@ == b@, _ => r is Err },
//@@ body
//@@ end

//@@ unit parse_get fn src/storage/commands/executor.rs CommandParser::parse_get
    fn parse_get(frames: &[RespFrame]) -> (r: Result<StringCommand>)
        ensures
            // C12: redis.call('GET', ...) is refused for exactly the argument shapes the direct command refuses, and otherwise names the same key
            (frames@.len() != 2 || arg(frames@, 1) is None) ==> r is Err,
            frames@.len() == 2 && arg(frames@, 1) is Some ==> (r matches Ok(StringCommand::Get { key }) && key@ == arg(frames@, 1)->Some_0),
//@@ body
//@@ end
}
} // verus!
fn main() {}
