//@@ include contracts/inc_cmd_header.rs
//@@ include prelude/str_eq.rs
verus! {
//@@ item src/storage/commands/executor.rs SetOptions
//@@ item src/storage/commands/executor.rs StringCommand
//@@ item src/storage/commands/executor.rs ListCommand
//@@ include contracts/inc_set_grammar.rs

// C12, parity clause: "redis.call / redis.pcall of a command have the same effect on the dataset and return the same reply ... as
// sending that command directly". The direct handlers are proved (C01/C03 groups) against reference functions of
// (dataset, db, arg(parts, i), num_arg(parts, i), set_opts(parts, ..)); the script path is CommandParser::parse_<cmd> followed by an
// execute_* arm, and the arms are proved (exec_strings / exec_lists) against the SAME reference functions of the parsed fields.
// The units below close the gap: each parse function refuses exactly the argument shapes its direct handler refuses and otherwise
// yields fields that are the very arg / num_arg / set_opts values the direct handler feeds to the reference function.

/// `s.parse::<F>()` on an owned String (RCALL site) — a deterministic partial function of the text
pub uninterp spec fn spec_str_num<F>(s: Seq<char>) -> Option<F>;
#[verifier::external_body]
pub fn verif_parse_str<F: core::str::FromStr>(s: String) -> (r: std::result::Result<F, IntErr>)
    ensures match spec_str_num::<F>(s@) { Some(n) => r matches Ok(v) && v == n, None => r is Err },
{ unimplemented!() }
/// strict decoding followed by parsing, as the script path does it
pub open spec fn strict_num<F>(b: Seq<u8>) -> Option<F> { match spec_utf8(b) { Some(s) => spec_str_num::<F>(s), None => None } }
/// TRUSTED: for the integer types, `String::from_utf8(b)?.parse()` (script path) and `String::from_utf8_lossy(b).parse()` (direct
/// path) are the same partial function of the bytes: on valid UTF-8 both decode to the same text, on invalid UTF-8 the strict
/// decoding fails and the lossy one contains U+FFFD, which no integer syntax admits.
pub axiom fn axiom_strict_is_lossy_i64(b: Seq<u8>) ensures strict_num::<i64>(b) == parse_lossy_spec::<i64>(b);
pub axiom fn axiom_strict_is_lossy_u64(b: Seq<u8>) ensures strict_num::<u64>(b) == parse_lossy_spec::<u64>(b);
/// `parse::<u64>()` is one function, whichever helper names it (verif_parse_u64 at the direct SET sites, verif_parse_str here)
pub axiom fn axiom_str_u64_same(s: Seq<char>) ensures spec_str_num::<u64>(s) == spec_str_u64(s);
pub axiom fn axiom_strict_is_lossy_isize(b: Seq<u8>) ensures strict_num::<isize>(b) == parse_lossy_spec::<isize>(b);

/// the parser of the script path (associated functions only)
pub struct CommandParser;

impl CommandParser {
//@@ unit extract_bytes fn src/storage/commands/executor.rs CommandParser::extract_bytes
    fn extract_bytes(frame: &RespFrame) -> (r: Result<Vec<u8>>)
        ensures match *frame { RespFrame::BulkString(Some(b)) => r matches Ok(v) && v == *b, _ => r is Err },
//@@ body
//@@ end

//@@ unit extract_string fn src/storage/commands/executor.rs CommandParser::extract_string
//@@   rewrite R1
//@@   rewrite RPCALL "String::from_utf8" verif_from_utf8
    fn extract_string(frame: &RespFrame) -> (r: Result<String>)
        ensures match *frame { RespFrame::BulkString(Some(b)) => (match spec_utf8(b@) { Some(s) => r matches Ok(st) && st@ == s, None => r is Err }), _ => r is Err },
//@@ body
//@@ end

//@@ unit parse_get fn src/storage/commands/executor.rs CommandParser::parse_get
    fn parse_get(frames: &[RespFrame]) -> (r: Result<StringCommand>)
        ensures
            (frames@.len() != 2 || arg(frames@, 1) is None) ==> r is Err,
            frames@.len() == 2 && arg(frames@, 1) is Some ==> (r matches Ok(StringCommand::Get { key }) && key@ == arg(frames@, 1)->Some_0),
//@@ body
//@@ end

//@@ unit parse_incr fn src/storage/commands/executor.rs CommandParser::parse_incr
    fn parse_incr(frames: &[RespFrame]) -> (r: Result<StringCommand>)
        ensures
            (frames@.len() != 2 || arg(frames@, 1) is None) ==> r is Err,
            frames@.len() == 2 && arg(frames@, 1) is Some ==> (r matches Ok(StringCommand::Incr { key }) && key@ == arg(frames@, 1)->Some_0),
//@@ body
//@@ end

//@@ unit parse_decr fn src/storage/commands/executor.rs CommandParser::parse_decr
    fn parse_decr(frames: &[RespFrame]) -> (r: Result<StringCommand>)
        ensures
            (frames@.len() != 2 || arg(frames@, 1) is None) ==> r is Err,
            frames@.len() == 2 && arg(frames@, 1) is Some ==> (r matches Ok(StringCommand::Decr { key }) && key@ == arg(frames@, 1)->Some_0),
//@@ body
//@@ end

//@@ unit parse_strlen fn src/storage/commands/executor.rs CommandParser::parse_strlen
    fn parse_strlen(frames: &[RespFrame]) -> (r: Result<StringCommand>)
        ensures
            (frames@.len() != 2 || arg(frames@, 1) is None) ==> r is Err,
            frames@.len() == 2 && arg(frames@, 1) is Some ==> (r matches Ok(StringCommand::StrLen { key }) && key@ == arg(frames@, 1)->Some_0),
//@@ body
//@@ end

//@@ unit parse_incrby fn src/storage/commands/executor.rs CommandParser::parse_incrby
//@@   rewrite R1
//@@   rewrite RCALL parse "Self::extract_string(&frames[2])?" verif_parse_str
//@@   at "let increment"
//@@|     proof { axiom_strict_is_lossy_i64(arg(frames@, 2)->Some_0); }
    fn parse_incrby(frames: &[RespFrame]) -> (r: Result<StringCommand>)
        ensures
            (frames@.len() != 3 || arg(frames@, 1) is None || num_arg::<i64>(frames@, 2) is None) ==> r is Err,
            frames@.len() == 3 && arg(frames@, 1) is Some && num_arg::<i64>(frames@, 2) is Some ==>
                (r matches Ok(StringCommand::IncrBy { key, increment }) && key@ == arg(frames@, 1)->Some_0 && increment == num_arg::<i64>(frames@, 2)->Some_0),
//@@ body
//@@ end
}
} // verus!
fn main() {}
