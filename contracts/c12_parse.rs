//@@ include contracts/inc_cmd_header.rs
//@@ include prelude/str_eq.rs
verus! {
//@@ item src/storage/commands/executor.rs SetOptions
//@@ item src/storage/commands/executor.rs StringCommand
//@@ item src/storage/commands/executor.rs ListCommand
//@@ item src/storage/commands/executor.rs SetCommand
//@@ item src/storage/commands/executor.rs HashCommand
//@@ item src/storage/commands/executor.rs KeyCommand
//@@ include contracts/inc_set_grammar.rs

// C12, parity clause: "redis.call / redis.pcall of a command have the same effect on the dataset and return the same reply ... as
// sending that command directly". The direct handlers are proved (C01/C03 groups) against reference functions of
// (dataset, db, arg(parts, i), num_arg(parts, i), set_opts(parts, ..)); the script path is CommandParser::parse_<cmd> followed by an
// execute_* arm, and the arms are proved (exec_strings / exec_lists) against the SAME reference functions of the parsed fields.
// The units below close the gap: each parse function refuses exactly the argument shapes its direct handler refuses and otherwise
// yields fields that are the very arg / num_arg / set_opts values the direct handler feeds to the reference function.

/// `s.parse::<F>()` on an owned String (RCALL site) — a deterministic partial function of the text
pub uninterp spec fn spec_str_num<F>(s: Seq<char>) -> Option<F>;
#[verifier::external_body]
pub fn verif_parse_str<F: core::str::FromStr>(s: String) -> (r: std::result::Result<F, IntErr>)
    ensures match spec_str_num::<F>(s@) { Some(n) => r matches Ok(v) && v == n, None => r is Err },
{ unimplemented!() }
/// strict decoding followed by parsing, as the script path does it
pub open spec fn strict_num<F>(b: Seq<u8>) -> Option<F> { match spec_utf8(b) { Some(s) => spec_str_num::<F>(s), None => None } }
/// TRUSTED: for the integer types, `String::from_utf8(b)?.parse()` (script path) and `String::from_utf8_lossy(b).parse()` (direct
/// path) are the same partial function of the bytes: on valid UTF-8 both decode to the same text, on invalid UTF-8 the strict
/// decoding fails and the lossy one contains U+FFFD, which no integer syntax admits.
pub axiom fn axiom_strict_is_lossy_i64(b: Seq<u8>) ensures strict_num::<i64>(b) == parse_lossy_spec::<i64>(b);
pub axiom fn axiom_strict_is_lossy_u64(b: Seq<u8>) ensures strict_num::<u64>(b) == parse_lossy_spec::<u64>(b);
/// `parse::<u64>()` is one function, whichever helper names it (verif_parse_u64 at the direct SET sites, verif_parse_str here)
pub axiom fn axiom_str_u64_same(s: Seq<char>) ensures spec_str_num::<u64>(s) == spec_str_u64(s);
pub axiom fn axiom_strict_is_lossy_isize(b: Seq<u8>) ensures strict_num::<isize>(b) == parse_lossy_spec::<isize>(b);
pub axiom fn axiom_strict_is_lossy_usize(b: Seq<u8>) ensures strict_num::<usize>(b) == parse_lossy_spec::<usize>(b);

/// `s.to_uppercase()` on the strictly decoded option word (RCALL site)
pub uninterp spec fn upper_chars(s: Seq<char>) -> Seq<char>;
#[verifier::external_body]
pub fn verif_to_upper(s: String) -> (r: String) ensures r@ == upper_chars(s@), { unimplemented!() }
/// TRUSTED: upper-casing the strict decoding (script path) and upper-casing the lossy decoding (direct path, spec_upper) agree on
/// valid UTF-8; on invalid UTF-8 the lossy text contains U+FFFD and is therefore none of the ASCII option words
pub open spec fn is_set_word(u: Seq<char>) -> bool { u == "EX"@ || u == "PX"@ || u == "NX"@ || u == "XX"@ }
pub axiom fn axiom_upper_strict_is_lossy(b: Seq<u8>)
    ensures match spec_utf8(b) { Some(s) => upper_chars(s) == spec_upper(b), None => !is_set_word(spec_upper(b)) };
/// `SetOptions::default()` (#[derive(Default)], RPCALL site)
#[verifier::external_body]
pub fn verif_set_options_default() -> (r: SetOptions)
    ensures !r.nx, !r.xx, !r.get, !r.keepttl, r.expiration is None,
{ unimplemented!() }
pub open spec fn opts_of(o: SetOptions) -> SetOpts { SetOpts { exp: (match o.expiration { Some(d) => Some(dur_nanos(d)), None => None }), nx: o.nx, xx: o.xx } }
/// some option word (position >= 3) is one that only the script path's grammar knows
pub open spec fn script_only_option(parts: Seq<RespFrame>) -> bool {
    exists|j: int| 3 <= j < parts.len() && #[trigger] arg(parts, j) is Some && (spec_upper(arg(parts, j)->Some_0) == "GET"@ || spec_upper(arg(parts, j)->Some_0) == "KEEPTTL"@)
}

/// the parser of the script path (associated functions only)
pub struct CommandParser;

impl CommandParser {
//@@ unit extract_bytes fn src/storage/commands/executor.rs CommandParser::extract_bytes
    fn extract_bytes(frame: &RespFrame) -> (r: Result<Vec<u8>>)
        ensures match *frame { RespFrame::BulkString(Some(b)) => r matches Ok(v) && v == *b, _ => r is Err },
//@@ body
//@@ end

//@@ unit extract_string fn src/storage/commands/executor.rs CommandParser::extract_string
//@@   rewrite R1
//@@   rewrite RPCALL "String::from_utf8" verif_from_utf8
    fn extract_string(frame: &RespFrame) -> (r: Result<String>)
        ensures match *frame { RespFrame::BulkString(Some(b)) => (match spec_utf8(b@) { Some(s) => r matches Ok(st) && st@ == s, None => r is Err }), _ => r is Err },
//@@ body
//@@ end

//@@ unit parse_get fn src/storage/commands/executor.rs CommandParser::parse_get
    fn parse_get(frames: &[RespFrame]) -> (r: Result<StringCommand>)
        ensures
            (frames@.len() != 2 || arg(frames@, 1) is None) ==> r is Err,
            frames@.len() == 2 && arg(frames@, 1) is Some ==> (r matches Ok(StringCommand::Get { key }) && key@ == arg(frames@, 1)->Some_0),
//@@ body
//@@ end

//@@ unit parse_incr fn src/storage/commands/executor.rs CommandParser::parse_incr
    fn parse_incr(frames: &[RespFrame]) -> (r: Result<StringCommand>)
        ensures
            (frames@.len() != 2 || arg(frames@, 1) is None) ==> r is Err,
            frames@.len() == 2 && arg(frames@, 1) is Some ==> (r matches Ok(StringCommand::Incr { key }) && key@ == arg(frames@, 1)->Some_0),
//@@ body
//@@ end

//@@ unit parse_decr fn src/storage/commands/executor.rs CommandParser::parse_decr
    fn parse_decr(frames: &[RespFrame]) -> (r: Result<StringCommand>)
        ensures
            (frames@.len() != 2 || arg(frames@, 1) is None) ==> r is Err,
            frames@.len() == 2 && arg(frames@, 1) is Some ==> (r matches Ok(StringCommand::Decr { key }) && key@ == arg(frames@, 1)->Some_0),
//@@ body
//@@ end

//@@ unit parse_strlen fn src/storage/commands/executor.rs CommandParser::parse_strlen
    fn parse_strlen(frames: &[RespFrame]) -> (r: Result<StringCommand>)
        ensures
            (frames@.len() != 2 || arg(frames@, 1) is None) ==> r is Err,
            frames@.len() == 2 && arg(frames@, 1) is Some ==> (r matches Ok(StringCommand::StrLen { key }) && key@ == arg(frames@, 1)->Some_0),
//@@ body
//@@ end

//@@ unit parse_incrby fn src/storage/commands/executor.rs CommandParser::parse_incrby
//@@   rewrite R1
//@@   rewrite RCALL parse "*" verif_parse_str
//@@   at "let increment"
//@@|     proof { axiom_strict_is_lossy_i64(arg(frames@, 2)->Some_0); }
    fn parse_incrby(frames: &[RespFrame]) -> (r: Result<StringCommand>)
        ensures
            (frames@.len() != 3 || arg(frames@, 1) is None || num_arg::<i64>(frames@, 2) is None) ==> r is Err,
            frames@.len() == 3 && arg(frames@, 1) is Some && num_arg::<i64>(frames@, 2) is Some ==>
                (r matches Ok(StringCommand::IncrBy { key, increment }) && key@ == arg(frames@, 1)->Some_0 && increment == num_arg::<i64>(frames@, 2)->Some_0),
//@@ body
//@@ end

//@@ unit parse_decrby fn src/storage/commands/executor.rs CommandParser::parse_decrby
//@@   rewrite R1
//@@   rewrite RCALL parse "*" verif_parse_str
//@@   at "let decrement"
//@@|     proof { axiom_strict_is_lossy_i64(arg(frames@, 2)->Some_0); }
    fn parse_decrby(frames: &[RespFrame]) -> (r: Result<StringCommand>)
        ensures
            (frames@.len() != 3 || arg(frames@, 1) is None || num_arg::<i64>(frames@, 2) is None) ==> r is Err,
            frames@.len() == 3 && arg(frames@, 1) is Some && num_arg::<i64>(frames@, 2) is Some ==>
                (r matches Ok(StringCommand::DecrBy { key, decrement }) && key@ == arg(frames@, 1)->Some_0 && decrement == num_arg::<i64>(frames@, 2)->Some_0),
//@@ body
//@@ end

//@@ unit parse_setnx fn src/storage/commands/executor.rs CommandParser::parse_setnx
    fn parse_setnx(frames: &[RespFrame]) -> (r: Result<StringCommand>)
        ensures
            (frames@.len() != 3 || arg(frames@, 1) is None || arg(frames@, 2) is None) ==> r is Err,
            frames@.len() == 3 && arg(frames@, 1) is Some && arg(frames@, 2) is Some ==>
                (r matches Ok(StringCommand::SetNx { key, value }) && key@ == arg(frames@, 1)->Some_0 && value@ == arg(frames@, 2)->Some_0),
//@@ body
//@@ end

//@@ unit parse_append fn src/storage/commands/executor.rs CommandParser::parse_append
    fn parse_append(frames: &[RespFrame]) -> (r: Result<StringCommand>)
        ensures
            (frames@.len() != 3 || arg(frames@, 1) is None || arg(frames@, 2) is None) ==> r is Err,
            frames@.len() == 3 && arg(frames@, 1) is Some && arg(frames@, 2) is Some ==>
                (r matches Ok(StringCommand::Append { key, value }) && key@ == arg(frames@, 1)->Some_0 && value@ == arg(frames@, 2)->Some_0),
//@@ body
//@@ end

//@@ unit parse_setex fn src/storage/commands/executor.rs CommandParser::parse_setex
//@@   rewrite R1
//@@   rewrite RCALL parse "*" verif_parse_str
//@@   at "let seconds"
//@@|     proof { axiom_strict_is_lossy_u64(arg(frames@, 2)->Some_0); }
    fn parse_setex(frames: &[RespFrame]) -> (r: Result<StringCommand>)
        ensures
            // C12: refused for exactly the shapes the direct command refuses — a zero expire time included
            (frames@.len() != 4 || arg(frames@, 1) is None || num_arg::<u64>(frames@, 2) is None || num_arg::<u64>(frames@, 2) == Some(0u64) || arg(frames@, 3) is None) ==> r is Err,
            frames@.len() == 4 && arg(frames@, 1) is Some && num_arg::<u64>(frames@, 2) is Some && num_arg::<u64>(frames@, 2) != Some(0u64) && arg(frames@, 3) is Some ==>
                (r matches Ok(StringCommand::SetEx { key, value, seconds }) && key@ == arg(frames@, 1)->Some_0 && value@ == arg(frames@, 3)->Some_0 && seconds == num_arg::<u64>(frames@, 2)->Some_0),
//@@ body
//@@ end

//@@ unit parse_psetex fn src/storage/commands/executor.rs CommandParser::parse_psetex
//@@   rewrite R1
//@@   rewrite RCALL parse "*" verif_parse_str
//@@   at "let milliseconds"
//@@|     proof { axiom_strict_is_lossy_u64(arg(frames@, 2)->Some_0); }
    fn parse_psetex(frames: &[RespFrame]) -> (r: Result<StringCommand>)
        ensures
            // C12: refused for exactly the shapes the direct command refuses — a zero expire time included
            (frames@.len() != 4 || arg(frames@, 1) is None || num_arg::<u64>(frames@, 2) is None || num_arg::<u64>(frames@, 2) == Some(0u64) || arg(frames@, 3) is None) ==> r is Err,
            frames@.len() == 4 && arg(frames@, 1) is Some && num_arg::<u64>(frames@, 2) is Some && num_arg::<u64>(frames@, 2) != Some(0u64) && arg(frames@, 3) is Some ==>
                (r matches Ok(StringCommand::PSetEx { key, value, milliseconds }) && key@ == arg(frames@, 1)->Some_0 && value@ == arg(frames@, 3)->Some_0 && milliseconds == num_arg::<u64>(frames@, 2)->Some_0),
//@@ body
//@@ end

//@@ unit parse_lpush fn src/storage/commands/executor.rs CommandParser::parse_lpush
//@@   rewrite RT "let mut values = Vec::new();" "let mut values: Vec<Vec<u8>> = Vec::new();"
//@@   loop 0
//@@|     invariant 2 <= i <= frames@.len(), values@.len() == i - 2, forall|j: int| 2 <= j < i ==> (#[trigger] frames@[j] matches RespFrame::BulkString(Some(_))),
//@@|         forall|j: int| 0 <= j < i - 2 ==> values@[j] == arg_vec(frames@, j + 2)->Some_0,
//@@   afterloop 0
//@@|     proof { assert(values@ =~= args_from(frames@, 2)); }
    fn parse_lpush(frames: &[RespFrame]) -> (r: Result<ListCommand>)
        ensures
            (frames@.len() < 3 || arg(frames@, 1) is None || !all_bulk(frames@, 2)) ==> r is Err,
            frames@.len() >= 3 && arg(frames@, 1) is Some && all_bulk(frames@, 2) ==>
                (r matches Ok(ListCommand::LPush { key, values }) && key@ == arg(frames@, 1)->Some_0 && values@ == args_from(frames@, 2)),
//@@ body
//@@ end

//@@ unit parse_rpush fn src/storage/commands/executor.rs CommandParser::parse_rpush
//@@   rewrite RT "let mut values = Vec::new();" "let mut values: Vec<Vec<u8>> = Vec::new();"
//@@   loop 0
//@@|     invariant 2 <= i <= frames@.len(), values@.len() == i - 2, forall|j: int| 2 <= j < i ==> (#[trigger] frames@[j] matches RespFrame::BulkString(Some(_))),
//@@|         forall|j: int| 0 <= j < i - 2 ==> values@[j] == arg_vec(frames@, j + 2)->Some_0,
//@@   afterloop 0
//@@|     proof { assert(values@ =~= args_from(frames@, 2)); }
    fn parse_rpush(frames: &[RespFrame]) -> (r: Result<ListCommand>)
        ensures
            (frames@.len() < 3 || arg(frames@, 1) is None || !all_bulk(frames@, 2)) ==> r is Err,
            frames@.len() >= 3 && arg(frames@, 1) is Some && all_bulk(frames@, 2) ==>
                (r matches Ok(ListCommand::RPush { key, values }) && key@ == arg(frames@, 1)->Some_0 && values@ == args_from(frames@, 2)),
//@@ body
//@@ end

//@@ unit parse_lpop fn src/storage/commands/executor.rs CommandParser::parse_lpop
    fn parse_lpop(frames: &[RespFrame]) -> (r: Result<ListCommand>)
        ensures
            (frames@.len() != 2 || arg(frames@, 1) is None) ==> r is Err,
            frames@.len() == 2 && arg(frames@, 1) is Some ==> (r matches Ok(ListCommand::LPop { key }) && key@ == arg(frames@, 1)->Some_0),
//@@ body
//@@ end

//@@ unit parse_rpop fn src/storage/commands/executor.rs CommandParser::parse_rpop
    fn parse_rpop(frames: &[RespFrame]) -> (r: Result<ListCommand>)
        ensures
            (frames@.len() != 2 || arg(frames@, 1) is None) ==> r is Err,
            frames@.len() == 2 && arg(frames@, 1) is Some ==> (r matches Ok(ListCommand::RPop { key }) && key@ == arg(frames@, 1)->Some_0),
//@@ body
//@@ end

//@@ unit parse_llen fn src/storage/commands/executor.rs CommandParser::parse_llen
    fn parse_llen(frames: &[RespFrame]) -> (r: Result<ListCommand>)
        ensures
            (frames@.len() != 2 || arg(frames@, 1) is None) ==> r is Err,
            frames@.len() == 2 && arg(frames@, 1) is Some ==> (r matches Ok(ListCommand::LLen { key }) && key@ == arg(frames@, 1)->Some_0),
//@@ body
//@@ end

//@@ unit parse_lindex fn src/storage/commands/executor.rs CommandParser::parse_lindex
//@@   rewrite R1
//@@   rewrite RCALL parse "*" verif_parse_str
//@@   at "let index"
//@@|     proof { axiom_strict_is_lossy_isize(arg(frames@, 2)->Some_0); }
    fn parse_lindex(frames: &[RespFrame]) -> (r: Result<ListCommand>)
        ensures
            (frames@.len() != 3 || arg(frames@, 1) is None || num_arg::<isize>(frames@, 2) is None) ==> r is Err,
            frames@.len() == 3 && arg(frames@, 1) is Some && num_arg::<isize>(frames@, 2) is Some ==> (r matches Ok(ListCommand::LIndex { key, index }) && key@ == arg(frames@, 1)->Some_0 && index == num_arg::<isize>(frames@, 2)->Some_0),
//@@ body
//@@ end

//@@ unit parse_lset fn src/storage/commands/executor.rs CommandParser::parse_lset
//@@   rewrite R1
//@@   rewrite RCALL parse "*" verif_parse_str
//@@   at "let index"
//@@|     proof { axiom_strict_is_lossy_isize(arg(frames@, 2)->Some_0); }
    fn parse_lset(frames: &[RespFrame]) -> (r: Result<ListCommand>)
        ensures
            (frames@.len() != 4 || arg(frames@, 1) is None || num_arg::<isize>(frames@, 2) is None || arg(frames@, 3) is None) ==> r is Err,
            frames@.len() == 4 && arg(frames@, 1) is Some && num_arg::<isize>(frames@, 2) is Some && arg(frames@, 3) is Some ==> (r matches Ok(ListCommand::LSet { key, index, value }) && key@ == arg(frames@, 1)->Some_0 && index == num_arg::<isize>(frames@, 2)->Some_0 && value@ == arg(frames@, 3)->Some_0),
//@@ body
//@@ end

//@@ unit parse_lrange fn src/storage/commands/executor.rs CommandParser::parse_lrange
//@@   rewrite R1
//@@   rewrite RCALL parse "*" verif_parse_str
//@@   at "let start"
//@@|     proof { axiom_strict_is_lossy_isize(arg(frames@, 2)->Some_0); axiom_strict_is_lossy_isize(arg(frames@, 3)->Some_0); }
    fn parse_lrange(frames: &[RespFrame]) -> (r: Result<ListCommand>)
        ensures
            (frames@.len() != 4 || arg(frames@, 1) is None || num_arg::<isize>(frames@, 2) is None || num_arg::<isize>(frames@, 3) is None) ==> r is Err,
            frames@.len() == 4 && arg(frames@, 1) is Some && num_arg::<isize>(frames@, 2) is Some && num_arg::<isize>(frames@, 3) is Some ==> (r matches Ok(ListCommand::LRange { key, start, stop }) && key@ == arg(frames@, 1)->Some_0 && start == num_arg::<isize>(frames@, 2)->Some_0 && stop == num_arg::<isize>(frames@, 3)->Some_0),
//@@ body
//@@ end

//@@ unit parse_ltrim fn src/storage/commands/executor.rs CommandParser::parse_ltrim
//@@   rewrite R1
//@@   rewrite RCALL parse "*" verif_parse_str
//@@   at "let start"
//@@|     proof { axiom_strict_is_lossy_isize(arg(frames@, 2)->Some_0); axiom_strict_is_lossy_isize(arg(frames@, 3)->Some_0); }
    fn parse_ltrim(frames: &[RespFrame]) -> (r: Result<ListCommand>)
        ensures
            (frames@.len() != 4 || arg(frames@, 1) is None || num_arg::<isize>(frames@, 2) is None || num_arg::<isize>(frames@, 3) is None) ==> r is Err,
            frames@.len() == 4 && arg(frames@, 1) is Some && num_arg::<isize>(frames@, 2) is Some && num_arg::<isize>(frames@, 3) is Some ==> (r matches Ok(ListCommand::LTrim { key, start, stop }) && key@ == arg(frames@, 1)->Some_0 && start == num_arg::<isize>(frames@, 2)->Some_0 && stop == num_arg::<isize>(frames@, 3)->Some_0),
//@@ body
//@@ end

//@@ unit parse_sadd fn src/storage/commands/executor.rs CommandParser::parse_sadd
//@@   rewrite RT "let mut members = Vec::new();" "let mut members: Vec<Vec<u8>> = Vec::new();"
//@@   loop 0
//@@|     invariant 2 <= i <= frames@.len(), members@.len() == i - 2, forall|j: int| 2 <= j < i ==> (#[trigger] frames@[j] matches RespFrame::BulkString(Some(_))),
//@@|         forall|j: int| 0 <= j < i - 2 ==> members@[j] == arg_vec(frames@, j + 2)->Some_0,
//@@   afterloop 0
//@@|     proof { assert(members@ =~= args_from(frames@, 2)); }
    fn parse_sadd(frames: &[RespFrame]) -> (r: Result<SetCommand>)
        ensures
            (frames@.len() < 3 || arg(frames@, 1) is None || !all_bulk(frames@, 2)) ==> r is Err,
            frames@.len() >= 3 && arg(frames@, 1) is Some && all_bulk(frames@, 2) ==>
                (r matches Ok(SetCommand::SAdd { key, members }) && key@ == arg(frames@, 1)->Some_0 && members@ == args_from(frames@, 2)),
//@@ body
//@@ end

// ---- more script-path parsers (added late): same reference shapes as the direct handlers of the same commands
//@@ unit parse_getset fn src/storage/commands/executor.rs CommandParser::parse_getset
    fn parse_getset(frames: &[RespFrame]) -> (r: Result<StringCommand>)
        ensures
            (frames@.len() != 3 || arg(frames@, 1) is None || arg(frames@, 2) is None) ==> r is Err,
            frames@.len() == 3 && arg(frames@, 1) is Some && arg(frames@, 2) is Some ==>
                (r matches Ok(StringCommand::GetSet { key, value }) && key@ == arg(frames@, 1)->Some_0 && value@ == arg(frames@, 2)->Some_0),
//@@ body
//@@ end
//@@ unit parse_rename fn src/storage/commands/executor.rs CommandParser::parse_rename
    fn parse_rename(frames: &[RespFrame]) -> (r: Result<KeyCommand>)
        ensures
            (frames@.len() != 3 || arg(frames@, 1) is None || arg(frames@, 2) is None) ==> r is Err,
            frames@.len() == 3 && arg(frames@, 1) is Some && arg(frames@, 2) is Some ==>
                (r matches Ok(KeyCommand::Rename { old_key, new_key }) && old_key@ == arg(frames@, 1)->Some_0 && new_key@ == arg(frames@, 2)->Some_0),
//@@ body
//@@ end
//@@ unit parse_smembers fn src/storage/commands/executor.rs CommandParser::parse_smembers
    fn parse_smembers(frames: &[RespFrame]) -> (r: Result<SetCommand>)
        ensures
            (frames@.len() != 2 || arg(frames@, 1) is None) ==> r is Err,
            frames@.len() == 2 && arg(frames@, 1) is Some ==> (r matches Ok(SetCommand::SMembers { key }) && key@ == arg(frames@, 1)->Some_0),
//@@ body
//@@ end
//@@ unit parse_hgetall fn src/storage/commands/executor.rs CommandParser::parse_hgetall
    fn parse_hgetall(frames: &[RespFrame]) -> (r: Result<HashCommand>)
        ensures
            (frames@.len() != 2 || arg(frames@, 1) is None) ==> r is Err,
            frames@.len() == 2 && arg(frames@, 1) is Some ==> (r matches Ok(HashCommand::HGetAll { key }) && key@ == arg(frames@, 1)->Some_0),
//@@ body
//@@ end
//@@ unit parse_hkeys fn src/storage/commands/executor.rs CommandParser::parse_hkeys
    fn parse_hkeys(frames: &[RespFrame]) -> (r: Result<HashCommand>)
        ensures
            (frames@.len() != 2 || arg(frames@, 1) is None) ==> r is Err,
            frames@.len() == 2 && arg(frames@, 1) is Some ==> (r matches Ok(HashCommand::HKeys { key }) && key@ == arg(frames@, 1)->Some_0),
//@@ body
//@@ end
//@@ unit parse_hvals fn src/storage/commands/executor.rs CommandParser::parse_hvals
    fn parse_hvals(frames: &[RespFrame]) -> (r: Result<HashCommand>)
        ensures
            (frames@.len() != 2 || arg(frames@, 1) is None) ==> r is Err,
            frames@.len() == 2 && arg(frames@, 1) is Some ==> (r matches Ok(HashCommand::HVals { key }) && key@ == arg(frames@, 1)->Some_0),
//@@ body
//@@ end
//@@ unit parse_persist fn src/storage/commands/executor.rs CommandParser::parse_persist
    fn parse_persist(frames: &[RespFrame]) -> (r: Result<KeyCommand>)
        ensures
            (frames@.len() != 2 || arg(frames@, 1) is None) ==> r is Err,
            frames@.len() == 2 && arg(frames@, 1) is Some ==> (r matches Ok(KeyCommand::Persist { key }) && key@ == arg(frames@, 1)->Some_0),
//@@ body
//@@ end
//@@ unit parse_type fn src/storage/commands/executor.rs CommandParser::parse_type
    fn parse_type(frames: &[RespFrame]) -> (r: Result<KeyCommand>)
        ensures
            (frames@.len() != 2 || arg(frames@, 1) is None) ==> r is Err,
            frames@.len() == 2 && arg(frames@, 1) is Some ==> (r matches Ok(KeyCommand::Type { key }) && key@ == arg(frames@, 1)->Some_0),
//@@ body
//@@ end
//@@ unit parse_srem fn src/storage/commands/executor.rs CommandParser::parse_srem
//@@   rewrite RT "let mut members = Vec::new();" "let mut members: Vec<Vec<u8>> = Vec::new();"
//@@   loop 0
//@@|     invariant 2 <= i <= frames@.len(), members@.len() == i - 2, forall|j: int| 2 <= j < i ==> (#[trigger] frames@[j] matches RespFrame::BulkString(Some(_))),
//@@|         forall|j: int| 0 <= j < i - 2 ==> members@[j] == arg_vec(frames@, j + 2)->Some_0,
//@@   afterloop 0
//@@|     proof { assert(members@ =~= args_from(frames@, 2)); }
    fn parse_srem(frames: &[RespFrame]) -> (r: Result<SetCommand>)
        ensures
            (frames@.len() < 3 || arg(frames@, 1) is None || !all_bulk(frames@, 2)) ==> r is Err,
            frames@.len() >= 3 && arg(frames@, 1) is Some && all_bulk(frames@, 2) ==>
                (r matches Ok(SetCommand::SRem { key, members }) && key@ == arg(frames@, 1)->Some_0 && members@ == args_from(frames@, 2)),
//@@ body
//@@ end
//@@ unit parse_hdel fn src/storage/commands/executor.rs CommandParser::parse_hdel
//@@   rewrite RT "let mut fields = Vec::new();" "let mut fields: Vec<Vec<u8>> = Vec::new();"
//@@   loop 0
//@@|     invariant 2 <= i <= frames@.len(), fields@.len() == i - 2, forall|j: int| 2 <= j < i ==> (#[trigger] frames@[j] matches RespFrame::BulkString(Some(_))),
//@@|         forall|j: int| 0 <= j < i - 2 ==> fields@[j] == arg_vec(frames@, j + 2)->Some_0,
//@@   afterloop 0
//@@|     proof { assert(fields@ =~= args_from(frames@, 2)); }
    fn parse_hdel(frames: &[RespFrame]) -> (r: Result<HashCommand>)
        ensures
            (frames@.len() < 3 || arg(frames@, 1) is None || !all_bulk(frames@, 2)) ==> r is Err,
            frames@.len() >= 3 && arg(frames@, 1) is Some && all_bulk(frames@, 2) ==>
                (r matches Ok(HashCommand::HDel { key, fields }) && key@ == arg(frames@, 1)->Some_0 && fields@ == args_from(frames@, 2)),
//@@ body
//@@ end
//@@ unit parse_spop fn src/storage/commands/executor.rs CommandParser::parse_spop
//@@   rewrite R1
//@@   rewrite RCALL parse "*" verif_parse_str
//@@   at "let count"
//@@|     proof { if frames@.len() == 3 && arg(frames@, 2) is Some { axiom_strict_is_lossy_usize(arg(frames@, 2)->Some_0); } }
    fn parse_spop(frames: &[RespFrame]) -> (r: Result<SetCommand>)
        ensures
            // C12: refused for exactly the shapes the direct command refuses; the count is the number the argument spells, no count = None
            (frames@.len() < 2 || frames@.len() > 3 || arg(frames@, 1) is None || (frames@.len() == 3 && num_arg::<usize>(frames@, 2) is None)) ==> r is Err,
            frames@.len() == 2 && arg(frames@, 1) is Some ==> (r matches Ok(SetCommand::SPop { key, count }) && key@ == arg(frames@, 1)->Some_0 && count is None),
            frames@.len() == 3 && arg(frames@, 1) is Some && num_arg::<usize>(frames@, 2) is Some ==>
                (r matches Ok(SetCommand::SPop { key, count }) && key@ == arg(frames@, 1)->Some_0 && count == Some(num_arg::<usize>(frames@, 2)->Some_0)),
//@@ body
//@@ end

//@@ unit parse_scard fn src/storage/commands/executor.rs CommandParser::parse_scard
    fn parse_scard(frames: &[RespFrame]) -> (r: Result<SetCommand>)
        ensures
            (frames@.len() != 2 || arg(frames@, 1) is None) ==> r is Err,
            frames@.len() == 2 && arg(frames@, 1) is Some ==> (r matches Ok(SetCommand::SCard { key }) && key@ == arg(frames@, 1)->Some_0),
//@@ body
//@@ end

//@@ unit parse_sismember fn src/storage/commands/executor.rs CommandParser::parse_sismember
    fn parse_sismember(frames: &[RespFrame]) -> (r: Result<SetCommand>)
        ensures
            (frames@.len() != 3 || arg(frames@, 1) is None || arg(frames@, 2) is None) ==> r is Err,
            frames@.len() == 3 && arg(frames@, 1) is Some && arg(frames@, 2) is Some ==>
                (r matches Ok(SetCommand::SIsMember { key, member }) && key@ == arg(frames@, 1)->Some_0 && member@ == arg(frames@, 2)->Some_0),
//@@ body
//@@ end

//@@ unit parse_hget fn src/storage/commands/executor.rs CommandParser::parse_hget
    fn parse_hget(frames: &[RespFrame]) -> (r: Result<HashCommand>)
        ensures
            (frames@.len() != 3 || arg(frames@, 1) is None || arg(frames@, 2) is None) ==> r is Err,
            frames@.len() == 3 && arg(frames@, 1) is Some && arg(frames@, 2) is Some ==>
                (r matches Ok(HashCommand::HGet { key, field }) && key@ == arg(frames@, 1)->Some_0 && field@ == arg(frames@, 2)->Some_0),
//@@ body
//@@ end

//@@ unit parse_hlen fn src/storage/commands/executor.rs CommandParser::parse_hlen
    fn parse_hlen(frames: &[RespFrame]) -> (r: Result<HashCommand>)
        ensures
            (frames@.len() != 2 || arg(frames@, 1) is None) ==> r is Err,
            frames@.len() == 2 && arg(frames@, 1) is Some ==> (r matches Ok(HashCommand::HLen { key }) && key@ == arg(frames@, 1)->Some_0),
//@@ body
//@@ end

//@@ unit parse_hexists fn src/storage/commands/executor.rs CommandParser::parse_hexists
    fn parse_hexists(frames: &[RespFrame]) -> (r: Result<HashCommand>)
        ensures
            (frames@.len() != 3 || arg(frames@, 1) is None || arg(frames@, 2) is None) ==> r is Err,
            frames@.len() == 3 && arg(frames@, 1) is Some && arg(frames@, 2) is Some ==>
                (r matches Ok(HashCommand::HExists { key, field }) && key@ == arg(frames@, 1)->Some_0 && field@ == arg(frames@, 2)->Some_0),
//@@ body
//@@ end

//@@ unit parse_ttl fn src/storage/commands/executor.rs CommandParser::parse_ttl
    fn parse_ttl(frames: &[RespFrame]) -> (r: Result<KeyCommand>)
        ensures
            (frames@.len() != 2 || arg(frames@, 1) is None) ==> r is Err,
            frames@.len() == 2 && arg(frames@, 1) is Some ==> (r matches Ok(KeyCommand::Ttl { key }) && key@ == arg(frames@, 1)->Some_0),
//@@ body
//@@ end

//@@ unit parse_renamenx fn src/storage/commands/executor.rs CommandParser::parse_renamenx
    fn parse_renamenx(frames: &[RespFrame]) -> (r: Result<KeyCommand>)
        ensures
            (frames@.len() != 3 || arg(frames@, 1) is None || arg(frames@, 2) is None) ==> r is Err,
            frames@.len() == 3 && arg(frames@, 1) is Some && arg(frames@, 2) is Some ==>
                (r matches Ok(KeyCommand::RenameNx { old_key, new_key }) && old_key@ == arg(frames@, 1)->Some_0 && new_key@ == arg(frames@, 2)->Some_0),
//@@ body
//@@ end

//@@ unit parse_del fn src/storage/commands/executor.rs CommandParser::parse_del
//@@   rewrite RT "let mut keys = Vec::new();" "let mut keys: Vec<Vec<u8>> = Vec::new();"
//@@   loop 0
//@@|     invariant 1 <= i <= frames@.len(), keys@.len() == i - 1, forall|j: int| 1 <= j < i ==> (#[trigger] frames@[j] matches RespFrame::BulkString(Some(_))),
//@@|         forall|j: int| 0 <= j < i - 1 ==> keys@[j] == arg_vec(frames@, j + 1)->Some_0,
//@@   afterloop 0
//@@|     proof { assert(keys@ =~= args_from(frames@, 1)); }
    fn parse_del(frames: &[RespFrame]) -> (r: Result<StringCommand>)
        ensures
            (frames@.len() < 2 || !all_bulk(frames@, 1)) ==> r is Err,
            // every argument a script can pass is a bulk string: the keys are handed on in order, as often as they are named
            frames@.len() >= 2 && all_bulk(frames@, 1) ==> (r matches Ok(StringCommand::Del { keys }) && keys@ == args_from(frames@, 1)),
//@@ body
//@@ end

//@@ unit parse_exists fn src/storage/commands/executor.rs CommandParser::parse_exists
//@@   rewrite RT "let mut keys = Vec::new();" "let mut keys: Vec<Vec<u8>> = Vec::new();"
//@@   loop 0
//@@|     invariant 1 <= i <= frames@.len(), keys@.len() == i - 1, forall|j: int| 1 <= j < i ==> (#[trigger] frames@[j] matches RespFrame::BulkString(Some(_))),
//@@|         forall|j: int| 0 <= j < i - 1 ==> keys@[j] == arg_vec(frames@, j + 1)->Some_0,
//@@   afterloop 0
//@@|     proof { assert(keys@ =~= args_from(frames@, 1)); }
    fn parse_exists(frames: &[RespFrame]) -> (r: Result<KeyCommand>)
        ensures
            (frames@.len() < 2 || !all_bulk(frames@, 1)) ==> r is Err,
            // every argument a script can pass is a bulk string: the keys are handed on in order, as often as they are named
            frames@.len() >= 2 && all_bulk(frames@, 1) ==> (r matches Ok(KeyCommand::Exists { keys }) && keys@ == args_from(frames@, 1)),
//@@ body
//@@ end

//@@ unit parse_expire fn src/storage/commands/executor.rs CommandParser::parse_expire
//@@   rewrite R1
//@@   rewrite RCALL parse "*" verif_parse_str
//@@   at "let seconds"
//@@|     proof { axiom_strict_is_lossy_i64(arg(frames@, 2)->Some_0); }
    fn parse_expire(frames: &[RespFrame]) -> (r: Result<KeyCommand>)
        ensures
            (frames@.len() != 3 || arg(frames@, 1) is None || num_arg::<i64>(frames@, 2) is None) ==> r is Err,
            frames@.len() == 3 && arg(frames@, 1) is Some && num_arg::<i64>(frames@, 2) is Some ==>
                (r matches Ok(KeyCommand::Expire { key, seconds }) && key@ == arg(frames@, 1)->Some_0 && seconds == num_arg::<i64>(frames@, 2)->Some_0),
//@@ body
//@@ end

//@@ unit parse_set fn src/storage/commands/executor.rs CommandParser::parse_set
//@@   rewrite R1
//@@   rewrite R3
//@@   rewrite RPCALL "SetOptions::default" verif_set_options_default
//@@   rewrite RCALL to_uppercase "*" verif_to_upper
//@@   rewrite RCALL parse "*" verif_parse_str
//@@   loop 0
//@@|     invariant
//@@|         3 <= i <= frames@.len() + 1, frames@.len() >= 3,
//@@|         seen_x@ ==> script_only_option(frames@) && set_opts(frames@, 3, SetOpts { exp: None, nx: false, xx: false }) is None,
//@@|         !seen_x@ ==> !options.get && !options.keepttl && set_opts(frames@, 3, SetOpts { exp: None, nx: false, xx: false }) == set_opts(frames@, i as int, opts_of(options)),
//@@|     decreases frames@.len() + 1 - i,
//@@   at "let mut i = 3;"
//@@|     let ghost mut seen_x: Ghost<bool> = Ghost(false);
//@@   loopstart 0
//@@|     proof { broadcast use group_str_eq; reveal_with_fuel(set_opts, 2); if arg(frames@, i as int) is Some { axiom_upper_strict_is_lossy(arg(frames@, i as int)->Some_0); }
//@@|         if arg(frames@, i + 1) is Some { let b = arg(frames@, i + 1)->Some_0; if spec_utf8(b) is Some { axiom_str_u64_same(spec_utf8(b)->Some_0); } } }
//@@   after "options.get = true;"
//@@|     proof { if !seen_x@ { assert(arg(frames@, i as int) is Some); } seen_x@ = true; }
//@@   after "options.keepttl = true;"
//@@|     proof { if !seen_x@ { assert(arg(frames@, i as int) is Some); } seen_x@ = true; }
    fn parse_set(frames: &[RespFrame]) -> (r: Result<StringCommand>)
        ensures
            (frames@.len() < 3 || arg(frames@, 1) is None || arg(frames@, 2) is None) ==> r is Err,
            // C12: whenever the direct SET accepts the option list, the script path parses it to the same key, value and options ...
            frames@.len() >= 3 && arg(frames@, 1) is Some && arg(frames@, 2) is Some ==> (match set_opts(frames@, 3, SetOpts { exp: None, nx: false, xx: false }) {
                Some(o) => r matches Ok(StringCommand::Set { key, value, options }) && key@ == arg(frames@, 1)->Some_0 && value@ == arg(frames@, 2)->Some_0
                    && opts_of(options) == o && !options.get && !options.keepttl,
                None => true,
            }),
            // ... and whenever the direct SET refuses it (syntax error, invalid or zero expire time), so does the script path
            frames@.len() >= 3 && arg(frames@, 1) is Some && arg(frames@, 2) is Some && set_opts(frames@, 3, SetOpts { exp: None, nx: false, xx: false }) is None
                && !script_only_option(frames@) ==> r is Err,
            // (same, for option lists that contain GET or KEEPTTL)
            frames@.len() >= 3 && arg(frames@, 1) is Some && arg(frames@, 2) is Some && set_opts(frames@, 3, SetOpts { exp: None, nx: false, xx: false }) is None
                && script_only_option(frames@) ==> r is Err,
//@@ body
//@@ end
}
} // verus!
fn main() {}
