//@@ include prelude/head.rs
use std::time::{Duration, Instant};
//@@ include prelude/time.rs
verus! {
broadcast use {group_time};

// expiry computation on load: the statement between reading the clock and the dispatch to the value reader
// (C09: "Keys whose deadline passed while the server was down are absent after the restart"; a key that carries a
// deadline in the file must never be loaded without one)
//@@ unit rdb_load_ttl stmts src/storage/rdb.rs RdbReader::read_key_value_with_expiry "let ttl = if expiry_ms > now_ms" upto "self.read_key_value_with_type"
//@@   tail ttl
fn rdb_load_ttl(expiry_ms: u64, now_ms: u64) -> (r: Option<Duration>)
    ensures
        r is Some,
        expiry_ms > now_ms ==> dur_nanos(r->Some_0) == (expiry_ms - now_ms) * 1_000_000,   // remaining time to clock granularity
        expiry_ms <= now_ms ==> dur_nanos(r->Some_0) == 0,                                   // passed deadline: expired at once
//@@ body
//@@ end

} // verus!
fn main() {}
