//@@ include prelude/head.rs
use std::borrow::Cow;
//@@ include prelude/cmp.rs
//@@ include prelude/lossy.rs
use std::collections::HashMap;
//@@ include prelude/hash_keys.rs
verus! {
broadcast use {group_byte_keys, vstd::std_specs::hash::group_hash_axioms};
//@@ item src/error.rs FerrousError
//@@ item src/error.rs CommandError
//@@ item src/error.rs StorageError
//@@ item src/error.rs ScriptError
pub type Result<T> = std::result::Result<T, FerrousError>;

pub open spec fn key_matches(pattern: Option<&[u8]>, k: Vec<u8>) -> bool {
    match pattern { None => true, Some(p) => spec_glob(lossy(p@), lossy(k@)) }
}
/// the keys of all[from..to) that satisfy the filter, in order
pub open spec fn filtered(all: Seq<Vec<u8>>, from: int, to: int, pattern: Option<&[u8]>) -> Seq<Vec<u8>>
    decreases to - from
{
    if from >= to { Seq::empty() }
    else {
        let rest = filtered(all, from, to - 1, pattern);
        if key_matches(pattern, all[to - 1]) { rest.push(all[to - 1]) } else { rest }
    }
}
/// contract of one SCAN step over the (sorted, per-call) key list: the call examines the window [start, end) where
/// end = next cursor if that is non-zero, else the end of the list
pub open spec fn scan_post(all: Seq<Vec<u8>>, start: int, pattern: Option<&[u8]>, max: int, next: u64, out: Seq<Vec<u8>>) -> bool {
    if next != 0 {
        // stopped early: only because a budget is exhausted, and with progress
        &&& start < next < all.len()
        &&& out == filtered(all, start, next as int, pattern)
        &&& (out.len() == max || next - start == max * 10)
    } else {
        out == filtered(all, start, all.len() as int, pattern)
    }
}

//@@ unit scan_count stmts src/storage/engine.rs StorageEngine::scan "let scan_count" upto "let mut all_keys"
//@@   tail max_scan_count
fn scan_count(count: usize) -> (r: usize)
    ensures 1 <= r <= 1000, count == 0 ==> r == 10, 0 < count <= 1000 ==> r == count, count > 1000 ==> r == 1000,
//@@ body
//@@ end

//@@ unit scan_window stmts src/storage/engine.rs StorageEngine::scan "let start_pos"
//@@   rewrite RC 0 "Cow<'_, str>" "cow_chars(cr) == lossy(p@)"
//@@   rewrite RPCALL "pattern_matches" verif_pattern_matches
//@@   loop 0
//@@|     invariant
//@@|         1 <= max_scan_count <= 1000, all_keys@.len() <= usize::MAX,
//@@|         start_pos <= current_pos <= all_keys@.len() || (start_pos > all_keys@.len() && current_pos == start_pos),
//@@|         keys_examined == current_pos - start_pos,
//@@|         matching_keys@ == filtered(all_keys@, start_pos as int, current_pos as int, pattern),
//@@|         matching_keys@.len() <= keys_examined, keys_examined <= max_scan_count * 10, matching_keys@.len() <= max_scan_count,
//@@|         pattern is Some <==> pattern_str is Some,
//@@|         pattern matches Some(p) ==> cow_chars(pattern_str->Some_0) == lossy(p@),
//@@|     ensures current_pos >= all_keys@.len() || keys_examined >= max_scan_count * 10 || matching_keys@.len() >= max_scan_count,
//@@|     decreases all_keys@.len() + 1 - current_pos,
fn scan_window(all_keys: &Vec<Vec<u8>>, cursor: u64, pattern: Option<&[u8]>, max_scan_count: usize) -> (r: Result<(u64, Vec<Vec<u8>>)>)
    requires 1 <= max_scan_count <= 1000,
    ensures
        r is Ok,
        scan_post(all_keys@, cursor as int, pattern, max_scan_count as int, (r->Ok_0).0, (r->Ok_0).1@),
//@@ body
//@@ end

// SSCAN: the same cursor window over the sorted member list of one set (real loop, extracted)
//@@ unit sscan_window stmts src/storage/engine.rs StorageEngine::sscan "let start_pos"
//@@   opt same-return-type
//@@   rewrite RC 0 "Cow<'_, str>" "cow_chars(cr) == lossy(p@)"
//@@   rewrite RPCALL "pattern_matches" verif_pattern_matches
//@@   loop 0
//@@|     invariant
//@@|         1 <= max_scan_count <= 1000, members@.len() <= usize::MAX,
//@@|         start_pos <= current_pos <= members@.len() || (start_pos > members@.len() && current_pos == start_pos),
//@@|         members_examined == current_pos - start_pos,
//@@|         result@ == filtered(members@, start_pos as int, current_pos as int, pattern),
//@@|         result@.len() <= members_examined, members_examined <= max_scan_count * 10, result@.len() <= max_scan_count,
//@@|         pattern is Some <==> pattern_str is Some,
//@@|         pattern matches Some(p) ==> cow_chars(pattern_str->Some_0) == lossy(p@),
//@@|     ensures current_pos >= members@.len() || members_examined >= max_scan_count * 10 || result@.len() >= max_scan_count,
//@@|     decreases members@.len() + 1 - current_pos,
fn sscan_window(members: &Vec<Vec<u8>>, cursor: u64, pattern: Option<&[u8]>, max_scan_count: usize) -> (r: Result<(u64, Vec<Vec<u8>>)>)
    requires 1 <= max_scan_count <= 1000,
    ensures
        r is Ok,
        scan_post(members@, cursor as int, pattern, max_scan_count as int, (r->Ok_0).0, (r->Ok_0).1@),
//@@ body
//@@ end

// ZSCAN: items are (member, score) pairs sorted by member; the filter applies to the member
pub open spec fn zfiltered(all: Seq<(Vec<u8>, f64)>, from: int, to: int, pattern: Option<&[u8]>) -> Seq<(Vec<u8>, f64)>
    decreases to - from
{
    if from >= to { Seq::empty() }
    else {
        let rest = zfiltered(all, from, to - 1, pattern);
        if key_matches(pattern, all[to - 1].0) { rest.push(all[to - 1]) } else { rest }
    }
}
pub open spec fn zscan_post(all: Seq<(Vec<u8>, f64)>, start: int, pattern: Option<&[u8]>, max: int, next: u64, out: Seq<(Vec<u8>, f64)>) -> bool {
    if next != 0 {
        &&& start < next < all.len()
        &&& out == zfiltered(all, start, next as int, pattern)
        &&& (out.len() == max || next - start == max * 10)
    } else {
        out == zfiltered(all, start, all.len() as int, pattern)
    }
}
//@@ unit zscan_window stmts src/storage/engine.rs StorageEngine::zscan "let start_pos"
//@@   opt same-return-type
//@@   rewrite RC 0 "Cow<'_, str>" "cow_chars(cr) == lossy(p@)"
//@@   rewrite RPCALL "pattern_matches" verif_pattern_matches
//@@   loop 0
//@@|     invariant
//@@|         1 <= max_scan_count <= 1000, items@.len() <= usize::MAX,
//@@|         start_pos <= current_pos <= items@.len() || (start_pos > items@.len() && current_pos == start_pos),
//@@|         items_examined == current_pos - start_pos,
//@@|         result@ == zfiltered(items@, start_pos as int, current_pos as int, pattern),
//@@|         result@.len() <= items_examined, items_examined <= max_scan_count * 10, result@.len() <= max_scan_count,
//@@|         pattern is Some <==> pattern_str is Some,
//@@|         pattern matches Some(p) ==> cow_chars(pattern_str->Some_0) == lossy(p@),
//@@|     ensures current_pos >= items@.len() || items_examined >= max_scan_count * 10 || result@.len() >= max_scan_count,
//@@|     decreases items@.len() + 1 - current_pos,
fn zscan_window(items: Vec<(Vec<u8>, f64)>, cursor: u64, pattern: Option<&[u8]>, max_scan_count: usize) -> (r: Result<(u64, Vec<(Vec<u8>, f64)>)>)
    requires 1 <= max_scan_count <= 1000,
    ensures
        r is Ok,
        zscan_post(items@, cursor as int, pattern, max_scan_count as int, (r->Ok_0).0, (r->Ok_0).1@),
//@@ body
//@@ end

// HSCAN: fields sorted; the reply interleaves field and value unless NOVALUES
pub open spec fn hfiltered(all: Seq<Vec<u8>>, from: int, to: int, pattern: Option<&[u8]>, h: Map<Vec<u8>, Vec<u8>>, no_values: bool) -> Seq<Vec<u8>>
    decreases to - from
{
    if from >= to { Seq::empty() }
    else {
        let rest = hfiltered(all, from, to - 1, pattern, h, no_values);
        if key_matches(pattern, all[to - 1]) { if no_values { rest.push(all[to - 1]) } else { rest.push(all[to - 1]).push(h[all[to - 1]]) } } else { rest }
    }
}
pub open spec fn hcount(all: Seq<Vec<u8>>, from: int, to: int, pattern: Option<&[u8]>) -> int
    decreases to - from
{
    if from >= to { 0 } else { hcount(all, from, to - 1, pattern) + if key_matches(pattern, all[to - 1]) { 1int } else { 0int } }
}
proof fn lemma_hfiltered_len(all: Seq<Vec<u8>>, from: int, to: int, pattern: Option<&[u8]>, h: Map<Vec<u8>, Vec<u8>>, no_values: bool)
    ensures hfiltered(all, from, to, pattern, h, no_values).len() == hcount(all, from, to, pattern) * (if no_values { 1int } else { 2int }), hcount(all, from, to, pattern) >= 0,
        from < to ==> hcount(all, from, to, pattern) <= to - from,
    decreases to - from
{
    if from < to { lemma_hfiltered_len(all, from, to - 1, pattern, h, no_values); }
}
pub open spec fn hscan_post(all: Seq<Vec<u8>>, start: int, pattern: Option<&[u8]>, max: int, next: u64, out: Seq<Vec<u8>>, h: Map<Vec<u8>, Vec<u8>>, no_values: bool) -> bool {
    if next != 0 {
        &&& start < next < all.len()
        &&& out == hfiltered(all, start, next as int, pattern, h, no_values)
    } else {
        out == hfiltered(all, start, all.len() as int, pattern, h, no_values)
    }
}
//@@ unit hscan_window stmts src/storage/engine.rs StorageEngine::hscan "let start_pos"
//@@   opt same-return-type
//@@   rewrite RC 0 "Cow<'_, str>" "cow_chars(cr) == lossy(p@)"
//@@   rewrite RPCALL "pattern_matches" verif_pattern_matches
//@@   loop 0
//@@|     invariant
//@@|         1 <= max_scan_count <= 1000, fields@.len() <= usize::MAX,
//@@|         forall|i: int| 0 <= i < fields@.len() ==> hash@.contains_key(#[trigger] fields@[i]),
//@@|         start_pos <= current_pos <= fields@.len() || (start_pos > fields@.len() && current_pos == start_pos),
//@@|         fields_examined == current_pos - start_pos, fields_examined <= max_scan_count * 10,
//@@|         result@ == hfiltered(fields@, start_pos as int, current_pos as int, pattern, hash@, no_values),
//@@|         result@.len() <= 2 * fields_examined,
//@@|         pattern is Some <==> pattern_str is Some,
//@@|         pattern matches Some(p) ==> cow_chars(pattern_str->Some_0) == lossy(p@),
//@@|     ensures current_pos >= fields@.len() || current_pos > start_pos,
//@@|     decreases fields@.len() + 1 - current_pos,
//@@   at "let field = &fields[current_pos];"
//@@| proof { lemma_hfiltered_len(fields@, start_pos as int, current_pos as int, pattern, hash@, no_values); }
fn hscan_window(hash: HashMap<Vec<u8>, Vec<u8>>, fields: Vec<Vec<u8>>, cursor: u64, pattern: Option<&[u8]>, max_scan_count: usize, no_values: bool) -> (r: Result<(u64, Vec<Vec<u8>>)>)
    requires 1 <= max_scan_count <= 1000, forall|i: int| 0 <= i < fields@.len() ==> hash@.contains_key(#[trigger] fields@[i]),
    ensures
        r is Ok,
        hscan_post(fields@, cursor as int, pattern, max_scan_count as int, (r->Ok_0).0, (r->Ok_0).1@, hash@, no_values),
//@@ body
//@@ end

// ---- Lemma A (static key space): what one step does not return, it leaves for a later step — together with
// progress (next > start or next == 0) a full iteration over an unchanged key list returns every matching key.
proof fn lemma_filtered_contains(all: Seq<Vec<u8>>, from: int, to: int, pattern: Option<&[u8]>, i: int)
    requires 0 <= from <= i < to <= all.len(), key_matches(pattern, all[i]),
    ensures filtered(all, from, to, pattern).contains(all[i]),
    decreases to - from
{
    if i == to - 1 {
        let rest = filtered(all, from, to - 1, pattern);
        assert(rest.push(all[to - 1])[rest.len() as int] == all[to - 1]);
    } else {
        lemma_filtered_contains(all, from, to - 1, pattern, i);
        let rest = filtered(all, from, to - 1, pattern);
        let j = choose|j: int| 0 <= j < rest.len() && rest[j] == all[i];
        if key_matches(pattern, all[to - 1]) { assert(rest.push(all[to - 1])[j] == all[i]); }
    }
}
proof fn lemma_filtered_sound(all: Seq<Vec<u8>>, from: int, to: int, pattern: Option<&[u8]>, j: int)
    requires 0 <= from <= to <= all.len(), 0 <= j < filtered(all, from, to, pattern).len(),
    ensures exists|i: int| #![auto] from <= i < to && all[i] == filtered(all, from, to, pattern)[j] && key_matches(pattern, all[i]),
    decreases to - from
{
    if from < to {
        let rest = filtered(all, from, to - 1, pattern);
        if key_matches(pattern, all[to - 1]) && j == rest.len() { assert(all[to - 1] == filtered(all, from, to, pattern)[j]); }
        else { lemma_filtered_sound(all, from, to - 1, pattern, j); }
    }
}
proof fn lemma_scan_step_complete(all: Seq<Vec<u8>>, start: int, pattern: Option<&[u8]>, max: int, next: u64, out: Seq<Vec<u8>>, i: int)
    requires 0 <= start, scan_post(all, start, pattern, max, next, out), start <= i < all.len(), key_matches(pattern, all[i]),
    ensures out.contains(all[i]) || (next != 0 && next <= i && next > start),
{
    if next != 0 { if i < next { lemma_filtered_contains(all, start, next as int, pattern, i); } }
    else { lemma_filtered_contains(all, start, all.len() as int, pattern, i); }
}
/// nothing is returned that is not in the key list or fails the filter
proof fn lemma_scan_step_sound(all: Seq<Vec<u8>>, start: int, pattern: Option<&[u8]>, max: int, next: u64, out: Seq<Vec<u8>>, j: int)
    requires 0 <= start <= all.len(), scan_post(all, start, pattern, max, next, out), 0 <= j < out.len(),
    ensures exists|i: int| start <= i < all.len() && all[i] == out[j] && key_matches(pattern, all[i]),
{
    if next != 0 { lemma_filtered_sound(all, start, next as int, pattern, j); let i = choose|i: int| start <= i < next && all[i] == filtered(all, start, next as int, pattern)[j] && key_matches(pattern, all[i]); assert(start <= i < all.len() && all[i] == out[j]); }
    else { lemma_filtered_sound(all, start, all.len() as int, pattern, j); let i = choose|i: int| start <= i < all.len() && all[i] == filtered(all, start, all.len() as int, pattern)[j] && key_matches(pattern, all[i]); assert(all[i] == out[j]); }
}


// ---- Lemma B (the property itself): a key present from the first to the last call is returned even if OTHER keys are
// deleted between calls. With a cursor that is an index into a list rebuilt on every call this is FALSE; the lemma is
// stated so that the check reports exactly this obligation (listed in known_findings.json with its replayed witness).
pub open spec fn scan_still_reaches(l2: Seq<Vec<u8>>, c: u64, k: Vec<u8>) -> bool {
    exists|i: int| c <= i < l2.len() && l2[i] == k
}
proof fn lemma_scan_stable_under_deletion(l1: Seq<Vec<u8>>, l2: Seq<Vec<u8>>, d: int, c: u64, k: Vec<u8>, ik: int)
    requires
        0 <= d < l1.len(), l2 == l1.remove(d),          // another key is deleted between two calls
        0 < c < l1.len(),                               // c = cursor handed out by the first call
        c <= ik < l1.len(), l1[ik] == k, ik != d,       // k was not yet returned and stays present
        forall|i: int, j: int| 0 <= i < j < l1.len() ==> l1[i] != l1[j],
    ensures scan_still_reaches(l2, c, k),
{
}

} // verus!
fn main() {}
