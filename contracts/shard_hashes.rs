//@@ include contracts/inc_shard_header.rs
//@@ include contracts/inc_value_units.rs
verus! {
spec fn hash_at(s: SV, key: Vec<u8>) -> Option<Map<Vec<u8>, Vec<u8>>> {
    if s.data.contains_key(key) { match s.data[key].value { Value::Hash(h) => Some(h@), _ => None } } else { None }
}
spec fn holds_non_hash(s: SV, key: Vec<u8>) -> bool {
    s.data.contains_key(key) && !(s.data[key].value is Hash)
}
/// HSET k f1 v1 f2 v2 ...: pairs are applied in order (a later pair for the same field wins)
spec fn apply_pairs(m: Map<Vec<u8>, Vec<u8>>, p: Seq<(Vec<u8>, Vec<u8>)>, n: int) -> Map<Vec<u8>, Vec<u8>>
    decreases n
{
    if n <= 0 { m } else { apply_pairs(m, p, n - 1).insert(p[n - 1].0, p[n - 1].1) }
}
proof fn lemma_apply_pairs_props(m: Map<Vec<u8>, Vec<u8>>, p: Seq<(Vec<u8>, Vec<u8>)>, n: int)
    requires 0 <= n <= p.len(),
    ensures m.dom().subset_of(apply_pairs(m, p, n).dom()), apply_pairs(m, p, n).dom().len() >= m.dom().len(),
        n > 0 ==> apply_pairs(m, p, n).dom().len() > 0,
    decreases n
{
    if n > 0 {
        lemma_apply_pairs_props(m, p, n - 1);
        let q = apply_pairs(m, p, n - 1);
        assert(apply_pairs(m, p, n).dom() =~= q.dom().insert(p[n - 1].0));
        vstd::set_lib::lemma_len_subset(m.dom(), apply_pairs(m, p, n).dom());
        vstd::set::lemma_set_contains_len(apply_pairs(m, p, n).dom(), p[n - 1].0);
    }
}

/// the set of the first n fields of a sequence
spec fn fseq_set(e: Seq<Vec<u8>>, n: int) -> Set<Vec<u8>> { e.subrange(0, n).to_set() }
proof fn lemma_fseq_set_step(e: Seq<Vec<u8>>, n: int)
    requires 0 <= n < e.len(),
    ensures fseq_set(e, n + 1) =~= fseq_set(e, n).insert(e[n]),
{
    let a = e.subrange(0, n + 1);
    let b = e.subrange(0, n);
    assert forall|x: Vec<u8>| a.to_set().contains(x) <==> b.to_set().insert(e[n]).contains(x) by {
        if a.to_set().contains(x) { let i = choose|i: int| 0 <= i < a.len() && a[i] == x; if i < n { assert(b[i] == x); } else { assert(x == e[n]); } }
        if b.to_set().contains(x) { let i = choose|i: int| 0 <= i < b.len() && b[i] == x; assert(a[i] == x); }
        if x == e[n] { assert(a[n] == x); }
    }
}
impl StorageEngine {
// HDEL (fields taken at T = Vec<u8>; `field.as_ref()` -> as_slice, RT): exactly the named fields leave; the reply counts those that were there; a
// hash that becomes empty ceases to exist as a key (with its deadline-index entry); the key is marked for WATCH
//@@ unit hdel fn src/storage/engine.rs StorageEngine::hdel
//@@   params drop "db: DatabaseIndex" "fields: &[T]" add "shard_guard: &mut DatabaseShard" "fields: &[Vec<u8>]"
//@@   rewrite R2
//@@   rewrite RT "field.as_ref()" "field.as_slice()"
//@@   rewrite RFOR 0 it
//@@   loop 0
//@@|     invariant hash@ =~= old_hash.remove_keys(fseq_set(fields@, it.index@ as int)), old_hash.dom().finite(),
//@@|         deleted == old_hash.dom().len() - hash@.dom().len(), deleted <= it.index@, it.index@ <= fields@.len(), fields@.len() <= usize::MAX,
//@@   at "let mut deleted = 0;"
//@@| let ghost old_hash = hash@;
//@@| proof { assert(fields@.subrange(0, 0).to_set() =~= Set::<Vec<u8>>::empty()); }
//@@   at "if hash.remove(field.as_ref()).is_some()"
//@@| proof { lemma_fseq_set_step(fields@, it.index@ as int); vstd::set_lib::lemma_len_subset(hash@.dom(), old_hash.dom()); }
//@@   at "if hash.is_empty()"
//@@| proof { vstd::set_lib::lemma_len_subset(hash@.dom(), old_hash.dom()); }
    fn hdel(&self, shard_guard: &mut DatabaseShard, key: Key, fields: &[Vec<u8>]) -> (r: Result<usize>)
        ensures
            step_ok(eff(*old(shard_guard), key), sv(*final(shard_guard)), key),
            coll_ok(eff(*old(shard_guard), key)) ==> coll_ok(sv(*final(shard_guard))),
            holds_non_hash(eff(*old(shard_guard), key), key) ==> r is Err && unchanged(eff(*old(shard_guard), key), sv(*final(shard_guard))),
            !eff(*old(shard_guard), key).data.contains_key(key) ==> r == Ok::<usize, FerrousError>(0) && unchanged(eff(*old(shard_guard), key), sv(*final(shard_guard))),
            hash_at(eff(*old(shard_guard), key), key) matches Some(m) ==> ({
                let left = m.remove_keys(fseq_set(fields@, fields@.len() as int));
                &&& r == Ok::<usize, FerrousError>((m.dom().len() - left.dom().len()) as usize)
                &&& (left.dom().len() == 0 ==> !sv(*final(shard_guard)).data.contains_key(key) && !sv(*final(shard_guard)).exp.contains_key(key))
                &&& (left.dom().len() != 0 ==> hash_at(sv(*final(shard_guard)), key) == Some(left)
                        && sv(*final(shard_guard)).data[key].metadata == eff(*old(shard_guard), key).data[key].metadata)
            }),
//@@ body
//@@ end

//@@ unit hset fn src/storage/engine.rs StorageEngine::hset
//@@   params drop "db: DatabaseIndex" add "shard_guard: &mut DatabaseShard"
//@@   rewrite R2
//@@   rewrite RFOR 0 it
//@@   rewrite RFOR 1 it
//@@   loop 0
//@@|     invariant hash@ == apply_pairs(old_hash, field_values@, it.index@ as int),
//@@|         added == hash@.dom().len() - old_hash.dom().len(), added <= it.index@, it.index@ <= field_values@.len(),
//@@   loop 1
//@@|     invariant hash@ == apply_pairs(Map::<Vec<u8>, Vec<u8>>::empty(), field_values@, it.index@ as int),
//@@|         added == hash@.dom().len(), added <= it.index@, it.index@ <= field_values@.len(),
//@@   at "let mut added = 0;" #0
//@@| let ghost old_hash = hash@;
//@@   at "if hash.insert(field, value).is_none()" #0
//@@| proof { lemma_apply_pairs_props(old_hash, field_values@, it.index@ as int); }
//@@   at "if hash.insert(field, value).is_none()" #1
//@@| proof { lemma_apply_pairs_props(Map::<Vec<u8>, Vec<u8>>::empty(), field_values@, it.index@ as int); }
//@@   at "shard_guard.mark_modified(&key);" #0
//@@| proof { lemma_apply_pairs_props(old_hash, field_values@, field_values@.len() as int); }
//@@   at "let stored_value = StoredValue::new(Value::Hash(hash));"
//@@| proof { lemma_apply_pairs_props(Map::<Vec<u8>, Vec<u8>>::empty(), field_values@, field_values@.len() as int); }
    fn hset(&self, shard_guard: &mut DatabaseShard, key: Key, field_values: Vec<(Vec<u8>, Vec<u8>)>) -> (r: Result<usize>)
        requires field_values@.len() > 0,
        ensures
            step_ok(eff(*old(shard_guard), key), sv(*final(shard_guard)), key),
            coll_ok(eff(*old(shard_guard), key)) ==> coll_ok(sv(*final(shard_guard))),
            holds_non_hash(eff(*old(shard_guard), key), key) ==> r is Err && unchanged(eff(*old(shard_guard), key), sv(*final(shard_guard))),
            // existing hash: pairs applied in order; reply = number of fields that did not exist before
            hash_at(eff(*old(shard_guard), key), key) matches Some(m) ==> hash_at(sv(*final(shard_guard)), key) == Some(apply_pairs(m, field_values@, field_values@.len() as int))
                && r == Ok::<usize, FerrousError>((apply_pairs(m, field_values@, field_values@.len() as int).dom().len() - m.dom().len()) as usize)
                && sv(*final(shard_guard)).data[key].metadata == eff(*old(shard_guard), key).data[key].metadata,
            !eff(*old(shard_guard), key).data.contains_key(key) ==> hash_at(sv(*final(shard_guard)), key) == Some(apply_pairs(Map::<Vec<u8>, Vec<u8>>::empty(), field_values@, field_values@.len() as int))
                && r == Ok::<usize, FerrousError>(apply_pairs(Map::<Vec<u8>, Vec<u8>>::empty(), field_values@, field_values@.len() as int).dom().len() as usize)
                && sv(*final(shard_guard)).data[key].metadata.expires_at is None,
//@@ body
//@@ end

//@@ unit hget fn src/storage/engine.rs StorageEngine::hget
//@@   params drop "db: DatabaseIndex" add "shard_guard: &mut DatabaseShard"
//@@   rewrite R2
    fn hget(&self, shard_guard: &mut DatabaseShard, key: &[u8], field: &[u8]) -> (r: Result<Option<Vec<u8>>>)
        ensures
            unchanged(eff(*old(shard_guard), key_of(key@)), sv(*final(shard_guard))),
            holds_non_hash(eff(*old(shard_guard), key_of(key@)), key_of(key@)) ==> r is Err,
            !eff(*old(shard_guard), key_of(key@)).data.contains_key(key_of(key@)) ==> r == Ok::<Option<Vec<u8>>, FerrousError>(None),
            hash_at(eff(*old(shard_guard), key_of(key@)), key_of(key@)) matches Some(m) ==> r is Ok
                && (m.contains_key(key_of(field@)) ==> (r->Ok_0 matches Some(v) && v@ == m[key_of(field@)]@))
                && (!m.contains_key(key_of(field@)) ==> r->Ok_0 is None),
//@@ body
//@@ end

//@@ unit hlen fn src/storage/engine.rs StorageEngine::hlen
//@@   params drop "db: DatabaseIndex" add "shard_guard: &mut DatabaseShard"
//@@   rewrite R2
    fn hlen(&self, shard_guard: &mut DatabaseShard, key: &[u8]) -> (r: Result<usize>)
        ensures
            unchanged(eff(*old(shard_guard), key_of(key@)), sv(*final(shard_guard))),
            holds_non_hash(eff(*old(shard_guard), key_of(key@)), key_of(key@)) ==> r is Err,
            !eff(*old(shard_guard), key_of(key@)).data.contains_key(key_of(key@)) ==> r == Ok::<usize, FerrousError>(0),
            hash_at(eff(*old(shard_guard), key_of(key@)), key_of(key@)) matches Some(m) ==> r == Ok::<usize, FerrousError>(m.dom().len() as usize),
//@@ body
//@@ end

//@@ unit hexists fn src/storage/engine.rs StorageEngine::hexists
//@@   params drop "db: DatabaseIndex" add "shard_guard: &mut DatabaseShard"
//@@   rewrite R2
    fn hexists(&self, shard_guard: &mut DatabaseShard, key: &[u8], field: &[u8]) -> (r: Result<bool>)
        ensures
            unchanged(eff(*old(shard_guard), key_of(key@)), sv(*final(shard_guard))),
            holds_non_hash(eff(*old(shard_guard), key_of(key@)), key_of(key@)) ==> r is Err,
            !eff(*old(shard_guard), key_of(key@)).data.contains_key(key_of(key@)) ==> r == Ok::<bool, FerrousError>(false),
            hash_at(eff(*old(shard_guard), key_of(key@)), key_of(key@)) matches Some(m) ==> r == Ok::<bool, FerrousError>(m.contains_key(key_of(field@))),
//@@ body
//@@ end

//@@ unit hincrby fn src/storage/engine.rs StorageEngine::hincrby
//@@   params drop "db: DatabaseIndex" add "shard_guard: &mut DatabaseShard"
//@@   rewrite R2
//@@   rewrite RCALL parse current_str verif_cow_parse
//@@   rewrite RCALL to_string new_val verif_i64_to_string
//@@   rewrite RCALL to_string increment verif_i64_to_string
    fn hincrby(&self, shard_guard: &mut DatabaseShard, key: Key, field: Vec<u8>, increment: i64) -> (r: Result<i64>)
        ensures
            step_ok(eff(*old(shard_guard), key), sv(*final(shard_guard)), key),
            coll_ok(eff(*old(shard_guard), key)) ==> coll_ok(sv(*final(shard_guard))),
            // refused (wrong type, field is not an integer, overflow): nothing changes
            r is Err ==> unchanged(eff(*old(shard_guard), key), sv(*final(shard_guard))),
            holds_non_hash(eff(*old(shard_guard), key), key) ==> r is Err,
            // missing key: a hash with the single field = increment
            !eff(*old(shard_guard), key).data.contains_key(key) ==> r == Ok::<i64, FerrousError>(increment)
                && hash_at(sv(*final(shard_guard)), key) == Some(Map::<Vec<u8>, Vec<u8>>::empty().insert(field, key_of(i64_str(increment)))),
            hash_at(eff(*old(shard_guard), key), key) matches Some(m) ==> (
                if !m.contains_key(field) {
                    r == Ok::<i64, FerrousError>(increment) && hash_at(sv(*final(shard_guard)), key) == Some(m.insert(field, key_of(i64_str(increment))))
                } else { match spec_parse_i64(m[field]@) {
                    None => r is Err,
                    Some(cur) => if i64::MIN <= cur + increment <= i64::MAX {
                            r == Ok::<i64, FerrousError>((cur + increment) as i64)
                            && hash_at(sv(*final(shard_guard)), key) == Some(m.insert(field, key_of(i64_str((cur + increment) as i64))))
                        } else { r is Err },
                } }),
//@@ body
//@@ end

// ---- hash reads that go through iterator chains (HGETALL / HKEYS / HVALS / HMGET): the chains themselves are ASSUMED (helpers below, anchored to
// the exact expression text); under contract is what surrounds them — the read goes through the lazy purge (C02), refuses another type,
// answers "empty" for a missing key, and writes nothing
//@@ unit hgetall fn src/storage/engine.rs StorageEngine::hgetall
//@@   params drop "db: DatabaseIndex" add "shard_guard: &mut DatabaseShard"
//@@   rewrite R2
//@@   rewrite RXPR "hash.iter().map(|(k, v)| (k.clone(), v.clone())).collect()" "verif_hash_pairs(hash)"
    fn hgetall(&self, shard_guard: &mut DatabaseShard, key: &[u8]) -> (r: Result<Vec<(Vec<u8>, Vec<u8>)>>)
        ensures
            unchanged(eff(*old(shard_guard), key_of(key@)), sv(*final(shard_guard))),
            holds_non_hash(eff(*old(shard_guard), key_of(key@)), key_of(key@)) ==> r is Err,
            !eff(*old(shard_guard), key_of(key@)).data.contains_key(key_of(key@)) ==> (r matches Ok(v) && v@.len() == 0),
            hash_at(eff(*old(shard_guard), key_of(key@)), key_of(key@)) matches Some(m) ==> (r matches Ok(v) && pairs_of(v@, m)),
//@@ body
//@@ end
//@@ unit hkeys fn src/storage/engine.rs StorageEngine::hkeys
//@@   params drop "db: DatabaseIndex" add "shard_guard: &mut DatabaseShard"
//@@   rewrite R2
//@@   rewrite RXPR "hash.keys().cloned().collect()" "verif_hash_keys(hash)"
    fn hkeys(&self, shard_guard: &mut DatabaseShard, key: &[u8]) -> (r: Result<Vec<Vec<u8>>>)
        ensures
            unchanged(eff(*old(shard_guard), key_of(key@)), sv(*final(shard_guard))),
            holds_non_hash(eff(*old(shard_guard), key_of(key@)), key_of(key@)) ==> r is Err,
            !eff(*old(shard_guard), key_of(key@)).data.contains_key(key_of(key@)) ==> (r matches Ok(v) && v@.len() == 0),
            hash_at(eff(*old(shard_guard), key_of(key@)), key_of(key@)) matches Some(m) ==> (r matches Ok(v) && v@.no_duplicates() && v@.to_set() == m.dom()),
//@@ body
//@@ end
//@@ unit hvals fn src/storage/engine.rs StorageEngine::hvals
//@@   params drop "db: DatabaseIndex" add "shard_guard: &mut DatabaseShard"
//@@   rewrite R2
//@@   rewrite RXPR "hash.values().cloned().collect()" "verif_hash_vals(hash)"
    fn hvals(&self, shard_guard: &mut DatabaseShard, key: &[u8]) -> (r: Result<Vec<Vec<u8>>>)
        ensures
            unchanged(eff(*old(shard_guard), key_of(key@)), sv(*final(shard_guard))),
            holds_non_hash(eff(*old(shard_guard), key_of(key@)), key_of(key@)) ==> r is Err,
            !eff(*old(shard_guard), key_of(key@)).data.contains_key(key_of(key@)) ==> (r matches Ok(v) && v@.len() == 0),
            hash_at(eff(*old(shard_guard), key_of(key@)), key_of(key@)) matches Some(m) ==> (r matches Ok(v) && vals_of(v@, m)),
//@@ body
//@@ end
//@@ unit hmget fn src/storage/engine.rs StorageEngine::hmget
//@@   params drop "db: DatabaseIndex" "fields: &[T]" add "shard_guard: &mut DatabaseShard" "fields: &[Vec<u8>]"
//@@   rewrite R2
//@@   rewrite RXPR "fields.iter().map(|field| hash.get(field.as_ref()).cloned()).collect()" "verif_hash_lookup(hash, fields)"
//@@   rewrite RT "vec![None; fields.len()]" "verif_nones(fields.len())"
    fn hmget(&self, shard_guard: &mut DatabaseShard, key: &[u8], fields: &[Vec<u8>]) -> (r: Result<Vec<Option<Vec<u8>>>>)
        ensures
            unchanged(eff(*old(shard_guard), key_of(key@)), sv(*final(shard_guard))),
            holds_non_hash(eff(*old(shard_guard), key_of(key@)), key_of(key@)) ==> r is Err,
            // one answer per requested field, in request order: nil for every field of a missing key
            !eff(*old(shard_guard), key_of(key@)).data.contains_key(key_of(key@)) ==> (r matches Ok(v) && v@.len() == fields@.len() && forall|i: int| 0 <= i < v@.len() ==> #[trigger] v@[i] is None),
            hash_at(eff(*old(shard_guard), key_of(key@)), key_of(key@)) matches Some(m) ==> (r matches Ok(v) && v@.len() == fields@.len()
                && forall|i: int| 0 <= i < v@.len() ==> #[trigger] v@[i] == (if m.contains_key(fields@[i]) { Some(m[fields@[i]]) } else { None::<Vec<u8>> })),
//@@ body
//@@ end
}
/// every (field, value) of the map, each field once
pub open spec fn pairs_of(v: Seq<(Vec<u8>, Vec<u8>)>, m: Map<Vec<u8>, Vec<u8>>) -> bool {
    v.len() == m.dom().len() && (forall|i: int| 0 <= i < v.len() ==> m.contains_key((#[trigger] v[i]).0) && m[v[i].0] == v[i].1)
        && (forall|i: int, j: int| 0 <= i < j < v.len() ==> v[i].0 != v[j].0)
}
/// the value of every field, one per field
pub open spec fn vals_of(v: Seq<Vec<u8>>, m: Map<Vec<u8>, Vec<u8>>) -> bool {
    exists|ks: Seq<Vec<u8>>| #![auto] ks.no_duplicates() && ks.to_set() == m.dom() && ks.len() == v.len() && forall|i: int| 0 <= i < v.len() ==> v[i] == m[ks[i]]
}
/// ASSUMED CONTRACTS for the iterator chains (RXPR sites; std meaning of HashMap::iter / keys / values + map + cloned + collect)
#[verifier::external_body]
pub fn verif_hash_pairs(hash: &HashMap<Vec<u8>, Vec<u8>>) -> (r: Vec<(Vec<u8>, Vec<u8>)>) ensures pairs_of(r@, hash@), { unimplemented!() }
#[verifier::external_body]
pub fn verif_hash_keys(hash: &HashMap<Vec<u8>, Vec<u8>>) -> (r: Vec<Vec<u8>>) ensures r@.no_duplicates(), r@.to_set() == hash@.dom(), { unimplemented!() }
#[verifier::external_body]
pub fn verif_hash_vals(hash: &HashMap<Vec<u8>, Vec<u8>>) -> (r: Vec<Vec<u8>>) ensures vals_of(r@, hash@), { unimplemented!() }
#[verifier::external_body]
pub fn verif_hash_lookup(hash: &HashMap<Vec<u8>, Vec<u8>>, fields: &[Vec<u8>]) -> (r: Vec<Option<Vec<u8>>>)
    ensures r@.len() == fields@.len(), forall|i: int| 0 <= i < r@.len() ==> #[trigger] r@[i] == (if hash@.contains_key(fields@[i]) { Some(hash@[fields@[i]]) } else { None::<Vec<u8>> }),
{ unimplemented!() }
/// `vec![None; n]` (RT site)
#[verifier::external_body]
pub fn verif_nones(n: usize) -> (r: Vec<Option<Vec<u8>>>) ensures r@.len() == n, forall|i: int| 0 <= i < n ==> #[trigger] r@[i] is None, { unimplemented!() }
} // verus!
fn main() {}
