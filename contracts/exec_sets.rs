//@@ include contracts/inc_cmd_header.rs
verus! {
/// MODEL of UnifiedCommandExecutor (the implementation scripts reach through redis.call): the storage engine model
pub struct UnifiedCommandExecutor { pub storage: EngineModel }
/// the script path agrees with the reference model: the reply frame for a success, an Err / error frame for a refusal, the dataset as prescribed
pub open spec fn exec_ok(r: Result<RespFrame>, ds1: DS, spec: (RV, DS)) -> bool {
    ds1 == spec.1 && match spec.0 {
        RV::WrongType | RV::OtherErr => !(r matches Ok(fr) && !(fr is Error)),
        rv => r matches Ok(fr) && reply_matches(fr, rv),
    }
}
impl UnifiedCommandExecutor {
//@@ unit exec_sadd arm src/storage/commands/executor.rs UnifiedCommandExecutor::execute_set "SetCommand::SAdd { key, members }"
    fn exec_sadd(&mut self, db: usize, key: Vec<u8>, members: Vec<Vec<u8>>) -> (r: Result<RespFrame>)
        requires members@.len() > 0,     // the command parser refuses SADD without members (arity)
        ensures exec_ok(r, final(self).storage.ds@, spec_sadd(old(self).storage.ds@, db as int, key@, members@)),
//@@ body
//@@ end
//@@ unit exec_scard arm src/storage/commands/executor.rs UnifiedCommandExecutor::execute_set "SetCommand::SCard { key }"
    fn exec_scard(&mut self, db: usize, key: Vec<u8>) -> (r: Result<RespFrame>)
        ensures exec_ok(r, final(self).storage.ds@, spec_scard(old(self).storage.ds@, db as int, key@)),
//@@ body
//@@ end
//@@ unit exec_sismember arm src/storage/commands/executor.rs UnifiedCommandExecutor::execute_set "SetCommand::SIsMember { key, member }"
    fn exec_sismember(&mut self, db: usize, key: Vec<u8>, member: Vec<u8>) -> (r: Result<RespFrame>)
        ensures exec_ok(r, final(self).storage.ds@, spec_sismember(old(self).storage.ds@, db as int, key@, member@)),
//@@ body
//@@ end
//@@ unit exec_hget arm src/storage/commands/executor.rs UnifiedCommandExecutor::execute_hash "HashCommand::HGet { key, field }"
    fn exec_hget(&mut self, db: usize, key: Vec<u8>, field: Vec<u8>) -> (r: Result<RespFrame>)
        ensures exec_ok(r, final(self).storage.ds@, spec_hget(old(self).storage.ds@, db as int, key@, field@)),
//@@ body
//@@ end
//@@ unit exec_hlen arm src/storage/commands/executor.rs UnifiedCommandExecutor::execute_hash "HashCommand::HLen { key }"
    fn exec_hlen(&mut self, db: usize, key: Vec<u8>) -> (r: Result<RespFrame>)
        ensures exec_ok(r, final(self).storage.ds@, spec_hlen(old(self).storage.ds@, db as int, key@)),
//@@ body
//@@ end
//@@ unit exec_hexists arm src/storage/commands/executor.rs UnifiedCommandExecutor::execute_hash "HashCommand::HExists { key, field }"
    fn exec_hexists(&mut self, db: usize, key: Vec<u8>, field: Vec<u8>) -> (r: Result<RespFrame>)
        ensures exec_ok(r, final(self).storage.ds@, spec_hexists(old(self).storage.ds@, db as int, key@, field@)),
//@@ body
//@@ end
}
} // verus!
fn main() {}
