//@@ include prelude/head.rs
use std::collections::{HashMap, HashSet};
use std::sync::Arc;
use std::alloc::Allocator;
use vstd::std_specs::iter::IteratorSpec;
//@@ include prelude/cmp.rs
//@@ include prelude/slice.rs
//@@ include prelude/hash_keys.rs
//@@ include prelude/hash_iter.rs
//@@ include prelude/set_len.rs
verus! {
broadcast use {group_byte_keys, group_slice, axiom_hashset_len_bound, vstd::std_specs::hash::group_hash_axioms};
//@@ item src/error.rs FerrousError
//@@ item src/error.rs CommandError
//@@ item src/error.rs StorageError
//@@ item src/error.rs ScriptError
pub type Result<T> = std::result::Result<T, FerrousError>;
//@@ item src/protocol/resp.rs Bytes
//@@ item src/protocol/resp.rs RespFrame
//@@ item src/pubsub.rs Subscription
//@@ item src/pubsub.rs SubscriberInfo
//@@ item src/pubsub.rs SubResult

/// the glob relation between a pattern and a channel name (pubsub.rs pattern_matches; its own body is not under contract here)
pub uninterp spec fn spec_glob(p: Seq<u8>, c: Seq<u8>) -> bool;
#[verifier::external_body]
pub fn verif_pattern_matches(pattern: &[u8], channel: &[u8]) -> (r: bool) ensures r == spec_glob(pattern@, channel@), { unimplemented!() }

/// one delivery: the receiving connection and, for a pattern subscription, the pattern that matched
pub type Delivery = (u64, Option<Seq<u8>>);
pub open spec fn dview(e: (u64, Option<Vec<u8>>)) -> Delivery { (e.0, match e.1 { Some(p) => Some(p@), None => None }) }
pub open spec fn dviews(v: Seq<(u64, Option<Vec<u8>>)>) -> Seq<Delivery> { v.map_values(|e: (u64, Option<Vec<u8>>)| dview(e)) }
/// C14: the deliveries a PUBLISH on `channel` owes: one per connection subscribed to the channel, one per (pattern, connection)
/// for every subscribed pattern that matches — and nothing else
pub open spec fn owed(chans: Map<Vec<u8>, HashSet<u64>>, pats: Map<Vec<u8>, HashSet<u64>>, channel: Seq<u8>, d: Delivery) -> bool {
    match d.1 {
        None => chans.contains_key(key_of(channel)) && chans[key_of(channel)]@.contains(d.0),
        Some(p) => spec_glob(p, channel) && exists|k: Vec<u8>| k@ == p && #[trigger] pats.contains_key(k) && pats[k]@.contains(d.0),
    }
}

pub open spec fn in_set_prefix(s: Seq<&u64>, n: int, c: u64) -> bool { exists|j: int| 0 <= j < n && *(#[trigger] s[j]) == c }
pub open spec fn in_pat_prefix(s: Seq<(&Vec<u8>, &HashSet<u64>)>, n: int, channel: Seq<u8>, d: Delivery) -> bool {
    d.1 matches Some(p) && exists|j: int| 0 <= j < n && (#[trigger] s[j]).0@ == p && spec_glob(p, channel) && s[j].1@.contains(d.0)
}
pub open spec fn owed_direct(chans: Map<Vec<u8>, HashSet<u64>>, channel: Seq<u8>, d: Delivery) -> bool {
    d.1 is None && chans.contains_key(key_of(channel)) && chans[key_of(channel)]@.contains(d.0)
}
proof fn lemma_dviews_push(v: Seq<(u64, Option<Vec<u8>>)>, e: (u64, Option<Vec<u8>>))
    ensures dviews(v.push(e)) =~= dviews(v).push(dview(e)),
{}
proof fn lemma_push_fresh<A>(s: Seq<A>, x: A)
    requires s.no_duplicates(), !s.contains(x),
    ensures s.push(x).no_duplicates(), forall|d: A| #[trigger] s.push(x).contains(d) <==> (s.contains(d) || d == x),
{
    assert forall|d: A| #[trigger] s.push(x).contains(d) <==> (s.contains(d) || d == x) by {
        if s.push(x).contains(d) { let i = choose|i: int| 0 <= i < s.push(x).len() && s.push(x)[i] == d; if i < s.len() { assert(s[i] == d); } }
        if s.contains(d) { let i = choose|i: int| 0 <= i < s.len() && s[i] == d; assert(s.push(x)[i] == d); }
        if d == x { assert(s.push(x)[s.len() as int] == d); }
    }
}

//@@ unit publish fn src/pubsub.rs PubSubManager::publish
//@@   rewrite R2
//@@   rewrite RDEREF
//@@   rewrite RPCALL "pattern_matches" verif_pattern_matches
//@@   rewrite RFOR 0 it0
//@@   rewrite RFOR 1 it1
//@@   rewrite RFOR 2 it2
//@@   params drop "&self" add "channel_subs: &HashMap<Vec<u8>, HashSet<u64>>" "pattern_subs: &HashMap<Vec<u8>, HashSet<u64>>"
//@@   loop 0
//@@|     invariant
//@@|         it0.seq().no_duplicates(), it0.seq().len() == subscribers@.len(),
//@@|         forall|i: int| 0 <= i < it0.seq().len() ==> subscribers@.contains(*(#[trigger] it0.seq()[i])),
//@@|         forall|k: u64| #[trigger] subscribers@.contains(k) ==> exists|i: int| 0 <= i < it0.seq().len() && *(#[trigger] it0.seq()[i]) == k,
//@@|         it0.history@ =~= it0.seq().take(it0.index@),
//@@|         dviews(receivers@).no_duplicates(),
//@@|         forall|d: Delivery| #[trigger] dviews(receivers@).contains(d) <==> (d.1 is None && in_set_prefix(it0.seq(), it0.index@ as int, d.0)),
//@@|     ensures it0.index@ == it0.seq().len(),
//@@   loopstart 0
//@@|     proof {
//@@|         let i = it0.index@ as int;
//@@|         assert(it0.seq()[i] == conn_id__r);
//@@|         let e: (u64, Option<Vec<u8>>) = (conn_id, None);
//@@|         lemma_dviews_push(receivers@, e);
//@@|         assert(!dviews(receivers@).contains(dview(e))) by {
//@@|             if in_set_prefix(it0.seq(), i, conn_id) { let j = choose|j: int| 0 <= j < i && *(#[trigger] it0.seq()[j]) == conn_id; assert(it0.seq()[j] == it0.seq()[i]); }
//@@|         }
//@@|         lemma_push_fresh(dviews(receivers@), dview(e));
//@@|         assert forall|d: Delivery| (d.1 is None && in_set_prefix(it0.seq(), i + 1, d.0)) <==> ((d.1 is None && in_set_prefix(it0.seq(), i, d.0)) || d == dview(e)) by {
//@@|             if d.1 is None && in_set_prefix(it0.seq(), i + 1, d.0) { let j = choose|j: int| 0 <= j < i + 1 && *(#[trigger] it0.seq()[j]) == d.0; if j < i { assert(in_set_prefix(it0.seq(), i, d.0)); } }
//@@|             if d.1 is None && in_set_prefix(it0.seq(), i, d.0) { let j = choose|j: int| 0 <= j < i && *(#[trigger] it0.seq()[j]) == d.0; assert(0 <= j < i + 1); }
//@@|             if d == dview(e) { assert(*it0.seq()[i] == d.0); }
//@@|         }
//@@|     }
//@@   at "for (pattern, subscribers) in pattern_subs.iter()"
//@@|     proof {
//@@|         assert forall|d: Delivery| #[trigger] dviews(receivers@).contains(d) <==> owed_direct(channel_subs@, channel@, d) by {
//@@|             if channel_subs@.contains_key(key_of(channel@)) {
//@@|                 let subs = channel_subs@[key_of(channel@)]@;
//@@|                 if d.1 is None && subs.contains(d.0) { }
//@@|             }
//@@|         }
//@@|     }
//@@   loop 1
//@@|     invariant
//@@|         it1.seq().no_duplicates(), it1.seq().len() == pattern_subs@.len(),
//@@|         forall|i: int| 0 <= i < it1.seq().len() ==> pattern_subs@.contains_key(*(#[trigger] it1.seq()[i]).0) && pattern_subs@[*it1.seq()[i].0] == *it1.seq()[i].1,
//@@|         forall|k: Vec<u8>| #[trigger] pattern_subs@.contains_key(k) ==> exists|i: int| 0 <= i < it1.seq().len() && *(#[trigger] it1.seq()[i]).0 == k,
//@@|         it1.history@ =~= it1.seq().take(it1.index@),
//@@|         dviews(receivers@).no_duplicates(),
//@@|         forall|d: Delivery| #[trigger] dviews(receivers@).contains(d) <==> (owed_direct(channel_subs@, channel@, d) || in_pat_prefix(it1.seq(), it1.index@ as int, channel@, d)),
//@@|     ensures it1.index@ == it1.seq().len(),
//@@   loop 2
//@@|     invariant
//@@|         it2.seq().no_duplicates(), it2.seq().len() == subscribers@.len(),
//@@|         forall|i: int| 0 <= i < it2.seq().len() ==> subscribers@.contains(*(#[trigger] it2.seq()[i])),
//@@|         forall|k: u64| #[trigger] subscribers@.contains(k) ==> exists|i: int| 0 <= i < it2.seq().len() && *(#[trigger] it2.seq()[i]) == k,
//@@|         it2.history@ =~= it2.seq().take(it2.index@),
//@@|         dviews(receivers@).no_duplicates(),
//@@|         0 <= it1.index@ < it1.seq().len(), it1.seq()[it1.index@ as int] == (pattern, subscribers), spec_glob(pattern@, channel@),
//@@|         forall|j: int| 0 <= j < it1.seq().len() && j != it1.index@ ==> (#[trigger] it1.seq()[j]).0@ != pattern@,
//@@|         forall|d: Delivery| #[trigger] dviews(receivers@).contains(d) <==> (owed_direct(channel_subs@, channel@, d) || in_pat_prefix(it1.seq(), it1.index@ as int, channel@, d)
//@@|             || (d.1 == Some(pattern@) && in_set_prefix(it2.seq(), it2.index@ as int, d.0))),
//@@|     ensures it2.index@ == it2.seq().len(),
//@@   loopstart 2
//@@|     proof {
//@@|         let i = it2.index@ as int; let i1 = it1.index@ as int;
//@@|         assert(it2.seq()[i] == conn_id__r);
//@@|     }
//@@   at "receivers.push((conn_id, Some(pattern.clone())));"
//@@|     let ghost old_recv = receivers@; let ghost i = it2.index@ as int; let ghost i1 = it1.index@ as int;
//@@   after "receivers.push((conn_id, Some(pattern.clone())));"
//@@|     proof {
//@@|         let e = receivers@[receivers@.len() - 1];
//@@|         assert(receivers@ =~= old_recv.push(e));
//@@|         assert(dview(e) == (conn_id, Some(pattern@)));
//@@|         lemma_dviews_push(old_recv, e);
//@@|         assert(!dviews(old_recv).contains(dview(e))) by {
//@@|             if in_set_prefix(it2.seq(), i, conn_id) { let j = choose|j: int| 0 <= j < i && *(#[trigger] it2.seq()[j]) == conn_id; assert(it2.seq()[j] == it2.seq()[i]); }
//@@|             if in_pat_prefix(it1.seq(), i1, channel@, dview(e)) { let j = choose|j: int| 0 <= j < i1 && (#[trigger] it1.seq()[j]).0@ == pattern@ && spec_glob(pattern@, channel@) && it1.seq()[j].1@.contains(conn_id); assert(false); }
//@@|         }
//@@|         lemma_push_fresh(dviews(old_recv), dview(e));
//@@|         assert forall|d: Delivery| (d.1 == Some(pattern@) && in_set_prefix(it2.seq(), i + 1, d.0)) <==> ((d.1 == Some(pattern@) && in_set_prefix(it2.seq(), i, d.0)) || d == dview(e)) by {
//@@|             if d.1 == Some(pattern@) && in_set_prefix(it2.seq(), i + 1, d.0) { let j = choose|j: int| 0 <= j < i + 1 && *(#[trigger] it2.seq()[j]) == d.0; if j < i { assert(in_set_prefix(it2.seq(), i, d.0)); } }
//@@|             if d.1 == Some(pattern@) && in_set_prefix(it2.seq(), i, d.0) { let j = choose|j: int| 0 <= j < i && *(#[trigger] it2.seq()[j]) == d.0; assert(0 <= j < i + 1); }
//@@|             if d == dview(e) { assert(*it2.seq()[i] == d.0); }
//@@|         }
//@@|     }
//@@   at "Ok(receivers)"
//@@|     proof {
//@@|         assert forall|d: Delivery| #[trigger] dviews(receivers@).contains(d) <==> owed(channel_subs@, pattern_subs@, channel@, d) by {
//@@|             match d.1 {
//@@|                 None => {},
//@@|                 Some(p) => {
//@@|                     if owed(channel_subs@, pattern_subs@, channel@, d) {
//@@|                         let k = choose|k: Vec<u8>| k@ == p && #[trigger] pattern_subs@.contains_key(k) && pattern_subs@[k]@.contains(d.0);
//@@|                         assert(pattern_subs@.contains_key(k));
//@@|                     }
//@@|                 },
//@@|             }
//@@|         }
//@@|     }
fn publish(channel_subs: &HashMap<Vec<u8>, HashSet<u64>>, pattern_subs: &HashMap<Vec<u8>, HashSet<u64>>, channel: &[u8], _message: &[u8]) -> (r: Result<Vec<(u64, Option<Vec<u8>>)>>)
    ensures
        r is Ok,
        // exactly once per matching subscription, to nobody else; the length (PUBLISH's reply) is the number of deliveries
        dviews(r->Ok_0@).no_duplicates(),
        forall|d: Delivery| #[trigger] dviews(r->Ok_0@).contains(d) <==> owed(channel_subs@, pattern_subs@, channel@, d),
//@@ body
//@@ end

// ======================= SUBSCRIBE =========================
/// `conn_subs.entry(connection_id).or_insert_with(|| SubscriberInfo { connection_id, channels: HashSet::new(), patterns: HashSet::new() })`
/// (RXPR site: the anchor is the exact token text of that expression, so this contract stands for that text and no other):
/// a reference to the connection's entry, created empty if absent; the final map is the old one with that entry replaced
#[verifier::external_body]
fn verif_conn_entry<'a>(m: &'a mut HashMap<u64, SubscriberInfo>, id: u64) -> (r: &'a mut SubscriberInfo)
    ensures
        old(m)@.contains_key(id) ==> *r == old(m)@[id],
        !old(m)@.contains_key(id) ==> r.connection_id == id && r.channels@ == Set::<Vec<u8>>::empty() && r.patterns@ == Set::<Vec<u8>>::empty(),
        final(m)@ == old(m)@.insert(id, *final(r)),
{ unimplemented!() }
/// `subs.entry(name.clone()).or_insert_with(HashSet::new)` (RXPR site): the subscriber set of a channel/pattern, created empty if absent
#[verifier::external_body]
fn verif_set_entry<'a>(m: &'a mut HashMap<Vec<u8>, HashSet<u64>>, k: Vec<u8>) -> (r: &'a mut HashSet<u64>)
    ensures
        old(m)@.contains_key(k) ==> *r == old(m)@[k],
        !old(m)@.contains_key(k) ==> r@ == Set::<u64>::empty(),
        final(m)@ == old(m)@.insert(k, *final(r)),
{ unimplemented!() }

pub open spec fn chans_of(conns: Map<u64, SubscriberInfo>, c: u64) -> Set<Vec<u8>> { if conns.contains_key(c) { conns[c].channels@ } else { Set::empty() } }
pub open spec fn pats_of(conns: Map<u64, SubscriberInfo>, c: u64) -> Set<Vec<u8>> { if conns.contains_key(c) { conns[c].patterns@ } else { Set::empty() } }
pub open spec fn members(m: Map<Vec<u8>, HashSet<u64>>, k: Vec<u8>) -> Set<u64> { if m.contains_key(k) { m[k]@ } else { Set::empty() } }
/// the three maps agree: a connection is in a channel's subscriber set exactly when the channel is in the connection's set
pub open spec fn chan_inv(conns: Map<u64, SubscriberInfo>, chans: Map<Vec<u8>, HashSet<u64>>) -> bool {
    forall|c: u64, ch: Vec<u8>| (#[trigger] chans_of(conns, c).contains(ch)) <==> (#[trigger] members(chans, ch).contains(c))
}
pub proof fn lemma_prefix_step(v: Seq<Vec<u8>>, i: int)
    requires 0 <= i < v.len(),
    ensures prefix_set(v, i + 1) =~= prefix_set(v, i).insert(v[i]), prefix_set(v, 0) =~= Set::<Vec<u8>>::empty(),
{
    let a = v.take(i + 1); let b = v.take(i);
    assert(a =~= b.push(v[i]));
    assert forall|k: Vec<u8>| a.to_set().contains(k) <==> b.to_set().insert(v[i]).contains(k) by {
        if a.contains(k) { let j = choose|j: int| 0 <= j < a.len() && #[trigger] a[j] == k; if j < i { assert(b[j] == k); } }
        if b.contains(k) { let j = choose|j: int| 0 <= j < b.len() && #[trigger] b[j] == k; assert(a[j] == k); }
        if k == v[i] { assert(a[i] == k); }
    }
}
pub open spec fn prefix_set(v: Seq<Vec<u8>>, n: int) -> Set<Vec<u8>> { v.take(n).to_set() }

/// every connection other than `id` agrees with the channel map
pub open spec fn others_agree(conns: Map<u64, SubscriberInfo>, chans: Map<Vec<u8>, HashSet<u64>>, id: u64) -> bool {
    forall|c: u64, ch: Vec<u8>| c != id ==> ((#[trigger] chans_of(conns, c).contains(ch)) <==> (#[trigger] members(chans, ch).contains(c)))
}
/// the i-th acknowledgement of SUBSCRIBE: names the i-th channel, carries the connection's subscription count after it, and
/// says whether it was new
pub open spec fn sub_result_ok(r: SubResult, conns: Map<u64, SubscriberInfo>, id: u64, channels: Seq<Vec<u8>>, i: int) -> bool {
    r.subscription == Subscription::Channel(channels[i])
    && r.num_subscriptions == chans_of(conns, id).union(prefix_set(channels, i + 1)).len() + pats_of(conns, id).len()
    && r.is_new == !chans_of(conns, id).union(prefix_set(channels, i)).contains(channels[i])
}
//@@ unit subscribe fn src/pubsub.rs PubSubManager::subscribe
//@@   rewrite R2
//@@   rewrite RXPR "conn_subs.entry(connection_id).or_insert_with(|| { SubscriberInfo { connection_id, channels: HashSet::new(), patterns: HashSet::new(), } })" "verif_conn_entry(conn_subs, connection_id)"
//@@   rewrite RXPR "channel_subs.entry(channel.clone()).or_insert_with(HashSet::new)" "verif_set_entry(channel_subs, channel.clone())"
//@@   rewrite RFOR 0 it
//@@   params drop "&self" add "conn_subs: &mut HashMap<u64, SubscriberInfo>" "channel_subs: &mut HashMap<Vec<u8>, HashSet<u64>>"
//@@   loop 0
//@@|     invariant
//@@|         it.seq() == channels@, it.history@ =~= it.seq().take(it.index@),
//@@|         others_agree(old(conn_subs)@, channel_subs@, connection_id),
//@@|         forall|ch: Vec<u8>| (#[trigger] conn_info.channels@.contains(ch)) <==> (#[trigger] members(channel_subs@, ch).contains(connection_id)),
//@@|         conn_info.patterns@ == pats_of(old(conn_subs)@, connection_id),
//@@|         conn_info.channels@ =~= chans_of(old(conn_subs)@, connection_id).union(prefix_set(channels@, it.index@ as int)),
//@@|         results@.len() == it.index@,
//@@|         forall|i: int| 0 <= i < results@.len() ==> sub_result_ok(#[trigger] results@[i], old(conn_subs)@, connection_id, channels@, i),
//@@   at "for channel in channels"
//@@|     proof {
//@@|         assert(conn_info.channels@ == chans_of(old(conn_subs)@, connection_id));
//@@|         assert forall|ch: Vec<u8>| (#[trigger] conn_info.channels@.contains(ch)) <==> (#[trigger] members(channel_subs@, ch).contains(connection_id)) by {
//@@|             assert(chans_of(old(conn_subs)@, connection_id).contains(ch) <==> members(channel_subs@, ch).contains(connection_id));
//@@|         }
//@@|         assert(prefix_set(channels@, 0) =~= Set::<Vec<u8>>::empty());
//@@|     }
//@@   after "results.push(SubResult"
//@@|     proof {
//@@|         let rr = results@[i];
//@@|         assert(conn_info.channels@ =~= chans_of(old(conn_subs)@, connection_id).union(prefix_set(channels@, i + 1)));
//@@|         assert(ci0 =~= chans_of(old(conn_subs)@, connection_id).union(prefix_set(channels@, i)));
//@@|         assert(sub_result_ok(rr, old(conn_subs)@, connection_id, channels@, i));
//@@|     }
//@@   at "Ok(results)"
//@@|     proof {
//@@|         assert(channels@.take(channels@.len() as int) =~= channels@);
//@@|         assert forall|c: u64, ch: Vec<u8>| (#[trigger] chans_of(conn_subs@, c).contains(ch)) <==> (#[trigger] members(channel_subs@, ch).contains(c)) by {
//@@|             if c != connection_id { assert(chans_of(conn_subs@, c) == chans_of(old(conn_subs)@, c)); assert(chans_of(old(conn_subs)@, c).contains(ch) <==> members(channel_subs@, ch).contains(c)); }
//@@|         }
//@@|     }
//@@   loopstart 0
//@@|     let ghost ci0 = conn_info.channels@; let ghost ch0 = channel_subs@; let ghost i = it.index@ as int;
//@@|     proof { assert(channel == channels@[i]); lemma_prefix_step(channels@, i); }
//@@   at "let total_subs = conn_info.channels.len() + conn_info.patterns.len();"
//@@|     proof {
//@@|         assert(conn_info.channels@ =~= ci0.insert(channel));
//@@|         assert forall|k: Vec<u8>| #[trigger] members(channel_subs@, k) =~= (if k == channel { members(ch0, k).insert(connection_id) } else { members(ch0, k) }) by { }
//@@|     }
fn subscribe(conn_subs: &mut HashMap<u64, SubscriberInfo>, channel_subs: &mut HashMap<Vec<u8>, HashSet<u64>>, connection_id: u64, channels: Vec<Vec<u8>>) -> (r: Result<Vec<SubResult>>)
    requires chan_inv(old(conn_subs)@, old(channel_subs)@),
    ensures
        r is Ok,
        chan_inv(final(conn_subs)@, final(channel_subs)@),
        // the connection is now subscribed to what it was plus the named channels; its patterns and every other connection are untouched
        chans_of(final(conn_subs)@, connection_id) =~= chans_of(old(conn_subs)@, connection_id).union(channels@.to_set()),
        pats_of(final(conn_subs)@, connection_id) == pats_of(old(conn_subs)@, connection_id),
        forall|c: u64| c != connection_id ==> (final(conn_subs)@.contains_key(c) == old(conn_subs)@.contains_key(c)) && (old(conn_subs)@.contains_key(c) ==> #[trigger] final(conn_subs)@[c] == old(conn_subs)@[c]),
        // one acknowledgement per named channel, in order, each with the count right after that subscription
        r->Ok_0@.len() == channels@.len(),
        forall|i: int| 0 <= i < channels@.len() ==> sub_result_ok(#[trigger] r->Ok_0@[i], old(conn_subs)@, connection_id, channels@, i),
//@@ body
//@@ end

// ======================= PSUBSCRIBE =========================
pub open spec fn pat_inv(conns: Map<u64, SubscriberInfo>, pats: Map<Vec<u8>, HashSet<u64>>) -> bool {
    forall|c: u64, p: Vec<u8>| (#[trigger] pats_of(conns, c).contains(p)) <==> (#[trigger] members(pats, p).contains(c))
}
/// every connection other than `id` agrees with the pattern map
pub open spec fn p_others_agree(conns: Map<u64, SubscriberInfo>, chans: Map<Vec<u8>, HashSet<u64>>, id: u64) -> bool {
    forall|c: u64, ch: Vec<u8>| c != id ==> ((#[trigger] pats_of(conns, c).contains(ch)) <==> (#[trigger] members(chans, ch).contains(c)))
}
/// the i-th acknowledgement of PSUBSCRIBE: names the i-th pattern, carries the connection's subscription count after it, and
/// says whether it was new
pub open spec fn psub_result_ok(r: SubResult, conns: Map<u64, SubscriberInfo>, id: u64, channels: Seq<Vec<u8>>, i: int) -> bool {
    r.subscription == Subscription::Pattern(channels[i])
    && r.num_subscriptions == chans_of(conns, id).len() + pats_of(conns, id).union(prefix_set(channels, i + 1)).len()
    && r.is_new == !pats_of(conns, id).union(prefix_set(channels, i)).contains(channels[i])
}
//@@ unit psubscribe fn src/pubsub.rs PubSubManager::psubscribe
//@@   rewrite R2
//@@   rewrite RXPR "conn_subs.entry(connection_id).or_insert_with(|| { SubscriberInfo { connection_id, channels: HashSet::new(), patterns: HashSet::new(), } })" "verif_conn_entry(conn_subs, connection_id)"
//@@   rewrite RXPR "pattern_subs.entry(pattern.clone()).or_insert_with(HashSet::new)" "verif_set_entry(pattern_subs, pattern.clone())"
//@@   rewrite RFOR 0 it
//@@   params drop "&self" add "conn_subs: &mut HashMap<u64, SubscriberInfo>" "pattern_subs: &mut HashMap<Vec<u8>, HashSet<u64>>"
//@@   loop 0
//@@|     invariant
//@@|         it.seq() == patterns@, it.history@ =~= it.seq().take(it.index@),
//@@|         p_others_agree(old(conn_subs)@, pattern_subs@, connection_id),
//@@|         forall|ch: Vec<u8>| (#[trigger] conn_info.patterns@.contains(ch)) <==> (#[trigger] members(pattern_subs@, ch).contains(connection_id)),
//@@|         conn_info.channels@ == chans_of(old(conn_subs)@, connection_id),
//@@|         conn_info.patterns@ =~= pats_of(old(conn_subs)@, connection_id).union(prefix_set(patterns@, it.index@ as int)),
//@@|         results@.len() == it.index@,
//@@|         forall|i: int| 0 <= i < results@.len() ==> psub_result_ok(#[trigger] results@[i], old(conn_subs)@, connection_id, patterns@, i),
//@@   at "for pattern in patterns"
//@@|     proof {
//@@|         assert(conn_info.patterns@ == pats_of(old(conn_subs)@, connection_id));
//@@|         assert forall|ch: Vec<u8>| (#[trigger] conn_info.patterns@.contains(ch)) <==> (#[trigger] members(pattern_subs@, ch).contains(connection_id)) by {
//@@|             assert(pats_of(old(conn_subs)@, connection_id).contains(ch) <==> members(pattern_subs@, ch).contains(connection_id));
//@@|         }
//@@|         assert(prefix_set(patterns@, 0) =~= Set::<Vec<u8>>::empty());
//@@|     }
//@@   after "results.push(SubResult"
//@@|     proof {
//@@|         let rr = results@[i];
//@@|         assert(conn_info.patterns@ =~= pats_of(old(conn_subs)@, connection_id).union(prefix_set(patterns@, i + 1)));
//@@|         assert(ci0 =~= pats_of(old(conn_subs)@, connection_id).union(prefix_set(patterns@, i)));
//@@|         assert(psub_result_ok(rr, old(conn_subs)@, connection_id, patterns@, i));
//@@|     }
//@@   at "Ok(results)"
//@@|     proof {
//@@|         assert(patterns@.take(patterns@.len() as int) =~= patterns@);
//@@|         assert forall|c: u64, ch: Vec<u8>| (#[trigger] pats_of(conn_subs@, c).contains(ch)) <==> (#[trigger] members(pattern_subs@, ch).contains(c)) by {
//@@|             if c != connection_id { assert(pats_of(conn_subs@, c) == pats_of(old(conn_subs)@, c)); assert(pats_of(old(conn_subs)@, c).contains(ch) <==> members(pattern_subs@, ch).contains(c)); }
//@@|         }
//@@|     }
//@@   loopstart 0
//@@|     let ghost ci0 = conn_info.patterns@; let ghost ch0 = pattern_subs@; let ghost i = it.index@ as int;
//@@|     proof { assert(pattern == patterns@[i]); lemma_prefix_step(patterns@, i); }
//@@   at "let total_subs = conn_info.channels.len() + conn_info.patterns.len();"
//@@|     proof {
//@@|         assert(conn_info.patterns@ =~= ci0.insert(pattern));
//@@|         assert(is_new == !ci0.contains(pattern));
//@@|         assert forall|k: Vec<u8>| #[trigger] members(pattern_subs@, k) =~= (if k == pattern && is_new { members(ch0, k).insert(connection_id) } else { members(ch0, k) }) by { }
//@@|     }
fn psubscribe(conn_subs: &mut HashMap<u64, SubscriberInfo>, pattern_subs: &mut HashMap<Vec<u8>, HashSet<u64>>, connection_id: u64, patterns: Vec<Vec<u8>>) -> (r: Result<Vec<SubResult>>)
    requires pat_inv(old(conn_subs)@, old(pattern_subs)@),
    ensures
        r is Ok,
        pat_inv(final(conn_subs)@, final(pattern_subs)@),
        // the connection is now subscribed to what it was plus the named channels; its patterns and every other connection are untouched
        pats_of(final(conn_subs)@, connection_id) =~= pats_of(old(conn_subs)@, connection_id).union(patterns@.to_set()),
        chans_of(final(conn_subs)@, connection_id) == chans_of(old(conn_subs)@, connection_id),
        forall|c: u64| c != connection_id ==> (final(conn_subs)@.contains_key(c) == old(conn_subs)@.contains_key(c)) && (old(conn_subs)@.contains_key(c) ==> #[trigger] final(conn_subs)@[c] == old(conn_subs)@[c]),
        // one acknowledgement per named channel, in order, each with the count right after that subscription
        r->Ok_0@.len() == patterns@.len(),
        forall|i: int| 0 <= i < patterns@.len() ==> psub_result_ok(#[trigger] r->Ok_0@[i], old(conn_subs)@, connection_id, patterns@, i),
//@@ body
//@@ end

// ======================= UNSUBSCRIBE =========================
/// `set.iter().cloned().collect()` into a Vec (RXPR site): every member exactly once, in some order
#[verifier::external_body]
fn verif_set_to_vec(s: &HashSet<Vec<u8>>) -> (r: Vec<Vec<u8>>)
    ensures r@.no_duplicates(), r@.to_set() =~= s@,
{ unimplemented!() }
/// the i-th acknowledgement of UNSUBSCRIBE: names the i-th channel and carries the count that remains after it
pub open spec fn unsub_result_ok(r: SubResult, conns: Map<u64, SubscriberInfo>, id: u64, list: Seq<Vec<u8>>, i: int) -> bool {
    r.subscription == Subscription::Channel(list[i])
    && r.num_subscriptions == chans_of(conns, id).difference(prefix_set(list, i + 1)).len() + pats_of(conns, id).len()
    && !r.is_new
}

//@@ unit unsubscribe fn src/pubsub.rs PubSubManager::unsubscribe
//@@   rewrite R2
//@@   rewrite RXPR "conn_info.channels.iter().cloned().collect()" "verif_set_to_vec(&conn_info.channels)"
//@@   rewrite RFOR 0 it
//@@   params drop "&self" add "conn_subs: &mut HashMap<u64, SubscriberInfo>" "channel_subs: &mut HashMap<Vec<u8>, HashSet<u64>>"
//@@   loop 0
//@@|     invariant
//@@|         it.seq() == list, it.history@ =~= it.seq().take(it.index@),
//@@|         old(conn_subs)@.contains_key(connection_id),
//@@|         others_agree(old(conn_subs)@, channel_subs@, connection_id),
//@@|         forall|ch: Vec<u8>| (#[trigger] conn_info.channels@.contains(ch)) <==> (#[trigger] members(channel_subs@, ch).contains(connection_id)),
//@@|         conn_info.patterns@ == pats_of(old(conn_subs)@, connection_id),
//@@|         conn_info.channels@ =~= chans_of(old(conn_subs)@, connection_id).difference(prefix_set(list, it.index@ as int)),
//@@|         results@.len() == it.index@,
//@@|         forall|i: int| 0 <= i < results@.len() ==> unsub_result_ok(#[trigger] results@[i], old(conn_subs)@, connection_id, list, i),
//@@   at "for channel in channels_to_remove"
//@@|     let ghost list = channels_to_remove@;
//@@|     proof {
//@@|         assert(conn_info.channels@ == chans_of(old(conn_subs)@, connection_id));
//@@|         assert forall|ch: Vec<u8>| (#[trigger] conn_info.channels@.contains(ch)) <==> (#[trigger] members(channel_subs@, ch).contains(connection_id)) by {
//@@|             assert(chans_of(old(conn_subs)@, connection_id).contains(ch) <==> members(channel_subs@, ch).contains(connection_id));
//@@|         }
//@@|         assert(prefix_set(list, 0) =~= Set::<Vec<u8>>::empty());
//@@|     }
//@@   loopstart 0
//@@|     let ghost ci0 = conn_info.channels@; let ghost ch0 = channel_subs@; let ghost i = it.index@ as int;
//@@|     proof { assert(channel == list[i]); lemma_prefix_step(list, i); }
//@@   at "results.push(SubResult"
//@@|     proof {
//@@|         assert(conn_info.channels@ =~= ci0.remove(channel));
//@@|         assert forall|k: Vec<u8>| #[trigger] members(channel_subs@, k) =~= (if k == channel { members(ch0, k).remove(connection_id) } else { members(ch0, k) }) by { }
//@@|     }
//@@   after "results.push(SubResult"
//@@|     proof {
//@@|         let rr = results@[i];
//@@|         assert(conn_info.channels@ =~= chans_of(old(conn_subs)@, connection_id).difference(prefix_set(list, i + 1)));
//@@|         assert(unsub_result_ok(rr, old(conn_subs)@, connection_id, list, i));
//@@|     }
//@@   afterloop 0
//@@|     let ghost ci_final = *conn_info; let ghost chf = channel_subs@;
//@@|     proof { assert(list.take(list.len() as int) =~= list); }
//@@   at "Ok(results)"
//@@|     proof {
//@@|         assert forall|c: u64, ch: Vec<u8>| (#[trigger] chans_of(conn_subs@, c).contains(ch)) <==> (#[trigger] members(channel_subs@, ch).contains(c)) by {
//@@|             if c != connection_id { assert(chans_of(conn_subs@, c) == chans_of(old(conn_subs)@, c)); assert(chans_of(old(conn_subs)@, c).contains(ch) <==> members(channel_subs@, ch).contains(c)); }
//@@|             else { assert(chans_of(conn_subs@, c) =~= ci_final.channels@); assert(ci_final.channels@.contains(ch) <==> members(chf, ch).contains(connection_id)); }
//@@|         }
//@@|     }
fn unsubscribe(conn_subs: &mut HashMap<u64, SubscriberInfo>, channel_subs: &mut HashMap<Vec<u8>, HashSet<u64>>, connection_id: u64, channels: Option<Vec<Vec<u8>>>) -> (r: Result<Vec<SubResult>>)
    requires chan_inv(old(conn_subs)@, old(channel_subs)@),
    ensures
        r is Ok,
        chan_inv(final(conn_subs)@, final(channel_subs)@),
        // patterns and every other connection are untouched
        pats_of(final(conn_subs)@, connection_id) == pats_of(old(conn_subs)@, connection_id),
        forall|c: u64| c != connection_id ==> (final(conn_subs)@.contains_key(c) == old(conn_subs)@.contains_key(c)) && (old(conn_subs)@.contains_key(c) ==> #[trigger] final(conn_subs)@[c] == old(conn_subs)@[c]),
        // a connection without any subscription: nothing changes (and, in this implementation, nothing is acknowledged)
        !old(conn_subs)@.contains_key(connection_id) ==> r->Ok_0@.len() == 0 && final(conn_subs)@ == old(conn_subs)@ && final(channel_subs)@ == old(channel_subs)@,
        // otherwise: the named channels (or all of them) are gone from the connection's set, one acknowledgement per channel in
        // order, each carrying the count that remains right after it
        old(conn_subs)@.contains_key(connection_id) ==> exists|list: Seq<Vec<u8>>|
            (match channels { Some(l) => list == l@, None => list.no_duplicates() && list.to_set() =~= chans_of(old(conn_subs)@, connection_id) })
            && chans_of(final(conn_subs)@, connection_id) =~= chans_of(old(conn_subs)@, connection_id).difference(list.to_set())
            && r->Ok_0@.len() == list.len()
            && (forall|i: int| 0 <= i < list.len() ==> unsub_result_ok(#[trigger] r->Ok_0@[i], old(conn_subs)@, connection_id, list, i)),
//@@ body
//@@ end

// ======================= PUNSUBSCRIBE =========================
/// the i-th acknowledgement of PUNSUBSCRIBE: names the i-th pattern and carries the count that remains after it
pub open spec fn punsub_result_ok(r: SubResult, conns: Map<u64, SubscriberInfo>, id: u64, list: Seq<Vec<u8>>, i: int) -> bool {
    r.subscription == Subscription::Pattern(list[i])
    && r.num_subscriptions == pats_of(conns, id).difference(prefix_set(list, i + 1)).len() + chans_of(conns, id).len()
    && !r.is_new
}

//@@ unit punsubscribe fn src/pubsub.rs PubSubManager::punsubscribe
//@@   rewrite R2
//@@   rewrite RXPR "conn_info.patterns.iter().cloned().collect()" "verif_set_to_vec(&conn_info.patterns)"
//@@   rewrite RFOR 0 it
//@@   params drop "&self" add "conn_subs: &mut HashMap<u64, SubscriberInfo>" "pattern_subs: &mut HashMap<Vec<u8>, HashSet<u64>>"
//@@   loop 0
//@@|     invariant
//@@|         it.seq() == list, it.history@ =~= it.seq().take(it.index@),
//@@|         old(conn_subs)@.contains_key(connection_id),
//@@|         p_others_agree(old(conn_subs)@, pattern_subs@, connection_id),
//@@|         forall|ch: Vec<u8>| (#[trigger] conn_info.patterns@.contains(ch)) <==> (#[trigger] members(pattern_subs@, ch).contains(connection_id)),
//@@|         conn_info.channels@ == chans_of(old(conn_subs)@, connection_id),
//@@|         conn_info.patterns@ =~= pats_of(old(conn_subs)@, connection_id).difference(prefix_set(list, it.index@ as int)),
//@@|         results@.len() == it.index@,
//@@|         forall|i: int| 0 <= i < results@.len() ==> punsub_result_ok(#[trigger] results@[i], old(conn_subs)@, connection_id, list, i),
//@@   at "for pattern in patterns_to_remove"
//@@|     let ghost list = patterns_to_remove@;
//@@|     proof {
//@@|         assert(conn_info.patterns@ == pats_of(old(conn_subs)@, connection_id));
//@@|         assert forall|ch: Vec<u8>| (#[trigger] conn_info.patterns@.contains(ch)) <==> (#[trigger] members(pattern_subs@, ch).contains(connection_id)) by {
//@@|             assert(pats_of(old(conn_subs)@, connection_id).contains(ch) <==> members(pattern_subs@, ch).contains(connection_id));
//@@|         }
//@@|         assert(prefix_set(list, 0) =~= Set::<Vec<u8>>::empty());
//@@|     }
//@@   loopstart 0
//@@|     let ghost ci0 = conn_info.patterns@; let ghost ch0 = pattern_subs@; let ghost i = it.index@ as int;
//@@|     proof { assert(pattern == list[i]); lemma_prefix_step(list, i); }
//@@   at "results.push(SubResult"
//@@|     proof {
//@@|         assert(conn_info.patterns@ =~= ci0.remove(pattern));
//@@|         assert forall|k: Vec<u8>| #[trigger] members(pattern_subs@, k) =~= (if k == pattern { members(ch0, k).remove(connection_id) } else { members(ch0, k) }) by { }
//@@|     }
//@@   after "results.push(SubResult"
//@@|     proof {
//@@|         let rr = results@[i];
//@@|         assert(conn_info.patterns@ =~= pats_of(old(conn_subs)@, connection_id).difference(prefix_set(list, i + 1)));
//@@|         assert(punsub_result_ok(rr, old(conn_subs)@, connection_id, list, i));
//@@|     }
//@@   afterloop 0
//@@|     let ghost ci_final = *conn_info; let ghost chf = pattern_subs@;
//@@|     proof { assert(list.take(list.len() as int) =~= list); }
//@@   at "Ok(results)"
//@@|     proof {
//@@|         assert forall|c: u64, ch: Vec<u8>| (#[trigger] pats_of(conn_subs@, c).contains(ch)) <==> (#[trigger] members(pattern_subs@, ch).contains(c)) by {
//@@|             if c != connection_id { assert(pats_of(conn_subs@, c) == pats_of(old(conn_subs)@, c)); assert(pats_of(old(conn_subs)@, c).contains(ch) <==> members(pattern_subs@, ch).contains(c)); }
//@@|             else { assert(pats_of(conn_subs@, c) =~= ci_final.patterns@); assert(ci_final.patterns@.contains(ch) <==> members(chf, ch).contains(connection_id)); }
//@@|         }
//@@|     }
fn punsubscribe(conn_subs: &mut HashMap<u64, SubscriberInfo>, pattern_subs: &mut HashMap<Vec<u8>, HashSet<u64>>, connection_id: u64, patterns: Option<Vec<Vec<u8>>>) -> (r: Result<Vec<SubResult>>)
    requires pat_inv(old(conn_subs)@, old(pattern_subs)@),
    ensures
        r is Ok,
        pat_inv(final(conn_subs)@, final(pattern_subs)@),
        // patterns and every other connection are untouched
        chans_of(final(conn_subs)@, connection_id) == chans_of(old(conn_subs)@, connection_id),
        forall|c: u64| c != connection_id ==> (final(conn_subs)@.contains_key(c) == old(conn_subs)@.contains_key(c)) && (old(conn_subs)@.contains_key(c) ==> #[trigger] final(conn_subs)@[c] == old(conn_subs)@[c]),
        // a connection without any subscription: nothing changes (and, in this implementation, nothing is acknowledged)
        !old(conn_subs)@.contains_key(connection_id) ==> r->Ok_0@.len() == 0 && final(conn_subs)@ == old(conn_subs)@ && final(pattern_subs)@ == old(pattern_subs)@,
        // otherwise: the named channels (or all of them) are gone from the connection's set, one acknowledgement per channel in
        // order, each carrying the count that remains right after it
        old(conn_subs)@.contains_key(connection_id) ==> exists|list: Seq<Vec<u8>>|
            (match patterns { Some(l) => list == l@, None => list.no_duplicates() && list.to_set() =~= pats_of(old(conn_subs)@, connection_id) })
            && pats_of(final(conn_subs)@, connection_id) =~= pats_of(old(conn_subs)@, connection_id).difference(list.to_set())
            && r->Ok_0@.len() == list.len()
            && (forall|i: int| 0 <= i < list.len() ==> punsub_result_ok(#[trigger] r->Ok_0@[i], old(conn_subs)@, connection_id, list, i)),
//@@ body
//@@ end

// ======================= message and acknowledgement frames =========================
/// the frame `RespFrame::from_string(s)` builds for a literal kind tag (uninterpreted: a bulk string of the tag's bytes)
pub uninterp spec fn tag_frame(s: Seq<char>) -> RespFrame;
impl RespFrame {
    /// ASSUMED CONTRACT (resp.rs from_string, `impl Into<String>` argument)
    #[verifier::external_body]
    pub fn from_string(s: &str) -> (r: Self) ensures r == tag_frame(s@), { unimplemented!() }
    /// ASSUMED CONTRACT (resp.rs from_bytes: `BulkString(Some(Arc::new(bytes)))`)
    #[verifier::external_body]
    pub fn from_bytes(bytes: Vec<u8>) -> (r: Self) ensures r matches RespFrame::BulkString(Some(a)) && a@ == bytes@, { unimplemented!() }
}
pub open spec fn is_bulk(f: RespFrame, b: Seq<u8>) -> bool { f matches RespFrame::BulkString(Some(a)) && a@ == b }
/// ["message", channel, payload] — bytes intact
pub open spec fn message_frame(f: RespFrame, channel: Seq<u8>, payload: Seq<u8>) -> bool {
    f matches RespFrame::Array(Some(v)) && v@.len() == 3 && v@[0] == tag_frame("message"@) && is_bulk(v@[1], channel) && is_bulk(v@[2], payload)
}
/// ["pmessage", pattern, channel, payload] — bytes intact
pub open spec fn pmessage_frame(f: RespFrame, pattern: Seq<u8>, channel: Seq<u8>, payload: Seq<u8>) -> bool {
    f matches RespFrame::Array(Some(v)) && v@.len() == 4 && v@[0] == tag_frame("pmessage"@) && is_bulk(v@[1], pattern) && is_bulk(v@[2], channel) && is_bulk(v@[3], payload)
}
/// [kind, name, count]
pub open spec fn ack_frame(f: RespFrame, kind: Seq<char>, name: Seq<u8>, count: usize) -> bool {
    f matches RespFrame::Array(Some(v)) && v@.len() == 3 && v@[0] == tag_frame(kind) && is_bulk(v@[1], name) && v@[2] == RespFrame::Integer(count as i64)
}
// ======================= disconnect: unsubscribe_all =========================
// PubSubManager::unsubscribe_all walks both maps with HashMap::iter_mut (no vstd specification: the loops as wholes stay
// unverified). Under contract are its steps: each visited subscriber set loses exactly the closing connection and a set that
// became empty is queued for removal; each queued name is removed from its map and nothing else is.
//@@ unit unsub_all_channel_step loopbody src/pubsub.rs PubSubManager::unsubscribe_all "for (channel, subscribers) in channel_subs.iter_mut()"
fn unsub_all_channel_step(channel: &Vec<u8>, subscribers: &mut HashSet<u64>, channels_to_remove: &mut Vec<Vec<u8>>, connection_id: u64)
    requires old(subscribers)@.finite(),
    ensures final(subscribers)@ == old(subscribers)@.remove(connection_id),
        final(subscribers)@.len() == 0 ==> final(channels_to_remove)@.len() == old(channels_to_remove)@.len() + 1 && final(channels_to_remove)@.last()@ == channel@
            && final(channels_to_remove)@.drop_last() =~= old(channels_to_remove)@,
        final(subscribers)@.len() != 0 ==> final(channels_to_remove)@ == old(channels_to_remove)@,
//@@ body
//@@ end
//@@ unit unsub_all_pattern_step loopbody src/pubsub.rs PubSubManager::unsubscribe_all "for (pattern, subscribers) in pattern_subs.iter_mut()"
fn unsub_all_pattern_step(pattern: &Vec<u8>, subscribers: &mut HashSet<u64>, patterns_to_remove: &mut Vec<Vec<u8>>, connection_id: u64)
    requires old(subscribers)@.finite(),
    ensures final(subscribers)@ == old(subscribers)@.remove(connection_id),
        final(subscribers)@.len() == 0 ==> final(patterns_to_remove)@.len() == old(patterns_to_remove)@.len() + 1 && final(patterns_to_remove)@.last()@ == pattern@
            && final(patterns_to_remove)@.drop_last() =~= old(patterns_to_remove)@,
        final(subscribers)@.len() != 0 ==> final(patterns_to_remove)@ == old(patterns_to_remove)@,
//@@ body
//@@ end
//@@ unit unsub_all_drop_channel loopbody src/pubsub.rs PubSubManager::unsubscribe_all "for channel in channels_to_remove"
fn unsub_all_drop_channel(channel_subs: &mut HashMap<Vec<u8>, HashSet<u64>>, channel: Vec<u8>)
    ensures final(channel_subs)@ == old(channel_subs)@.remove(channel),
//@@ body
//@@ end
//@@ unit unsub_all_drop_pattern loopbody src/pubsub.rs PubSubManager::unsubscribe_all "for pattern in patterns_to_remove"
fn unsub_all_drop_pattern(pattern_subs: &mut HashMap<Vec<u8>, HashSet<u64>>, pattern: Vec<u8>)
    ensures final(pattern_subs)@ == old(pattern_subs)@.remove(pattern),
//@@ body
//@@ end
// the last statement: the connection's own entry goes, so is_subscribed (conn_subs.contains_key) is false afterwards
//@@ unit unsub_all_forget stmts src/pubsub.rs PubSubManager::unsubscribe_all "conn_subs.remove(&connection_id);" upto "Ok(())"
fn unsub_all_forget(conn_subs: &mut HashMap<u64, SubscriberInfo>, connection_id: u64)
    ensures final(conn_subs)@ == old(conn_subs)@.remove(connection_id), !final(conn_subs)@.contains_key(connection_id),
//@@ body
//@@ end
//@@ unit is_subscribed fn src/pubsub.rs PubSubManager::is_subscribed
//@@   rewrite R2
//@@   params drop "&self" add "conn_subs: &HashMap<u64, SubscriberInfo>"
fn is_subscribed(conn_subs: &HashMap<u64, SubscriberInfo>, connection_id: u64) -> (r: bool)
    ensures r == conn_subs@.contains_key(connection_id),
//@@ body
//@@ end

//@@ unit format_message fn src/pubsub.rs format_message
pub fn format_message(channel: &[u8], message: &[u8]) -> (r: RespFrame)
    ensures message_frame(r, channel@, message@),
//@@ body
//@@ end
//@@ unit format_pmessage fn src/pubsub.rs format_pmessage
pub fn format_pmessage(pattern: &[u8], channel: &[u8], message: &[u8]) -> (r: RespFrame)
    ensures pmessage_frame(r, pattern@, channel@, message@),
//@@ body
//@@ end
//@@ unit format_subscribe_response fn src/pubsub.rs format_subscribe_response
pub fn format_subscribe_response(channel: &[u8], num_subs: usize) -> (r: RespFrame)
    ensures ack_frame(r, "subscribe"@, channel@, num_subs),
//@@ body
//@@ end
//@@ unit format_psubscribe_response fn src/pubsub.rs format_psubscribe_response
pub fn format_psubscribe_response(pattern: &[u8], num_subs: usize) -> (r: RespFrame)
    ensures ack_frame(r, "psubscribe"@, pattern@, num_subs),
//@@ body
//@@ end
//@@ unit format_unsubscribe_response fn src/pubsub.rs format_unsubscribe_response
pub fn format_unsubscribe_response(channel: &[u8], num_subs: usize) -> (r: RespFrame)
    ensures ack_frame(r, "unsubscribe"@, channel@, num_subs),
//@@ body
//@@ end
//@@ unit format_punsubscribe_response fn src/pubsub.rs format_punsubscribe_response
pub fn format_punsubscribe_response(pattern: &[u8], num_subs: usize) -> (r: RespFrame)
    ensures ack_frame(r, "punsubscribe"@, pattern@, num_subs),
//@@ body
//@@ end

} // verus!
fn main() {}
