//@@ include contracts/inc_shard_header.rs
use vstd::std_specs::iter::IteratorSpec;
verus! {
impl ShardWatchTracker {
    /// ASSUMED CONTRACT for the real `mark_key_modified(&self)` (interior mutability, atomics + RwLock): records the key
    #[verifier::external_body]
    fn mark_key_modified(&mut self, key: &[u8])
        ensures final(self).marks@ == old(self).marks@.insert(key@),
    { unimplemented!() }
}
/// memory accounting of the flush (`total += size`): a sum of sizes of live objects, treated as mathematical (RT site)
#[verifier::external_body]
fn verif_account(total: &mut usize, size: usize) { unimplemented!() }

// FLUSHDB / FLUSHALL, one shard under its write lock. C08: "any command that ... flushes the key": every key that existed
// is recorded as modified, so a connection that WATCHed it gets nil from EXEC; the shard ends empty with an empty
// deadline index (C02 index invariant); keys that did not exist are not marked (no false abort).
//@@ unit flush_shard loopbody src/storage/engine.rs StorageEngine::flush_db "for shard in &database.shards"
//@@   rewrite R2
//@@   rewrite RT "total_memory_to_free += self.calculate_value_size(key, &stored_value.value);" "verif_account(&mut total_memory_to_free, engine.calculate_value_size(key, &stored_value.value));"
//@@   rewrite RFOR 0 it
//@@   loop 0
//@@|     invariant
//@@|         shard_guard.data == old(shard_guard).data, shard_guard.expiring_keys == old(shard_guard).expiring_keys,
//@@|         it.seq().len() == shard_guard.data@.len(),
//@@|         forall|i: int| 0 <= i < it.seq().len() ==> shard_guard.data@.contains_key(*(#[trigger] it.seq()[i]).0),
//@@|         forall|k: Vec<u8>| #[trigger] shard_guard.data@.contains_key(k) ==> exists|i: int| 0 <= i < it.seq().len() && *(#[trigger] it.seq()[i]).0 == k,
//@@|         it.history@ =~= it.seq().take(it.index@),
//@@|         forall|i: int| 0 <= i < it.index@ ==> shard_guard.watch_tracker.marks@.contains((#[trigger] it.seq()[i]).0@),
//@@|         old(shard_guard).watch_tracker.marks@.subset_of(shard_guard.watch_tracker.marks@),
//@@|         forall|b: Seq<u8>| #[trigger] shard_guard.watch_tracker.marks@.contains(b) ==> old(shard_guard).watch_tracker.marks@.contains(b) || shard_guard.data@.contains_key(key_of(b)),
//@@|     ensures it.index@ == it.seq().len(),
fn flush_shard(engine: &StorageEngine, shard_guard: &mut DatabaseShard, mut total_memory_to_free: usize)
    ensures
        sv(*final(shard_guard)).data =~= Map::<Vec<u8>, StoredValue>::empty(),
        sv(*final(shard_guard)).exp =~= Map::<Vec<u8>, Instant>::empty(),
        // every key that existed is marked modified; nothing that did not exist is
        forall|k: Vec<u8>| #[trigger] sv(*old(shard_guard)).data.contains_key(k) ==> marks(sv(*final(shard_guard))).contains(k@),
        marks(sv(*old(shard_guard))).subset_of(marks(sv(*final(shard_guard)))),
        forall|b: Seq<u8>| #[trigger] marks(sv(*final(shard_guard))).contains(b) ==> marks(sv(*old(shard_guard))).contains(b) || sv(*old(shard_guard)).data.contains_key(key_of(b)),
//@@ body
//@@ end

} // verus!
fn main() {}
