//@@ include contracts/inc_srv_header.rs
verus! {
/// what process_frame may set in motion, recorded in a ghost log by the MODEL methods below
pub enum Eff {
    Auth(Seq<RespFrame>, u64),
    MonitorSub(u64),
    Exec(u64),
    PubSub(u64),
    Repl(u64),
    Watch(u64),
    /// a command handed to process_normal_command (the executing dispatch; AOF logging happens there)
    Normal(Seq<RespFrame>, usize, u64),
}
pub struct ConfigStub { pub password: Option<String> }
pub struct MonitorModel { pub g: Ghost<int> }
pub struct StorageStub { pub g: Ghost<int> }
pub struct ReplStub { pub g: Ghost<int> }
pub struct PauseStub { pub g: Ghost<int> }
/// MODEL of Server for process_frame: configuration, connection table, and the ghost effect log
pub struct Server {
    pub config: ConfigStub,
    pub connections: ConnModel,
    pub monitor_subscribers: MonitorModel,
    pub storage: StorageStub,
    pub replication: ReplStub,
    pub clients_paused_until: PauseStub,
    pub aof_engine: Option<AofModel>,
    pub effects: Ghost<Seq<Eff>>,
}
/// command name of a frame's first part (trim + uppercase of the lossy decoding): uninterpreted here
pub uninterp spec fn spec_cmd_name(b: Seq<u8>) -> Seq<char>;
/// `String::from_utf8_lossy(bytes)` then `.trim().to_uppercase()` (RXPR sites; Cow / str adapters are outside Verus)
pub struct LossyStub { pub b: Ghost<Seq<u8>> }
#[verifier::external_body]
pub fn verif_from_utf8_lossy(bytes: &Arc<Vec<u8>>) -> (r: LossyStub) ensures r.b@ == bytes@, { unimplemented!() }
#[verifier::external_body]
pub fn verif_trim_upper(c: &LossyStub) -> (r: String) ensures r@ == spec_cmd_name(c.b@), { unimplemented!() }
pub uninterp spec fn spec_should_queue(cmd: Seq<char>) -> bool;
/// STUBS for the CLIENT PAUSE test (`SystemTime::now()`, `Mutex<SystemTime>::lock().unwrap()`, `now < *guard`): the verdict
/// is an uninterpreted function of the clock reading and the stored deadline
#[derive(Clone, Copy)]
pub struct SystemTime { pub t: Ghost<int> }
impl SystemTime { #[verifier::external_body] pub fn now() -> SystemTime { unimplemented!() } }
pub struct LockStub { pub until: Ghost<int> }
impl PauseStub { #[verifier::external_body] pub fn lock(&self) -> (r: LockStub) ensures r.until@ == self.g@, { unimplemented!() } }
impl LockStub { #[verifier::external_body] pub fn unwrap(self) -> (r: Box<SystemTime>) ensures r.t@ == self.until@, { unimplemented!() } }
#[verifier::external_body]
pub fn verif_time_lt(a: SystemTime, b: SystemTime) -> (r: bool) { unimplemented!() }

pub mod transactions {
    use super::*;
    /// ASSUMED CONTRACTS: the transaction-state functions (proved in c07_transactions against the same source) only ever
    /// receive the connection entry: nothing of the server can change through them
    #[verifier::external_body]
    pub fn handle_multi(conn: &mut Connection) -> (r: Result<RespFrame>) { unimplemented!() }
    #[verifier::external_body]
    pub fn handle_discard(conn: &mut Connection) -> (r: Result<RespFrame>) { unimplemented!() }
    #[verifier::external_body]
    pub fn handle_watch(conn: &mut Connection, parts: &Vec<RespFrame>, storage: &StorageStub) -> (r: Result<RespFrame>) { unimplemented!() }
    #[verifier::external_body]
    pub fn handle_unwatch(conn: &mut Connection, storage: &StorageStub) -> (r: Result<RespFrame>) { unimplemented!() }
    /// proved in c07_transactions (unit queue_command): appended to the queue, nothing else touched
    #[verifier::external_body]
    pub fn queue_command(conn: &mut Connection, parts: Vec<RespFrame>) -> (r: Result<RespFrame>)
        ensures r is Ok, r->Ok_0 is SimpleString,
            final(conn).transaction_state.queued_commands@ == old(conn).transaction_state.queued_commands@.push(parts),
            final(conn).transaction_state.in_transaction == old(conn).transaction_state.in_transaction,
            final(conn).transaction_state.watched_keys == old(conn).transaction_state.watched_keys,
            final(conn).transaction_state.aborted == old(conn).transaction_state.aborted,
            final(conn).db_index == old(conn).db_index, final(conn).state == old(conn).state, final(conn).is_monitoring == old(conn).is_monitoring,
    { unimplemented!() }
    /// table-checked in C07 (should_queue_command enumerated over the dispatch table)
    #[verifier::external_body]
    pub fn should_queue_command(command: &String) -> (r: bool) ensures r == spec_should_queue(command@), { unimplemented!() }
}
/// `crate::replication::commands::handle_replconf` (RPCALL site)
#[verifier::external_body]
pub fn verif_handle_replconf(parts: &Vec<RespFrame>, conn: &mut Connection, repl: &ReplStub) -> (r: Result<RespFrame>) { unimplemented!() }

impl MonitorModel {
    #[verifier::external_body]
    pub fn subscribe(&mut self, id: u64) -> (r: Result<()>) { unimplemented!() }
}

pub open spec fn gate_closed(s: Server, conn_id: u64) -> bool {
    s.config.password is Some && s.connections.map@.contains_key(conn_id) && s.connections.map@[conn_id].state != ConnectionState::Authenticated
}
pub open spec fn cmd_of(frame: RespFrame) -> Option<Seq<char>> {
    match frame {
        RespFrame::Array(Some(parts)) => if parts@.len() > 0 { match parts@[0] { RespFrame::BulkString(Some(b)) => Some(spec_cmd_name(b@)), _ => None } } else { None },
        _ => None,
    }
}
pub open spec fn is_err_reply(r: Result<RespFrame>) -> bool { r matches Ok(f) && f is Error }
pub open spec fn parts_of(frame: RespFrame) -> Seq<RespFrame> {
    match frame { RespFrame::Array(Some(parts)) => parts@, _ => Seq::empty() }
}

/// commands process_frame handles itself before the queueing test (transaction control, pub/sub, AUTH, MONITOR, REPLCONF)
pub open spec fn handled_before_queue(c: Seq<char>) -> bool {
    c == "MONITOR"@ || c == "MULTI"@ || c == "EXEC"@ || c == "DISCARD"@ || c == "WATCH"@ || c == "UNWATCH"@ || c == "PUBLISH"@ || c == "SUBSCRIBE"@
    || c == "UNSUBSCRIBE"@ || c == "PSUBSCRIBE"@ || c == "PUNSUBSCRIBE"@ || c == "AUTH"@ || c == "REPLCONF"@
}
pub open spec fn queueing_applies(c: Seq<char>) -> bool { !handled_before_queue(c) && spec_should_queue(c) }
/// the queue grew by exactly one command whose parts are p, earlier entries untouched
pub open spec fn queued_push(o: Seq<Vec<RespFrame>>, n: Seq<Vec<RespFrame>>, p: Seq<RespFrame>) -> bool {
    n.len() == o.len() + 1 && n.take(o.len() as int) =~= o && n[o.len() as int]@ =~= p
}
pub struct AofModel { pub g: Ghost<int> }
/// process_frame must not append to the AOF itself (a command is logged when it is EXECUTED, in process_normal_command):
/// no call site in this unit can establish this precondition
pub uninterp spec fn aof_append_belongs_to_execution() -> bool;
impl AofModel {
    #[verifier::external_body]
    pub fn append_command(&self, parts: &[RespFrame]) -> (r: Result<()>)
        requires aof_append_belongs_to_execution(),
    { unimplemented!() }
}

impl Server {
    #[verifier::external_body]
    fn is_write_command(&self, command: &str) -> (r: bool) { unimplemented!() }
    // ---- MODEL methods: each handler that process_frame can reach records itself in the effect log (their own behaviour is
    // the subject of other units / outside this unit)
    #[verifier::external_body]
    fn handle_auth(&mut self, parts: &Vec<RespFrame>, conn_id: u64) -> (r: Result<RespFrame>)
        ensures final(self).effects@ == old(self).effects@.push(Eff::Auth(parts@, conn_id)), final(self).config == old(self).config,
    { unimplemented!() }
    #[verifier::external_body]
    fn handle_ping(&self, parts: &Vec<RespFrame>) -> (r: Result<RespFrame>) { unimplemented!() }
    #[verifier::external_body]
    fn handle_exec(&mut self, conn_id: u64) -> (r: Result<RespFrame>)
        ensures final(self).effects@ == old(self).effects@.push(Eff::Exec(conn_id)), final(self).config == old(self).config,
    { unimplemented!() }
    #[verifier::external_body]
    fn handle_publish(&mut self, parts: &Vec<RespFrame>) -> (r: Result<RespFrame>)
        ensures final(self).effects@ == old(self).effects@.push(Eff::PubSub(0)), final(self).config == old(self).config,
    { unimplemented!() }
    #[verifier::external_body]
    fn handle_subscribe(&mut self, parts: &Vec<RespFrame>, conn_id: u64) -> (r: Result<RespFrame>)
        ensures final(self).effects@ == old(self).effects@.push(Eff::PubSub(conn_id)), final(self).config == old(self).config,
    { unimplemented!() }
    #[verifier::external_body]
    fn handle_unsubscribe(&mut self, parts: &Vec<RespFrame>, conn_id: u64) -> (r: Result<RespFrame>)
        ensures final(self).effects@ == old(self).effects@.push(Eff::PubSub(conn_id)), final(self).config == old(self).config,
    { unimplemented!() }
    #[verifier::external_body]
    fn handle_psubscribe(&mut self, parts: &Vec<RespFrame>, conn_id: u64) -> (r: Result<RespFrame>)
        ensures final(self).effects@ == old(self).effects@.push(Eff::PubSub(conn_id)), final(self).config == old(self).config,
    { unimplemented!() }
    #[verifier::external_body]
    fn handle_punsubscribe(&mut self, parts: &Vec<RespFrame>, conn_id: u64) -> (r: Result<RespFrame>)
        ensures final(self).effects@ == old(self).effects@.push(Eff::PubSub(conn_id)), final(self).config == old(self).config,
    { unimplemented!() }
    #[verifier::external_body]
    fn process_normal_command(&mut self, parts: &Vec<RespFrame>, db: usize, conn_id: u64) -> (r: Result<RespFrame>)
        ensures final(self).effects@ == old(self).effects@.push(Eff::Normal(parts@, db, conn_id)), final(self).config == old(self).config,
    { unimplemented!() }

//@@ unit process_frame fn src/network/server.rs Server::process_frame
//@@   rewrite R3
//@@   rewrite RGUARD
//@@   rewrite RPCALL "String::from_utf8_lossy" verif_from_utf8_lossy
//@@   rewrite RXPR "cmd_raw.trim().to_uppercase()" "verif_trim_upper(&cmd_raw)"
//@@   rewrite R7 "conn_status != ConnectionState::Authenticated" verif_state_ne
//@@   rewrite R7 "now < *paused_until" verif_time_lt
//@@   rewrite RCT "transactions::queue_command(conn, parts.to_vec())" "Result<RespFrame>" "cr is Ok, cr->Ok_0 is SimpleString, queued_push(old(conn).transaction_state.queued_commands@, final(conn).transaction_state.queued_commands@, parts@), final(conn).transaction_state.in_transaction == old(conn).transaction_state.in_transaction, final(conn).db_index == old(conn).db_index"
//@@   rewrite RCT "conn.state.clone()" "(usize, bool, ConnectionState)" "*final(conn) == *old(conn), cr == (old(conn).db_index, old(conn).transaction_state.in_transaction, old(conn).state)"
//@@   rewrite RPCALL "crate::replication::commands::handle_replconf" verif_handle_replconf
    fn process_frame(&mut self, frame: RespFrame, conn_id: u64) -> (r: Result<RespFrame>)
        ensures
            // C17: with a password set, a COMMAND from a connection that has not authenticated reaches AUTH, PING or QUIT and
            // nothing else: any other command is answered with an error, no handler runs and no connection entry changes
            gate_closed(*old(self), conn_id) ==> (cmd_of(frame) matches Some(c) ==> (
                    if c == "AUTH"@ { final(self).effects@ == old(self).effects@.push(Eff::Auth(parts_of(frame), conn_id)) }
                    else if c == "PING"@ || c == "QUIT"@ { final(self).effects@ == old(self).effects@ && final(self).connections.map@ == old(self).connections.map@ }
                    else { r matches Ok(f) && f is Error && final(self).effects@ == old(self).effects@ && final(self).connections.map@ == old(self).connections.map@ })),
            // C07 / C11: inside MULTI a queueable command is only QUEUED: no handler runs (so nothing is executed and nothing
            // is appended to the AOF: both happen in process_normal_command = Eff::Normal), the queue grows by exactly this command
            (!gate_closed(*old(self), conn_id) && old(self).connections.map@.contains_key(conn_id) && old(self).connections.map@[conn_id].transaction_state.in_transaction)
              ==> (cmd_of(frame) matches Some(c) ==> (queueing_applies(c) ==> (
                    r matches Ok(f) && f is SimpleString && final(self).effects@ == old(self).effects@
                    && final(self).connections.map@.dom() == old(self).connections.map@.dom()
                    && (forall|o: u64| o != conn_id && #[trigger] old(self).connections.map@.contains_key(o) ==> final(self).connections.map@[o] == old(self).connections.map@[o])
                    && queued_push(old(self).connections.map@[conn_id].transaction_state.queued_commands@, final(self).connections.map@[conn_id].transaction_state.queued_commands@, parts_of(frame))
                    && final(self).connections.map@[conn_id].transaction_state.in_transaction
                    && final(self).connections.map@[conn_id].db_index == old(self).connections.map@[conn_id].db_index))),
            // C18 / C07: any other command of a connection that passed the gate is dispatched exactly once, with the database
            // selected on THAT connection, and with that connection's id — or refused (CLIENT PAUSE) without running anything
            (!gate_closed(*old(self), conn_id) && old(self).connections.map@.contains_key(conn_id)) ==> (cmd_of(frame) matches Some(c) ==> (
                (!handled_before_queue(c) && !(old(self).connections.map@[conn_id].transaction_state.in_transaction && spec_should_queue(c))) ==> (
                    (final(self).effects@ == old(self).effects@.push(Eff::Normal(parts_of(frame), old(self).connections.map@[conn_id].db_index, conn_id))
                        || (final(self).effects@ == old(self).effects@ && is_err_reply(r)))))),
            // a frame that is not a command (not a non-empty array whose first element is a bulk string) is answered with an
            // error and nothing runs
            cmd_of(frame) is None ==> is_err_reply(r) && final(self).effects@ == old(self).effects@ && final(self).connections.map@ == old(self).connections.map@,
            // an unknown connection id is answered with an error and nothing runs
            (cmd_of(frame) is Some && !old(self).connections.map@.contains_key(conn_id)) ==> is_err_reply(r) && final(self).effects@ == old(self).effects@ && final(self).connections.map@ == old(self).connections.map@,
//@@ body
//@@ end
}

} // verus!
fn main() {}
