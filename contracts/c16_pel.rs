//@@ include prelude/head.rs
use std::collections::{HashMap, BTreeMap};
use std::sync::Arc;
use std::alloc::Allocator;
use std::time::SystemTime;
use vstd::std_specs::iter::IteratorSpec;
//@@ include prelude/cmp.rs
//@@ include prelude/c16_keys.rs
//@@ include prelude/hash_keys.rs
verus! {
broadcast use {vstd::std_specs::hash::group_hash_axioms, vstd::std_specs::btree::group_btree_axioms, group_c16_keys, group_byte_keys};
#[verifier::external_type_specification]
#[verifier::external_body]
pub struct ExSystemTime(SystemTime);
/// `SystemTime::now()` (RPCALL site): the clock, unconstrained
#[verifier::external_body]
pub fn verif_now() -> SystemTime { unimplemented!() }

/// the decimal value of a digit string (most significant digit first); all_digits says every byte is '0'..'9'
pub open spec fn dec_value(s: Seq<u8>) -> int
    decreases s.len()
{
    if s.len() == 0 { 0 } else { dec_value(s.drop_last()) * 10 + (s.last() - 48) }
}
pub open spec fn all_digits(s: Seq<u8>) -> bool { forall|i: int| 0 <= i < s.len() ==> 48 <= #[trigger] s[i] <= 57 }
/// a prefix of a digit string never has a greater value than the whole (so an overflow part-way through means the whole overflows)
pub proof fn lemma_dec_prefix_le(s: Seq<u8>, k: int)
    requires all_digits(s), 0 <= k <= s.len(),
    ensures 0 <= dec_value(s.take(k)) <= dec_value(s),
    decreases s.len() - k
{
    if k == 0 { assert(s.take(0).len() == 0); lemma_dec_nonneg(s); }
    else { lemma_dec_nonneg(s.take(k)); }
    if k < s.len() {
        lemma_dec_prefix_le(s, k + 1);
        assert(s.take(k + 1).drop_last() =~= s.take(k));
        lemma_dec_nonneg(s.take(k));
    } else { assert(s.take(k) =~= s); }
}
pub proof fn lemma_dec_nonneg(s: Seq<u8>)
    requires all_digits(s),
    ensures dec_value(s) >= 0,
    decreases s.len()
{
    if s.len() > 0 { lemma_dec_nonneg(s.drop_last()); }
}
impl StreamId {
//@@ unit sid_parse_u64_fast fn src/storage/stream.rs StreamId::parse_u64_fast
//@@   rewrite RDEREF
//@@   rewrite RFOR 0 it
//@@   loop 0
//@@|     invariant
//@@|         it.seq().len() == bytes@.len(), forall|j: int| 0 <= j < bytes@.len() ==> *(#[trigger] it.seq()[j]) == bytes@[j], it.history@ =~= it.seq().take(it.index@),
//@@|         all_digits(bytes@.take(it.index@ as int)), result as int == dec_value(bytes@.take(it.index@ as int)),
//@@   loopstart 0
//@@|     let ghost i0 = it.index@ as int;
//@@|     proof {
//@@|         assert(b == bytes@[i0]);
//@@|         assert(bytes@.take(i0 + 1).drop_last() =~= bytes@.take(i0));
//@@|         assert(bytes@.take(i0 + 1).last() == b);
//@@|         if 48 <= b <= 57 && all_digits(bytes@) { lemma_dec_prefix_le(bytes@, i0 + 1); }
//@@|         if !(48 <= b <= 57) { assert(!all_digits(bytes@)); }
//@@|     }
//@@   afterloop 0
//@@|     proof { assert(bytes@.take(bytes@.len() as int) =~= bytes@); }
    fn parse_u64_fast(bytes: &[u8]) -> (r: Option<u64>)
        ensures
            // C15: an ID component is read as the decimal number it spells, or refused — a non-digit, or a number that does not fit in
            // 64 bits, is never turned into some other number
            r == (if all_digits(bytes@) && dec_value(bytes@) <= u64::MAX { Some(dec_value(bytes@) as u64) } else { None::<u64> }),
//@@ body
//@@ end
//@@ unit sid_new fn src/storage/stream.rs StreamId::new
    fn new(millis: u64, seq: u64) -> (r: Self)
        ensures r.packed == ((millis as u128) << 64) | (seq as u128),
//@@ body
//@@ end
//@@ unit sid_min fn src/storage/stream.rs StreamId::min
    fn min() -> (r: Self)
        ensures r.packed == 0,
//@@ body
//@@ end
//@@ unit sid_max fn src/storage/stream.rs StreamId::max
    fn max() -> (r: Self)
        ensures r.packed == u128::MAX,
//@@ body
//@@ end
}
//@@ item src/storage/consumer_groups.rs PendingEntry
//@@ item src/storage/consumer_groups.rs PendingEntryList
//@@ item src/storage/stream.rs StreamEntry
//@@ item src/storage/consumer_groups.rs PendingInfo
/// the ids of a batch of entries, in order
pub open spec fn ids_of(es: Seq<StreamEntry>) -> Seq<StreamId> { es.map_values(|e: StreamEntry| e.id) }
/// `consumer.to_string()` on a &str (RXPR site)
#[verifier::external_body]
pub fn verif_to_string(s: &str) -> (r: String)
    ensures r == string_of(s@),
{ s.to_string() }
/// `a > b` on StreamId (R7 site): the order of the packed value (stream.rs:193-205)
#[verifier::external_body]
pub fn sid_gt(a: StreamId, b: StreamId) -> (r: bool)
    ensures r == (a.packed > b.packed),
{ a > b }
/// `entries.last()` (RXPR site)
#[verifier::external_body]
pub fn verif_last<T>(v: &Vec<T>) -> (r: Option<&T>)
    ensures r == (if v@.len() == 0 { None::<&T> } else { Some(&v@[v@.len() - 1]) }),
{ v.last() }
/// `now.duration_since(t).unwrap_or_default().as_millis() as u64` (RXPR site): the clock, unconstrained
#[verifier::external_body]
pub fn verif_idle_ms(now: SystemTime, t: SystemTime) -> u64 { unimplemented!() }
/// `consumers.iter().filter(|(_, c)| c.pending_count > 0).map(|(name, c)| (name.clone(), c.pending_count)).collect()` (RXPR site;
/// iterator adapters over a HashMap): ASSUMED to be std's meaning — one (name, pending_count) pair per consumer whose count is positive, in the map's iteration order
#[verifier::external_body]
pub fn verif_consumer_counts(m: &HashMap<String, Consumer>) -> (r: Vec<(String, usize)>)
    ensures
        forall|k: int| 0 <= k < r@.len() ==> m@.contains_key((#[trigger] r@[k]).0) && r@[k].1 == m@[r@[k].0].pending_count && r@[k].1 > 0,
        forall|c: String| #[trigger] m@.contains_key(c) && m@[c].pending_count > 0 ==> exists|k: int| 0 <= k < r@.len() && r@[k].0 == c,
        forall|i: int, j: int| 0 <= i < j < r@.len() ==> (#[trigger] r@[i]).0 != (#[trigger] r@[j]).0,
{ m.iter().filter(|(_, c)| c.pending_count > 0).map(|(name, c)| (name.clone(), c.pending_count)).collect() }
/// distinct elements that all occur in a duplicate-free list are at most as many as the list is long
pub proof fn lemma_sub_len(s: Seq<StreamId>, l: Seq<StreamId>)
    requires s.no_duplicates(), l.no_duplicates(), forall|i: int| 0 <= i < s.len() ==> l.contains(#[trigger] s[i]),
    ensures s.len() <= l.len(),
{
    s.unique_seq_to_set(); l.unique_seq_to_set();
    assert(s.to_set().subset_of(l.to_set())) by {
        assert forall|x: StreamId| s.to_set().contains(x) implies l.to_set().contains(x) by { let i = choose|i: int| 0 <= i < s.len() && s[i] == x; assert(l.contains(s[i])); }
    }
    vstd::set_lib::lemma_len_subset(s.to_set(), l.to_set());
}

pub type Ids = Map<StreamId, PendingEntry>;
pub type Idx = Map<String, Vec<StreamId>>;
/// the two indexes of the pending-entries list tell the same story: a consumer's list names exactly the pending ids that belong
/// to it, each once, and no list is empty
pub open spec fn pel_wf_m(ids: Ids, idx: Idx) -> bool {
    &&& forall|c: String, x: StreamId| idx.contains_key(c) && #[trigger] idx[c]@.contains(x) ==> ids.contains_key(x) && ids[x].consumer == c
    &&& forall|x: StreamId| #[trigger] ids.contains_key(x) ==> ids[x].id == x && idx.contains_key(ids[x].consumer) && idx[ids[x].consumer]@.contains(x)
    &&& forall|c: String| #[trigger] idx.contains_key(c) ==> idx[c]@.no_duplicates() && idx[c]@.len() > 0
}
/// how many pending entries a consumer owns according to the per-consumer index
pub open spec fn owned(idx: Idx, c: String) -> nat { if idx.contains_key(c) { idx[c]@.len() } else { 0 } }
/// membership after `push`
pub proof fn lemma_push_contains(s: Seq<StreamId>, v: StreamId)
    ensures forall|x: StreamId| #[trigger] s.push(v).contains(x) <==> (s.contains(x) || x == v),
        (s.no_duplicates() && !s.contains(v)) ==> s.push(v).no_duplicates(),
{
    assert forall|x: StreamId| #[trigger] s.push(v).contains(x) <==> (s.contains(x) || x == v) by {
        if s.push(v).contains(x) { let i = choose|i: int| 0 <= i < s.push(v).len() && s.push(v)[i] == x; if i < s.len() { assert(s[i] == x); } }
        if s.contains(x) { let i = choose|i: int| 0 <= i < s.len() && s[i] == x; assert(s.push(v)[i] == x); }
        if x == v { assert(s.push(v)[s.len() as int] == x); }
    }
    if s.no_duplicates() && !s.contains(v) {
        assert forall|i: int, j: int| 0 <= i < j < s.push(v).len() implies s.push(v)[i] != s.push(v)[j] by { if j == s.len() { assert(s.contains(s[i])); } }
    }
}

/// C16 ("XPENDING's ... ID bounds ... always equal the actual pending set"): the cached bounds are the least and the greatest
/// pending id, or absent when nothing is pending
pub open spec fn bounds_ok(ids: Ids, lo: Option<StreamId>, hi: Option<StreamId>) -> bool {
    &&& match lo { None => forall|x: StreamId| !(#[trigger] ids.contains_key(x)), Some(m) => ids.contains_key(m) && forall|x: StreamId| #[trigger] ids.contains_key(x) ==> m.packed <= x.packed }
    &&& match hi { None => forall|x: StreamId| !(#[trigger] ids.contains_key(x)), Some(m) => ids.contains_key(m) && forall|x: StreamId| #[trigger] ids.contains_key(x) ==> x.packed <= m.packed }
}
/// `map.keys().min().copied()` (RXPR site; iterator adapters): ASSUMED to be std's meaning — the least key by Ord (= by packed value), None on an empty map
#[verifier::external_body]
pub fn verif_min_key(m: &BTreeMap<StreamId, PendingEntry>) -> (r: Option<StreamId>)
    ensures match r { None => forall|x: StreamId| !(#[trigger] m@.contains_key(x)), Some(k) => m@.contains_key(k) && forall|x: StreamId| #[trigger] m@.contains_key(x) ==> k.packed <= x.packed },
{ m.keys().min().copied() }
/// `map.keys().max().copied()` (RXPR site): the greatest key, None on an empty map
#[verifier::external_body]
pub fn verif_max_key(m: &BTreeMap<StreamId, PendingEntry>) -> (r: Option<StreamId>)
    ensures match r { None => forall|x: StreamId| !(#[trigger] m@.contains_key(x)), Some(k) => m@.contains_key(k) && forall|x: StreamId| #[trigger] m@.contains_key(x) ==> x.packed <= k.packed },
{ m.keys().max().copied() }

impl PendingEntryList {
    spec fn ids(self) -> Ids { self.entries_by_id@ }
    spec fn idx(self) -> Idx { self.entries_by_consumer@ }
    spec fn wf(self) -> bool { pel_wf_m(self.ids(), self.idx()) && bounds_ok(self.ids(), self.min_pending_id, self.max_pending_id) }

//@@ unit pel_new fn src/storage/consumer_groups.rs PendingEntryList::new
    fn new() -> (r: Self)
        ensures r.wf(), r.ids() =~= Map::<StreamId, PendingEntry>::empty(), r.idx() =~= Map::<String, Vec<StreamId>>::empty(),
//@@ body
//@@ end

//@@ unit pel_update_bounds fn src/storage/consumer_groups.rs PendingEntryList::update_bounds
//@@   rewrite RXPR "self.entries_by_id.keys().min().copied()" "verif_min_key(&self.entries_by_id)"
//@@   rewrite RXPR "self.entries_by_id.keys().max().copied()" "verif_max_key(&self.entries_by_id)"
    fn update_bounds(&mut self)
        ensures final(self).entries_by_id == old(self).entries_by_id, final(self).entries_by_consumer == old(self).entries_by_consumer,
            bounds_ok(final(self).ids(), final(self).min_pending_id, final(self).max_pending_id),
//@@ body
//@@ end

//@@ unit pel_len fn src/storage/consumer_groups.rs PendingEntryList::len
    fn len(&self) -> (r: usize)
        ensures r == self.ids().dom().len(),
//@@ body
//@@ end

//@@ unit pel_min_id fn src/storage/consumer_groups.rs PendingEntryList::min_id
    fn min_id(&self) -> (r: Option<StreamId>)
        ensures r == self.min_pending_id,
//@@ body
//@@ end

//@@ unit pel_max_id fn src/storage/consumer_groups.rs PendingEntryList::max_id
    fn max_id(&self) -> (r: Option<StreamId>)
        ensures r == self.max_pending_id,
//@@ body
//@@ end

//@@ unit pel_add_entry fn src/storage/consumer_groups.rs PendingEntryList::add_entry
//@@   rewrite RXPR "self.entries_by_consumer .entry(consumer) .or_insert_with(Vec::new) .push(id)" "verif_idx_push(&mut self.entries_by_consumer, consumer, id)"
//@@   atend
//@@|     proof {
//@@|         let ids0 = old(self).ids(); let idx0 = old(self).idx(); let ids1 = self.ids(); let idx1 = self.idx(); let cons = entry.consumer;
//@@|         assert(consumer == cons);
//@@|         let old_list: Seq<StreamId> = if idx0.contains_key(cons) { idx0[cons]@ } else { Seq::empty() };
//@@|         assert(idx1[cons]@ =~= old_list.push(id));
//@@|         lemma_push_contains(old_list, id);
//@@|         assert(!old_list.contains(id));
//@@|         assert forall|c: String, x: StreamId| idx1.contains_key(c) && #[trigger] idx1[c]@.contains(x) implies ids1.contains_key(x) && ids1[x].consumer == c by {
//@@|             if c == cons { if x != id { assert(idx0[c]@.contains(x)); } } else { assert(idx1[c] == idx0[c]); assert(idx0[c]@.contains(x)); }
//@@|         }
//@@|         assert forall|x: StreamId| #[trigger] ids1.contains_key(x) implies ids1[x].id == x && idx1.contains_key(ids1[x].consumer) && idx1[ids1[x].consumer]@.contains(x) by {
//@@|             if x != id { assert(ids0.contains_key(x)); let cx = ids0[x].consumer; assert(idx0[cx]@.contains(x)); if cx != cons { assert(idx1[cx] == idx0[cx]); } }
//@@|         }
//@@|         assert forall|c: String| #[trigger] idx1.contains_key(c) implies idx1[c]@.no_duplicates() && idx1[c]@.len() > 0 by { if c != cons { assert(idx1[c] == idx0[c]); } }
//@@|         assert forall|c: String| #[trigger] owned(idx1, c) == owned(idx0, c) + (if c == cons { 1int } else { 0int }) by { if c != cons { if idx0.contains_key(c) { assert(idx1[c] == idx0[c]); } } }
//@@|     }
    fn add_entry(&mut self, entry: PendingEntry)
        requires old(self).wf(),
            // C16: an id enters the pending list only when it is not pending already (it was delivered to exactly one consumer)
            !old(self).ids().contains_key(entry.id),
        ensures final(self).wf(), final(self).ids() == old(self).ids().insert(entry.id, entry),
            forall|c: String| #[trigger] owned(final(self).idx(), c) == owned(old(self).idx(), c) + (if c == entry.consumer { 1int } else { 0int }),
//@@ body
//@@ end

//@@ unit pel_remove_entry fn src/storage/consumer_groups.rs PendingEntryList::remove_entry
//@@   rewrite? RXPR "consumer_entries.retain(|&x| x != *id)" "verif_retain_ne(consumer_entries, id)"
//@@   at "Some(entry)"
//@@|     proof { lemma_removed_wf(old(self).ids(), old(self).idx(), self.ids(), self.idx(), *id); }
    fn remove_entry(&mut self, id: &StreamId) -> (r: Option<PendingEntry>)
        requires old(self).wf(),
        ensures final(self).wf(), final(self).ids() == old(self).ids().remove(*id),
            r == (if old(self).ids().contains_key(*id) { Some(old(self).ids()[*id]) } else { None }),
            forall|c: String| #[trigger] owned(final(self).idx(), c) == owned(old(self).idx(), c) - (if old(self).ids().contains_key(*id) && c == old(self).ids()[*id].consumer { 1int } else { 0int }),
//@@ body
//@@ end

//@@ unit pel_transfer_ownership fn src/storage/consumer_groups.rs PendingEntryList::transfer_ownership
//@@   rewrite? RXPR "old_entries.retain(|&x| x != *id)" "verif_retain_ne(old_entries, id)"
//@@   rewrite RXPR "self.entries_by_consumer .entry(new_consumer) .or_insert_with(Vec::new) .push(*id)" "verif_idx_push(&mut self.entries_by_consumer, new_consumer, *id)"
//@@   rewrite RPCALL "SystemTime::now" verif_now
//@@   at "entry.consumer = new_consumer.clone();"
//@@|     let ghost idx_mid = self.entries_by_consumer@;
//@@|     proof {
//@@|         let ids0 = old(self).ids(); let idx0 = old(self).idx(); let oc = ids0[*id].consumer;
//@@|         assert(old_consumer == oc);
//@@|         // after the removal step: id is in no list; every other membership is as before; lists are duplicate-free and non-empty
//@@|         assert forall|c: String, x: StreamId| idx_mid.contains_key(c) && #[trigger] idx_mid[c]@.contains(x) implies x != *id && idx0.contains_key(c) && idx0[c]@.contains(x) by {
//@@|             if c != oc { assert(idx_mid[c] == idx0[c]); if x == *id { assert(ids0[x].consumer == c); } }
//@@|         }
//@@|         assert forall|c: String, x: StreamId| x != *id && idx0.contains_key(c) && #[trigger] idx0[c]@.contains(x) implies idx_mid.contains_key(c) && idx_mid[c]@.contains(x) by {
//@@|             if c != oc { assert(idx_mid[c] == idx0[c]); }
//@@|         }
//@@|         assert forall|c: String| #[trigger] idx_mid.contains_key(c) implies idx_mid[c]@.no_duplicates() && idx_mid[c]@.len() > 0 by { if c != oc { assert(idx_mid[c] == idx0[c]); } }
//@@|         assert(idx0[oc]@.contains(*id));
//@@|         assert forall|c: String| #[trigger] owned(idx_mid, c) == owned(idx0, c) - (if c == oc { 1int } else { 0int }) by { if c != oc { if idx0.contains_key(c) { assert(idx_mid[c] == idx0[c]); } } }
//@@|     }
//@@   after "self.entries_by_consumer .entry(new_consumer) .or_insert_with(Vec::new) .push(*id);"
//@@|     proof {
//@@|         let ids0 = old(self).ids(); let idx0 = old(self).idx(); let ids1 = self.ids(); let idx1 = self.idx(); let nc = ids1[*id].consumer;
//@@|         let base: Seq<StreamId> = if idx_mid.contains_key(nc) { idx_mid[nc]@ } else { Seq::empty() };
//@@|         assert(idx1[nc]@ =~= base.push(*id));
//@@|         lemma_push_contains(base, *id);
//@@|         assert(!base.contains(*id));
//@@|         assert forall|c: String, x: StreamId| idx1.contains_key(c) && #[trigger] idx1[c]@.contains(x) implies ids1.contains_key(x) && ids1[x].consumer == c by {
//@@|             if c == nc { if x != *id { assert(idx_mid[c]@.contains(x)); assert(idx0[c]@.contains(x)); } }
//@@|             else { assert(idx1[c] == idx_mid[c]); assert(idx_mid[c]@.contains(x)); assert(idx0[c]@.contains(x)); }
//@@|         }
//@@|         assert forall|x: StreamId| #[trigger] ids1.contains_key(x) implies ids1[x].id == x && idx1.contains_key(ids1[x].consumer) && idx1[ids1[x].consumer]@.contains(x) by {
//@@|             if x != *id {
//@@|                 assert(ids0.contains_key(x)); let cx = ids0[x].consumer; assert(idx0[cx]@.contains(x)); assert(idx_mid.contains_key(cx) && idx_mid[cx]@.contains(x));
//@@|                 if cx != nc { assert(idx1[cx] == idx_mid[cx]); }
//@@|             }
//@@|         }
//@@|         assert forall|c: String| #[trigger] idx1.contains_key(c) implies idx1[c]@.no_duplicates() && idx1[c]@.len() > 0 by { if c != nc { assert(idx1[c] == idx_mid[c]); } }
//@@|         assert forall|c: String| #[trigger] owned(idx1, c) == owned(idx_mid, c) + (if c == nc { 1int } else { 0int }) by { if c != nc { if idx_mid.contains_key(c) { assert(idx1[c] == idx_mid[c]); } } }
//@@|         assert forall|c: String| #[trigger] owned(idx1, c) == owned(idx0, c) - (if c == ids0[*id].consumer { 1int } else { 0int }) + (if c == nc { 1int } else { 0int }) by {
//@@|             assert(owned(idx1, c) == owned(idx_mid, c) + (if c == nc { 1int } else { 0int }));
//@@|             assert(owned(idx_mid, c) == owned(idx0, c) - (if c == ids0[*id].consumer { 1int } else { 0int }));
//@@|         }
//@@|     }
    fn transfer_ownership(&mut self, id: &StreamId, new_consumer: String)
        requires old(self).wf(),
            old(self).ids().contains_key(*id) ==> old(self).ids()[*id].delivery_count < u32::MAX,   // (2^32 deliveries of one entry: out of scope)
        ensures
            final(self).wf(),
            // C16 (XCLAIM): the entry now belongs to the claimer and to nobody else; nothing else about the pending set changes
            !old(self).ids().contains_key(*id) ==> final(self).ids() == old(self).ids() && final(self).idx() == old(self).idx(),
            old(self).ids().contains_key(*id) ==> final(self).ids().dom() == old(self).ids().dom()
                && final(self).ids()[*id].consumer == new_consumer && final(self).ids()[*id].id == *id
                && final(self).ids()[*id].delivery_count == old(self).ids()[*id].delivery_count + 1
                && (forall|x: StreamId| x != *id && #[trigger] old(self).ids().contains_key(x) ==> final(self).ids()[x] == old(self).ids()[x])
                && (forall|c: String| #[trigger] owned(final(self).idx(), c) == owned(old(self).idx(), c)
                        - (if c == old(self).ids()[*id].consumer { 1int } else { 0int }) + (if c == new_consumer { 1int } else { 0int })),
//@@ body
//@@ end

//@@ unit pel_get_entry_mut fn src/storage/consumer_groups.rs PendingEntryList::get_entry_mut
    fn get_entry_mut(&mut self, id: &StreamId) -> (r: Option<&mut PendingEntry>)
        ensures match r {
                Some(e) => old(self).ids().contains_key(*id) && *e == old(self).ids()[*id] && final(self).ids() == old(self).ids().insert(*id, *final(e)),
                None => !old(self).ids().contains_key(*id) && final(self).ids() == old(self).ids(),
            },
            final(self).idx() == old(self).idx(), final(self).min_pending_id == old(self).min_pending_id, final(self).max_pending_id == old(self).max_pending_id,
//@@ body
//@@ end

//@@ unit pel_remove_consumer_entries fn src/storage/consumer_groups.rs PendingEntryList::remove_consumer_entries
//@@   rewrite RFOR 0 it
//@@   loop 0
//@@|     invariant
//@@|         it.seq() == list, it.history@ =~= it.seq().take(it.index@),
//@@|         self.entries_by_consumer@ == old(self).idx().remove(cname),
//@@|         forall|x: StreamId| #[trigger] self.entries_by_id@.contains_key(x) <==> (old(self).ids().contains_key(x) && !list.take(it.index@ as int).contains(x)),
//@@|         forall|x: StreamId| #[trigger] self.entries_by_id@.contains_key(x) ==> self.entries_by_id@[x] == old(self).ids()[x],
//@@|         self.entries_by_id@.dom().len() + it.index@ == old(self).ids().dom().len(),
//@@|         list.no_duplicates(), forall|k: int| 0 <= k < list.len() ==> old(self).ids().contains_key(#[trigger] list[k]),
//@@   at "let count = entries.len();"
//@@|     let ghost list = entries@; let ghost cname = string_of(consumer@);
//@@|     proof { assert(list == old(self).idx()[cname]@); assert forall|k: int| 0 <= k < list.len() implies old(self).ids().contains_key(#[trigger] list[k]) by { assert(old(self).idx()[cname]@.contains(list[k])); } }
//@@   loopstart 0
//@@|     proof { assert(id == list[it.index@ as int]); assert(list.take(it.index@ + 1) =~= list.take(it.index@ as int).push(id)); lemma_push_contains(list.take(it.index@ as int), id);
//@@|         if list.take(it.index@ as int).contains(id) { let k = choose|k: int| 0 <= k < it.index@ && list.take(it.index@ as int)[k] == id; assert(list[k] == id); }
//@@|         assert(self.entries_by_id@.contains_key(id)); }
//@@   after "self.update_bounds();"
//@@|     proof {
//@@|         let ids0 = old(self).ids(); let idx0 = old(self).idx(); let ids1 = self.ids(); let idx1 = self.idx();
//@@|         assert(list.take(list.len() as int) =~= list);
//@@|         assert forall|x: StreamId| #[trigger] ids1.contains_key(x) <==> (ids0.contains_key(x) && ids0[x].consumer != cname) by {
//@@|             if ids0.contains_key(x) { if ids0[x].consumer == cname { assert(idx0[cname]@.contains(x)); } else { if list.contains(x) { assert(idx0[cname]@.contains(x)); } } }
//@@|         }
//@@|         assert forall|c: String, x: StreamId| idx1.contains_key(c) && #[trigger] idx1[c]@.contains(x) implies ids1.contains_key(x) && ids1[x].consumer == c by { assert(idx0[c]@.contains(x)); }
//@@|         assert forall|x: StreamId| #[trigger] ids1.contains_key(x) implies ids1[x].id == x && idx1.contains_key(ids1[x].consumer) && idx1[ids1[x].consumer]@.contains(x) by { assert(ids0.contains_key(x)); }
//@@|     }
    fn remove_consumer_entries(&mut self, consumer: &str) -> (r: usize)
        requires old(self).wf(),
        ensures final(self).wf(),
            // C16 (XGROUP DELCONSUMER): exactly the entries of that consumer leave the pending set, and their number is returned
            forall|x: StreamId| #[trigger] final(self).ids().contains_key(x) <==> (old(self).ids().contains_key(x) && old(self).ids()[x].consumer != string_of(consumer@)),
            forall|x: StreamId| #[trigger] final(self).ids().contains_key(x) ==> final(self).ids()[x] == old(self).ids()[x],
            r == owned(old(self).idx(), string_of(consumer@)),
            forall|c: String| #[trigger] owned(final(self).idx(), c) == (if c == string_of(consumer@) { 0 } else { owned(old(self).idx(), c) }),
            final(self).idx() =~= old(self).idx().remove(string_of(consumer@)),
            final(self).ids().dom().len() + r == old(self).ids().dom().len(),
//@@ body
//@@ end
}
/// removing one id from both indexes keeps them in step
proof fn lemma_removed_wf(ids0: Ids, idx0: Idx, ids1: Ids, idx1: Idx, id: StreamId)
    requires pel_wf_m(ids0, idx0), ids0.contains_key(id), ids1 == ids0.remove(id),
        ({ let cons = ids0[id].consumer;
           &&& forall|c: String| c != cons ==> (idx1.contains_key(c) == idx0.contains_key(c)) && (idx0.contains_key(c) ==> #[trigger] idx1[c] == idx0[c])
           &&& (idx1.contains_key(cons) ==> !idx1[cons]@.contains(id) && idx1[cons]@.no_duplicates() && idx1[cons]@.len() > 0
                    && forall|x: StreamId| x != id ==> (#[trigger] idx1[cons]@.contains(x) == idx0[cons]@.contains(x)))
           &&& (!idx1.contains_key(cons) ==> forall|x: StreamId| x != id ==> !(#[trigger] idx0[cons]@.contains(x))) }),
    ensures pel_wf_m(ids1, idx1),
{
    let cons = ids0[id].consumer;
    assert forall|c: String, x: StreamId| idx1.contains_key(c) && #[trigger] idx1[c]@.contains(x) implies ids1.contains_key(x) && ids1[x].consumer == c by {
        if c == cons { assert(x != id); assert(idx0[c]@.contains(x)); } else { assert(idx1[c] == idx0[c]); assert(idx0[c]@.contains(x)); assert(ids0[x].consumer == c); }
    }
    assert forall|x: StreamId| #[trigger] ids1.contains_key(x) implies ids1[x].id == x && idx1.contains_key(ids1[x].consumer) && idx1[ids1[x].consumer]@.contains(x) by {
        assert(ids0.contains_key(x) && x != id);
        let cx = ids0[x].consumer;
        if cx == cons { assert(idx0[cons]@.contains(x)); } else { assert(idx1[cx] == idx0[cx]); }
    }
    assert forall|c: String| #[trigger] idx1.contains_key(c) implies idx1[c]@.no_duplicates() && idx1[c]@.len() > 0 by {
        if c != cons { assert(idx1[c] == idx0[c]); }
    }
}
/// `v.retain(|&x| x != *id)` (RXPR site): every occurrence of id is gone, everything else stays (stated through membership,
/// which is all the callers need; order and multiplicity of the others are unchanged by std's retain)
#[verifier::external_body]
fn verif_retain_ne(v: &mut Vec<StreamId>, id: &StreamId)
    ensures
        !final(v)@.contains(*id),
        forall|x: StreamId| x != *id ==> (#[trigger] final(v)@.contains(x) == old(v)@.contains(x)),
        old(v)@.no_duplicates() ==> final(v)@.no_duplicates(),
        old(v)@.no_duplicates() ==> final(v)@.len() == old(v)@.len() - (if old(v)@.contains(*id) { 1int } else { 0int }),
{ unimplemented!() }
/// `idx.entry(consumer).or_insert_with(Vec::new).push(id)` (RXPR site; anchor = exact expression text): the id is appended to the
/// consumer's list, which is created if absent
#[verifier::external_body]
fn verif_idx_push(m: &mut HashMap<String, Vec<StreamId>>, consumer: String, id: StreamId)
    ensures
        old(m)@.contains_key(consumer) ==> final(m)@.contains_key(consumer) && final(m)@[consumer]@ == old(m)@[consumer]@.push(id),
        !old(m)@.contains_key(consumer) ==> final(m)@.contains_key(consumer) && final(m)@[consumer]@ == seq![id],
        forall|c: String| c != consumer ==> (final(m)@.contains_key(c) == old(m)@.contains_key(c)) && (old(m)@.contains_key(c) ==> #[trigger] final(m)@[c] == old(m)@[c]),
{ unimplemented!() }

// ======================= ConsumerGroup: the counters stay in step with the pending list =========================
//@@ item src/storage/consumer_groups.rs Consumer
/// MODEL of ConsumerGroup: the state behind its Arc<RwLock<..>> / Arc<Mutex<..>> fields, held directly. In the units below each
/// `let mut g = self.<field>.write()/lock().unwrap();` is rewritten (RT, listed per unit) to `let g = &mut self.<field>;` — the lock
/// becomes a plain borrow of the same state (lock order / blocking are not visible to contracts).
pub struct ConsumerGroup {
    pub name: String,
    pub stream_id: StreamId,
    pub created_at: SystemTime,
    pub pending: PendingEntryList,
    pub consumers: HashMap<String, Consumer>,
    pub consumer_count: usize,
    pub total_pending: usize,
    pub last_delivered_id: StreamId,
}
impl ConsumerGroup {
    /// C16: "XPENDING's total, ID bounds and per-consumer counts always equal the actual pending set": every consumer's
    /// pending_count is the length of its list in the pending index, every owner of a pending entry is a registered consumer,
    /// total_pending is the size of the pending set, consumer_count the number of consumers — and the pending list's own two
    /// indexes agree (wf)
    spec fn gwf(self) -> bool {
        &&& self.pending.wf()
        &&& forall|c: String| #[trigger] self.consumers@.contains_key(c) ==> self.consumers@[c].pending_count == owned(self.pending.idx(), c)
        &&& forall|c: String| #[trigger] self.pending.idx().contains_key(c) ==> self.consumers@.contains_key(c)
        &&& self.total_pending == self.pending.ids().dom().len()
        &&& self.consumer_count == self.consumers@.dom().len()
    }

//@@ unit group_new fn src/storage/consumer_groups.rs ConsumerGroup::new
//@@   rewrite RT "Arc::new(Mutex::new(" "(("
//@@   rewrite RT "Arc::new(RwLock::new(" "(("
//@@   rewrite RPCALL "SystemTime::now" verif_now
    fn new(name: String, stream_id: StreamId) -> (r: Self)
        ensures r.gwf(),
            // C16 (XGROUP CREATE): the group starts with its cursor at the id it was created with ($ is resolved by the caller to the
            // stream's last id: only entries added afterwards are after the cursor), nothing pending, no consumers
            r.last_delivered_id == stream_id,
            r.pending.ids() =~= Map::<StreamId, PendingEntry>::empty(), r.consumers@ =~= Map::<String, Consumer>::empty(),
            r.total_pending == 0, r.consumer_count == 0,
//@@ body
//@@ end

//@@ unit group_get_pending_info fn src/storage/consumer_groups.rs ConsumerGroup::get_pending_info
//@@   rewrite RT "let pending = self.pending.read().unwrap();" "let pending = &self.pending;"
//@@   rewrite RT "let consumers = self.consumers.read().unwrap();" "let consumers = &self.consumers;"
//@@   rewrite RXPR "consumers .iter() .filter(|(_, c)| c.pending_count > 0) .map(|(name, c)| (name.clone(), c.pending_count)) .collect()" "verif_consumer_counts(consumers)"
    fn get_pending_info(&self) -> (r: PendingInfo)
        requires self.gwf(),
        ensures
            // C16 (XPENDING summary): the total, the id bounds and the per-consumer counts are those of the actual pending set
            r.count == self.pending.ids().dom().len(),
            bounds_ok(self.pending.ids(), r.min_id, r.max_id),
            forall|k: int| 0 <= k < r.consumers@.len() ==> (#[trigger] r.consumers@[k]).1 == owned(self.pending.idx(), r.consumers@[k].0) && r.consumers@[k].1 > 0,
            forall|c: String| owned(self.pending.idx(), c) > 0 ==> exists|k: int| 0 <= k < r.consumers@.len() && (#[trigger] r.consumers@[k]).0 == c,
            forall|i: int, j: int| 0 <= i < j < r.consumers@.len() ==> (#[trigger] r.consumers@[i]).0 != (#[trigger] r.consumers@[j]).0,
//@@ body
//@@ end

//@@ unit group_set_id fn src/storage/consumer_groups.rs ConsumerGroup::set_id
//@@   params drop "&self" add "&mut self"
//@@   rewrite RT "let mut last_id = self.last_delivered_id.lock().unwrap();" "let last_id = &mut self.last_delivered_id;"
    fn set_id(&mut self, id: StreamId)
        ensures // C16 (XGROUP SETID): exactly the cursor moves
            final(self).last_delivered_id == id, final(self).pending == old(self).pending, final(self).consumers == old(self).consumers,
            final(self).consumer_count == old(self).consumer_count, final(self).total_pending == old(self).total_pending,
//@@ body
//@@ end

//@@ unit group_get_last_id fn src/storage/consumer_groups.rs ConsumerGroup::get_last_id
//@@   rewrite RT "let last_id = self.last_delivered_id.lock().unwrap();" "let last_id = &self.last_delivered_id;"
    fn get_last_id(&self) -> (r: StreamId)
        ensures r == self.last_delivered_id,
//@@ body
//@@ end

//@@ unit group_create_consumer fn src/storage/consumer_groups.rs ConsumerGroup::create_consumer
//@@   params drop "&self" add "&mut self"
//@@   rewrite RT "let mut consumers = self.consumers.write().unwrap();" "let consumers = &mut self.consumers;"
//@@   rewrite RT "let mut count = self.consumer_count.lock().unwrap();" "let count = &mut self.consumer_count;"
//@@   rewrite RPCALL "SystemTime::now" verif_now
    fn create_consumer(&mut self, consumer_name: String) -> (r: bool)
        requires old(self).gwf(), old(self).consumer_count < usize::MAX,
        ensures final(self).gwf(), r == !old(self).consumers@.contains_key(consumer_name),
            final(self).pending == old(self).pending, final(self).total_pending == old(self).total_pending, final(self).last_delivered_id == old(self).last_delivered_id,
            final(self).consumers@.dom() =~= old(self).consumers@.dom().insert(consumer_name),
            forall|c: String| #[trigger] final(self).consumers@.contains_key(c) ==> final(self).consumers@[c].pending_count == (if old(self).consumers@.contains_key(c) { old(self).consumers@[c].pending_count } else { 0 }),
//@@ body
//@@ end

//@@ unit group_acknowledge fn src/storage/consumer_groups.rs ConsumerGroup::acknowledge
//@@   params drop "&self" add "&mut self"
//@@   rewrite RT "let mut pending = self.pending.write().unwrap();" "let pending = &mut self.pending;"
//@@   rewrite RT "let mut consumers = self.consumers.write().unwrap();" "let consumers = &mut self.consumers;"
//@@   rewrite RT "let mut total = self.total_pending.lock().unwrap();" "let total = &mut self.total_pending;"
//@@   rewrite RFOR 0 it
//@@   loop 0
//@@|     invariant
//@@|         it.seq().len() == ids@.len(), forall|j: int| 0 <= j < ids@.len() ==> *(#[trigger] it.seq()[j]) == ids@[j], it.history@ =~= it.seq().take(it.index@),
//@@|         pending.wf(),
//@@|         forall|c: String| #[trigger] consumers@.contains_key(c) ==> consumers@[c].pending_count == owned(pending.idx(), c),
//@@|         forall|c: String| #[trigger] pending.idx().contains_key(c) ==> consumers@.contains_key(c),
//@@|         consumers@.dom() == old(self).consumers@.dom(),
//@@|         forall|x: StreamId| #[trigger] pending.ids().contains_key(x) <==> (old(self).pending.ids().contains_key(x) && !ids@.take(it.index@ as int).contains(x)),
//@@|         forall|x: StreamId| #[trigger] pending.ids().contains_key(x) ==> pending.ids()[x] == old(self).pending.ids()[x],
//@@|         acked <= it.index@, old(self).pending.ids().dom().len() == pending.ids().dom().len() + acked,
//@@   loopstart 0
//@@|     let ghost i0 = it.index@ as int; let ghost ids_b = pending.ids(); let ghost idx_b = pending.idx(); let ghost cons_b = consumers@;
//@@|     proof { assert(*id == ids@[i0]); assert(ids@.take(i0 + 1) =~= ids@.take(i0).push(*id)); lemma_push_contains(ids@.take(i0), *id); }
//@@   after "if let Some(entry) = pending.remove_entry(id)"
//@@|     proof {
//@@|         assert forall|c: String| #[trigger] pending.idx().contains_key(c) implies consumers@.contains_key(c) by { assert(owned(pending.idx(), c) > 0); assert(owned(idx_b, c) >= owned(pending.idx(), c)); assert(idx_b.contains_key(c)); }
//@@|     }
//@@   afterloop 0
//@@|     proof { assert(ids@.take(ids@.len() as int) =~= ids@); }
    fn acknowledge(&mut self, ids: &[StreamId]) -> (r: usize)
        requires old(self).gwf(),
        ensures final(self).gwf(),
            final(self).consumers@.dom() == old(self).consumers@.dom(), final(self).consumer_count == old(self).consumer_count, final(self).last_delivered_id == old(self).last_delivered_id,
            // C16 (XACK): exactly the named entries leave the pending set (unknown ids and repeated ids change nothing more), each counted once
            forall|x: StreamId| #[trigger] final(self).pending.ids().contains_key(x) <==> (old(self).pending.ids().contains_key(x) && !ids@.contains(x)),
            forall|x: StreamId| #[trigger] final(self).pending.ids().contains_key(x) ==> final(self).pending.ids()[x] == old(self).pending.ids()[x],
            r == old(self).pending.ids().dom().len() - final(self).pending.ids().dom().len(),
//@@ body
//@@ end

//@@ unit group_delete_consumer fn src/storage/consumer_groups.rs ConsumerGroup::delete_consumer
//@@   params drop "&self" add "&mut self"
//@@   rewrite RT "let mut consumers = self.consumers.write().unwrap();" "let consumers = &mut self.consumers;"
//@@   rewrite RT "let mut pending = self.pending.write().unwrap();" "let pending = &mut self.pending;"
//@@   rewrite RT "let mut count = self.consumer_count.lock().unwrap();" "let count = &mut self.consumer_count;"
//@@   rewrite RT "let mut total = self.total_pending.lock().unwrap();" "let total = &mut self.total_pending;"
    fn delete_consumer(&mut self, consumer_name: &str) -> (r: usize)
        requires old(self).gwf(),
        ensures final(self).gwf(), final(self).last_delivered_id == old(self).last_delivered_id,
            // C16 (XGROUP DELCONSUMER): the consumer and exactly its pending entries are gone; the number of those entries is returned
            final(self).consumers@ == old(self).consumers@.remove(string_of(consumer_name@)),
            forall|x: StreamId| #[trigger] final(self).pending.ids().contains_key(x) <==> (old(self).pending.ids().contains_key(x) && old(self).pending.ids()[x].consumer != string_of(consumer_name@)),
            forall|x: StreamId| #[trigger] final(self).pending.ids().contains_key(x) ==> final(self).pending.ids()[x] == old(self).pending.ids()[x],
            r == (if old(self).consumers@.contains_key(string_of(consumer_name@)) { owned(old(self).pending.idx(), string_of(consumer_name@)) } else { 0 }),
//@@ body
//@@ end

//@@ unit group_add_pending fn src/storage/consumer_groups.rs ConsumerGroup::add_pending
//@@   params drop "&self" add "&mut self"
//@@   rewrite RT "let mut pending = self.pending.write().unwrap();" ""
//@@   rewrite RT "self.create_consumer(consumer.to_string());" "self.create_consumer(verif_to_string(consumer)); let pending = &mut self.pending;"
//@@   rewrite RT "let mut consumers = self.consumers.write().unwrap();" "let consumers = &mut self.consumers;"
//@@   rewrite RT "let mut total = self.total_pending.lock().unwrap();" "let total = &mut self.total_pending;"
//@@   rewrite RT "let mut last_id = self.last_delivered_id.lock().unwrap();" "let last_id = &mut self.last_delivered_id;"
//@@   rewrite RT "let mut redelivered = 0;" "let mut redelivered: usize = 0;"
//@@   rewrite RT "consumer: consumer.to_string()," "consumer: verif_to_string(consumer),"
//@@   rewrite RT "entries.last()" "verif_last(&entries)"
//@@   rewrite RT "last_entry.id > *last_id" "sid_gt(last_entry.id, *last_id)"
//@@   rewrite RPCALL "SystemTime::now" verif_now
//@@   rewrite RFOR 0 it
//@@   loop 0
//@@|     invariant
//@@|         it.seq().len() == entries@.len(), forall|j: int| 0 <= j < entries@.len() ==> *(#[trigger] it.seq()[j]) == entries@[j], it.history@ =~= it.seq().take(it.index@),
//@@|         cname == string_of(consumer@), eids == ids_of(entries@), eids.no_duplicates(), eids.len() == entries@.len(),
//@@|         pending.wf(),
//@@|         forall|c: String| #[trigger] consumers@.contains_key(c) ==> consumers@[c].pending_count + (if c == cname { it.index@ } else { 0int }) == owned(pending.idx(), c),
//@@|         forall|c: String| #[trigger] pending.idx().contains_key(c) ==> consumers@.contains_key(c),
//@@|         consumers@.dom() == old(self).consumers@.dom().insert(cname),
//@@|         forall|x: StreamId| #[trigger] pending.ids().contains_key(x) <==> (old(self).pending.ids().contains_key(x) || eids.take(it.index@ as int).contains(x)),
//@@|         forall|x: StreamId| #[trigger] pending.ids().contains_key(x) ==> (if eids.take(it.index@ as int).contains(x) { pending.ids()[x].consumer == cname && pending.ids()[x].delivery_count == 1 } else { pending.ids()[x] == old(self).pending.ids()[x] }),
//@@|         redelivered <= it.index@, old(self).pending.ids().dom().len() + it.index@ == pending.ids().dom().len() + redelivered,
//@@   at "let mut consumers = self.consumers.write().unwrap();"
//@@|     let ghost cname = string_of(consumer@); let ghost eids = ids_of(entries@);
//@@   loopstart 0
//@@|     let ghost i0 = it.index@ as int; let ghost ids_b = pending.ids(); let ghost idx_b = pending.idx(); let ghost cons_b = consumers@;
//@@|     proof { assert(entry.id == eids[i0]); assert(eids.take(i0 + 1) =~= eids.take(i0).push(entry.id)); lemma_push_contains(eids.take(i0), entry.id);
//@@|         if eids.take(i0).contains(entry.id) { let k = choose|k: int| 0 <= k < i0 && eids.take(i0)[k] == entry.id; assert(eids[k] == eids[i0]); } }
//@@   after "if let Some(previous) = pending.remove_entry(&entry.id)"
//@@|     proof {
//@@|         let x = entry.id;
//@@|         if ids_b.contains_key(x) {
//@@|             let p = ids_b[x].consumer;
//@@|             assert(idx_b.contains_key(p) && idx_b[p]@.contains(x));
//@@|             assert(cons_b.contains_key(p));
//@@|             if p == cname {
//@@|                 let s = eids.take(i0 + 1);
//@@|                 assert forall|j: int| 0 <= j < s.len() implies idx_b[cname]@.contains(#[trigger] s[j]) by {
//@@|                     if j < i0 { assert(eids.take(i0)[j] == eids[j]); assert(eids.take(i0).contains(eids[j])); assert(ids_b.contains_key(eids[j])); assert(ids_b[eids[j]].consumer == cname); }
//@@|                 }
//@@|                 lemma_sub_len(s, idx_b[cname]@);
//@@|             }
//@@|         }
//@@|         assert forall|c: String| #[trigger] pending.idx().contains_key(c) implies consumers@.contains_key(c) by { assert(owned(pending.idx(), c) > 0); assert(owned(idx_b, c) >= owned(pending.idx(), c)); assert(idx_b.contains_key(c)); }
//@@|     }
//@@|     let ghost idx_m = pending.idx();
//@@   after "pending.add_entry(pending_entry);"
//@@|     proof { assert forall|c: String| #[trigger] pending.idx().contains_key(c) implies consumers@.contains_key(c) by { if c != cname { assert(owned(pending.idx(), c) > 0); assert(owned(idx_m, c) > 0); assert(idx_m.contains_key(c)); } } }
//@@   afterloop 0
//@@|     proof { assert(eids.take(eids.len() as int) =~= eids); }
    fn add_pending(&mut self, consumer: &str, entries: Vec<StreamEntry>) -> (r: Vec<StreamEntry>)
        requires old(self).gwf(), old(self).consumer_count < usize::MAX,
            // the batch names each entry once (the caller reads it out of the stream, whose ids are strictly increasing)
            ids_of(entries@).no_duplicates(),
            // machine arithmetic: the counters do not wrap (they count entries held in memory)
            old(self).total_pending + entries@.len() <= usize::MAX,
            owned(old(self).pending.idx(), string_of(consumer@)) + entries@.len() <= usize::MAX,
        ensures final(self).gwf(), r == entries,
            final(self).consumers@.dom() =~= old(self).consumers@.dom().insert(string_of(consumer@)),
            // C16 (XREADGROUP >): every delivered entry is pending for the reading consumer and for nobody else, delivered once; the rest of the pending set is untouched
            forall|x: StreamId| #[trigger] final(self).pending.ids().contains_key(x) <==> (old(self).pending.ids().contains_key(x) || ids_of(entries@).contains(x)),
            forall|x: StreamId| #[trigger] final(self).pending.ids().contains_key(x) ==> (if ids_of(entries@).contains(x) { final(self).pending.ids()[x].consumer == string_of(consumer@) && final(self).pending.ids()[x].delivery_count == 1 } else { final(self).pending.ids()[x] == old(self).pending.ids()[x] }),
            // C16: the cursor moves to the last delivered entry and never backwards
            final(self).last_delivered_id == (if entries@.len() > 0 && entries@[entries@.len() - 1].id.packed > old(self).last_delivered_id.packed { entries@[entries@.len() - 1].id } else { old(self).last_delivered_id }),
//@@ body
//@@ end

//@@ unit group_claim_messages fn src/storage/consumer_groups.rs ConsumerGroup::claim_messages
//@@   params drop "&self" add "&mut self"
//@@   rewrite RT "let mut pending = self.pending.write().unwrap();" ""
//@@   rewrite RT "self.create_consumer(new_consumer.to_string());" "self.create_consumer(verif_to_string(new_consumer)); let pending = &mut self.pending;"
//@@   rewrite RT "let mut consumers = self.consumers.write().unwrap();" "let consumers = &mut self.consumers;"
//@@   rewrite RT "drop(consumers);" ""
//@@   rewrite RT "let mut claimed = Vec::new();" "let mut claimed: Vec<StreamId> = Vec::new();"
//@@   rewrite RT "pending.transfer_ownership(id, new_consumer.to_string());" "pending.transfer_ownership(id, verif_to_string(new_consumer));"
//@@   rewrite RXPR "now.duration_since(entry.last_delivery) .unwrap_or_default() .as_millis()" "verif_idle_ms(now, entry.last_delivery)"
//@@   rewrite RPCALL "SystemTime::now" verif_now
//@@   rewrite RFORS 0
//@@   loop 0
//@@|     invariant
//@@|         id__n <= ids@.len(), cname == string_of(new_consumer@),
//@@|         pending.wf(),
//@@|         forall|c: String| #[trigger] self.consumers@.contains_key(c) ==> self.consumers@[c].pending_count == owned(pending.idx(), c),
//@@|         forall|c: String| #[trigger] pending.idx().contains_key(c) ==> self.consumers@.contains_key(c),
//@@|         self.consumers@.dom() == old(self).consumers@.dom().insert(cname),
//@@|         pending.ids().dom() == old(self).pending.ids().dom(),
//@@|         forall|x: StreamId| #[trigger] pending.ids().contains_key(x) ==> pending.ids()[x].delivery_count < u32::MAX - (ids@.len() - id__n),
//@@|         forall|x: StreamId| #[trigger] pending.ids().contains_key(x) ==> (if claimed@.contains(x) { pending.ids()[x].consumer == cname } else { pending.ids()[x] == old(self).pending.ids()[x] }),
//@@|         forall|k: int| 0 <= k < claimed@.len() ==> ids@.take(id__n as int).contains(#[trigger] claimed@[k]) && old(self).pending.ids().contains_key(claimed@[k]),
//@@|         (force || min_idle_ms == 0) ==> forall|j: int| 0 <= j < id__n && old(self).pending.ids().contains_key(#[trigger] ids@[j]) ==> claimed@.contains(ids@[j]),
//@@|         self.total_pending == old(self).total_pending, self.consumer_count == old(self).consumer_count + (if old(self).consumers@.contains_key(cname) { 0int } else { 1int }), self.last_delivered_id == old(self).last_delivered_id,
//@@|     decreases ids@.len() - id__n,
//@@   at "for id in ids"
//@@|     let ghost cname = string_of(new_consumer@);
//@@   loopstart 0
//@@|     let ghost idx_b = pending.idx(); let ghost claimed_b = claimed@;
//@@|     proof { assert(ids@.take(id__n as int) =~= ids@.take(id__n - 1).push(*id)); lemma_push_contains(ids@.take(id__n - 1), *id); }
//@@   after "claimed.push(*id);"
//@@|     proof {
//@@|         lemma_push_contains(claimed_b, *id);
//@@|         assert forall|c: String| #[trigger] pending.idx().contains_key(c) implies self.consumers@.contains_key(c) by { if c != cname { assert(owned(pending.idx(), c) > 0); assert(owned(idx_b, c) > 0); assert(idx_b.contains_key(c)); } }
//@@|     }
    fn claim_messages(&mut self, new_consumer: &str, min_idle_ms: u64, ids: &[StreamId], force: bool) -> (r: Vec<StreamId>)
        requires old(self).gwf(), old(self).consumer_count < usize::MAX,
            // machine arithmetic: no entry has been delivered 2^32 times, no consumer owns 2^64 entries
            forall|x: StreamId| #[trigger] old(self).pending.ids().contains_key(x) ==> old(self).pending.ids()[x].delivery_count + ids@.len() < u32::MAX,
            owned(old(self).pending.idx(), string_of(new_consumer@)) + ids@.len() <= usize::MAX,
        ensures final(self).gwf(), final(self).last_delivered_id == old(self).last_delivered_id,
            final(self).consumers@.dom() =~= old(self).consumers@.dom().insert(string_of(new_consumer@)),
            // C16 (XCLAIM): the pending set keeps its ids; a claimed entry belongs to the claimer (and, by gwf, to nobody else); every other entry is untouched
            final(self).pending.ids().dom() == old(self).pending.ids().dom(),
            forall|x: StreamId| #[trigger] final(self).pending.ids().contains_key(x) ==> (if r@.contains(x) { final(self).pending.ids()[x].consumer == string_of(new_consumer@) } else { final(self).pending.ids()[x] == old(self).pending.ids()[x] }),
            // only requested ids that were pending are claimed; without an idle threshold (or with the idle check switched off) all of them are
            forall|k: int| 0 <= k < r@.len() ==> ids@.contains(#[trigger] r@[k]) && old(self).pending.ids().contains_key(r@[k]),
            (force || min_idle_ms == 0) ==> forall|j: int| 0 <= j < ids@.len() && old(self).pending.ids().contains_key(#[trigger] ids@[j]) ==> r@.contains(ids@[j]),
//@@ body
//@@ end
}

/// MODEL of ConsumerGroupManager: the map behind `Arc<RwLock<HashMap<String, Arc<ConsumerGroup>>>>`, holding the group models directly
pub struct ConsumerGroupManager {
    pub groups: HashMap<String, ConsumerGroup>,
}
impl ConsumerGroupManager {
//@@ unit mgr_create_group fn src/storage/consumer_groups.rs ConsumerGroupManager::create_group
//@@   params drop "&self" add "&mut self"
//@@   rewrite RT "let mut groups = self.groups.write().unwrap();" "let groups = &mut self.groups;"
//@@   rewrite RT "Arc::new(ConsumerGroup::new(name.clone(), start_id))" "ConsumerGroup::new(name.clone(), start_id)"
//@@   rewrite? RT "\"BUSYGROUP Consumer Group name already exists\".to_string()" "verif_to_string(\"BUSYGROUP Consumer Group name already exists\")"
    fn create_group(&mut self, name: String, start_id: StreamId) -> (r: Result<(), String>)
        ensures
            // C16 (XGROUP CREATE): an existing name is refused and nothing changes; otherwise exactly one group is added — empty, with
            // its cursor at the start id — and every other group is untouched
            old(self).groups@.contains_key(name) ==> r is Err && final(self).groups@ == old(self).groups@,
            !old(self).groups@.contains_key(name) ==> r is Ok && final(self).groups@.dom() =~= old(self).groups@.dom().insert(name)
                && final(self).groups@[name].gwf() && final(self).groups@[name].last_delivered_id == start_id
                && final(self).groups@[name].pending.ids() =~= Map::<StreamId, PendingEntry>::empty() && final(self).groups@[name].consumers@ =~= Map::<String, Consumer>::empty()
                && (forall|g: String| g != name && #[trigger] old(self).groups@.contains_key(g) ==> final(self).groups@[g] == old(self).groups@[g]),
//@@ body
//@@ end

//@@ unit mgr_destroy_group fn src/storage/consumer_groups.rs ConsumerGroupManager::destroy_group
//@@   params drop "&self" add "&mut self"
//@@   rewrite RT "let mut groups = self.groups.write().unwrap();" "let groups = &mut self.groups;"
    fn destroy_group(&mut self, name: &str) -> (r: bool)
        ensures // C16 (XGROUP DESTROY): exactly the named group goes, and the reply says whether it existed
            final(self).groups@ == old(self).groups@.remove(string_of(name@)), r == old(self).groups@.contains_key(string_of(name@)),
//@@ body
//@@ end
}

// ---------------------------------------------------------------------------------------------------------------------------
// The stream side of XREADGROUP: what is read out of the stream for a group, and how the read is booked on the group
//@@ item src/storage/stream.rs StreamRangeResult
//@@ item src/storage/stream.rs StreamData
/// the stream's entries are kept in strictly increasing id order (C15's invariant; here a precondition)
pub open spec fn sorted_ids(es: Seq<StreamEntry>) -> bool { forall|i: int, j: int| 0 <= i < j < es.len() ==> es[i].id.packed < es[j].id.packed }
/// `r` is the run of at most `maxc` entries of `es` that starts at `s`, the first entry whose id is greater than `after`:
/// nothing after the cursor is skipped, nothing at or before it is returned, and the order is the stream's
pub open spec fn range_after_is(es: Seq<StreamEntry>, after: StreamId, maxc: int, r: Seq<StreamEntry>, s: int) -> bool {
    &&& 0 <= s <= es.len()
    &&& forall|j: int| 0 <= j < s ==> (#[trigger] es[j]).id.packed <= after.packed
    &&& forall|j: int| s <= j < es.len() ==> (#[trigger] es[j]).id.packed > after.packed
    &&& r.len() == (if es.len() - s <= maxc { es.len() - s } else { maxc })
    &&& r =~= es.subrange(s, s + r.len())
}
/// COUNT absent means "all of them"
pub open spec fn maxc_of(count: Option<usize>, len: nat) -> int { match count { Some(c) => c as int, None => len as int } }
/// `entries.binary_search_by(|e| e.id.cmp(after_id)).map(|idx| idx + 1).unwrap_or_else(|idx| idx)` (RXPR site; closure-taking
/// std search + Result adapters): ASSUMED to be std's meaning on a slice sorted by id — the index of the first entry whose id
/// is greater than `after_id`
#[verifier::external_body]
pub fn verif_first_after(entries: &Vec<StreamEntry>, after_id: &StreamId) -> (r: usize)
    requires sorted_ids(entries@),
    ensures r <= entries@.len(),
        forall|j: int| 0 <= j < r ==> (#[trigger] entries@[j]).id.packed <= after_id.packed,
        forall|j: int| r <= j < entries@.len() ==> (#[trigger] entries@[j]).id.packed > after_id.packed,
{ entries.binary_search_by(|e| e.id.cmp(after_id)).map(|idx| idx + 1).unwrap_or_else(|idx| idx) }
/// `StreamEntry::clone` / `Vec<StreamEntry>::clone` (#[derive(Clone)], structural): TRUSTED to return an equal value
#[verifier::external_body]
pub fn verif_clone_entry(e: &StreamEntry) -> (r: StreamEntry)
    ensures r == *e,
{ unimplemented!() }
#[verifier::external_body]
pub fn verif_clone_entries(v: &Vec<StreamEntry>) -> (r: Vec<StreamEntry>)
    ensures r == *v,
{ unimplemented!() }

/// std's binary search by id on a slice sorted by id, in the two forms `range` uses it (RXPR sites; closure-taking std search): ASSUMED
/// `entries.binary_search_by(|e| e.id.cmp(start)).unwrap_or_else(|idx| idx)`: the index of the first entry whose id is not less than `start`
#[verifier::external_body]
pub fn verif_lower_bound(entries: &Vec<StreamEntry>, id: &StreamId) -> (r: usize)
    requires sorted_ids(entries@),
    ensures r <= entries@.len(),
        forall|j: int| 0 <= j < r ==> (#[trigger] entries@[j]).id.packed < id.packed,
        forall|j: int| r <= j < entries@.len() ==> (#[trigger] entries@[j]).id.packed >= id.packed,
{ unimplemented!() }
/// `entries.binary_search_by(|e| e.id.cmp(end))`: Ok(i) = the entry with that id, Err(i) = where it would be inserted
#[verifier::external_body]
pub fn verif_bsearch(entries: &Vec<StreamEntry>, id: &StreamId) -> (r: std::result::Result<usize, usize>)
    requires sorted_ids(entries@),
    ensures match r {
        Ok(i) => i < entries@.len() && entries@[i as int].id.packed == id.packed,
        Err(i) => i <= entries@.len() && (forall|j: int| 0 <= j < i ==> (#[trigger] entries@[j]).id.packed < id.packed) && (forall|j: int| i <= j < entries@.len() ==> (#[trigger] entries@[j]).id.packed > id.packed),
    },
{ unimplemented!() }
/// the entries of `es` whose ids lie in [start, end] are exactly es[lo .. hi1)
pub open spec fn id_window(es: Seq<StreamEntry>, start: StreamId, end: StreamId, lo: int, hi1: int) -> bool {
    &&& 0 <= lo <= es.len() && 0 <= hi1 <= es.len()
    &&& forall|j: int| 0 <= j < lo ==> (#[trigger] es[j]).id.packed < start.packed
    &&& forall|j: int| lo <= j < es.len() ==> (#[trigger] es[j]).id.packed >= start.packed
    &&& forall|j: int| 0 <= j < hi1 ==> (#[trigger] es[j]).id.packed <= end.packed
    &&& forall|j: int| hi1 <= j < es.len() ==> (#[trigger] es[j]).id.packed > end.packed
}
/// XRANGE / XREVRANGE: `r` is the first (forward) resp. last-first (reverse) at most `maxc` entries of the window
pub open spec fn range_is(es: Seq<StreamEntry>, start: StreamId, end: StreamId, maxc: int, reverse: bool, r: Seq<StreamEntry>, lo: int, hi1: int) -> bool {
    &&& id_window(es, start, end, lo, hi1)
    &&& r.len() == (if hi1 <= lo { 0 } else if hi1 - lo <= maxc { hi1 - lo } else { maxc })
    &&& (!reverse ==> forall|j: int| 0 <= j < r.len() ==> #[trigger] r[j] == es[lo + j])
    &&& (reverse ==> forall|j: int| 0 <= j < r.len() ==> #[trigger] r[j] == es[hi1 - 1 - j])
}

/// MODEL of the atomics of `Stream` that the log operations keep in step with the entry vector (XLEN reads `length`): plain fields; each
/// `stream.<field>.fetch_add / fetch_sub / store(.., Ordering::Relaxed)` is rewritten (RT, listed per unit) to the assignment it performs
pub struct Stream { pub length: usize, pub memory_usage: usize, pub last_id_millis: u64, pub last_id_seq: u64 }
/// `a <= b` on StreamId (R7 site): the order of the packed value
#[verifier::external_body]
pub fn sid_le(a: StreamId, b: StreamId) -> (r: bool) ensures r == (a.packed <= b.packed), { unimplemented!() }
/// the stream's log is well formed: strictly increasing ids, none above last_id, and XLEN's counter is the number of entries
spec fn log_wf(d: StreamData, s: Stream) -> bool {
    &&& sorted_ids(d.entries@)
    &&& forall|j: int| 0 <= j < d.entries@.len() ==> (#[trigger] d.entries@[j]).id.packed <= d.last_id.packed
    &&& s.length == d.entries@.len()
}

impl StreamId {
    /// ASSUMED CONTRACTS (stream.rs millis / seq: shifts of the packed value; the packing itself is C15's Kani unit sid_pack_order)
    #[verifier::external_body]
    pub fn millis(&self) -> (r: u64) { unimplemented!() }
    #[verifier::external_body]
    pub fn seq(&self) -> (r: u64) { unimplemented!() }
}
impl StreamData {
    /// ASSUMED CONTRACT (calculate_entry_size: a sum over the fields): some size; the memory counters are not part of any property here
    #[verifier::external_body]
    fn calculate_entry_size(entry: &StreamEntry) -> (r: usize) ensures r <= usize::MAX / 4, { unimplemented!() }

//@@ unit data_add_with_id fn src/storage/stream.rs StreamData::add_with_id
//@@   params drop "stream: &Stream" add "stream: &mut Stream"
//@@   rewrite R7 "id <= self.last_id" sid_le
//@@   rewrite RXPR "self.entries.binary_search_by(|e| e.id.cmp(&id)) .is_ok()" "verif_bsearch(&self.entries, &id).is_ok()"
//@@   rewrite RT "stream.length.fetch_add(1, Ordering::Relaxed);" "stream.length = stream.length + 1;"
//@@   rewrite RT "stream.last_id_millis.store(id.millis(), Ordering::Relaxed);" "stream.last_id_millis = id.millis();"
//@@   rewrite RT "stream.last_id_seq.store(id.seq(), Ordering::Relaxed);" "stream.last_id_seq = id.seq();"
//@@   rewrite RT "stream.memory_usage.fetch_add(entry_size, Ordering::Relaxed);" "stream.memory_usage = stream.memory_usage.wrapping_add(entry_size);"
//@@   rewrite RT "self.memory_usage += entry_size;" "self.memory_usage = self.memory_usage.wrapping_add(entry_size);"
    fn add_with_id(&mut self, id: StreamId, fields: HashMap<Vec<u8>, Vec<u8>>, stream: &mut Stream) -> (r: Result<(), &'static str>)
        requires log_wf(*old(self), *old(stream)),
        ensures log_wf(*final(self), *final(stream)),
            // C15: XADD with an explicit id not greater than the last one is refused without effect ...
            id.packed <= old(self).last_id.packed ==> r is Err && final(self).entries@ == old(self).entries@ && final(self).last_id == old(self).last_id && final(stream).length == old(stream).length,
            // ... and a greater one is appended: the log grows by exactly that entry, at the end, and it becomes the last id
            id.packed > old(self).last_id.packed ==> r is Ok && final(self).entries@ == old(self).entries@.push(StreamEntry { id: id, fields: fields }) && final(self).last_id == id,
//@@ body
//@@ end
}

/// `data.entries.drain(..n);` (RXPR site): removes the first n entries
#[verifier::external_body]
pub fn verif_drain_front(v: &mut Vec<StreamEntry>, n: usize)
    requires n <= old(v)@.len(),
    ensures final(v)@ == old(v)@.subrange(n as int, old(v)@.len() as int),
{ unimplemented!() }
/// `data.entries.iter().take(n).map(StreamData::calculate_entry_size).sum()` (RXPR site): some size (memory accounting is not part of a property here)
#[verifier::external_body]
pub fn verif_mem_of_front(v: &Vec<StreamEntry>, n: usize) -> usize { unimplemented!() }

//@@ unit stream_trim_by_count fn src/storage/stream.rs Stream::trim_by_count
//@@   params drop "&self" add "data: &mut StreamData" add "stream: &mut Stream"
//@@   rewrite RT "let mut data = self.data.lock().unwrap();" ""
//@@   rewrite RXPR "data.entries.iter() .take(to_remove) .map(StreamData::calculate_entry_size) .sum()" "verif_mem_of_front(&data.entries, to_remove)"
//@@   rewrite RXPR "data.entries.drain(..to_remove)" "verif_drain_front(&mut data.entries, to_remove)"
//@@   rewrite RT "data.memory_usage -= memory_to_free;" "data.memory_usage = data.memory_usage.wrapping_sub(memory_to_free);"
//@@   rewrite RT "self.length.fetch_sub(to_remove, Ordering::Relaxed);" "stream.length = stream.length - to_remove;"
//@@   rewrite RT "self.memory_usage.fetch_sub(memory_to_free, Ordering::Relaxed);" "stream.memory_usage = stream.memory_usage.wrapping_sub(memory_to_free);"
fn stream_trim_by_count(data: &mut StreamData, stream: &mut Stream, max_count: usize) -> (r: usize)
    requires log_wf(*old(data), *old(stream)),
    ensures log_wf(*final(data), *final(stream)), final(data).last_id == old(data).last_id,
        // C15 (XTRIM MAXLEN): the OLDEST entries go until at most max_count are left; the reply is how many went; XLEN follows
        r == (if old(data).entries@.len() <= max_count { 0 } else { old(data).entries@.len() - max_count }),
        final(data).entries@ == old(data).entries@.subrange(r as int, old(data).entries@.len() as int),
//@@ body
//@@ end

/// `ids.to_vec()`, `.sort()`, `.dedup()` (RT site, three statements in one helper): ASSUMED — some vector with the same SET of ids (what order and how
/// often does not matter to the loop below: an id that is gone is not found again)
#[verifier::external_body]
pub fn verif_sorted_dedup(ids: &[StreamId]) -> (r: Vec<StreamId>)
    ensures forall|x: StreamId| #[trigger] r@.contains(x) <==> ids@.contains(x),
{ unimplemented!() }
/// membership in a sequence without its element at idx, for a sequence of pairwise different elements
pub proof fn lemma_remove_contains(s: Seq<StreamEntry>, idx: int)
    requires 0 <= idx < s.len(), forall|i: int, j: int| 0 <= i < j < s.len() ==> s[i] != s[j],
    ensures forall|x: StreamEntry| #[trigger] s.remove(idx).contains(x) <==> (s.contains(x) && x != s[idx]),
{
    assert forall|x: StreamEntry| #[trigger] s.remove(idx).contains(x) <==> (s.contains(x) && x != s[idx]) by {
        if s.remove(idx).contains(x) {
            let k = choose|k: int| 0 <= k < s.remove(idx).len() && s.remove(idx)[k] == x;
            if k < idx { assert(s[k] == x); } else { assert(s[k + 1] == x); }
        }
        if s.contains(x) && x != s[idx] {
            let k = choose|k: int| 0 <= k < s.len() && s[k] == x;
            if k < idx { assert(s.remove(idx)[k] == x); } else { assert(s.remove(idx)[k - 1] == x); }
        }
    }
}

//@@ unit stream_delete fn src/storage/stream.rs Stream::delete
//@@   params drop "&self" add "data: &mut StreamData" add "stream: &mut Stream"
//@@   rewrite RT "let mut data = self.data.lock().unwrap();" ""
//@@   rewrite RT "let mut sorted_ids = ids.to_vec();" "let sorted_ids = verif_sorted_dedup(ids);"
//@@   rewrite RT "sorted_ids.sort();" ""
//@@   rewrite RT "sorted_ids.dedup();" ""
//@@   rewrite RT "let mut deleted = 0;" "let mut deleted: usize = 0;"
//@@   rewrite RT "let mut memory_freed = 0;" "let mut memory_freed: usize = 0;"
//@@   rewrite RXPR "data.entries.binary_search_by(|e| e.id.cmp(id))" "verif_bsearch(&data.entries, id)"
//@@   rewrite RT "memory_freed += StreamData::calculate_entry_size(&removed_entry);" "memory_freed = memory_freed.wrapping_add(StreamData::calculate_entry_size(&removed_entry));"
//@@   rewrite RT "data.memory_usage -= memory_freed;" "data.memory_usage = data.memory_usage.wrapping_sub(memory_freed);"
//@@   rewrite RT "self.length.fetch_sub(deleted, Ordering::Relaxed);" "stream.length = stream.length - deleted;"
//@@   rewrite RT "self.memory_usage.fetch_sub(memory_freed, Ordering::Relaxed);" "stream.memory_usage = stream.memory_usage.wrapping_sub(memory_freed);"
//@@   rewrite RFORS 0
//@@   at "for id in sorted_ids.iter().rev()"
//@@|     let ghost es = old(data).entries@; let ghost sid = sorted_ids@;
//@@   loop 0
//@@|     invariant
//@@|         id__n <= sid.len(), sid == sorted_ids@, es == old(data).entries@, crate::sorted_ids(es), crate::sorted_ids(data.entries@),
//@@|         data.last_id == old(data).last_id, *stream == *old(stream), stream.length == es.len(),
//@@|         deleted + data.entries@.len() == es.len(),
//@@|         forall|x: StreamEntry| #[trigger] data.entries@.contains(x) <==> (es.contains(x) && !sid.subrange(id__n as int, sid.len() as int).contains(x.id)),
//@@|     decreases id__n,
//@@   loopstart 0
//@@|     let ghost n1 = id__n as int; let ghost cur = data.entries@;
//@@|     proof {
//@@|         assert(sid.subrange(n1, sid.len() as int) =~= seq![*id] + sid.subrange(n1 + 1, sid.len() as int));
//@@|         assert forall|y: StreamId| #[trigger] sid.subrange(n1, sid.len() as int).contains(y) <==> (y == *id || sid.subrange(n1 + 1, sid.len() as int).contains(y)) by {
//@@|             let a = sid.subrange(n1, sid.len() as int); let b = sid.subrange(n1 + 1, sid.len() as int);
//@@|             if a.contains(y) { let k = choose|k: int| 0 <= k < a.len() && a[k] == y; if k > 0 { assert(b[k - 1] == y); } }
//@@|             if b.contains(y) { let k = choose|k: int| 0 <= k < b.len() && b[k] == y; assert(a[k + 1] == y); }
//@@|             if y == *id { assert(a[0] == y); }
//@@|         }
//@@|         assert forall|i: int, j: int| 0 <= i < j < cur.len() implies cur[i] != cur[j] by { }
//@@|     }
//@@   after "let removed_entry = data.entries.remove(idx);"
//@@|     proof { lemma_remove_contains(cur, idx as int); assert(removed_entry == cur[idx as int]);
//@@|         assert forall|x: StreamEntry| cur.contains(x) && x.id == *id implies x == cur[idx as int] by { let k = choose|k: int| 0 <= k < cur.len() && cur[k] == x; if k != idx { if k < idx { assert(cur[k].id.packed < cur[idx as int].id.packed); } else { assert(cur[idx as int].id.packed < cur[k].id.packed); } } } }
//@@   afterloop 0
//@@|     proof {
//@@|         assert(sid.subrange(0, sid.len() as int) =~= sid);
//@@|         assert forall|j: int| 0 <= j < data.entries@.len() implies (#[trigger] data.entries@[j]).id.packed <= data.last_id.packed by {
//@@|             assert(data.entries@.contains(data.entries@[j])); let k = choose|k: int| 0 <= k < es.len() && es[k] == data.entries@[j];
//@@|         }
//@@|     }
fn stream_delete(data: &mut StreamData, stream: &mut Stream, ids: &[StreamId]) -> (r: usize)
    requires log_wf(*old(data), *old(stream)),
    ensures log_wf(*final(data), *final(stream)), final(data).last_id == old(data).last_id,
        // C15 (XDEL): exactly the entries whose id is named go — each once however often it is named, unknown ids change nothing — the others
        // stay in their order (the log stays sorted); the reply is how many went; XLEN follows
        forall|x: StreamEntry| #[trigger] final(data).entries@.contains(x) <==> (old(data).entries@.contains(x) && !ids@.contains(x.id)),
        r + final(data).entries@.len() == old(data).entries@.len(),
//@@ body
//@@ end

// the locked wrappers the engine calls for XRANGE / XREVRANGE, XREAD and XLEN: they hand bounds, count and direction through unchanged
//@@ unit stream_range fn src/storage/stream.rs Stream::range
//@@   params drop "&self" add "data: &StreamData"
//@@   rewrite RT "let data = self.data.lock().unwrap();" ""
fn stream_range(data: &StreamData, start: &StreamId, end: &StreamId, count: Option<usize>, reverse: bool) -> (r: StreamRangeResult)
    requires sorted_ids(data.entries@),
    ensures exists|lo: int, hi1: int| #[trigger] range_is(data.entries@, *start, *end, maxc_of(count, data.entries@.len()), reverse, r.entries@, lo, hi1),
//@@ body
//@@ end
//@@ unit stream_range_after fn src/storage/stream.rs Stream::range_after
//@@   params drop "&self" add "data: &StreamData"
//@@   rewrite RT "let data = self.data.lock().unwrap();" ""
fn stream_range_after(data: &StreamData, after_id: &StreamId, count: Option<usize>) -> (r: StreamRangeResult)
    requires sorted_ids(data.entries@),
    ensures exists|s: int| #[trigger] range_after_is(data.entries@, *after_id, maxc_of(count, data.entries@.len()), r.entries@, s),
//@@ body
//@@ end
//@@ unit stream_len fn src/storage/stream.rs Stream::len
//@@   params drop "&self" add "stream: &Stream"
//@@   rewrite RT "self.length.load(Ordering::Relaxed)" "stream.length"
fn stream_len(stream: &Stream) -> (r: usize)
    ensures r == stream.length,
//@@ body
//@@ end

//@@ unit stream_trim_by_min_id fn src/storage/stream.rs Stream::trim_by_min_id
//@@   params drop "&self" add "data: &mut StreamData" add "stream: &mut Stream"
//@@   rewrite RT "let mut data = self.data.lock().unwrap();" ""
//@@   rewrite RXPR "data.entries.binary_search_by(|e| e.id.cmp(min_id)) .unwrap_or_else(|idx| idx)" "verif_lower_bound(&data.entries, min_id)"
//@@   rewrite RXPR "data.entries.iter() .take(split_idx) .map(StreamData::calculate_entry_size) .sum()" "verif_mem_of_front(&data.entries, split_idx)"
//@@   rewrite RXPR "data.entries.drain(..split_idx)" "verif_drain_front(&mut data.entries, split_idx)"
//@@   rewrite RT "data.memory_usage -= memory_to_free;" "data.memory_usage = data.memory_usage.wrapping_sub(memory_to_free);"
//@@   rewrite RT "self.length.fetch_sub(split_idx, Ordering::Relaxed);" "stream.length = stream.length - split_idx;"
//@@   rewrite RT "self.memory_usage.fetch_sub(memory_to_free, Ordering::Relaxed);" "stream.memory_usage = stream.memory_usage.wrapping_sub(memory_to_free);"
fn stream_trim_by_min_id(data: &mut StreamData, stream: &mut Stream, min_id: &StreamId) -> (r: usize)
    requires log_wf(*old(data), *old(stream)),
    ensures log_wf(*final(data), *final(stream)), final(data).last_id == old(data).last_id,
        // C15 (XTRIM MINID): exactly the entries with an id below min_id go; the reply is how many; XLEN follows
        r <= old(data).entries@.len(),
        final(data).entries@ == old(data).entries@.subrange(r as int, old(data).entries@.len() as int),
        forall|j: int| 0 <= j < r ==> (#[trigger] old(data).entries@[j]).id.packed < min_id.packed,
        forall|j: int| r <= j < old(data).entries@.len() ==> (#[trigger] old(data).entries@[j]).id.packed >= min_id.packed,
//@@ body
//@@ end

impl StreamData {
//@@ unit data_range fn src/storage/stream.rs StreamData::range
//@@   rewrite RXPR "self.entries.binary_search_by(|e| e.id.cmp(start)) .unwrap_or_else(|idx| idx)" "verif_lower_bound(&self.entries, start)"
//@@   rewrite RXPR "self.entries.binary_search_by(|e| e.id.cmp(end))" "verif_bsearch(&self.entries, end)"
//@@   rewrite RT "self.entries[i].clone()" "verif_clone_entry(&self.entries[i])"
//@@   rewrite RT "let mut result_entries = Vec::new();" "let mut result_entries: Vec<StreamEntry> = Vec::new();"
//@@   rewrite RFORI 0
//@@   rewrite RFORI 1
//@@   at "let mut result_entries = Vec::new();"
//@@|     let ghost es = self.entries@; let ghost lo = start_idx as int; let ghost hi1 = end_idx + 1; let ghost maxc = maxc_of(count, es.len());
//@@|     proof { assert(id_window(es, *start, *end, lo, hi1)); }
//@@   loop 0
//@@|     invariant_except_break
//@@|         i__go ==> i__n == hi1 - 1 - result_entries@.len() && i__lo <= i__n,
//@@|         !i__go ==> (hi1 <= lo && result_entries@.len() == 0) || result_entries@.len() == hi1 - lo,
//@@|     invariant
//@@|         i__lo == lo, hi1 <= es.len(), es == self.entries@, maxc == maxc_of(count, es.len()),
//@@|         result_entries@.len() <= maxc, hi1 > lo ==> result_entries@.len() <= hi1 - lo, hi1 <= lo ==> result_entries@.len() == 0,
//@@|         forall|j: int| 0 <= j < result_entries@.len() ==> #[trigger] result_entries@[j] == es[hi1 - 1 - j],
//@@|     ensures
//@@|         result_entries@.len() == (if hi1 <= lo { 0 } else if hi1 - lo <= maxc { hi1 - lo } else { maxc }),
//@@|         forall|j: int| 0 <= j < result_entries@.len() ==> #[trigger] result_entries@[j] == es[hi1 - 1 - j],
//@@|     decreases (if i__go { i__n - i__lo + 1 } else { 0 }),
//@@   loop 1
//@@|     invariant_except_break
//@@|         i__go ==> i__n == lo + result_entries@.len() && i__n <= i__end,
//@@|         !i__go ==> (hi1 <= lo && result_entries@.len() == 0) || result_entries@.len() == hi1 - lo,
//@@|     invariant
//@@|         i__end == hi1 - 1, hi1 <= es.len(), hi1 >= 1, 0 <= lo, es == self.entries@, maxc == maxc_of(count, es.len()),
//@@|         result_entries@.len() <= maxc, hi1 > lo ==> result_entries@.len() <= hi1 - lo, hi1 <= lo ==> result_entries@.len() == 0,
//@@|         forall|j: int| 0 <= j < result_entries@.len() ==> #[trigger] result_entries@[j] == es[lo + j],
//@@|     ensures
//@@|         result_entries@.len() == (if hi1 <= lo { 0 } else if hi1 - lo <= maxc { hi1 - lo } else { maxc }),
//@@|         forall|j: int| 0 <= j < result_entries@.len() ==> #[trigger] result_entries@[j] == es[lo + j],
//@@|     decreases (if i__go { i__end - i__n + 1 } else { 0 }),
//@@   loopstart 0
//@@|     proof { assert(i == hi1 - 1 - result_entries@.len() && i >= lo); }
//@@   loopstart 1
//@@|     proof { assert(i == lo + result_entries@.len() && i <= hi1 - 1); }
//@@   rewrite RT "Err(0) => return StreamRangeResult { entries: Vec::new() }," "Err(0) => { let r_empty = StreamRangeResult { entries: Vec::new() }; proof { assert(range_is(self.entries@, *start, *end, maxc_of(count, self.entries@.len()), reverse, r_empty.entries@, start_idx as int, 0)); } return r_empty; }"
//@@   at "StreamRangeResult { entries: result_entries }"
//@@|     proof { let r0 = StreamRangeResult { entries: result_entries }; assert(range_is(es, *start, *end, maxc, reverse, r0.entries@, lo, hi1)); }
    fn range(&self, start: &StreamId, end: &StreamId, count: Option<usize>, reverse: bool) -> (r: StreamRangeResult)
        requires sorted_ids(self.entries@),
        ensures
            // C15 (XRANGE / XREVRANGE): exactly the present entries whose ids lie within the requested bounds, in id order (reverse for XREVRANGE),
            // at most COUNT of them counted from the side the reading starts
            exists|lo: int, hi1: int| #[trigger] range_is(self.entries@, *start, *end, maxc_of(count, self.entries@.len()), reverse, r.entries@, lo, hi1),
//@@ body
//@@ end

//@@ unit data_range_after fn src/storage/stream.rs StreamData::range_after
//@@   rewrite RXPR "self.entries.binary_search_by(|e| e.id.cmp(after_id)) .map(|idx| idx + 1) .unwrap_or_else(|idx| idx)" "verif_first_after(&self.entries, after_id)"
//@@   rewrite RT "self.entries[i].clone()" "verif_clone_entry(&self.entries[i])"
//@@   rewrite RT "let mut result_entries = Vec::new();" "let mut result_entries: Vec<StreamEntry> = Vec::new();"
//@@   rewrite RFORC 0
//@@   loop 0
//@@|     invariant_except_break
//@@|         result_entries@ =~= self.entries@.subrange(start_idx as int, i__n as int),
//@@|     invariant
//@@|         start_idx <= i__n <= i__end, i__end == self.entries@.len(), max_count as int == (match count { Some(c) => c as int, None => self.entries@.len() as int }),
//@@|         result_entries@.len() <= max_count,
//@@|     ensures
//@@|         result_entries@.len() == (if self.entries@.len() - start_idx <= max_count { self.entries@.len() - start_idx } else { max_count as int }),
//@@|         result_entries@ =~= self.entries@.subrange(start_idx as int, start_idx + result_entries@.len()),
//@@|     decreases i__end - i__n,
    fn range_after(&self, after_id: &StreamId, count: Option<usize>) -> (r: StreamRangeResult)
        requires sorted_ids(self.entries@),
        ensures
            // C16 / C15: the entries handed out are exactly the next ones after the given id, at most `count`, in stream order
            exists|s: int| #[trigger] range_after_is(self.entries@, *after_id, maxc_of(count, self.entries@.len()), r.entries@, s),
//@@   at "StreamRangeResult { entries: result_entries }"
//@@|     proof { let r0 = StreamRangeResult { entries: result_entries }; assert(range_after_is(self.entries@, *after_id, maxc_of(count, self.entries@.len()), r0.entries@, start_idx as int)); }
//@@ body
//@@ end
}

/// `after_id != StreamId::max()` (RT site): `>` is passed down as the all-ones id (stream.rs: `StreamId::max()` = new(u64::MAX, u64::MAX))
#[verifier::external_body]
pub fn sid_is_max(a: StreamId) -> (r: bool)
    ensures r == (a.packed == u128::MAX),
{ unimplemented!() }
/// `group.get_pending_range(None, None, usize::MAX, Some(consumer_name)).into_iter().map(|p| p.id).filter(|id| *id > after_id).collect()`
/// (RXPR site; get_pending_range -> PendingEntryList::get_range builds a boxed iterator chain): ASSUMED — takes the group by
/// shared reference (so it changes nothing) and returns ids that are pending for that consumer and greater than `after_id`
#[verifier::external_body]
fn verif_history_ids(group: &ConsumerGroup, consumer_name: &str, after_id: StreamId) -> (r: Vec<StreamId>)
    ensures forall|k: int| 0 <= k < r@.len() ==> group.pending.ids().contains_key(#[trigger] r@[k]) && group.pending.ids()[r@[k]].consumer == string_of(consumer_name@) && r@[k].packed > after_id.packed,
{ unimplemented!() }
/// `ids.sort()` (RXPR site): ASSUMED to permute
#[verifier::external_body]
pub fn verif_sort_ids(ids: &mut Vec<StreamId>)
    ensures final(ids)@.to_multiset() == old(ids)@.to_multiset(),
{ unimplemented!() }
/// `ids.iter().filter_map(|id| data.entries.binary_search_by(|e| e.id.cmp(id)).ok().map(|idx| data.entries[idx].clone())).collect()`
/// (RXPR site): ASSUMED — the stream entries that carry one of the given ids
#[verifier::external_body]
fn verif_lookup_entries(data: &StreamData, ids: &Vec<StreamId>) -> (r: Vec<StreamEntry>)
    ensures forall|k: int| 0 <= k < r@.len() ==> ids@.contains((#[trigger] r@[k]).id) && data.entries@.contains(r@[k]),
{ unimplemented!() }

//@@ unit stream_read_group stmts src/storage/stream.rs Stream::read_group "let data = self.data.lock().unwrap();"
//@@   rewrite RT "let data = self.data.lock().unwrap();" ""
//@@   rewrite RT "drop(data);" ""
//@@   rewrite RT "after_id != StreamId::max()" "!sid_is_max(after_id)"
//@@   rewrite RXPR "group .get_pending_range(None, None, usize::MAX, Some(consumer_name)) .into_iter() .map(|p| p.id) .filter(|id| *id > after_id) .collect()" "verif_history_ids(&*group, consumer_name, after_id)"
//@@   rewrite RXPR "ids.sort()" "verif_sort_ids(&mut ids)"
//@@   rewrite RXPR "ids .iter() .filter_map(|id| { data.entries.binary_search_by(|e| e.id.cmp(id)) .ok() .map(|idx| data.entries[idx].clone()) }) .collect()" "verif_lookup_entries(data, &ids)"
//@@   rewrite? RT "entries.clone()" "verif_clone_entries(&entries)"
//@@   rewrite? RT "entries.last()" "verif_last(&entries)"
//@@   after "let entries = data.range_after"
//@@|     let ghost es = data.entries@; let ghost cur = old(group).last_delivered_id;
//@@|     let ghost s = choose|s: int| #[trigger] range_after_is(es, cur, maxc_of(count, es.len()), entries@, s);
//@@|     proof {
//@@|         assert forall|i: int, j: int| 0 <= i < j < entries@.len() implies ids_of(entries@)[i] != ids_of(entries@)[j] by { assert(entries@[i] == es[s + i]); assert(entries@[j] == es[s + j]); }
//@@|         if entries@.len() > 0 { assert(entries@[entries@.len() - 1] == es[s + entries@.len() - 1]); }
//@@|     }
//@@   at "Ok(pending_entries)"
//@@|     proof { let r0: Result<Vec<StreamEntry>, String> = Ok(pending_entries); assert(range_after_is(es, cur, maxc_of(count, es.len()), r0->Ok_0@, s)); }
//@@   at "Ok(entries)"
//@@|     proof { let r0: Result<Vec<StreamEntry>, String> = Ok(entries); assert(range_after_is(es, cur, maxc_of(count, es.len()), r0->Ok_0@, s)); }
fn stream_read_group(data: &StreamData, group: &mut ConsumerGroup, consumer_name: &str, after_id: StreamId, count: Option<usize>, noack: bool) -> (r: Result<Vec<StreamEntry>, String>)
    requires old(group).gwf(), sorted_ids(data.entries@),
        // machine arithmetic: the counters do not wrap
        old(group).consumer_count < usize::MAX, old(group).total_pending + data.entries@.len() <= usize::MAX,
        owned(old(group).pending.idx(), string_of(consumer_name@)) + data.entries@.len() <= usize::MAX,
    ensures r is Ok, final(group).gwf(),
        // C16: a read with an explicit id delivers nothing new — the group (cursor, pending set, counters, consumers) is untouched
        after_id.packed != u128::MAX ==> *final(group) == *old(group),
        // C16: a read with > returns the next entries after the group's cursor, in id order, skipping none, at most COUNT ...
        after_id.packed == u128::MAX ==> exists|s: int| #[trigger] range_after_is(data.entries@, old(group).last_delivered_id, maxc_of(count, data.entries@.len()), r->Ok_0@, s),
        // ... and moves the cursor to the last entry returned, with or without NOACK, so that no later read returns it again
        after_id.packed == u128::MAX && r->Ok_0@.len() > 0 ==> final(group).last_delivered_id == r->Ok_0@[r->Ok_0@.len() - 1].id,
        after_id.packed == u128::MAX && r->Ok_0@.len() == 0 ==> *final(group) == *old(group),
        // NOACK: nothing becomes pending, no counter and no consumer changes
        after_id.packed == u128::MAX && noack ==> final(group).pending == old(group).pending && final(group).consumers == old(group).consumers
                && final(group).total_pending == old(group).total_pending && final(group).consumer_count == old(group).consumer_count,
        // otherwise every returned entry is pending for the reader (and nobody else), the rest of the pending set is untouched
        after_id.packed == u128::MAX && !noack && r->Ok_0@.len() > 0 ==>
            (forall|x: StreamId| #[trigger] final(group).pending.ids().contains_key(x) <==> (old(group).pending.ids().contains_key(x) || ids_of(r->Ok_0@).contains(x))),
        after_id.packed == u128::MAX && !noack && r->Ok_0@.len() > 0 ==>
            (forall|x: StreamId| #[trigger] final(group).pending.ids().contains_key(x) ==> (if ids_of(r->Ok_0@).contains(x) { final(group).pending.ids()[x].consumer == string_of(consumer_name@) } else { final(group).pending.ids()[x] == old(group).pending.ids()[x] })),
        after_id.packed == u128::MAX && !noack && r->Ok_0@.len() > 0 ==> final(group).consumers@.dom() =~= old(group).consumers@.dom().insert(string_of(consumer_name@)),
//@@ body
//@@ end

// ---- C16 "delivered ... to exactly one consumer, in ID order", as lemmas over read_group's contract (range_after_is + the cursor
// moving to the last entry returned). es1 / es2 are the stream at the first and at the second read; any number of entries may
// have been added or deleted in between as long as the stream stays sorted (C15).
/// whatever happened to the stream in between, the second read returns only ids greater than every id of the first read:
/// no entry is delivered twice, and deliveries are in id order across reads
pub proof fn lemma_reads_never_overlap(es1: Seq<StreamEntry>, es2: Seq<StreamEntry>, cur: StreamId, n1: int, r1: Seq<StreamEntry>, s1: int, n2: int, r2: Seq<StreamEntry>, s2: int)
    requires sorted_ids(es1), sorted_ids(es2), r1.len() > 0,
        range_after_is(es1, cur, n1, r1, s1),
        range_after_is(es2, r1[r1.len() - 1].id, n2, r2, s2),
    ensures forall|i: int, j: int| 0 <= i < r1.len() && 0 <= j < r2.len() ==> (#[trigger] r1[i]).id.packed < (#[trigger] r2[j]).id.packed,
        forall|i: int| 0 <= i < r1.len() ==> cur.packed < (#[trigger] r1[i]).id.packed,
{
    assert forall|i: int, j: int| 0 <= i < r1.len() && 0 <= j < r2.len() implies (#[trigger] r1[i]).id.packed < (#[trigger] r2[j]).id.packed by {
        assert(r1[i] == es1[s1 + i]); assert(r1[r1.len() - 1] == es1[s1 + r1.len() - 1]); assert(r2[j] == es2[s2 + j]);
    }
    assert forall|i: int| 0 <= i < r1.len() implies cur.packed < (#[trigger] r1[i]).id.packed by { assert(r1[i] == es1[s1 + i]); }
}
/// with entries only appended in between, the second read starts exactly where the first one stopped: nothing after the
/// group's start position is skipped
pub proof fn lemma_reads_leave_no_gap(es1: Seq<StreamEntry>, es2: Seq<StreamEntry>, cur: StreamId, n1: int, r1: Seq<StreamEntry>, s1: int, n2: int, r2: Seq<StreamEntry>, s2: int)
    requires sorted_ids(es2), es1.len() <= es2.len(), es1 =~= es2.subrange(0, es1.len() as int), r1.len() > 0,
        range_after_is(es1, cur, n1, r1, s1),
        range_after_is(es2, r1[r1.len() - 1].id, n2, r2, s2),
    ensures s2 == s1 + r1.len(),
{
    let k = s1 + r1.len() - 1;
    assert(r1[r1.len() - 1] == es1[k]); assert(es1[k] == es2[k]);
    if k >= s2 { assert(es2[k].id.packed > r1[r1.len() - 1].id.packed); }
    if k + 1 < s2 { assert(es2[k + 1].id.packed <= r1[r1.len() - 1].id.packed); assert(es2[k].id.packed < es2[k + 1].id.packed); }
}

} // verus!
fn main() {}
