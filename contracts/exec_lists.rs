//@@ include contracts/inc_cmd_header.rs
verus! {
/// MODEL of UnifiedCommandExecutor (the implementation scripts reach through redis.call): the storage engine model
pub struct UnifiedCommandExecutor { pub storage: EngineModel }
/// the script path agrees with the reference model: the reply frame for a success, an Err / error frame for a refusal, the dataset as prescribed
pub open spec fn exec_ok(r: Result<RespFrame>, ds1: DS, spec: (RV, DS)) -> bool {
    ds1 == spec.1 && match spec.0 {
        RV::WrongType | RV::OtherErr => !(r matches Ok(fr) && !(fr is Error)),
        rv => r matches Ok(fr) && reply_matches(fr, rv),
    }
}
impl UnifiedCommandExecutor {
//@@ unit exec_lpush arm src/storage/commands/executor.rs UnifiedCommandExecutor::execute_list "ListCommand::LPush { key, values }"
    fn exec_lpush(&mut self, db: usize, key: Vec<u8>, values: Vec<Vec<u8>>) -> (r: Result<RespFrame>)
        requires values@.len() > 0,     // the command parser refuses a push without elements (arity)
        ensures exec_ok(r, final(self).storage.ds@, spec_push(old(self).storage.ds@, db as int, key@, values@, true)),
//@@ body
//@@ end
//@@ unit exec_rpush arm src/storage/commands/executor.rs UnifiedCommandExecutor::execute_list "ListCommand::RPush { key, values }"
    fn exec_rpush(&mut self, db: usize, key: Vec<u8>, values: Vec<Vec<u8>>) -> (r: Result<RespFrame>)
        requires values@.len() > 0,     // the command parser refuses a push without elements (arity)
        ensures exec_ok(r, final(self).storage.ds@, spec_push(old(self).storage.ds@, db as int, key@, values@, false)),
//@@ body
//@@ end
//@@ unit exec_lpop arm src/storage/commands/executor.rs UnifiedCommandExecutor::execute_list "ListCommand::LPop { key }"
    fn exec_lpop(&mut self, db: usize, key: Vec<u8>) -> (r: Result<RespFrame>)
        ensures exec_ok(r, final(self).storage.ds@, spec_pop(old(self).storage.ds@, db as int, key@, true)),
//@@ body
//@@ end
//@@ unit exec_rpop arm src/storage/commands/executor.rs UnifiedCommandExecutor::execute_list "ListCommand::RPop { key }"
    fn exec_rpop(&mut self, db: usize, key: Vec<u8>) -> (r: Result<RespFrame>)
        ensures exec_ok(r, final(self).storage.ds@, spec_pop(old(self).storage.ds@, db as int, key@, false)),
//@@ body
//@@ end
//@@ unit exec_llen arm src/storage/commands/executor.rs UnifiedCommandExecutor::execute_list "ListCommand::LLen { key }"
    fn exec_llen(&mut self, db: usize, key: Vec<u8>) -> (r: Result<RespFrame>)
        ensures exec_ok(r, final(self).storage.ds@, spec_llen(old(self).storage.ds@, db as int, key@)),
//@@ body
//@@ end
//@@ unit exec_lindex arm src/storage/commands/executor.rs UnifiedCommandExecutor::execute_list "ListCommand::LIndex { key, index }"
    fn exec_lindex(&mut self, db: usize, key: Vec<u8>, index: isize) -> (r: Result<RespFrame>)
        ensures exec_ok(r, final(self).storage.ds@, spec_lindex(old(self).storage.ds@, db as int, key@, index as int)),
//@@ body
//@@ end
//@@ unit exec_lset arm src/storage/commands/executor.rs UnifiedCommandExecutor::execute_list "ListCommand::LSet { key, index, value }"
    fn exec_lset(&mut self, db: usize, key: Vec<u8>, index: isize, value: Vec<u8>) -> (r: Result<RespFrame>)
        ensures exec_ok(r, final(self).storage.ds@, spec_lset(old(self).storage.ds@, db as int, key@, index as int, value)),
//@@ body
//@@ end
//@@ unit exec_lrange arm src/storage/commands/executor.rs UnifiedCommandExecutor::execute_list "ListCommand::LRange { key, start, stop }"
//@@   rewrite RXPR "values.into_iter() .map(|v| RespFrame::from_bytes(v)) .collect()" "verif_bulk_frames(values)"
    fn exec_lrange(&mut self, db: usize, key: Vec<u8>, start: isize, stop: isize) -> (r: Result<RespFrame>)
        ensures exec_ok(r, final(self).storage.ds@, spec_lrange(old(self).storage.ds@, db as int, key@, start as int, stop as int)),
//@@ body
//@@ end
//@@ unit exec_ltrim arm src/storage/commands/executor.rs UnifiedCommandExecutor::execute_list "ListCommand::LTrim { key, start, stop }"
    fn exec_ltrim(&mut self, db: usize, key: Vec<u8>, start: isize, stop: isize) -> (r: Result<RespFrame>)
        ensures exec_ok(r, final(self).storage.ds@, spec_ltrim(old(self).storage.ds@, db as int, key@, start as int, stop as int)),
//@@ body
//@@ end
}

} // verus!
fn main() {}
