//@@ include contracts/inc_cmd_header.rs
verus! {
/// members of the set at (db, k): empty if the key is absent
pub open spec fn set_at(ds: DS, db: int, k: Seq<u8>) -> Set<Vec<u8>> { match ds_get(ds, db, k) { Some(DV::Set(s)) => s, _ => Set::empty() } }
pub open spec fn not_a_set(ds: DS, db: int, k: Seq<u8>) -> bool { ds_get(ds, db, k) matches Some(dv) && !(dv is Set) }
/// the key names of a multi-key set command: arguments 1.. as byte strings, in order, duplicates kept
pub open spec fn key_args(parts: Seq<RespFrame>) -> Seq<Seq<u8>> { Seq::new((parts.len() - 1) as nat, |j: int| arg(parts, 1 + j)->Some_0) }
pub open spec fn any_not_a_set(ds: DS, db: int, keys: Seq<Seq<u8>>) -> bool { exists|j: int| 0 <= j < keys.len() && not_a_set(ds, db, #[trigger] keys[j]) }
/// SDIFF k0 k1 ..: members of k0 that are in none of the others (the FIRST key is the minuend: `SDIFF a a` is empty)
pub open spec fn sdiff_upto(ds: DS, db: int, keys: Seq<Seq<u8>>, n: int) -> Set<Vec<u8>>
    decreases n
{
    if n <= 0 || keys.len() == 0 { Set::empty() } else if n == 1 { set_at(ds, db, keys[0]) } else { sdiff_upto(ds, db, keys, n - 1).difference(set_at(ds, db, keys[n - 1])) }
}
pub open spec fn sunion_upto(ds: DS, db: int, keys: Seq<Seq<u8>>, n: int) -> Set<Vec<u8>>
    decreases n
{
    if n <= 0 { Set::empty() } else { sunion_upto(ds, db, keys, n - 1).union(set_at(ds, db, keys[n - 1])) }
}
pub open spec fn sinter_upto(ds: DS, db: int, keys: Seq<Seq<u8>>, n: int) -> Set<Vec<u8>>
    decreases n
{
    if n <= 0 || keys.len() == 0 { Set::empty() } else if n == 1 { set_at(ds, db, keys[0]) } else { sinter_upto(ds, db, keys, n - 1).intersect(set_at(ds, db, keys[n - 1])) }
}
pub open spec fn spec_sdiff(ds: DS, db: int, keys: Seq<Seq<u8>>) -> Set<Vec<u8>> { sdiff_upto(ds, db, keys, keys.len() as int) }
pub open spec fn spec_sunion(ds: DS, db: int, keys: Seq<Seq<u8>>) -> Set<Vec<u8>> { sunion_upto(ds, db, keys, keys.len() as int) }
pub open spec fn spec_sinter(ds: DS, db: int, keys: Seq<Seq<u8>>) -> Set<Vec<u8>> { sinter_upto(ds, db, keys, keys.len() as int) }
pub open spec fn key_views(keys: Seq<&Vec<u8>>) -> Seq<Seq<u8>> { keys.map_values(|k: &Vec<u8>| k@) }
/// the engine's answer is some duplicate-free enumeration of the prescribed set, or WrongType if any key holds another type
pub open spec fn setop_result(r: Result<Vec<Vec<u8>>>, ds: DS, db: int, keys: Seq<Seq<u8>>, s: Set<Vec<u8>>) -> bool {
    if any_not_a_set(ds, db, keys) { r matches Err(e) && e == wt() } else { r matches Ok(v) && v@.no_duplicates() && v@.to_set() =~= s }
}
impl EngineModel {
    /// ASSUMED CONTRACTS (engine.rs sdiff / sunion / sinter: multi-key set algebra, not under contract at shard level)
    #[verifier::external_body]
    pub fn sdiff(&mut self, db: usize, keys: &Vec<&Vec<u8>>) -> (r: Result<Vec<Vec<u8>>>)
        ensures final(self).ds@ == old(self).ds@, setop_result(r, old(self).ds@, db as int, key_views(keys@), spec_sdiff(old(self).ds@, db as int, key_views(keys@))),
    { unimplemented!() }
    #[verifier::external_body]
    pub fn sunion(&mut self, db: usize, keys: &Vec<&Vec<u8>>) -> (r: Result<Vec<Vec<u8>>>)
        ensures final(self).ds@ == old(self).ds@, setop_result(r, old(self).ds@, db as int, key_views(keys@), spec_sunion(old(self).ds@, db as int, key_views(keys@))),
    { unimplemented!() }
    #[verifier::external_body]
    pub fn sinter(&mut self, db: usize, keys: &Vec<&Vec<u8>>) -> (r: Result<Vec<Vec<u8>>>)
        ensures final(self).ds@ == old(self).ds@, setop_result(r, old(self).ds@, db as int, key_views(keys@), spec_sinter(old(self).ds@, db as int, key_views(keys@))),
    { unimplemented!() }
}
/// what a multi-key set command must answer
pub open spec fn setop_reply(r: Result<RespFrame>, ds: DS, db: int, keys: Seq<Seq<u8>>, s: Set<Vec<u8>>) -> bool {
    if any_not_a_set(ds, db, keys) { r matches Ok(f) && f is Error } else { r matches Ok(f) && reply_matches(f, RV::ArrSet(s)) }
}

//@@ unit handle_sdiff fn src/storage/commands/sets.rs handle_sdiff
//@@   params drop "storage: &Arc<StorageEngine>" add "storage: &mut EngineModel"
//@@   rewrite R3
//@@   rewrite RFOR 0 it
//@@   rewrite RT "let mut keys = Vec::new();" "let mut keys: Vec<&Vec<u8>> = Vec::new();"
//@@   rewrite? RXPR "diff.into_iter() .map(|m| RespFrame::from_bytes(m)) .collect()" "verif_bulk_frames_set(diff)"
//@@   rewrite? RXPR "union.into_iter() .map(|m| RespFrame::from_bytes(m)) .collect()" "verif_bulk_frames_set(union)"
//@@   rewrite? RXPR "intersection.into_iter() .map(|m| RespFrame::from_bytes(m)) .collect()" "verif_bulk_frames_set(intersection)"
//@@   loop 0
//@@|     invariant
//@@|         *storage == *old(storage), parts@.len() >= 2,
//@@|         keys@.len() == it.index@, it.index@ <= parts@.len() - 1,
//@@|         forall|j: int| 0 <= j < keys@.len() ==> arg(parts@, 1 + j) == Some((#[trigger] keys@[j])@),
//@@|     ensures it.index@ == parts@.len() - 1,
//@@   afterloop 0
//@@|     proof {
//@@|         assert forall|i: int| 1 <= i < parts@.len() implies (#[trigger] parts@[i] matches RespFrame::BulkString(Some(_))) by { let k = keys@[i - 1]; assert(arg(parts@, 1 + (i - 1)) == Some(k@)); }
//@@|         assert(key_views(keys@) =~= key_args(parts@)) by { assert forall|j: int| 0 <= j < keys@.len() implies key_views(keys@)[j] == key_args(parts@)[j] by { let k = keys@[j]; } }
//@@|     }
//@@   at "let frames: Vec<RespFrame>"
//@@|     proof { diff@.unique_seq_to_set(); }
//@@|     let ghost mv = diff@;
//@@   at "Ok(RespFrame::Array(Some(frames)))"
//@@|     assert forall|i: int| 0 <= i < frames@.len() implies mv.to_set().contains(key_of(mv[i]@)) by { assert(key_of(mv[i]@) == mv[i]); assert(mv.to_set().contains(mv[i])); }
//@@|     assert forall|i: int, j: int| 0 <= i < j < frames@.len() implies bulk_reply(frames@[i]) != bulk_reply(frames@[j]) by { assert(mv[i] != mv[j]); assert(key_of(mv[i]@) == mv[i]); assert(key_of(mv[j]@) == mv[j]); }
pub fn handle_sdiff(storage: &mut EngineModel, db: usize, parts: &[RespFrame]) -> (r: Result<RespFrame>)
    ensures
        final(storage).ds@ == old(storage).ds@,
        (parts@.len() < 2 || !all_bulk(parts@, 1)) ==> (r matches Ok(f) && f is Error),
        // every named key takes part, in the order given and as often as it is named
        parts@.len() >= 2 && all_bulk(parts@, 1) ==> setop_reply(r, old(storage).ds@, db as int, key_args(parts@), spec_sdiff(old(storage).ds@, db as int, key_args(parts@))),
//@@ body
//@@ end

//@@ unit handle_sunion fn src/storage/commands/sets.rs handle_sunion
//@@   params drop "storage: &Arc<StorageEngine>" add "storage: &mut EngineModel"
//@@   rewrite R3
//@@   rewrite RFOR 0 it
//@@   rewrite RT "let mut keys = Vec::new();" "let mut keys: Vec<&Vec<u8>> = Vec::new();"
//@@   rewrite? RXPR "diff.into_iter() .map(|m| RespFrame::from_bytes(m)) .collect()" "verif_bulk_frames_set(diff)"
//@@   rewrite? RXPR "union.into_iter() .map(|m| RespFrame::from_bytes(m)) .collect()" "verif_bulk_frames_set(union)"
//@@   rewrite? RXPR "intersection.into_iter() .map(|m| RespFrame::from_bytes(m)) .collect()" "verif_bulk_frames_set(intersection)"
//@@   loop 0
//@@|     invariant
//@@|         *storage == *old(storage), parts@.len() >= 2,
//@@|         keys@.len() == it.index@, it.index@ <= parts@.len() - 1,
//@@|         forall|j: int| 0 <= j < keys@.len() ==> arg(parts@, 1 + j) == Some((#[trigger] keys@[j])@),
//@@|     ensures it.index@ == parts@.len() - 1,
//@@   afterloop 0
//@@|     proof {
//@@|         assert forall|i: int| 1 <= i < parts@.len() implies (#[trigger] parts@[i] matches RespFrame::BulkString(Some(_))) by { let k = keys@[i - 1]; assert(arg(parts@, 1 + (i - 1)) == Some(k@)); }
//@@|         assert(key_views(keys@) =~= key_args(parts@)) by { assert forall|j: int| 0 <= j < keys@.len() implies key_views(keys@)[j] == key_args(parts@)[j] by { let k = keys@[j]; } }
//@@|     }
//@@   at "let frames: Vec<RespFrame>"
//@@|     proof { union@.unique_seq_to_set(); }
//@@|     let ghost mv = union@;
//@@   at "Ok(RespFrame::Array(Some(frames)))"
//@@|     assert forall|i: int| 0 <= i < frames@.len() implies mv.to_set().contains(key_of(mv[i]@)) by { assert(key_of(mv[i]@) == mv[i]); assert(mv.to_set().contains(mv[i])); }
//@@|     assert forall|i: int, j: int| 0 <= i < j < frames@.len() implies bulk_reply(frames@[i]) != bulk_reply(frames@[j]) by { assert(mv[i] != mv[j]); assert(key_of(mv[i]@) == mv[i]); assert(key_of(mv[j]@) == mv[j]); }
pub fn handle_sunion(storage: &mut EngineModel, db: usize, parts: &[RespFrame]) -> (r: Result<RespFrame>)
    ensures
        final(storage).ds@ == old(storage).ds@,
        (parts@.len() < 2 || !all_bulk(parts@, 1)) ==> (r matches Ok(f) && f is Error),
        // every named key takes part, in the order given and as often as it is named
        parts@.len() >= 2 && all_bulk(parts@, 1) ==> setop_reply(r, old(storage).ds@, db as int, key_args(parts@), spec_sunion(old(storage).ds@, db as int, key_args(parts@))),
//@@ body
//@@ end

//@@ unit handle_sinter fn src/storage/commands/sets.rs handle_sinter
//@@   params drop "storage: &Arc<StorageEngine>" add "storage: &mut EngineModel"
//@@   rewrite R3
//@@   rewrite RFOR 0 it
//@@   rewrite RT "let mut keys = Vec::new();" "let mut keys: Vec<&Vec<u8>> = Vec::new();"
//@@   rewrite? RXPR "diff.into_iter() .map(|m| RespFrame::from_bytes(m)) .collect()" "verif_bulk_frames_set(diff)"
//@@   rewrite? RXPR "union.into_iter() .map(|m| RespFrame::from_bytes(m)) .collect()" "verif_bulk_frames_set(union)"
//@@   rewrite? RXPR "intersection.into_iter() .map(|m| RespFrame::from_bytes(m)) .collect()" "verif_bulk_frames_set(intersection)"
//@@   loop 0
//@@|     invariant
//@@|         *storage == *old(storage), parts@.len() >= 2,
//@@|         keys@.len() == it.index@, it.index@ <= parts@.len() - 1,
//@@|         forall|j: int| 0 <= j < keys@.len() ==> arg(parts@, 1 + j) == Some((#[trigger] keys@[j])@),
//@@|     ensures it.index@ == parts@.len() - 1,
//@@   afterloop 0
//@@|     proof {
//@@|         assert forall|i: int| 1 <= i < parts@.len() implies (#[trigger] parts@[i] matches RespFrame::BulkString(Some(_))) by { let k = keys@[i - 1]; assert(arg(parts@, 1 + (i - 1)) == Some(k@)); }
//@@|         assert(key_views(keys@) =~= key_args(parts@)) by { assert forall|j: int| 0 <= j < keys@.len() implies key_views(keys@)[j] == key_args(parts@)[j] by { let k = keys@[j]; } }
//@@|     }
//@@   at "let frames: Vec<RespFrame>"
//@@|     proof { intersection@.unique_seq_to_set(); }
//@@|     let ghost mv = intersection@;
//@@   at "Ok(RespFrame::Array(Some(frames)))"
//@@|     assert forall|i: int| 0 <= i < frames@.len() implies mv.to_set().contains(key_of(mv[i]@)) by { assert(key_of(mv[i]@) == mv[i]); assert(mv.to_set().contains(mv[i])); }
//@@|     assert forall|i: int, j: int| 0 <= i < j < frames@.len() implies bulk_reply(frames@[i]) != bulk_reply(frames@[j]) by { assert(mv[i] != mv[j]); assert(key_of(mv[i]@) == mv[i]); assert(key_of(mv[j]@) == mv[j]); }
pub fn handle_sinter(storage: &mut EngineModel, db: usize, parts: &[RespFrame]) -> (r: Result<RespFrame>)
    ensures
        final(storage).ds@ == old(storage).ds@,
        (parts@.len() < 2 || !all_bulk(parts@, 1)) ==> (r matches Ok(f) && f is Error),
        // every named key takes part, in the order given and as often as it is named
        parts@.len() >= 2 && all_bulk(parts@, 1) ==> setop_reply(r, old(storage).ds@, db as int, key_args(parts@), spec_sinter(old(storage).ds@, db as int, key_args(parts@))),
//@@ body
//@@ end

} // verus!
fn main() {}
