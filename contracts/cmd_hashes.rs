//@@ include contracts/inc_cmd_header.rs
verus! {

//@@ unit handle_hget fn src/storage/commands/hashes.rs handle_hget
//@@   params drop "storage: &Arc<StorageEngine>" add "storage: &mut EngineModel"
//@@   rewrite R3
pub fn handle_hget(storage: &mut EngineModel, db: usize, parts: &[RespFrame]) -> (r: Result<RespFrame>)
    ensures
        (parts@.len() != 3 || arg(parts@, 1) is None || arg(parts@, 2) is None) ==> cmd_refused(r, old(storage).ds@, final(storage).ds@),
        parts@.len() == 3 && arg(parts@, 1) is Some && arg(parts@, 2) is Some ==> cmd_ok(r, final(storage).ds@, spec_hget(old(storage).ds@, db as int, arg(parts@, 1)->Some_0, arg(parts@, 2)->Some_0)),
//@@ body
//@@ end

//@@ unit handle_hlen fn src/storage/commands/hashes.rs handle_hlen
//@@   params drop "storage: &Arc<StorageEngine>" add "storage: &mut EngineModel"
//@@   rewrite R3
pub fn handle_hlen(storage: &mut EngineModel, db: usize, parts: &[RespFrame]) -> (r: Result<RespFrame>)
    ensures
        (parts@.len() != 2 || arg(parts@, 1) is None) ==> cmd_refused(r, old(storage).ds@, final(storage).ds@),
        parts@.len() == 2 && arg(parts@, 1) is Some ==> cmd_ok(r, final(storage).ds@, spec_hlen(old(storage).ds@, db as int, arg(parts@, 1)->Some_0)),
//@@ body
//@@ end

//@@ unit handle_hexists fn src/storage/commands/hashes.rs handle_hexists
//@@   params drop "storage: &Arc<StorageEngine>" add "storage: &mut EngineModel"
//@@   rewrite R3
pub fn handle_hexists(storage: &mut EngineModel, db: usize, parts: &[RespFrame]) -> (r: Result<RespFrame>)
    ensures
        (parts@.len() != 3 || arg(parts@, 1) is None || arg(parts@, 2) is None) ==> cmd_refused(r, old(storage).ds@, final(storage).ds@),
        parts@.len() == 3 && arg(parts@, 1) is Some && arg(parts@, 2) is Some ==> cmd_ok(r, final(storage).ds@, spec_hexists(old(storage).ds@, db as int, arg(parts@, 1)->Some_0, arg(parts@, 2)->Some_0)),
//@@ body
//@@ end

} // verus!
fn main() {}
