//@@ include contracts/inc_cmd_header.rs
verus! {

//@@ unit handle_hget fn src/storage/commands/hashes.rs handle_hget
//@@   params drop "storage: &Arc<StorageEngine>" add "storage: &mut EngineModel"
//@@   rewrite R3
pub fn handle_hget(storage: &mut EngineModel, db: usize, parts: &[RespFrame]) -> (r: Result<RespFrame>)
    ensures
        (parts@.len() != 3 || arg(parts@, 1) is None || arg(parts@, 2) is None) ==> cmd_refused(r, old(storage).ds@, final(storage).ds@),
        parts@.len() == 3 && arg(parts@, 1) is Some && arg(parts@, 2) is Some ==> cmd_ok(r, final(storage).ds@, spec_hget(old(storage).ds@, db as int, arg(parts@, 1)->Some_0, arg(parts@, 2)->Some_0)),
//@@ body
//@@ end

//@@ unit handle_hlen fn src/storage/commands/hashes.rs handle_hlen
//@@   params drop "storage: &Arc<StorageEngine>" add "storage: &mut EngineModel"
//@@   rewrite R3
pub fn handle_hlen(storage: &mut EngineModel, db: usize, parts: &[RespFrame]) -> (r: Result<RespFrame>)
    ensures
        (parts@.len() != 2 || arg(parts@, 1) is None) ==> cmd_refused(r, old(storage).ds@, final(storage).ds@),
        parts@.len() == 2 && arg(parts@, 1) is Some ==> cmd_ok(r, final(storage).ds@, spec_hlen(old(storage).ds@, db as int, arg(parts@, 1)->Some_0)),
//@@ body
//@@ end

//@@ unit handle_hexists fn src/storage/commands/hashes.rs handle_hexists
//@@   params drop "storage: &Arc<StorageEngine>" add "storage: &mut EngineModel"
//@@   rewrite R3
pub fn handle_hexists(storage: &mut EngineModel, db: usize, parts: &[RespFrame]) -> (r: Result<RespFrame>)
    ensures
        (parts@.len() != 3 || arg(parts@, 1) is None || arg(parts@, 2) is None) ==> cmd_refused(r, old(storage).ds@, final(storage).ds@),
        parts@.len() == 3 && arg(parts@, 1) is Some && arg(parts@, 2) is Some ==> cmd_ok(r, final(storage).ds@, spec_hexists(old(storage).ds@, db as int, arg(parts@, 1)->Some_0, arg(parts@, 2)->Some_0)),
//@@ body
//@@ end

// ======================= HDEL key field [field ...] =========================
pub open spec fn named_upto(parts: Seq<RespFrame>, n: int) -> Set<Vec<u8>>
    decreases n
{ if n <= 2 { Set::empty() } else { match arg_vec(parts, n - 1) { Some(v) => named_upto(parts, n - 1).insert(v), None => named_upto(parts, n - 1) } } }
pub open spec fn refs_set(v: Seq<&Vec<u8>>, n: int) -> Set<Vec<u8>>
    decreases n
{ if n <= 0 { Set::empty() } else { refs_set(v, n - 1).insert(*v[n - 1]) } }
pub proof fn lemma_refs_set_push(v: Seq<&Vec<u8>>, x: &Vec<u8>, n: int)
    requires 0 <= n <= v.len(),
    ensures refs_set(v.push(x), n) == refs_set(v, n),
    decreases n
{ if n > 0 { lemma_refs_set_push(v, x, n - 1); assert(v.push(x)[n - 1] == v[n - 1]); } }
/// HDEL: the named fields leave; the reply counts those that were there; an emptied hash ceases to exist as a key (engine: unit hdel of shard_hashes)
pub open spec fn spec_hdel(ds: DS, db: int, k: Seq<u8>, fs: Set<Vec<u8>>) -> (RV, DS) {
    match ds_get(ds, db, k) {
        None => (RV::Int(0), ds),
        Some(DV::Hash(m)) => (RV::Int((m.dom().len() - m.remove_keys(fs).dom().len()) as int), if m.remove_keys(fs).dom().len() == 0 { ds.remove((db, k)) } else { ds.insert((db, k), DV::Hash(m.remove_keys(fs))) }),
        Some(_) => (RV::WrongType, ds),
    }
}
impl EngineModel {
    /// ASSUMED CONTRACT (engine.rs StorageEngine::hdel — unit hdel of shard_hashes), fields handed over as references
    #[verifier::external_body]
    pub fn hdel(&mut self, db: usize, key: Vec<u8>, fields: &Vec<&Vec<u8>>) -> (r: Result<usize>)
        ensures res_int(r, spec_hdel(old(self).ds@, db as int, key@, refs_set(fields@, fields@.len() as int)).0),
            final(self).ds@ == spec_hdel(old(self).ds@, db as int, key@, refs_set(fields@, fields@.len() as int)).1,
    { unimplemented!() }
}
//@@ unit handle_hdel fn src/storage/commands/hashes.rs handle_hdel
//@@   params drop "storage: &Arc<StorageEngine>" add "storage: &mut EngineModel"
//@@   rewrite R3
//@@   rewrite RT "let mut fields = Vec::new();" "let mut fields: Vec<&Vec<u8>> = Vec::new();"
//@@   rewrite RT "RespFrame::BulkString(Some(bytes)) => bytes.as_ref().clone()," "RespFrame::BulkString(Some(bytes)) => verif_clone_arc_bytes(bytes),"
//@@   rewrite RFORC 0
//@@   rewrite RT "RespFrame::BulkString(Some(bytes)) => fields.push(bytes.as_ref())," "RespFrame::BulkString(Some(bytes)) => { fields.push(bytes.as_ref()); proof { lemma_refs_set_push(f0, fields@.last(), f0.len() as int); assert(fields@ =~= f0.push(fields@.last())); reveal_with_fuel(refs_set, 2); } },"
//@@   loop 0
//@@|     invariant 2 <= i__n <= i__end, i__end == parts@.len(), *storage == *old(storage), arg(parts@, 1) == Some(key@),
//@@|         refs_set(fields@, fields@.len() as int) == named_upto(parts@, i__n as int),
//@@|     decreases i__end - i__n,
//@@   loopstart 0
//@@|     let ghost f0 = fields@;
//@@|     proof { reveal_with_fuel(named_upto, 2); }
pub fn handle_hdel(storage: &mut EngineModel, db: usize, parts: &[RespFrame]) -> (r: Result<RespFrame>)
    ensures
        (parts@.len() < 3 || arg(parts@, 1) is None) ==> cmd_refused(r, old(storage).ds@, final(storage).ds@),
        parts@.len() >= 3 && arg(parts@, 1) is Some ==> cmd_ok(r, final(storage).ds@, spec_hdel(old(storage).ds@, db as int, arg(parts@, 1)->Some_0, named_upto(parts@, parts@.len() as int))),
//@@ body
//@@ end

impl EngineModel {
    /// the same engine function with the fields handed over by value vector (script path)
    #[verifier::external_body]
    pub fn hdel_v(&mut self, db: usize, key: Vec<u8>, fields: &Vec<Vec<u8>>) -> (r: Result<usize>)
        ensures res_int(r, spec_hdel(old(self).ds@, db as int, key@, vecs_set(fields@)).0),
            final(self).ds@ == spec_hdel(old(self).ds@, db as int, key@, vecs_set(fields@)).1,
    { unimplemented!() }
}
/// MODEL of UnifiedCommandExecutor (the implementation scripts reach through redis.call): the storage engine model
pub struct UnifiedCommandExecutor { pub storage: EngineModel }
impl UnifiedCommandExecutor {
//@@ unit exec_hdel arm src/storage/commands/executor.rs UnifiedCommandExecutor::execute_hash "HashCommand::HDel { key, fields }"
//@@   params drop "&self" add "&mut self"
//@@   rewrite RT "self.storage.hdel(db, key, &fields)" "self.storage.hdel_v(db, key, &fields)"
    fn exec_hdel(&mut self, db: usize, key: Vec<u8>, fields: Vec<Vec<u8>>) -> (r: Result<RespFrame>)
        ensures
            // the effect and the reply of the direct HDEL for the same fields (handle_hdel above)
            r is Ok ==> cmd_ok(r, final(self).storage.ds@, spec_hdel(old(self).storage.ds@, db as int, key@, vecs_set(fields@))),
            r is Err ==> spec_hdel(old(self).storage.ds@, db as int, key@, vecs_set(fields@)).0 is WrongType && final(self).storage.ds@ == old(self).storage.ds@,
//@@ body
//@@ end
}

// ======================= HSET / HMSET: the field-value pairs =========================
/// the (field, value) pairs the command names: arguments 2,3 / 4,5 / ...
pub open spec fn hash_pairs(parts: Seq<RespFrame>) -> Seq<(Vec<u8>, Vec<u8>)> {
    Seq::new(((parts.len() - 2) / 2) as nat, |j: int| (arg_vec(parts, 2 * j + 2)->Some_0, arg_vec(parts, 2 * j + 3)->Some_0))
}
/// `bytes.as_ref().clone()` on an Arc<Vec<u8>> (RT site): a copy of the argument
#[verifier::external_body]
pub fn verif_clone_arc_bytes(b: &Arc<Vec<u8>>) -> (r: Vec<u8>) ensures r == **b, { unimplemented!() }
// C03: every pair reaches the engine, in argument order (so a later pair for the same field wins there: unit hset of shard_hashes), each field
// with ITS value; one argument that is not a bulk string refuses the command before the engine is called
//@@ unit hset_pairs stmts src/storage/commands/hashes.rs handle_hset "let mut field_values" upto "match storage.hset"
//@@   opt same-return-type
//@@   rewrite RT "bytes.as_ref().clone()" "verif_clone_arc_bytes(bytes)"
//@@   rewrite RT "let mut field_values = Vec::new();" "let mut field_values: Vec<(Vec<u8>, Vec<u8>)> = Vec::new();"
//@@   rewrite RFORK 0
//@@   loop 0
//@@|     invariant
//@@|         parts@.len() >= 4, parts@.len() % 2 == 0, i__end == parts@.len(), i__k == 2, 2 <= i__n <= i__end, i__n % 2 == 0,
//@@|         forall|j: int| 2 <= j < i__n ==> (#[trigger] parts@[j] matches RespFrame::BulkString(Some(_))),
//@@|         field_values@.len() == (i__n - 2) / 2,
//@@|         forall|j: int| 0 <= j < field_values@.len() ==> #[trigger] field_values@[j] == hash_pairs(parts@)[j],
//@@|     decreases i__end - i__n,
//@@   tail *out = field_values; Ok(RespFrame::ok())
fn hset_pairs(parts: &[RespFrame], out: &mut Vec<(Vec<u8>, Vec<u8>)>) -> (r: Result<RespFrame>)
    requires parts@.len() >= 4, parts@.len() % 2 == 0,
    ensures
        !all_bulk(parts@, 2) ==> (r matches Ok(f) && f is Error) && final(out)@ == old(out)@,
        all_bulk(parts@, 2) ==> (r matches Ok(f) && !(f is Error)) && final(out)@ =~= hash_pairs(parts@),
//@@ body
//@@ end
//@@ unit hmset_pairs stmts src/storage/commands/hashes.rs handle_hmset "let mut field_values" upto "match storage.hset"
//@@   opt same-return-type
//@@   rewrite RT "bytes.as_ref().clone()" "verif_clone_arc_bytes(bytes)"
//@@   rewrite RT "let mut field_values = Vec::new();" "let mut field_values: Vec<(Vec<u8>, Vec<u8>)> = Vec::new();"
//@@   rewrite RFORK 0
//@@   loop 0
//@@|     invariant
//@@|         parts@.len() >= 4, parts@.len() % 2 == 0, i__end == parts@.len(), i__k == 2, 2 <= i__n <= i__end, i__n % 2 == 0,
//@@|         forall|j: int| 2 <= j < i__n ==> (#[trigger] parts@[j] matches RespFrame::BulkString(Some(_))),
//@@|         field_values@.len() == (i__n - 2) / 2,
//@@|         forall|j: int| 0 <= j < field_values@.len() ==> #[trigger] field_values@[j] == hash_pairs(parts@)[j],
//@@|     decreases i__end - i__n,
//@@   tail *out = field_values; Ok(RespFrame::ok())
fn hmset_pairs(parts: &[RespFrame], out: &mut Vec<(Vec<u8>, Vec<u8>)>) -> (r: Result<RespFrame>)
    requires parts@.len() >= 4, parts@.len() % 2 == 0,
    ensures
        !all_bulk(parts@, 2) ==> (r matches Ok(f) && f is Error) && final(out)@ == old(out)@,
        all_bulk(parts@, 2) ==> (r matches Ok(f) && !(f is Error)) && final(out)@ =~= hash_pairs(parts@),
//@@ body
//@@ end

} // verus!
fn main() {}
