//@@ include prelude/head.rs
use std::collections::{HashMap, VecDeque};
use std::sync::Arc;
use std::sync::RwLock;
use std::time::Instant;
use std::borrow::Cow;
//@@ include prelude/cmp.rs
//@@ include prelude/slice.rs
//@@ include prelude/strnum.rs
//@@ include prelude/lossy.rs
//@@ include prelude/lossy_parse.rs
verus! {
broadcast use {group_slice, group_strnum, group_lossy_parse};
#[verifier::external_type_specification]
#[verifier::external_body]
pub struct ExInstant(Instant);
//@@ item src/error.rs FerrousError
//@@ item src/error.rs CommandError
//@@ item src/error.rs StorageError
//@@ item src/error.rs ScriptError
//@@ item src/protocol/resp.rs Bytes
//@@ item src/protocol/resp.rs RespFrame
pub type Result<T> = std::result::Result<T, FerrousError>;
pub type DatabaseIndex = usize;
impl vstd::std_specs::convert::FromSpecImpl<StorageError> for FerrousError {
    open spec fn obeys_from_spec() -> bool { true }
    open spec fn from_spec(v: StorageError) -> FerrousError { FerrousError::Storage(v) }
}
impl From<StorageError> for FerrousError {
    #[verifier::external_body]
    fn from(e: StorageError) -> (r: Self) ensures r == FerrousError::Storage(e), { unimplemented!() }
}
impl RespFrame {
    #[verifier::external_body]
    pub fn ok() -> (r: Self) ensures r is SimpleString, { unimplemented!() }
    #[verifier::external_body]
    pub fn error<T>(msg: T) -> (r: Self) ensures r is Error, { unimplemented!() }
}
/// STUB of network::Connection: the selection is the only field SELECT may touch (any other access = compile error = exit 2)
pub struct Connection { pub db_index: usize }
/// MODEL of ShardedConnections (see inc_srv_header.rs)
pub struct ConnModel { pub map: Ghost<Map<u64, Connection>> }
impl ConnModel {
    #[verifier::external_body]
    pub fn with_connection<R, F: FnOnce(&mut Connection) -> R>(&mut self, id: u64, f: F) -> (r: Option<R>)
        requires forall|x: &mut Connection| f.requires((x,)),
        ensures
            !old(self).map@.contains_key(id) ==> r is None && final(self).map@ == old(self).map@,
            old(self).map@.contains_key(id) ==> r is Some && exists|m: &mut Connection| *m == old(self).map@[id]
                && #[trigger] f.ensures((m,), r->Some_0) && final(self).map@ == old(self).map@.insert(id, *final(m)),
    { unimplemented!() }
}
pub struct StorageStub { pub count: usize }
impl StorageStub {
    /// engine.rs StorageEngine::database_count: `self.databases.len()`
    pub fn database_count(&self) -> (r: usize) ensures r == self.count, { self.count }
}
pub struct Server { pub storage: StorageStub, pub connections: ConnModel }
/// the index SELECT's argument denotes, if it denotes one
pub open spec fn select_arg(parts: Seq<RespFrame>) -> Option<usize> {
    if parts.len() == 2 { match parts[1] { RespFrame::BulkString(Some(b)) => parse_lossy_spec::<usize>(b@), _ => None } } else { None }
}

impl Server {
//@@ unit handle_select fn src/network/server.rs Server::handle_select
//@@   rewrite R3
//@@   params drop "&self" add "&mut self"
//@@   rewrite RCALL parse "String::from_utf8_lossy(bytes)" verif_cow_parse
//@@   rewrite RCT "conn.db_index = db_index" "()" "final(conn).db_index == db_index"
    fn handle_select(&mut self, parts: &[RespFrame], conn_id: u64) -> (r: Result<RespFrame>)
        ensures
            r is Ok, final(self).storage == old(self).storage,
            // C18: SELECT of an index that does not exist (or is malformed) is refused and keeps every selection; an
            // accepted SELECT changes the selection of the issuing connection only
            match select_arg(parts@) {
                Some(n) => if n < old(self).storage.count {
                        !(r->Ok_0 is Error)
                        && (old(self).connections.map@.contains_key(conn_id) ==> final(self).connections.map@ =~= old(self).connections.map@.insert(conn_id, Connection { db_index: n }))
                        && (!old(self).connections.map@.contains_key(conn_id) ==> final(self).connections.map@ == old(self).connections.map@)
                    } else { r->Ok_0 is Error && final(self).connections.map@ == old(self).connections.map@ },
                None => r->Ok_0 is Error && final(self).connections.map@ == old(self).connections.map@,
            },
//@@ body
//@@ end
}

// ---- the storage side: which shard an engine operation works on
#[verifier::external_type_specification]
#[verifier::external_body]
#[verifier::reject_recursive_types(T)]
pub struct ExRwLock<T: ?Sized>(RwLock<T>);
#[verifier::external_body]
pub struct DatabaseShard { _p: u8 }
//@@ item src/storage/engine.rs Database
/// STUB of StorageEngine: the database table (every engine operation starts with `self.get_shard(db, key)?`, which the R2
/// rewrite removes from the shard-level units: this unit says which shard that is)
pub struct StorageEngine { pub databases: Vec<Database> }
//@@ item src/storage/engine.rs SHARDS_PER_DATABASE
impl StorageEngine {
    /// ASSUMED CONTRACT (engine.rs get_shard_index: hash of the key modulo the shard count)
    #[verifier::external_body]
    fn get_shard_index(&self, key: &[u8]) -> (r: usize) ensures r < SHARDS_PER_DATABASE, { unimplemented!() }

//@@ unit get_shard fn src/storage/engine.rs StorageEngine::get_shard
    fn get_shard(&self, db: DatabaseIndex, key: &[u8]) -> (r: Result<&Arc<RwLock<DatabaseShard>>>)
        requires forall|d: int| 0 <= d < self.databases@.len() ==> (#[trigger] self.databases@[d]).shards@.len() == SHARDS_PER_DATABASE,
        ensures
            // C18: an operation on database `db` works on a shard of THAT database, and a database that does not exist is refused
            db >= self.databases@.len() ==> r is Err,
            db < self.databases@.len() ==> (r matches Ok(s) && (exists|i: int| 0 <= i < self.databases@[db as int].shards@.len() && *s == #[trigger] self.databases@[db as int].shards@[i])),
//@@ body
//@@ end
}

} // verus!
fn main() {}
