//@@ include contracts/inc_cmd_header.rs
//@@ include prelude/c16_keys.rs
verus! {
/// `StreamId::from_string(&id_str)` on a lossily decoded argument (RPCALL site): the id the bytes spell, if any (its component parser is
/// unit sid_parse_u64_fast of group c16_pel) — here an uninterpreted function of the argument bytes
pub uninterp spec fn sid_parse(b: Seq<u8>) -> Option<StreamId>;
#[verifier::external_body]
pub fn verif_sid_from_cow(c: &Cow<'_, str>) -> (r: Option<StreamId>) ensures r == sid_parse(cow_src(*c)), { unimplemented!() }
/// argument i names a stream id
pub open spec fn id_arg(parts: Seq<RespFrame>, i: int) -> Option<StreamId> { match arg(parts, i) { Some(b) => sid_parse(b), None => None } }
pub open spec fn ids_ok(parts: Seq<RespFrame>, from: int) -> bool { forall|i: int| from <= i < parts.len() ==> #[trigger] id_arg(parts, i) is Some }
pub open spec fn ids_from(parts: Seq<RespFrame>, from: int) -> Seq<StreamId> { Seq::new((parts.len() - from) as nat, |j: int| id_arg(parts, from + j)->Some_0) }

//@@ unit xack_ids stmts src/storage/commands/consumer_groups.rs handle_xack "let mut ids = Vec::new();" upto "let stream = match storage.get"
//@@   opt same-return-type
//@@   rewrite RPCALL "StreamId::from_string" verif_sid_from_cow
//@@   rewrite RT "let mut ids = Vec::new();" "let mut ids: Vec<StreamId> = Vec::new();"
//@@   loop 0
//@@|     invariant 3 <= i <= parts@.len(), ids@.len() == i - 3, forall|j: int| 3 <= j < i ==> #[trigger] id_arg(parts@, j) is Some,
//@@|         forall|j: int| 0 <= j < i - 3 ==> ids@[j] == id_arg(parts@, 3 + j)->Some_0,
//@@   loopstart 0
//@@|     proof { if id_arg(parts@, i as int) is None { assert(!ids_ok(parts@, 3)); } }
//@@   afterloop 0
//@@|     proof { assert(ids@ =~= ids_from(parts@, 3)); }
//@@   tail *out = ids; Ok(RespFrame::ok())
fn xack_ids(parts: &[RespFrame], out: &mut Vec<StreamId>) -> (r: Result<RespFrame>)
    requires parts@.len() >= 4,
    ensures
        // C16 (XACK): every argument from the fourth on is an id to acknowledge — all of them, in order, each as often as it is named; one
        // argument that is not an id refuses the whole command before anything is acknowledged
        ids_ok(parts@, 3) ==> (r matches Ok(f) && !(f is Error)) && final(out)@ == ids_from(parts@, 3),
        !ids_ok(parts@, 3) ==> (r matches Ok(f) && f is Error) && final(out)@ == old(out)@,
//@@ body
//@@ end
//@@ unit xdel_ids stmts src/storage/commands/streams.rs handle_xdel "let mut ids = Vec::new();" upto "let deleted = storage.xdel"
//@@   opt same-return-type
//@@   rewrite RPCALL "StreamId::from_string" verif_sid_from_cow
//@@   rewrite RT "let mut ids = Vec::new();" "let mut ids: Vec<StreamId> = Vec::new();"
//@@   loop 0
//@@|     invariant 2 <= i <= parts@.len(), ids@.len() == i - 2, forall|j: int| 2 <= j < i ==> #[trigger] id_arg(parts@, j) is Some,
//@@|         forall|j: int| 0 <= j < i - 2 ==> ids@[j] == id_arg(parts@, 2 + j)->Some_0,
//@@   loopstart 0
//@@|     proof { if id_arg(parts@, i as int) is None { assert(!ids_ok(parts@, 2)); } }
//@@   afterloop 0
//@@|     proof { assert(ids@ =~= ids_from(parts@, 2)); }
//@@   tail *out = ids; Ok(RespFrame::ok())
fn xdel_ids(parts: &[RespFrame], out: &mut Vec<StreamId>) -> (r: Result<RespFrame>)
    requires parts@.len() >= 3,
    ensures
        // C15 (XDEL key id [id ...]): every argument from the third on is an id to delete — all of them, in order; one argument that is not an id
        // refuses the whole command before anything is deleted
        ids_ok(parts@, 2) ==> (r matches Ok(f) && !(f is Error)) && final(out)@ == ids_from(parts@, 2),
        !ids_ok(parts@, 2) ==> (r matches Ok(f) && f is Error) && final(out)@ == old(out)@,
//@@ body
//@@ end

// ======================= XRANGE / XREVRANGE: bounds and COUNT (C15) =========================
impl StreamId {
    /// ASSUMED CONTRACTS (stream.rs StreamId::min / max — units sid_min / sid_max of c16_pel)
    #[verifier::external_body]
    pub fn min() -> (r: Self) ensures r.packed == 0, { unimplemented!() }
    #[verifier::external_body]
    pub fn max() -> (r: Self) ensures r.packed == u128::MAX, { unimplemented!() }
}
/// `<Cow<str>> == "<literal>"` (R7 site): comparison of the decoded text
#[verifier::external_body]
pub fn verif_cow_is(a: &Cow<'_, str>, b: &&str) -> (r: bool) ensures r == (cow_chars(*a) == (**b)@), { unimplemented!() }
/// `<String> == "<literal>"` (R7 site)
#[verifier::external_body]
pub fn verif_string_is(a: &String, b: &&str) -> (r: bool) ensures r == (a@ == (**b)@), { unimplemented!() }
/// upper-cased lossy decoding of an option word (`String::from_utf8_lossy(bytes).to_uppercase()`, RXPR site; uninterpreted)
pub uninterp spec fn spec_upper(b: Seq<u8>) -> Seq<char>;
#[verifier::external_body]
pub fn verif_upper(b: &Arc<Vec<u8>>) -> (r: String) ensures r@ == spec_upper(b@), { unimplemented!() }
/// `String::new()` (RT site)
#[verifier::external_body]
pub fn verif_empty_string() -> (r: String) ensures r@.len() == 0, { unimplemented!() }
/// a range bound: the one-character word for the open end (`-` lowest, `+` highest), otherwise the id the argument spells; None = refused
pub open spec fn bound_arg(parts: Seq<RespFrame>, i: int, open_word: Seq<char>, open_id: u128) -> Option<u128> {
    match arg(parts, i) { None => None, Some(b) => if lossy(b) == open_word { Some(open_id) } else { match sid_parse(b) { Some(id) => Some(id.packed), None => None } } }
}
pub open spec fn opt_packed(o: Option<StreamId>) -> Option<u128> { match o { Some(id) => Some(id.packed), None => None } }

//@@ unit xrange_args stmts src/storage/commands/streams.rs handle_xrange "let start_str" upto "let entries"
//@@   opt same-return-type
//@@   rewrite R7 "start_str == \"-\"" verif_cow_is byref
//@@   rewrite R7 "end_str == \"+\"" verif_cow_is byref
//@@   rewrite R7 "count_keyword == \"COUNT\"" verif_string_is byref
//@@   rewrite RPCALL "StreamId::from_string" verif_sid_from_cow
//@@   rewrite RXPR "String::from_utf8_lossy(bytes).to_uppercase()" "verif_upper(bytes)"
//@@   rewrite RT "String::new()" "verif_empty_string()"
//@@   rewrite RCALL parse "String::from_utf8_lossy(bytes)" verif_cow_parse
//@@   tail *out = (start, end, count); Ok(RespFrame::ok())
fn xrange_args(parts: &[RespFrame], out: &mut (StreamId, StreamId, Option<usize>)) -> (r: Result<RespFrame>)
    requires parts@.len() >= 4,
    ensures
        // C15 (XRANGE key start end [COUNT n]): the lower bound is argument 2 (`-` = the lowest id), the upper bound argument 3 (`+` = the
        // highest id); a bound that is neither refuses the command; COUNT n is handed on as n, a malformed n refuses
        (bound_arg(parts@, 2, "-"@, 0) is None || bound_arg(parts@, 3, "+"@, u128::MAX) is None) ==> (r matches Ok(f) && f is Error) && *final(out) == *old(out),
        bound_arg(parts@, 2, "-"@, 0) is Some && bound_arg(parts@, 3, "+"@, u128::MAX) is Some && parts@.len() == 4 ==> (r matches Ok(f) && !(f is Error))
            && Some(final(out).0.packed) == bound_arg(parts@, 2, "-"@, 0) && Some(final(out).1.packed) == bound_arg(parts@, 3, "+"@, u128::MAX) && final(out).2 is None,
        bound_arg(parts@, 2, "-"@, 0) is Some && bound_arg(parts@, 3, "+"@, u128::MAX) is Some && parts@.len() == 6 && arg(parts@, 4) is Some && spec_upper(arg(parts@, 4)->Some_0) == "COUNT"@ ==>
            (match num_arg::<usize>(parts@, 5) {
                Some(n) => (r matches Ok(f) && !(f is Error)) && Some(final(out).0.packed) == bound_arg(parts@, 2, "-"@, 0) && Some(final(out).1.packed) == bound_arg(parts@, 3, "+"@, u128::MAX) && final(out).2 == Some(n),
                None => (r matches Ok(f) && f is Error) && *final(out) == *old(out),
            }),
//@@ body
//@@ end

//@@ unit xrevrange_bounds stmts src/storage/commands/streams.rs handle_xrevrange "let end_str" upto "let count"
//@@   opt same-return-type
//@@   rewrite R7 "start_str == \"-\"" verif_cow_is byref
//@@   rewrite R7 "end_str == \"+\"" verif_cow_is byref
//@@   rewrite RPCALL "StreamId::from_string" verif_sid_from_cow
//@@   tail *out = (start, end); Ok(RespFrame::ok())
fn xrevrange_bounds(parts: &[RespFrame], out: &mut (StreamId, StreamId)) -> (r: Result<RespFrame>)
    requires parts@.len() >= 4,
    ensures
        // C15 (XREVRANGE key end start): the arguments come in the opposite order — argument 2 is the UPPER bound, argument 3 the lower
        (bound_arg(parts@, 3, "-"@, 0) is None || bound_arg(parts@, 2, "+"@, u128::MAX) is None) ==> (r matches Ok(f) && f is Error) && *final(out) == *old(out),
        bound_arg(parts@, 3, "-"@, 0) is Some && bound_arg(parts@, 2, "+"@, u128::MAX) is Some ==> (r matches Ok(f) && !(f is Error))
            && Some(final(out).0.packed) == bound_arg(parts@, 3, "-"@, 0) && Some(final(out).1.packed) == bound_arg(parts@, 2, "+"@, u128::MAX),
//@@ body
//@@ end
// ======================= XADD: the entry's field-value pairs (C15 "entries keep their field-value pairs") =========================
/// the map XADD builds from arguments 3,4 / 5,6 / ...: the first n pairs, a later pair for the same field replacing the earlier one
pub open spec fn fields_upto(parts: Seq<RespFrame>, n: int) -> Map<Vec<u8>, Vec<u8>>
    decreases n
{ if n <= 0 { Map::empty() } else { fields_upto(parts, n - 1).insert(arg_vec(parts, 2 * n + 1)->Some_0, arg_vec(parts, 2 * n + 2)->Some_0) } }
/// `bytes.as_ref().clone()` on an Arc<Vec<u8>> (RT site): a copy of the argument
#[verifier::external_body]
pub fn verif_clone_arc_bytes(b: &Arc<Vec<u8>>) -> (r: Vec<u8>) ensures r == **b, { unimplemented!() }
//@@ unit xadd_fields stmts src/storage/commands/streams.rs handle_xadd "let num_fields" upto "let result_id"
//@@   opt same-return-type
//@@   rewrite RT "bytes.as_ref().clone()" "verif_clone_arc_bytes(bytes)"
//@@   rewrite RT "let mut fields = HashMap::with_capacity(num_fields);" "let mut fields: HashMap<Vec<u8>, Vec<u8>> = HashMap::with_capacity(num_fields);"
//@@   rewrite RFORK 0
//@@   loop 0
//@@|     invariant
//@@|         parts@.len() >= 4, parts@.len() % 2 == 1, i__end == parts@.len(), i__k == 2, 3 <= i__n <= i__end, i__n % 2 == 1,
//@@|         forall|j: int| 3 <= j < i__n ==> (#[trigger] parts@[j] matches RespFrame::BulkString(Some(_))),
//@@|         fields@ == fields_upto(parts@, (i__n - 3) / 2),
//@@|     decreases i__end - i__n,
//@@   tail *out = fields; Ok(RespFrame::ok())
fn xadd_fields(parts: &[RespFrame], out: &mut HashMap<Vec<u8>, Vec<u8>>) -> (r: Result<RespFrame>)
    requires parts@.len() >= 4, parts@.len() % 2 == 1,
    ensures
        !all_bulk(parts@, 3) ==> (r matches Ok(f) && f is Error) && final(out)@ == old(out)@,
        all_bulk(parts@, 3) ==> (r matches Ok(f) && !(f is Error)) && final(out)@ == fields_upto(parts@, (parts@.len() - 3) / 2),
//@@ body
//@@ end
// ======================= XREAD: which id goes with which key (C15) =========================
/// STUB of a stream entry as far as XREAD's `$` uses it, and MODEL of the engine's xrange for that use: all entries of the stream under (db, key)
pub struct StreamEntry { pub id: StreamId }
pub struct XStore { pub g: Ghost<int> }
pub uninterp spec fn spec_entries(s: XStore, db: usize, key: Seq<u8>) -> Option<Seq<StreamEntry>>;
impl XStore {
    /// ASSUMED CONTRACT (engine.rs StorageEngine::xrange with the full range — unit xrange of shard_zsets)
    #[verifier::external_body]
    pub fn xrange(&self, db: usize, key: &[u8], start: StreamId, end: StreamId, count: Option<usize>) -> (r: Result<Vec<StreamEntry>>)
        ensures match spec_entries(*self, db, key@) { Some(e) => r matches Ok(v) && v@ == e, None => r is Err },
    { unimplemented!() }
}
impl StreamId {
    /// ASSUMED CONTRACT (stream.rs StreamId::new — unit sid_new of c16_pel): here only the zero id
    #[verifier::external_body]
    pub fn new(millis: u64, seq: u64) -> (r: Self) ensures millis == 0 && seq == 0 ==> r.packed == 0, { unimplemented!() }
}
/// `all_entries.last()` (RT site)
#[verifier::external_body]
pub fn verif_last_entry<'a>(v: &'a Vec<StreamEntry>) -> (r: Option<&'a StreamEntry>) ensures v@.len() == 0 ==> r is None, v@.len() > 0 ==> (r matches Some(e) && *e == v@.last()), { unimplemented!() }
/// the id XREAD reads after, for one id argument: `$` = the id of the stream's last entry (0-0 for an empty or missing stream), `0` / `0-0` = 0-0,
/// otherwise the id the argument spells; None = refused
pub open spec fn xread_after(s: XStore, db: usize, key: Seq<u8>, idb: Seq<u8>) -> Option<u128> {
    if lossy(idb) == "$"@ { match spec_entries(s, db, key) { Some(e) => Some(if e.len() > 0 { e.last().id.packed } else { 0u128 }), None => None } }
    else if lossy(idb) == "0"@ || lossy(idb) == "0-0"@ { Some(0u128) }
    else { match sid_parse(idb) { Some(id) => Some(id.packed), None => None } }
}
/// the q-th (key, id) pair of XREAD: key = argument i+q, id = what argument i+n+q names for THAT key
pub open spec fn pair_ok(s: XStore, db: usize, parts: Seq<RespFrame>, i: int, n: int, q: int, key: Seq<u8>, id: StreamId) -> bool {
    arg(parts, i + q) is Some && arg(parts, i + n + q) is Some && key == arg(parts, i + q)->Some_0
        && Some(id.packed) == xread_after(s, db, arg(parts, i + q)->Some_0, arg(parts, i + n + q)->Some_0)
}
//@@ unit xread_pairs stmts src/storage/commands/streams.rs handle_xread "let remaining" upto "let keys_and_ids_refs"
//@@   opt same-return-type
//@@   params add "storage: &XStore"
//@@   rewrite R7 "id_str == \"$\"" verif_cow_is byref
//@@   rewrite R7 "id_str == \"0\"" verif_cow_is byref
//@@   rewrite R7 "id_str == \"0-0\"" verif_cow_is byref
//@@   rewrite RPCALL "StreamId::from_string" verif_sid_from_cow
//@@   rewrite RT "all_entries.last()" "verif_last_entry(&all_entries)"
//@@   rewrite RT "last_entry.id.clone()" "last_entry.id"
//@@   rewrite RT "let mut keys_and_ids = Vec::new();" "let mut keys_and_ids: Vec<(&Vec<u8>, StreamId)> = Vec::new();"
//@@   rewrite RFORC 0
//@@   loop 0
//@@|     invariant
//@@|         i < parts@.len(), remaining == parts@.len() - i, remaining % 2 == 0, num_keys == remaining / 2, keys_and_ids@.len() == j__n, j__n <= j__end, j__end == num_keys,
//@@|         forall|q: int| 0 <= q < j__n ==> #[trigger] pair_ok(*storage, db, parts@, i as int, num_keys as int, q, keys_and_ids@[q].0@, keys_and_ids@[q].1),
//@@|     decreases j__end - j__n,
//@@   tail *out = keys_and_ids; Ok(RespFrame::ok())
fn xread_pairs<'a>(storage: &XStore, db: usize, parts: &'a [RespFrame], i: usize, out: &mut Vec<(&'a Vec<u8>, StreamId)>) -> (r: Result<RespFrame>)
    requires i < parts@.len(),
    ensures
        // C15 (XREAD ... STREAMS k1 .. kn id1 .. idn): the j-th key is read after the j-th id — not its neighbour's — for every j
        (r matches Ok(f) && !(f is Error)) ==> (parts@.len() - i) % 2 == 0 && final(out)@.len() == (parts@.len() - i) / 2
            && forall|q: int| 0 <= q < final(out)@.len() ==> #[trigger] pair_ok(*storage, db, parts@, i as int, final(out)@.len() as int, q, final(out)@[q].0@, final(out)@[q].1),
        (parts@.len() - i) % 2 != 0 ==> (r matches Ok(f) && f is Error),
//@@ body
//@@ end
// ======================= XADD with an explicit id: from the argument bytes to the id (C06 / C15) =========================
/// strict UTF-8 decoding (`std::str::from_utf8`, RPCALL site) and the id a text spells (`StreamId::from_string` on a &str, RPCALL site; its
/// component parser is unit sid_parse_u64_fast of c16_pel) — uninterpreted functions of the bytes / the text
pub uninterp spec fn spec_utf8_text(b: Seq<u8>) -> Option<Seq<char>>;
pub uninterp spec fn sid_parse_text(s: Seq<char>) -> Option<StreamId>;
pub struct Utf8Err { pub g: Ghost<int> }
#[verifier::external_body]
pub fn verif_str_from_utf8<'a>(b: &'a Vec<u8>) -> (r: std::result::Result<&'a str, Utf8Err>)
    ensures match spec_utf8_text(b@) { Some(s) => r matches Ok(t) && t@ == s, None => r is Err },
{ unimplemented!() }
#[verifier::external_body]
pub fn verif_sid_from_str(s: &str) -> (r: Option<StreamId>) ensures r == sid_parse_text(s@), { unimplemented!() }
impl StreamId {
    /// ASSUMED CONTRACTS (stream.rs StreamId::millis / seq: the two halves of the packed value; both zero exactly for the id 0-0 — the packing is
    /// C15's complete Kani unit sid_pack_order)
    #[verifier::external_body]
    pub fn millis(&self) -> (r: u64) ensures r == spec_millis(self.packed), { unimplemented!() }
    #[verifier::external_body]
    pub fn seq(&self) -> (r: u64) ensures r == spec_seq(self.packed), { unimplemented!() }
}
pub uninterp spec fn spec_millis(p: u128) -> u64;
pub uninterp spec fn spec_seq(p: u128) -> u64;
pub axiom fn axiom_zero_id(p: u128) ensures (spec_millis(p) == 0 && spec_seq(p) == 0) <==> p == 0;
//@@ unit xadd_explicit_id stmts src/storage/commands/streams.rs handle_xadd "let id_str" upto "match storage.xadd_with_id(db, key, id, fields)"
//@@   opt same-return-type
//@@   rewrite RPCALL "std::str::from_utf8" verif_str_from_utf8
//@@   rewrite RPCALL "StreamId::from_string" verif_sid_from_str
//@@   at "if id.millis() == 0 && id.seq() == 0"
//@@|     proof { axiom_zero_id(id.packed); }
//@@   tail *out = id; Ok(RespFrame::ok())
fn xadd_explicit_id(id_bytes: &Vec<u8>, out: &mut StreamId) -> (r: Result<RespFrame>)
    ensures
        // C06: ANY byte string in the id position is either refused with an error reply or turned into the id it spells — no byte string reaches
        // an unchecked decoding (before the repair `XADD s "-\x80" f v` took the server down); C15: 0-0 is refused
        match spec_utf8_text(id_bytes@) {
            None => (r matches Ok(f) && f is Error) && *final(out) == *old(out),
            Some(s) => match sid_parse_text(s) {
                None => (r matches Ok(f) && f is Error) && *final(out) == *old(out),
                Some(id) => if id.packed == 0 { (r matches Ok(f) && f is Error) && *final(out) == *old(out) } else { (r matches Ok(f) && !(f is Error)) && *final(out) == id },
            },
        },
//@@ body
//@@ end
} // verus!
fn main() {}
