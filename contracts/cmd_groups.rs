//@@ include contracts/inc_cmd_header.rs
//@@ include prelude/c16_keys.rs
verus! {
/// `StreamId::from_string(&id_str)` on a lossily decoded argument (RPCALL site): the id the bytes spell, if any (its component parser is
/// unit sid_parse_u64_fast of group c16_pel) — here an uninterpreted function of the argument bytes
pub uninterp spec fn sid_parse(b: Seq<u8>) -> Option<StreamId>;
#[verifier::external_body]
pub fn verif_sid_from_cow(c: &Cow<'_, str>) -> (r: Option<StreamId>) ensures r == sid_parse(cow_src(*c)), { unimplemented!() }
/// argument i names a stream id
pub open spec fn id_arg(parts: Seq<RespFrame>, i: int) -> Option<StreamId> { match arg(parts, i) { Some(b) => sid_parse(b), None => None } }
pub open spec fn ids_ok(parts: Seq<RespFrame>, from: int) -> bool { forall|i: int| from <= i < parts.len() ==> #[trigger] id_arg(parts, i) is Some }
pub open spec fn ids_from(parts: Seq<RespFrame>, from: int) -> Seq<StreamId> { Seq::new((parts.len() - from) as nat, |j: int| id_arg(parts, from + j)->Some_0) }

//@@ unit xack_ids stmts src/storage/commands/consumer_groups.rs handle_xack "let mut ids = Vec::new();" upto "let stream = match storage.get"
//@@   opt same-return-type
//@@   rewrite RPCALL "StreamId::from_string" verif_sid_from_cow
//@@   rewrite RT "let mut ids = Vec::new();" "let mut ids: Vec<StreamId> = Vec::new();"
//@@   loop 0
//@@|     invariant 3 <= i <= parts@.len(), ids@.len() == i - 3, forall|j: int| 3 <= j < i ==> #[trigger] id_arg(parts@, j) is Some,
//@@|         forall|j: int| 0 <= j < i - 3 ==> ids@[j] == id_arg(parts@, 3 + j)->Some_0,
//@@   loopstart 0
//@@|     proof { if id_arg(parts@, i as int) is None { assert(!ids_ok(parts@, 3)); } }
//@@   afterloop 0
//@@|     proof { assert(ids@ =~= ids_from(parts@, 3)); }
//@@   tail *out = ids; Ok(RespFrame::ok())
fn xack_ids(parts: &[RespFrame], out: &mut Vec<StreamId>) -> (r: Result<RespFrame>)
    requires parts@.len() >= 4,
    ensures
        // C16 (XACK): every argument from the fourth on is an id to acknowledge — all of them, in order, each as often as it is named; one
        // argument that is not an id refuses the whole command before anything is acknowledged
        ids_ok(parts@, 3) ==> (r matches Ok(f) && !(f is Error)) && final(out)@ == ids_from(parts@, 3),
        !ids_ok(parts@, 3) ==> (r matches Ok(f) && f is Error) && final(out)@ == old(out)@,
//@@ body
//@@ end
} // verus!
fn main() {}
