//@@ include contracts/inc_cmd_header.rs
verus! {

//@@ unit handle_lpush fn src/storage/commands/lists.rs handle_lpush
//@@   params drop "storage: &Arc<StorageEngine>" add "storage: &mut EngineModel"
//@@   rewrite R3
//@@   loop 0
//@@|     invariant 2 <= i <= parts@.len(), elements@.len() == i - 2, forall|j: int| 2 <= j < i ==> (#[trigger] parts@[j] matches RespFrame::BulkString(Some(_))),
//@@|         forall|j: int| 0 <= j < i - 2 ==> elements@[j] == arg_vec(parts@, j + 2)->Some_0,
//@@   at "match storage.lpush(db, key, elements)"
//@@| assert(elements@ =~= args_from(parts@, 2));

pub fn handle_lpush(storage: &mut EngineModel, db: usize, parts: &[RespFrame]) -> (r: Result<RespFrame>)
    ensures
        (parts@.len() < 3 || arg(parts@, 1) is None || !all_bulk(parts@, 2)) ==> cmd_refused(r, old(storage).ds@, final(storage).ds@),
        parts@.len() >= 3 && arg(parts@, 1) is Some && all_bulk(parts@, 2) ==> cmd_ok(r, final(storage).ds@, spec_push(old(storage).ds@, db as int, arg(parts@, 1)->Some_0, args_from(parts@, 2), true)),
//@@ body
//@@ end

//@@ unit handle_rpush fn src/storage/commands/lists.rs handle_rpush
//@@   params drop "storage: &Arc<StorageEngine>" add "storage: &mut EngineModel"
//@@   rewrite R3
//@@   loop 0
//@@|     invariant 2 <= i <= parts@.len(), elements@.len() == i - 2, forall|j: int| 2 <= j < i ==> (#[trigger] parts@[j] matches RespFrame::BulkString(Some(_))),
//@@|         forall|j: int| 0 <= j < i - 2 ==> elements@[j] == arg_vec(parts@, j + 2)->Some_0,
//@@   at "match storage.rpush(db, key, elements)"
//@@| assert(elements@ =~= args_from(parts@, 2));

pub fn handle_rpush(storage: &mut EngineModel, db: usize, parts: &[RespFrame]) -> (r: Result<RespFrame>)
    ensures
        (parts@.len() < 3 || arg(parts@, 1) is None || !all_bulk(parts@, 2)) ==> cmd_refused(r, old(storage).ds@, final(storage).ds@),
        parts@.len() >= 3 && arg(parts@, 1) is Some && all_bulk(parts@, 2) ==> cmd_ok(r, final(storage).ds@, spec_push(old(storage).ds@, db as int, arg(parts@, 1)->Some_0, args_from(parts@, 2), false)),
//@@ body
//@@ end

//@@ unit handle_lpop fn src/storage/commands/lists.rs handle_lpop
//@@   params drop "storage: &Arc<StorageEngine>" add "storage: &mut EngineModel"
//@@   rewrite R3
pub fn handle_lpop(storage: &mut EngineModel, db: usize, parts: &[RespFrame]) -> (r: Result<RespFrame>)
    ensures
        (parts@.len() != 2 || arg(parts@, 1) is None) ==> cmd_refused(r, old(storage).ds@, final(storage).ds@),
        parts@.len() == 2 && arg(parts@, 1) is Some ==> cmd_ok(r, final(storage).ds@, spec_pop(old(storage).ds@, db as int, arg(parts@, 1)->Some_0, true)),
//@@ body
//@@ end

//@@ unit handle_rpop fn src/storage/commands/lists.rs handle_rpop
//@@   params drop "storage: &Arc<StorageEngine>" add "storage: &mut EngineModel"
//@@   rewrite R3
pub fn handle_rpop(storage: &mut EngineModel, db: usize, parts: &[RespFrame]) -> (r: Result<RespFrame>)
    ensures
        (parts@.len() != 2 || arg(parts@, 1) is None) ==> cmd_refused(r, old(storage).ds@, final(storage).ds@),
        parts@.len() == 2 && arg(parts@, 1) is Some ==> cmd_ok(r, final(storage).ds@, spec_pop(old(storage).ds@, db as int, arg(parts@, 1)->Some_0, false)),
//@@ body
//@@ end

//@@ unit handle_llen fn src/storage/commands/lists.rs handle_llen
//@@   params drop "storage: &Arc<StorageEngine>" add "storage: &mut EngineModel"
//@@   rewrite R3
pub fn handle_llen(storage: &mut EngineModel, db: usize, parts: &[RespFrame]) -> (r: Result<RespFrame>)
    ensures
        (parts@.len() != 2 || arg(parts@, 1) is None) ==> cmd_refused(r, old(storage).ds@, final(storage).ds@),
        parts@.len() == 2 && arg(parts@, 1) is Some ==> cmd_ok(r, final(storage).ds@, spec_llen(old(storage).ds@, db as int, arg(parts@, 1)->Some_0)),
//@@ body
//@@ end

//@@ unit handle_lindex fn src/storage/commands/lists.rs handle_lindex
//@@   params drop "storage: &Arc<StorageEngine>" add "storage: &mut EngineModel"
//@@   rewrite R3
//@@   rewrite R1
//@@   rewrite RCALL parse "String::from_utf8_lossy(bytes)" verif_cow_parse
pub fn handle_lindex(storage: &mut EngineModel, db: usize, parts: &[RespFrame]) -> (r: Result<RespFrame>)
    ensures
        (parts@.len() != 3 || arg(parts@, 1) is None || num_arg::<isize>(parts@, 2) is None) ==> cmd_refused(r, old(storage).ds@, final(storage).ds@),
        parts@.len() == 3 && arg(parts@, 1) is Some && num_arg::<isize>(parts@, 2) is Some ==> cmd_ok(r, final(storage).ds@, spec_lindex(old(storage).ds@, db as int, arg(parts@, 1)->Some_0, num_arg::<isize>(parts@, 2)->Some_0 as int)),
//@@ body
//@@ end

//@@ unit handle_lset fn src/storage/commands/lists.rs handle_lset
//@@   params drop "storage: &Arc<StorageEngine>" add "storage: &mut EngineModel"
//@@   rewrite R3
//@@   rewrite R1
//@@   rewrite RCALL parse "String::from_utf8_lossy(bytes)" verif_cow_parse
pub fn handle_lset(storage: &mut EngineModel, db: usize, parts: &[RespFrame]) -> (r: Result<RespFrame>)
    ensures
        (parts@.len() != 4 || arg(parts@, 1) is None || num_arg::<isize>(parts@, 2) is None || arg(parts@, 3) is None) ==> cmd_refused(r, old(storage).ds@, final(storage).ds@),
        parts@.len() == 4 && arg(parts@, 1) is Some && num_arg::<isize>(parts@, 2) is Some && arg(parts@, 3) is Some ==> cmd_ok(r, final(storage).ds@, spec_lset(old(storage).ds@, db as int, arg(parts@, 1)->Some_0, num_arg::<isize>(parts@, 2)->Some_0 as int, arg_vec(parts@, 3)->Some_0)),
//@@ body
//@@ end

//@@ unit handle_ltrim fn src/storage/commands/lists.rs handle_ltrim
//@@   params drop "storage: &Arc<StorageEngine>" add "storage: &mut EngineModel"
//@@   rewrite R3
//@@   rewrite R1
//@@   rewrite RCALL parse "String::from_utf8_lossy(bytes)" verif_cow_parse
pub fn handle_ltrim(storage: &mut EngineModel, db: usize, parts: &[RespFrame]) -> (r: Result<RespFrame>)
    ensures
        (parts@.len() != 4 || arg(parts@, 1) is None || num_arg::<isize>(parts@, 2) is None || num_arg::<isize>(parts@, 3) is None) ==> cmd_refused(r, old(storage).ds@, final(storage).ds@),
        parts@.len() == 4 && arg(parts@, 1) is Some && num_arg::<isize>(parts@, 2) is Some && num_arg::<isize>(parts@, 3) is Some ==> cmd_ok(r, final(storage).ds@, spec_ltrim(old(storage).ds@, db as int, arg(parts@, 1)->Some_0, num_arg::<isize>(parts@, 2)->Some_0 as int, num_arg::<isize>(parts@, 3)->Some_0 as int)),
//@@ body
//@@ end

//@@ unit handle_lrange fn src/storage/commands/lists.rs handle_lrange
//@@   params drop "storage: &Arc<StorageEngine>" add "storage: &mut EngineModel"
//@@   rewrite R3
//@@   rewrite R1
//@@   rewrite RCALL parse "String::from_utf8_lossy(bytes)" verif_cow_parse
//@@   rewrite RXPR "elements.into_iter().map(|e| RespFrame::from_bytes(e)).collect()" "verif_bulk_frames(elements)"
pub fn handle_lrange(storage: &mut EngineModel, db: usize, parts: &[RespFrame]) -> (r: Result<RespFrame>)
    ensures
        (parts@.len() != 4 || arg(parts@, 1) is None || num_arg::<isize>(parts@, 2) is None || num_arg::<isize>(parts@, 3) is None) ==> cmd_refused(r, old(storage).ds@, final(storage).ds@),
        parts@.len() == 4 && arg(parts@, 1) is Some && num_arg::<isize>(parts@, 2) is Some && num_arg::<isize>(parts@, 3) is Some ==> cmd_ok(r, final(storage).ds@, spec_lrange(old(storage).ds@, db as int, arg(parts@, 1)->Some_0, num_arg::<isize>(parts@, 2)->Some_0 as int, num_arg::<isize>(parts@, 3)->Some_0 as int)),
//@@ body
//@@ end

} // verus!
fn main() {}
