//@@ include contracts/inc_cmd_header.rs
verus! {
/// `bytes.to_vec()` on the shared byte vector of a bulk string (RCALL site): a copy with the same bytes
#[verifier::external_body]
pub fn verif_arc_to_vec(b: &Arc<Vec<u8>>) -> (r: Vec<u8>) ensures r@ == b@, { unimplemented!() }
/// `"...".to_string()` error texts (RCALL site): the text carries no property
#[verifier::external_body]
pub fn verif_str_to_string(s: &str) -> String { unimplemented!() }

// C12 ("KEYS and ARGV arrive byte-for-byte") / C06: EVAL script numkeys k1 .. kn a1 .. am — numkeys is a number the client chooses
//@@ unit process_keys_and_args fn src/storage/commands/lua.rs process_keys_and_args
//@@   rewrite RCALL to_vec "bytes" verif_arc_to_vec
//@@   rewrite RCALL to_string "*" verif_str_to_string
//@@   rewrite RT "let mut keys = Vec::with_capacity(num_keys);" "let mut keys: Vec<Vec<u8>> = Vec::with_capacity(num_keys);"
//@@   rewrite RT "let mut args = Vec::new();" "let mut args: Vec<Vec<u8>> = Vec::new();"
//@@   loop 0
//@@|     invariant 0 <= i <= num_keys, start_idx + num_keys <= parts@.len(), keys@.len() == i,
//@@|         forall|j: int| 0 <= j < i ==> arg(parts@, start_idx + j) == Some((#[trigger] keys@[j])@),
//@@   loop 1
//@@|     invariant start_idx + num_keys <= i <= parts@.len(), args@.len() == i - (start_idx + num_keys),
//@@|         forall|j: int| 0 <= j < args@.len() ==> arg(parts@, start_idx + num_keys + j) == Some((#[trigger] args@[j])@),
fn process_keys_and_args(parts: &[RespFrame], start_idx: usize, num_keys: usize) -> (r: std::result::Result<(Vec<Vec<u8>>, Vec<Vec<u8>>), String>)
    requires start_idx <= parts@.len(),
    ensures
        // for EVERY numkeys (safety obligations: no overflow, no allocation the arguments do not cover): more keys than arguments is an error ...
        start_idx + num_keys > parts@.len() ==> r is Err,
        // ... and otherwise KEYS are the numkeys arguments after it and ARGV the rest, byte for byte, in order
        r matches Ok(ka) ==> ka.0@.len() == num_keys && ka.1@.len() == parts@.len() - start_idx - num_keys
            && (forall|j: int| 0 <= j < ka.0@.len() ==> arg(parts@, start_idx + j) == Some((#[trigger] ka.0@[j])@))
            && (forall|j: int| 0 <= j < ka.1@.len() ==> arg(parts@, start_idx + num_keys + j) == Some((#[trigger] ka.1@[j])@)),
//@@ body
//@@ end
} // verus!
fn main() {}
