//@@ include contracts/inc_srv_header.rs
verus! {
//@@ item src/network/blocking.rs WakeupRequest
impl RespFrame {
    /// ASSUMED CONTRACT (resp.rs RespFrame::from_bytes: `BulkString(Some(Arc::new(bytes)))`)
    #[verifier::external_body]
    pub fn from_bytes(bytes: Vec<u8>) -> (r: Self) ensures r matches RespFrame::BulkString(Some(a)) && a@ == bytes@, { unimplemented!() }
}
/// what was handed to a connection's write buffer (ghost): Connection::send_frame appends the frame or fails without effect
impl Connection {
    /// ASSUMED CONTRACT (connection.rs Connection::send_frame: serialises into the write buffer)
    #[verifier::external_body]
    pub fn send_frame(&mut self, frame: &RespFrame) -> (r: Result<()>)
        ensures final(self).db_index == old(self).db_index, final(self).transaction_state == old(self).transaction_state, final(self).state == old(self).state,
            final(self).is_monitoring == old(self).is_monitoring,
            r is Ok ==> final(self).out.sent@ == old(self).out.sent@.push(*frame),
            r is Err ==> final(self).out.sent@ == old(self).out.sent@,
    { unimplemented!() }
}
/// MODEL of the storage engine's list operations as far as serving a blocked client uses them (their real bodies are the
/// subject of shard_lists): per (db, key) the list as a sequence of byte strings
pub struct ListModel { pub lists: Ghost<Map<(usize, Seq<u8>), Seq<Seq<u8>>>> }
pub open spec fn list_of(m: ListModel, db: usize, key: Seq<u8>) -> Seq<Seq<u8>> {
    if m.lists@.contains_key((db, key)) { m.lists@[(db, key)] } else { Seq::empty() }
}
pub open spec fn others_same(o: ListModel, f: ListModel, db: usize, key: Seq<u8>) -> bool {
    forall|d: usize, k: Seq<u8>| (d != db || k != key) ==> #[trigger] list_of(f, d, k) == list_of(o, d, k)
}
impl ListModel {
    #[verifier::external_body]
    pub fn lpop(&mut self, db: usize, key: &[u8]) -> (r: Result<Option<Vec<u8>>>)
        ensures others_same(*old(self), *final(self), db, key@),
            r is Err ==> list_of(*final(self), db, key@) == list_of(*old(self), db, key@),
            r matches Ok(None) ==> list_of(*old(self), db, key@).len() == 0 && list_of(*final(self), db, key@) == list_of(*old(self), db, key@),
            r matches Ok(Some(v)) ==> list_of(*old(self), db, key@).len() > 0 && v@ == list_of(*old(self), db, key@)[0] && list_of(*final(self), db, key@) == list_of(*old(self), db, key@).drop_first(),
    { unimplemented!() }
    #[verifier::external_body]
    pub fn rpop(&mut self, db: usize, key: &[u8]) -> (r: Result<Option<Vec<u8>>>)
        ensures others_same(*old(self), *final(self), db, key@),
            r is Err ==> list_of(*final(self), db, key@) == list_of(*old(self), db, key@),
            r matches Ok(None) ==> list_of(*old(self), db, key@).len() == 0 && list_of(*final(self), db, key@) == list_of(*old(self), db, key@),
            r matches Ok(Some(v)) ==> list_of(*old(self), db, key@).len() > 0 && v@ == list_of(*old(self), db, key@).last() && list_of(*final(self), db, key@) == list_of(*old(self), db, key@).drop_last(),
    { unimplemented!() }
    /// pushing ONE element back (the only use in this unit)
    #[verifier::external_body]
    pub fn lpush(&mut self, db: usize, key: Vec<u8>, elements: Vec<Vec<u8>>) -> (r: Result<usize>)
        requires elements@.len() == 1,
        ensures others_same(*old(self), *final(self), db, key@),
            r is Ok ==> list_of(*final(self), db, key@) == seq![elements@[0]@] + list_of(*old(self), db, key@),
            r is Err ==> list_of(*final(self), db, key@) == list_of(*old(self), db, key@),
    { unimplemented!() }
    #[verifier::external_body]
    pub fn rpush(&mut self, db: usize, key: Vec<u8>, elements: Vec<Vec<u8>>) -> (r: Result<usize>)
        requires elements@.len() == 1,
        ensures others_same(*old(self), *final(self), db, key@),
            r is Ok ==> list_of(*final(self), db, key@) == list_of(*old(self), db, key@).push(elements@[0]@),
            r is Err ==> list_of(*final(self), db, key@) == list_of(*old(self), db, key@),
    { unimplemented!() }
}
/// MODEL of the blocking manager for disconnect handling: which (db, connection) pairs still hold a registration
pub struct BlockRegModel { pub registered: Ghost<Set<(usize, u64)>> }
impl BlockRegModel {
    /// ASSUMED CONTRACT (blocking.rs BlockingManager::unregister_client -> BlockingRegistry::unregister_client)
    #[verifier::external_body]
    pub fn unregister_client(&mut self, db: usize, conn_id: u64) -> (r: Result<()>)
        ensures final(self).registered@ == old(self).registered@.remove((db, conn_id)),
    { unimplemented!() }
}
/// MODEL of the pub/sub manager for disconnect handling: the connections that hold at least one subscription (pubsub.rs: the
/// key set of `connections`, the conn -> SubscriberInfo map)
impl BlockRegModel {
    /// ASSUMED CONTRACT (blocking.rs BlockingManager::register_blocked -> BlockingRegistry::register_blocked_client: the client is appended to the
    /// queue of each of its keys): afterwards the connection holds a registration in that database; refused (no such database) = no change
    #[verifier::external_body]
    pub fn register_blocked(&mut self, db: usize, conn_id: u64, keys: Vec<Vec<u8>>, op_type: BlockingOp, deadline: Option<Instant>) -> (r: Result<()>)
        ensures r is Ok ==> final(self).registered@ == old(self).registered@.insert((db, conn_id)), r is Err ==> final(self).registered@ == old(self).registered@,
    { unimplemented!() }
}
impl ListModel {
    /// StorageEngine::llen (unit llen of shard_lists)
    #[verifier::external_body]
    pub fn llen(&self, db: usize, key: &[u8]) -> (r: Result<usize>) ensures r matches Ok(n) ==> n == list_of(*self, db, key@).len(), { unimplemented!() }
}
/// #[derive(Clone)] on BlockedState / BlockingOp (dropped by the item extraction, R4): a clone equals its source
impl Clone for BlockedState {
    #[verifier::external_body]
    fn clone(&self) -> (r: Self) ensures r == *self, { unimplemented!() }
}
/// `state.keys.iter().map(|(_, key)| key.clone()).collect()` (RXPR site): the key names, in order
#[verifier::external_body]
pub fn verif_key_names(keys: &Vec<(DatabaseIndex, Vec<u8>)>) -> (r: Vec<Vec<u8>>)
    ensures r@.len() == keys@.len(), forall|j: int| 0 <= j < r@.len() ==> (#[trigger] r@[j])@ == keys@[j].1@,
{ unimplemented!() }
/// Option<Option<T>>::flatten (std; Result::unwrap_or is in prelude/head.rs)
pub assume_specification<T>[ Option::<Option<T>>::flatten ](o: Option<Option<T>>) -> (r: Option<T>)
    ensures r == (match o { Some(x) => x, None => None::<T> });
/// some key of the blocked client holds an element
pub open spec fn some_key_ready(m: ListModel, db: usize, keys: Seq<(DatabaseIndex, Vec<u8>)>) -> bool {
    exists|j: int| 0 <= j < keys.len() && list_of(m, db, (#[trigger] keys[j]).1@).len() > 0
}
pub struct PubSubStub { pub subs: Ghost<Set<u64>> }
impl PubSubStub {
    /// ASSUMED CONTRACT (pubsub.rs PubSubManager::unsubscribe_all: takes the connection out of every channel and pattern set
    /// (its two loop bodies are under contract in c14_pubsub: unsub_all_channel_step / unsub_all_pattern_step) and ends with
    /// `conn_subs.remove(&connection_id)`; the HashMap::iter_mut loops themselves have no vstd specification)
    #[verifier::external_body]
    pub fn unsubscribe_all(&mut self, id: u64) -> (r: Result<()>) ensures final(self).subs@ == old(self).subs@.remove(id), { unimplemented!() }
    /// ASSUMED CONTRACT (pubsub.rs PubSubManager::is_subscribed: `conn_subs.contains_key(&connection_id)`)
    #[verifier::external_body]
    pub fn is_subscribed(&self, id: u64) -> (r: bool) ensures r == self.subs@.contains(id), { unimplemented!() }
}
pub struct MonitorStub { pub g: Ghost<int> }
impl MonitorStub { #[verifier::external_body] pub fn unsubscribe(&mut self, id: u64) -> (r: Result<()>) { unimplemented!() } }
pub struct RemovedConn { pub addr: u64 }
impl ConnModel {
    /// ShardedConnections::remove
    #[verifier::external_body]
    pub fn remove(&mut self, id: u64) -> (r: Option<RemovedConn>)
        ensures r is Some == old(self).map@.contains_key(id), final(self).map@ == old(self).map@.remove(id),
    { unimplemented!() }
}
impl ListModel {
    /// StorageEngine::database_count
    #[verifier::external_body]
    pub fn database_count(&self) -> (r: usize) ensures r == spec_db_count(), { unimplemented!() }
}
pub uninterp spec fn spec_db_count() -> usize;
/// whether the peer of a connection has closed its socket (Connection::peer_closed: a non-consuming peek that reads EOF)
pub uninterp spec fn peer_gone(c: Connection) -> bool;
impl Connection {
    #[verifier::external_body]
    pub fn peer_closed(&self) -> (r: bool) ensures r == peer_gone(*self), { unimplemented!() }
}
/// `a == b` on ConnectionState (#[derive(PartialEq)], dropped by R4; R7 operator site)
#[verifier::external_body]
pub fn verif_state_eq(a: &ConnectionState, b: &ConnectionState) -> (r: bool) ensures r == (*a == *b), { unimplemented!() }
impl Connection {
//@@ unit is_closing fn src/network/connection.rs Connection::is_closing
//@@   rewrite R7 "self.state == ConnectionState::Closing" verif_state_eq byref
    pub fn is_closing(&self) -> (r: bool)
        ensures r == (self.state is Closing),
//@@ body
//@@ end
}
pub struct Server { pub storage: ListModel, pub connections: ConnModel, pub blocking_manager: BlockRegModel, pub pubsub: PubSubStub, pub monitor_subscribers: MonitorStub }

/// the reply a served BLPOP/BRPOP client gets: [key, element]
pub open spec fn served_reply(f: RespFrame, key: Seq<u8>, x: Seq<u8>) -> bool {
    f matches RespFrame::Array(Some(v)) && v@.len() == 2
        && (v@[0] matches RespFrame::BulkString(Some(a)) && a@ == key)
        && (v@[1] matches RespFrame::BulkString(Some(b)) && b@ == x)
}
/// C13 conservation law for one wake-up: the element taken from the list for a blocked client is either handed to that
/// client (exactly one reply [key, element], and the client leaves the blocked state) or it is back in the list at the end
/// it came from — it never vanishes
pub open spec fn wake_conserves(o: Server, f: Server, w: WakeupRequest, left: bool) -> bool {
    let l = list_of(o.storage, w.db, w.key@);
    others_same(o.storage, f.storage, w.db, w.key@)
    && (forall|c: u64| c != w.conn_id && #[trigger] o.connections.map@.contains_key(c) ==> f.connections.map@.contains_key(c) && f.connections.map@[c] == o.connections.map@[c])
    && (list_of(f.storage, w.db, w.key@) =~= l && (o.connections.map@.contains_key(w.conn_id) ==> f.connections.map@.contains_key(w.conn_id) && f.connections.map@[w.conn_id].out.sent@ == o.connections.map@[w.conn_id].out.sent@)
        || (l.len() > 0 && o.connections.map@.contains_key(w.conn_id) && f.connections.map@.contains_key(w.conn_id)
            && list_of(f.storage, w.db, w.key@) =~= (if left { l.drop_first() } else { l.drop_last() })
            && f.connections.map@[w.conn_id].out.sent@.len() == o.connections.map@[w.conn_id].out.sent@.len() + 1
            && f.connections.map@[w.conn_id].out.sent@.take(o.connections.map@[w.conn_id].out.sent@.len() as int) =~= o.connections.map@[w.conn_id].out.sent@
            && served_reply(f.connections.map@[w.conn_id].out.sent@.last(), w.key@, if left { l[0] } else { l.last() })
            && (o.connections.map@[w.conn_id].state is Blocked) && f.connections.map@[w.conn_id].state == ConnectionState::Authenticated))
}

pub open spec fn pop_first_nonempty(o: Server, f: Server, keys: Seq<Vec<u8>>, db: usize, r: Result<RespFrame>, left: bool) -> bool {
    r is Ok ==> (
        if r->Ok_0 is NoResponse {
            // nothing to serve: every key's list is empty and nothing was popped
            (forall|j: int| 0 <= j < keys.len() ==> list_of(o.storage, db, (#[trigger] keys[j])@).len() == 0)
            && (forall|d: usize, k: Seq<u8>| #[trigger] list_of(f.storage, d, k) == list_of(o.storage, d, k))
        } else {
            exists|i: int| 0 <= i < keys.len()
                && (forall|j: int| 0 <= j < i ==> list_of(o.storage, db, (#[trigger] keys[j])@).len() == 0)
                && list_of(o.storage, db, keys[i]@).len() > 0
                && served_reply(r->Ok_0, keys[i]@, if left { list_of(o.storage, db, keys[i]@)[0] } else { list_of(o.storage, db, keys[i]@).last() })
                && list_of(f.storage, db, keys[i]@) =~= (if left { list_of(o.storage, db, keys[i]@).drop_first() } else { list_of(o.storage, db, keys[i]@).drop_last() })
                && others_same(o.storage, f.storage, db, keys[i]@)
        })
}
/// the closure run on the client's connection entry: a client still blocked gets exactly the reply [key, element] and leaves
/// the blocked state; anything else leaves the entry as it was
pub open spec fn wake_closure(o: Connection, f: Connection, key: Seq<u8>, x: Seq<u8>, delivered: bool) -> bool {
    f.db_index == o.db_index && f.transaction_state == o.transaction_state && f.is_monitoring == o.is_monitoring
    && (if delivered {
            o.state is Blocked && f.state == ConnectionState::Authenticated && f.out.sent@.len() == o.out.sent@.len() + 1
            && f.out.sent@.take(o.out.sent@.len() as int) =~= o.out.sent@ && served_reply(f.out.sent@.last(), key, x)
        } else { f.state == o.state && f.out.sent@ == o.out.sent@ })
}
impl Server {
    /// MODEL of notify_list_push (srv_notify): hands the next waiter of the key to the wake-up queue; touches neither lists nor connections
    #[verifier::external_body]
    fn notify_list_push(&mut self, db: usize, key: &[u8], pushed: usize)
        ensures final(self).storage == old(self).storage, final(self).connections == old(self).connections,
    { unimplemented!() }

// C13 ("blocked clients disconnecting ... no leftover registration that could swallow later elements"), step 1: a blocked
// connection whose peer has gone is marked Closing (blocked connections are not read, so nothing else would notice)
//@@ unit blocked_gone_step loopbody src/network/server.rs Server::process_connections "for id in self.connections.all_connection_ids()"
//@@   rewrite R3
//@@   rewrite RCT "conn.peer_closed()" "()" "final(conn).db_index == old(conn).db_index && final(conn).transaction_state == old(conn).transaction_state && final(conn).out == old(conn).out && (if old(conn).state is Blocked && peer_gone(*old(conn)) { final(conn).state == ConnectionState::Closing } else { final(conn).state == old(conn).state })"
    fn blocked_gone_step(&mut self, id: u64)
        ensures
            final(self).storage == old(self).storage, final(self).blocking_manager == old(self).blocking_manager,
            forall|c: u64| c != id && #[trigger] old(self).connections.map@.contains_key(c) ==> final(self).connections.map@.contains_key(c) && final(self).connections.map@[c] == old(self).connections.map@[c],
            old(self).connections.map@.contains_key(id) ==> final(self).connections.map@.contains_key(id)
                && (if old(self).connections.map@[id].state is Blocked && peer_gone(old(self).connections.map@[id]) { final(self).connections.map@[id].state == ConnectionState::Closing }
                    else { final(self).connections.map@[id].state == old(self).connections.map@[id].state }),
//@@ body
//@@ end

// step 2a (C13 and C14 "after ... disconnecting a client receives nothing more"): EVERY connection in the Closing state is
// selected for removal — whether or not it still holds subscriptions — and no other connection is
//@@ unit cleanup_select_step loopbody src/network/server.rs Server::cleanup_connections "for id in self.connections.all_connection_ids()"
//@@   rewrite R3
//@@   rewrite? RT "continue;" "return;"
//@@   rewrite RCT "conn.is_closing()" "bool" "*final(conn) == *old(conn) && cr == (old(conn).state is Closing)"
    fn cleanup_select_step(&mut self, id: u64, to_remove: &mut Vec<u64>)
        ensures
            final(self).connections.map@ =~= old(self).connections.map@, final(self).pubsub == old(self).pubsub, final(self).blocking_manager == old(self).blocking_manager, final(self).storage == old(self).storage,
            final(to_remove)@ == (if old(self).connections.map@.contains_key(id) && old(self).connections.map@[id].state is Closing { old(to_remove)@.push(id) } else { old(to_remove)@ }),
//@@ body
//@@ end

// step 2b: a connection that cleanup_connections removes leaves no registration in any database's blocking registry and no subscription
//@@ unit cleanup_step loopbody src/network/server.rs Server::cleanup_connections "for id in to_remove"
//@@   rewrite R3
//@@   rewrite RFOR 0 it
//@@   loop 0
//@@|     invariant
//@@|         self.storage == old(self).storage, it.seq().len() == spec_db_count(), forall|i: int| 0 <= i < it.seq().len() ==> it.seq()[i] == i,
//@@|         it.history@ =~= it.seq().take(it.index@),
//@@|         forall|d: usize| d < it.index@ ==> !self.blocking_manager.registered@.contains((d, id)),
//@@|         forall|d: usize, c: u64| c != id ==> (self.blocking_manager.registered@.contains((d, c)) <==> old(self).blocking_manager.registered@.contains((d, c))),
//@@|         self.connections.map@ == old(self).connections.map@.remove(id), self.pubsub == old(self).pubsub,
    fn cleanup_step(&mut self, id: u64)
        ensures
            !final(self).connections.map@.contains_key(id),
            old(self).connections.map@.contains_key(id) ==> final(self).pubsub.subs@ == old(self).pubsub.subs@.remove(id),
            !old(self).connections.map@.contains_key(id) ==> final(self).pubsub == old(self).pubsub,
            old(self).connections.map@.contains_key(id) ==> forall|d: usize| d < spec_db_count() ==> !final(self).blocking_manager.registered@.contains((d, id)),
            forall|d: usize, c: u64| c != id ==> (final(self).blocking_manager.registered@.contains((d, c)) <==> old(self).blocking_manager.registered@.contains((d, c))),
//@@ body
//@@ end

// BLPOP / BRPOP served at once: the keys are tried in argument order; the first one that holds an element gives it up (one
// element, from the left for BLPOP, from the right for BRPOP) and the reply is [that key, that element]; the keys before it
// were empty and nothing else changes. If no key holds an element nothing is popped (the caller then blocks).
//@@ unit blpop_fast_path stmts src/network/server.rs Server::handle_blpop "for key in &keys" upto "let deadline"
//@@   opt same-return-type
//@@   tail Ok(RespFrame::NoResponse)
//@@   rewrite R3
//@@   rewrite RFOR 0 it
//@@   loop 0
//@@|     invariant
//@@|         it.seq().len() == keys@.len(), forall|j: int| 0 <= j < keys@.len() ==> *(#[trigger] it.seq()[j]) == keys@[j],
//@@|         it.history@ =~= it.seq().take(it.index@),
//@@|         forall|d: usize, k: Seq<u8>| #[trigger] list_of(self.storage, d, k) == list_of(old(self).storage, d, k),
//@@|         forall|j: int| 0 <= j < it.index@ ==> list_of(old(self).storage, db_index, (#[trigger] keys@[j])@).len() == 0,
    fn blpop_fast_path(&mut self, keys: Vec<Vec<u8>>, db_index: usize) -> (r: Result<RespFrame>)
        ensures pop_first_nonempty(*old(self), *final(self), keys@, db_index, r, true),
//@@ body
//@@ end

//@@ unit brpop_fast_path stmts src/network/server.rs Server::handle_brpop "for key in &keys" upto "let deadline"
//@@   opt same-return-type
//@@   tail Ok(RespFrame::NoResponse)
//@@   rewrite R3
//@@   rewrite RFOR 0 it
//@@   loop 0
//@@|     invariant
//@@|         it.seq().len() == keys@.len(), forall|j: int| 0 <= j < keys@.len() ==> *(#[trigger] it.seq()[j]) == keys@[j],
//@@|         it.history@ =~= it.seq().take(it.index@),
//@@|         forall|d: usize, k: Seq<u8>| #[trigger] list_of(self.storage, d, k) == list_of(old(self).storage, d, k),
//@@|         forall|j: int| 0 <= j < it.index@ ==> list_of(old(self).storage, db_index, (#[trigger] keys@[j])@).len() == 0,
    fn brpop_fast_path(&mut self, keys: Vec<Vec<u8>>, db_index: usize) -> (r: Result<RespFrame>)
        ensures pop_first_nonempty(*old(self), *final(self), keys@, db_index, r, false),
//@@ body
//@@ end

//@@ unit wake_client fn src/network/server.rs Server::wake_client
//@@   rewrite R3
//@@   params drop "&self" add "&mut self"
//@@   rewrite RT "super::connection::BlockingOp" "BlockingOp"
//@@   rewrite RCT "conn.send_frame(&response)" "bool" "wake_closure(*old(conn), *final(conn), wakeup.key@, popped_value@, cr)"
//@@   rewrite RCT "ConnectionState::Blocked(state) => Some(state.clone())," "Option<BlockedState>" "*final(conn) == *old(conn) && cr == (match old(conn).state { ConnectionState::Blocked(s) => Some(s), _ => None::<BlockedState> })"
//@@   rewrite RXPR "state.keys.iter().map(|(_, key)| key.clone()).collect()" "verif_key_names(&state.keys)"
//@@   rewrite RFORS 0
//@@   loop 0
//@@|     invariant_except_break
//@@|         self.blocking_manager.registered@.contains((wakeup.db, wakeup.conn_id)),
//@@|     invariant
//@@|         key__n <= keys@.len(), forall|d: usize, k: Seq<u8>| #[trigger] list_of(self.storage, d, k) == list_of(old(self).storage, d, k), self.connections.map@ =~= old(self).connections.map@,
//@@|         keys@.len() == state.keys@.len(), forall|j: int| 0 <= j < keys@.len() ==> (#[trigger] keys@[j])@ == state.keys@[j].1@,
//@@|     ensures
//@@|         self.blocking_manager.registered@.contains((wakeup.db, wakeup.conn_id)) || some_key_ready(old(self).storage, wakeup.db, state.keys@),
//@@|     decreases keys@.len() - key__n,
//@@   at "self.notify_list_push(wakeup.db, key, 1);" #0
//@@|     proof { assert(list_of(old(self).storage, wakeup.db, state.keys@[key__n as int - 1].1@).len() > 0); }
    fn wake_client(&mut self, wakeup: WakeupRequest) -> (r: Result<()>)
        ensures
            // (an Err result means the storage engine itself refused the pop or the put-back and says so to the caller)
            r is Ok && wakeup.op_type is BLPop ==> wake_conserves(*old(self), *final(self), wakeup, true),
            r is Ok && wakeup.op_type is BRPop ==> wake_conserves(*old(self), *final(self), wakeup, false),
            // C13 "never strand a client": the list was found empty (somebody else took the element) and the client is still blocked — it waits
            // again (a registration in its database, so that later pushes reach it and its timeout fires) unless one of its keys holds an
            // element by now, in which case that key has been announced again
            r is Ok && !(wakeup.op_type is XReadBlock) && list_of(old(self).storage, wakeup.db, wakeup.key@).len() == 0
                && old(self).connections.map@.contains_key(wakeup.conn_id) && (old(self).connections.map@[wakeup.conn_id].state matches ConnectionState::Blocked(s))
                ==> final(self).blocking_manager.registered@.contains((wakeup.db, wakeup.conn_id))
                    || some_key_ready(old(self).storage, wakeup.db, (old(self).connections.map@[wakeup.conn_id].state->Blocked_0).keys@),
//@@ body
//@@ end
}

} // verus!
fn main() {}
