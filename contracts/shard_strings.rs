//@@ include contracts/inc_shard_header.rs
//@@ include contracts/inc_value_units.rs
//@@ include prelude/vec_bytes.rs
//@@ include spec/strings.rs
verus! {
impl StorageEngine {

//@@ unit append fn src/storage/engine.rs StorageEngine::append
//@@   params drop "db: DatabaseIndex" add "shard_guard: &mut DatabaseShard"
//@@   rewrite R2
    fn append(&self, shard_guard: &mut DatabaseShard, key: Key, value: Vec<u8>) -> (r: Result<usize>)
        ensures
            step_ok(eff(*old(shard_guard), key), sv(*final(shard_guard)), key),
            r is Err ==> unchanged(eff(*old(shard_guard), key), sv(*final(shard_guard))),
            // absent: created with the value
            !eff(*old(shard_guard), key).data.contains_key(key) ==> r == Ok::<usize, FerrousError>(value@.len() as usize)
                && sv(*final(shard_guard)).data.contains_key(key) && sv(*final(shard_guard)).data[key].value == Value::String(value)
                && sv(*final(shard_guard)).data[key].metadata.expires_at is None,
            // present: string grows at the end, TTL survives; any other type is refused
            eff(*old(shard_guard), key).data.contains_key(key) ==> (match eff(*old(shard_guard), key).data[key].value {
                Value::String(b) => r == Ok::<usize, FerrousError>((b@.len() + value@.len()) as usize)
                    && sv(*final(shard_guard)).data.contains_key(key)
                    && (sv(*final(shard_guard)).data[key].value matches Value::String(nb) && nb@ == b@ + value@)
                    && sv(*final(shard_guard)).data[key].metadata == eff(*old(shard_guard), key).data[key].metadata,
                _ => r is Err,
            }),
//@@ body
//@@ end

//@@ unit getrange fn src/storage/engine.rs StorageEngine::getrange
//@@   params drop "db: DatabaseIndex" add "shard_guard: &mut DatabaseShard"
//@@   rewrite R2
    fn getrange(&self, shard_guard: &mut DatabaseShard, key: &[u8], start: isize, end: isize) -> (r: Result<Vec<u8>>)
        ensures
            unchanged(eff(*old(shard_guard), key_of(key@)), sv(*final(shard_guard))),
            !eff(*old(shard_guard), key_of(key@)).data.contains_key(key_of(key@)) ==> (r matches Ok(v) && v@.len() == 0),
            eff(*old(shard_guard), key_of(key@)).data.contains_key(key_of(key@)) ==> (match eff(*old(shard_guard), key_of(key@)).data[key_of(key@)].value {
                Value::String(b) => r matches Ok(v) && v@ == spec_getrange(b@, start as int, end as int),
                _ => r is Err,
            }),
//@@ body
//@@ end

// setrange: Verus cannot relate `bytes[a..b].copy_from_slice(..)` (range IndexMut temporary) back to `bytes` — see
// DESIGN §C01; the function is covered by the bounded Kani twin contracts/kani/setrange.rs instead. Its size guard is here:
//@@ unit setrange_guard stmts src/storage/engine.rs StorageEngine::setrange "let within_limit" upto "let shard"
//@@   opt same-return-type
//@@   tail Ok(offset + value.len())
    fn setrange_guard(&self, offset: usize, value: &Vec<u8>) -> (r: Result<usize>)
        ensures
            offset + value@.len() > 536870912 ==> r is Err,          // longer than the 512MB string limit: refused before anything is touched
            offset + value@.len() <= 536870912 ==> r == Ok::<usize, FerrousError>((offset + value@.len()) as usize),
//@@ body
//@@ end

//@@ unit key_type fn src/storage/engine.rs StorageEngine::key_type
//@@   params drop "db: DatabaseIndex" add "shard_guard: &mut DatabaseShard"
//@@   rewrite R2
//@@   rewrite RCALL to_string type_name verif_str_to_string
//@@   rewrite RCALL to_string "\"none\"" verif_str_to_string
    fn key_type(&self, shard_guard: &mut DatabaseShard, key: &[u8]) -> (r: Result<String>)
        ensures            unchanged(eff(*old(shard_guard), key_of(key@)), sv(*final(shard_guard))),
 r is Ok,
//@@ body
//@@ end
}
#[verifier::external_body]
pub fn verif_str_to_string(s: &str) -> (r: String)
{ s.to_string() }

} // verus!
fn main() {}
