//@@ include contracts/inc_srv_header.rs
//@@ include prelude/lossy.rs
//@@ include prelude/strnum.rs
//@@ include prelude/lossy_parse.rs
use std::time::Duration;
verus! {
// C06 / C13: the timeout argument of BLPOP / BRPOP is a float a client chooses. std's Duration::from_secs_f64 PANICS on a value that is negative,
// not finite or too large, and `Instant + Duration` panics when the sum cannot be represented: both are stated here as PRECONDITIONS of the std
// functions, so that the unit's safety obligations say "no timeout text whatsoever reaches them outside their domain".
pub uninterp spec fn f64_is_nan(x: f64) -> bool;
pub assume_specification[ f64::is_nan ](x: f64) -> (r: bool) ensures r == f64_is_nan(x);
/// the float is a non-negative finite number of seconds that fits a Duration (std's documented domain of from_secs_f64)
pub uninterp spec fn secs_fit_duration(x: f64) -> bool;
pub assume_specification[ Duration::from_secs_f64 ](secs: f64) -> (r: Duration)
    requires secs_fit_duration(secs);
#[verifier::external_type_specification]
#[verifier::external_body]
pub struct ExTryFromFloatSecsError(std::time::TryFromFloatSecsError);
/// total: an error instead of a panic outside the domain
pub assume_specification[ Duration::try_from_secs_f64 ](secs: f64) -> (r: std::result::Result<Duration, std::time::TryFromFloatSecsError>)
    ensures r is Ok <==> secs_fit_duration(secs);

//@@ unit blpop_timeout stmts src/network/server.rs Server::handle_blpop "let timeout = match &parts[parts.len() - 1]" upto "let mut keys"
//@@   opt same-return-type
//@@   tail Ok(verif_timeout_frame(timeout))
//@@   rewrite RCALL parse "timeout_str" verif_cow_parse
//@@   rewrite RT "Ok(0.0) => None," "Ok(t) if t == 0.0 => None,"
fn blpop_timeout(parts: &[RespFrame]) -> (r: Result<RespFrame>)
    requires parts@.len() >= 3,
    ensures r is Ok,
//@@ body
//@@ end

//@@ unit brpop_timeout stmts src/network/server.rs Server::handle_brpop "let timeout = match &parts[parts.len() - 1]" upto "let mut keys"
//@@   opt same-return-type
//@@   tail Ok(verif_timeout_frame(timeout))
//@@   rewrite RCALL parse "timeout_str" verif_cow_parse
//@@   rewrite RT "Ok(0.0) => None," "Ok(t) if t == 0.0 => None,"
fn brpop_timeout(parts: &[RespFrame]) -> (r: Result<RespFrame>)
    requires parts@.len() >= 3,
    ensures r is Ok,
//@@ body
//@@ end

/// (unit plumbing: lets the fragment end in a value)
#[verifier::external_body]
pub fn verif_timeout_frame(t: Option<Duration>) -> RespFrame { unimplemented!() }
} // verus!
fn main() {}
