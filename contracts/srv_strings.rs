//@@ include contracts/inc_cmd_header.rs
//@@ include prelude/str_eq.rs
verus! {
/// STUB of the monitoring facade (counters only)
pub struct MonStub { pub g: Ghost<int> }
impl MonStub {
    #[verifier::external_body] pub fn is_enabled(&self) -> bool { unimplemented!() }
    #[verifier::external_body] pub fn record_cache_hit(&self, hit: bool) { unimplemented!() }
}
/// MODEL of Server for the string/key handlers in server.rs: the storage engine model (prelude/engine_model.rs) and monitoring
pub struct Server { pub storage: EngineModel, pub monitoring: MonStub }
/// `e.to_string()` on the crate's error type (Display; RCALL site)
#[verifier::external_body]
pub fn verif_err_to_string(e: FerrousError) -> String { unimplemented!() }
/// malformed command: an error reply, dataset and TTLs exactly as they were
pub open spec fn refused(r: Result<RespFrame>, o: Server, f: Server) -> bool {
    (r matches Ok(fr) && fr is Error) && f.storage.ds@ == o.storage.ds@ && f.storage.ttl@ == o.storage.ttl@
}
/// reply and dataset as prescribed, TTLs as prescribed
pub open spec fn done(r: Result<RespFrame>, f: Server, spec: (RV, DS), ttl: TTL) -> bool {
    (r matches Ok(fr) && reply_matches(fr, spec.0)) && f.storage.ds@ == spec.1 && f.storage.ttl@ == ttl
}

impl Server {
//@@ unit handle_get fn src/network/server.rs Server::handle_get
//@@   rewrite R3
//@@   params drop "&self" add "&mut self"
    fn handle_get(&mut self, parts: &[RespFrame], db: usize) -> (r: Result<RespFrame>)
        ensures
            (parts@.len() != 2 || arg(parts@, 1) is None) ==> refused(r, *old(self), *final(self)),
            // GET of any key, the empty key included (binary-safe key space): the string, nil if absent, refused on another type
            parts@.len() == 2 && arg(parts@, 1) is Some ==> final(self).storage.ds@ == old(self).storage.ds@ && final(self).storage.ttl@ == old(self).storage.ttl@
                && (match ds_get(old(self).storage.ds@, db as int, arg(parts@, 1)->Some_0) {
                    None => r matches Ok(f) && f == RespFrame::BulkString(None),
                    Some(DV::Str(b)) => r matches Ok(f) && bulk_reply(f) == Some(Some(b)),
                    Some(_) => !(r matches Ok(f) && !(f is Error)),
                }),
//@@ body
//@@ end

//@@ unit handle_incr fn src/network/server.rs Server::handle_incr
//@@   rewrite R3
//@@   params drop "&self" add "&mut self"
//@@   rewrite RCALL to_string "e" verif_err_to_string
    fn handle_incr(&mut self, parts: &[RespFrame], db: usize) -> (r: Result<RespFrame>)
        ensures
            (parts@.len() != 2 || arg(parts@, 1) is None) ==> refused(r, *old(self), *final(self)),
            parts@.len() == 2 && arg(parts@, 1) is Some ==> done(r, *final(self), spec_incrby(old(self).storage.ds@, db as int, arg(parts@, 1)->Some_0, 1i64), old(self).storage.ttl@),
//@@ body
//@@ end

//@@ unit handle_decr fn src/network/server.rs Server::handle_decr
//@@   rewrite R3
//@@   params drop "&self" add "&mut self"
//@@   rewrite RCALL to_string "e" verif_err_to_string
    fn handle_decr(&mut self, parts: &[RespFrame], db: usize) -> (r: Result<RespFrame>)
        ensures
            (parts@.len() != 2 || arg(parts@, 1) is None) ==> refused(r, *old(self), *final(self)),
            parts@.len() == 2 && arg(parts@, 1) is Some ==> done(r, *final(self), spec_incrby(old(self).storage.ds@, db as int, arg(parts@, 1)->Some_0, -1i64), old(self).storage.ttl@),
//@@ body
//@@ end

//@@ unit handle_incrby fn src/network/server.rs Server::handle_incrby
//@@   rewrite R3
//@@   params drop "&self" add "&mut self"
//@@   rewrite RCALL to_string "e" verif_err_to_string
//@@   rewrite RCALL parse "String::from_utf8_lossy(bytes)" verif_cow_parse
    fn handle_incrby(&mut self, parts: &[RespFrame], db: usize) -> (r: Result<RespFrame>)
        ensures
            (parts@.len() != 3 || arg(parts@, 1) is None || num_arg::<i64>(parts@, 2) is None) ==> refused(r, *old(self), *final(self)),
            parts@.len() == 3 && arg(parts@, 1) is Some && num_arg::<i64>(parts@, 2) is Some ==>
                done(r, *final(self), spec_incrby(old(self).storage.ds@, db as int, arg(parts@, 1)->Some_0, num_arg::<i64>(parts@, 2)->Some_0), old(self).storage.ttl@),
//@@ body
//@@ end

//@@ unit handle_decrby fn src/network/server.rs Server::handle_decrby
//@@   rewrite R3
//@@   params drop "&self" add "&mut self"
//@@   rewrite RCALL to_string "e" verif_err_to_string
//@@   rewrite RCALL parse "String::from_utf8_lossy(bytes)" verif_cow_parse
    fn handle_decrby(&mut self, parts: &[RespFrame], db: usize) -> (r: Result<RespFrame>)
        ensures
            (parts@.len() != 3 || arg(parts@, 1) is None || num_arg::<i64>(parts@, 2) is None) ==> refused(r, *old(self), *final(self)),
            // a decrement whose negation does not fit (i64::MIN) is an overflow: refused
            parts@.len() == 3 && arg(parts@, 1) is Some && num_arg::<i64>(parts@, 2) == Some(i64::MIN) ==> refused(r, *old(self), *final(self)),
            parts@.len() == 3 && arg(parts@, 1) is Some && num_arg::<i64>(parts@, 2) is Some && num_arg::<i64>(parts@, 2) != Some(i64::MIN) ==>
                done(r, *final(self), spec_incrby(old(self).storage.ds@, db as int, arg(parts@, 1)->Some_0, (-(num_arg::<i64>(parts@, 2)->Some_0)) as i64), old(self).storage.ttl@),
//@@ body
//@@ end

//@@ unit handle_setnx fn src/network/server.rs Server::handle_setnx
//@@   rewrite R3
//@@   params drop "&self" add "&mut self"
//@@   rewrite RT "self.storage.set_string(" "self.storage.set_string_t("
    fn handle_setnx(&mut self, parts: &[RespFrame], db: usize) -> (r: Result<RespFrame>)
        ensures
            (parts@.len() != 3 || arg(parts@, 1) is None || arg(parts@, 2) is None) ==> refused(r, *old(self), *final(self)),
            parts@.len() == 3 && arg(parts@, 1) is Some && arg(parts@, 2) is Some && (r is Ok || !mem_exhausted(old(self).storage)) ==> ({
                let k = arg(parts@, 1)->Some_0; let v = arg(parts@, 2)->Some_0;
                if old(self).storage.ds@.contains_key((db as int, k)) { done(r, *final(self), (RV::Int(0), old(self).storage.ds@), old(self).storage.ttl@) }
                else { done(r, *final(self), (RV::Int(1), old(self).storage.ds@.insert((db as int, k), DV::Str(v))), old(self).storage.ttl@.remove((db as int, k))) }
            }),
//@@ body
//@@ end

//@@ unit handle_setex fn src/network/server.rs Server::handle_setex
//@@   rewrite R3
//@@   params drop "&self" add "&mut self"
//@@   rewrite RCALL parse "String::from_utf8_lossy(bytes)" verif_cow_parse
    fn handle_setex(&mut self, parts: &[RespFrame], db: usize) -> (r: Result<RespFrame>)
        ensures
            // malformed, or an expire time that is not a positive integer: refused
            (parts@.len() != 4 || arg(parts@, 1) is None || num_arg::<u64>(parts@, 2) is None || num_arg::<u64>(parts@, 2) == Some(0u64) || arg(parts@, 3) is None) ==> refused(r, *old(self), *final(self)),
            parts@.len() == 4 && arg(parts@, 1) is Some && num_arg::<u64>(parts@, 2) is Some && num_arg::<u64>(parts@, 2) != Some(0u64) && arg(parts@, 3) is Some && (r is Ok || !mem_exhausted(old(self).storage)) ==> ({
                let k = arg(parts@, 1)->Some_0; let v = arg(parts@, 3)->Some_0;
                done(r, *final(self), (RV::Okay, old(self).storage.ds@.insert((db as int, k), DV::Str(v))), old(self).storage.ttl@.insert((db as int, k), num_arg::<u64>(parts@, 2)->Some_0 as int * 1_000_000_000))
            }),
//@@ body
//@@ end

//@@ unit handle_psetex fn src/network/server.rs Server::handle_psetex
//@@   rewrite R3
//@@   params drop "&self" add "&mut self"
//@@   rewrite RCALL parse "String::from_utf8_lossy(bytes)" verif_cow_parse
    fn handle_psetex(&mut self, parts: &[RespFrame], db: usize) -> (r: Result<RespFrame>)
        ensures
            // malformed, or an expire time that is not a positive integer: refused
            (parts@.len() != 4 || arg(parts@, 1) is None || num_arg::<u64>(parts@, 2) is None || num_arg::<u64>(parts@, 2) == Some(0u64) || arg(parts@, 3) is None) ==> refused(r, *old(self), *final(self)),
            parts@.len() == 4 && arg(parts@, 1) is Some && num_arg::<u64>(parts@, 2) is Some && num_arg::<u64>(parts@, 2) != Some(0u64) && arg(parts@, 3) is Some && (r is Ok || !mem_exhausted(old(self).storage)) ==> ({
                let k = arg(parts@, 1)->Some_0; let v = arg(parts@, 3)->Some_0;
                done(r, *final(self), (RV::Okay, old(self).storage.ds@.insert((db as int, k), DV::Str(v))), old(self).storage.ttl@.insert((db as int, k), num_arg::<u64>(parts@, 2)->Some_0 as int * 1_000_000))
            }),
//@@ body
//@@ end

//@@ unit handle_expire fn src/network/server.rs Server::handle_expire
//@@   rewrite R3
//@@   params drop "&self" add "&mut self"
//@@   rewrite RCALL parse "String::from_utf8_lossy(bytes)" verif_cow_parse
    fn handle_expire(&mut self, parts: &[RespFrame], db: usize) -> (r: Result<RespFrame>)
        ensures
            (parts@.len() != 3 || arg(parts@, 1) is None || num_arg::<i64>(parts@, 2) is None) ==> refused(r, *old(self), *final(self)),
            parts@.len() == 3 && arg(parts@, 1) is Some && num_arg::<i64>(parts@, 2) is Some && (r is Ok || !mem_exhausted(old(self).storage)) ==> ({
                let k = arg(parts@, 1)->Some_0; let s = num_arg::<i64>(parts@, 2)->Some_0;
                let present = old(self).storage.ds@.contains_key((db as int, k));
                if s <= 0 {
                    // a deadline that is not in the future: the key is deleted at once
                    done(r, *final(self), (RV::Int(if present { 1int } else { 0int }), old(self).storage.ds@.remove((db as int, k))), old(self).storage.ttl@.remove((db as int, k)))
                } else {
                    done(r, *final(self), (RV::Int(if present { 1int } else { 0int }), old(self).storage.ds@),
                        if present { old(self).storage.ttl@.insert((db as int, k), s as int * 1_000_000_000) } else { old(self).storage.ttl@ })
                }
            }),
//@@ body
//@@ end

//@@ unit handle_set fn src/network/server.rs Server::handle_set
//@@   rewrite R3
//@@   params drop "&self" add "&mut self"
//@@   rewrite RT "self.storage.set_string(" "self.storage.set_string_t("
//@@   rewrite RXPR "String::from_utf8_lossy(option).to_uppercase()" "verif_upper(option)"
//@@   rewrite RPCALL "String::from_utf8" verif_from_utf8
//@@   rewrite RCALL parse "seconds_str" verif_parse_u64
//@@   rewrite RCALL parse "millis_str" verif_parse_u64
//@@   loop 0
//@@|     invariant
//@@|         3 <= i <= parts@.len() + 1, parts@.len() >= 3,
//@@|         self.storage == old(self).storage,
//@@|         set_opts(parts@, 3, SetOpts { exp: None, nx: false, xx: false }) == set_opts(parts@, i as int, SetOpts { exp: (match expiration { Some(d) => Some(dur_nanos(d)), None => None }), nx: nx, xx: xx }),
//@@|     decreases parts@.len() + 1 - i,
//@@   loopstart 0
//@@|     proof { broadcast use group_str_eq; reveal_with_fuel(set_opts, 2); }
    fn handle_set(&mut self, parts: &[RespFrame], db: usize) -> (r: Result<RespFrame>)
        ensures
            (parts@.len() < 3 || arg(parts@, 1) is None || arg(parts@, 2) is None) ==> refused(r, *old(self), *final(self)),
            parts@.len() >= 3 && arg(parts@, 1) is Some && arg(parts@, 2) is Some ==> (match set_opts(parts@, 3, SetOpts { exp: None, nx: false, xx: false }) {
                // bad option syntax, an expire time that is not a positive integer, or NX together with XX: refused
                None => refused(r, *old(self), *final(self)),
                Some(o) => if o.nx && o.xx { refused(r, *old(self), *final(self)) } else {
                    (r is Ok || !mem_exhausted(old(self).storage)) ==> ({
                        let s = spec_set(old(self).storage.ds@, old(self).storage.ttl@, db as int, arg(parts@, 1)->Some_0, arg(parts@, 2)->Some_0, o);
                        (r matches Ok(fr) && reply_matches(fr, s.0)) && final(self).storage.ds@ == s.1 && final(self).storage.ttl@ == s.2
                    })
                },
            }),
//@@ body
//@@ end

//@@ unit handle_del fn src/network/server.rs Server::handle_del
//@@   rewrite R3
//@@   params drop "&self" add "&mut self"
//@@   rewrite RFORC 0
//@@   loop 0
//@@|     invariant
//@@|         1 <= i__n <= i__end, i__end == parts@.len(), 0 <= deleted < i__n,
//@@|         (deleted as int, self.storage.ds@, self.storage.ttl@) == del_upto(old(self).storage.ds@, old(self).storage.ttl@, db as int, parts@, i__n as int),
//@@|     decreases i__end - i__n,
    fn handle_del(&mut self, parts: &[RespFrame], db: usize) -> (r: Result<RespFrame>)
        ensures
            parts@.len() < 2 ==> refused(r, *old(self), *final(self)),
            parts@.len() >= 2 && (r is Ok || !mem_exhausted(old(self).storage)) ==> ({
                let s = del_upto(old(self).storage.ds@, old(self).storage.ttl@, db as int, parts@, parts@.len() as int);
                r->Ok_0 == RespFrame::Integer(s.0 as i64) && final(self).storage.ds@ == s.1 && final(self).storage.ttl@ == s.2
            }),
//@@ body
//@@ end

//@@ unit handle_exists fn src/network/server.rs Server::handle_exists
//@@   rewrite R3
//@@   params drop "&self" add "&mut self"
//@@   rewrite RFORC 0
//@@   loop 0
//@@|     invariant
//@@|         1 <= i__n <= i__end, i__end == parts@.len(), 0 <= count < i__n,
//@@|         self.storage.ds@ == old(self).storage.ds@, self.storage.ttl@ == old(self).storage.ttl@,
//@@|         count as int == exists_upto(old(self).storage.ds@, db as int, parts@, i__n as int),
//@@|     decreases i__end - i__n,
    fn handle_exists(&mut self, parts: &[RespFrame], db: usize) -> (r: Result<RespFrame>)
        ensures
            parts@.len() < 2 ==> refused(r, *old(self), *final(self)),
            parts@.len() >= 2 ==> final(self).storage.ds@ == old(self).storage.ds@ && final(self).storage.ttl@ == old(self).storage.ttl@
                && r->Ok_0 == RespFrame::Integer(exists_upto(old(self).storage.ds@, db as int, parts@, parts@.len() as int) as i64),
//@@ body
//@@ end

//@@ unit handle_ttl fn src/network/server.rs Server::handle_ttl
//@@   rewrite R3
//@@   params drop "&self" add "&mut self"
    fn handle_ttl(&mut self, parts: &[RespFrame], db: usize) -> (r: Result<RespFrame>)
        ensures
            (parts@.len() != 2 || arg(parts@, 1) is None) ==> refused(r, *old(self), *final(self)),
            parts@.len() == 2 && arg(parts@, 1) is Some && (r is Ok || !mem_exhausted(old(self).storage)) ==> ({
                let k = arg(parts@, 1)->Some_0;
                &&& final(self).storage.ds@ == old(self).storage.ds@ && final(self).storage.ttl@ == old(self).storage.ttl@
                // -2 for an absent key, -1 for a key without TTL
                &&& !old(self).storage.ds@.contains_key((db as int, k)) ==> r->Ok_0 == RespFrame::Integer(-2i64)
                &&& old(self).storage.ds@.contains_key((db as int, k)) && !old(self).storage.ttl@.contains_key((db as int, k)) ==> r->Ok_0 == RespFrame::Integer(-1i64)
                // a key that is there WITH a TTL is never reported absent or persistent: the reply is the remaining time in whole
                // seconds, rounded up (so it is >= 1 while any time remains)
                &&& old(self).storage.ds@.contains_key((db as int, k)) && old(self).storage.ttl@.contains_key((db as int, k)) ==>
                        r->Ok_0 == RespFrame::Integer(ttl_seconds(remaining_ns(old(self).storage, db as int, k)) as i64)
            }),
//@@ body
//@@ end

//@@ unit handle_renamenx fn src/network/server.rs Server::handle_renamenx
//@@   rewrite R3
//@@   params drop "&self" add "&mut self"
//@@   rewrite RCALL to_string "e" verif_err_to_string
    fn handle_renamenx(&mut self, parts: &[RespFrame], db: usize) -> (r: Result<RespFrame>)
        ensures
            (parts@.len() != 3 || arg(parts@, 1) is None || arg(parts@, 2) is None) ==> refused(r, *old(self), *final(self)),
            parts@.len() == 3 && arg(parts@, 1) is Some && arg(parts@, 2) is Some && (r is Ok || !mem_exhausted(old(self).storage)) ==> ({
                let a = (db as int, arg(parts@, 1)->Some_0); let b = (db as int, arg(parts@, 2)->Some_0);
                let ds = old(self).storage.ds@; let ttl = old(self).storage.ttl@;
                if !ds.contains_key(a) { refused(r, *old(self), *final(self)) }                       // no such key
                else if ds.contains_key(b) { done(r, *final(self), (RV::Int(0), ds), ttl) }            // target exists (a == b included): nothing happens
                else { done(r, *final(self), (RV::Int(1), ds.remove(a).insert(b, ds[a])),
                            if ttl.contains_key(a) { ttl.remove(a).insert(b, ttl[a]) } else { ttl.remove(a).remove(b) }) }
            }),
//@@ body
//@@ end
}
//@@ include contracts/inc_set_grammar.rs
} // verus!
fn main() {}
