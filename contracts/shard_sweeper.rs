//@@ include contracts/inc_shard_header.rs
//@@ include contracts/inc_value_units.rs
verus! {

// The sweeper's DELETE phase for one candidate key, verified for an ARBITRARY shard state and an ARBITRARY candidate
// key: this over-approximates every interleaving between the scan phase (read lock) and the delete phase (write lock)
// without modelling threads. Property (C02): "a key that has no TTL (or whose TTL was removed or extended) is never
// deleted by the server on its own" — whatever the scan collected, only keys whose STORED deadline has passed may go.
//@@ unit sweeper_delete_one loopbody src/storage/engine.rs StorageEngine::expiration_cleanup_loop "for key in expired_keys"
fn sweeper_delete_one(engine: &StorageEngine, shard_guard: &mut DatabaseShard, key: Vec<u8>)
    ensures
        step_ok(sv(*old(shard_guard)), sv(*final(shard_guard)), key),
        // never spurious: if the key disappeared, its stored deadline had passed
        sv(*old(shard_guard)).data.contains_key(key) && !sv(*final(shard_guard)).data.contains_key(key) ==> expired(sv(*old(shard_guard)).data[key]),
        // a key that stays is untouched
        sv(*final(shard_guard)).data.contains_key(key) ==> unchanged(sv(*old(shard_guard)), sv(*final(shard_guard))),
        // a candidate whose stored deadline has passed is removed, from the key space and from the index, and marked for WATCH
        sv(*old(shard_guard)).data.contains_key(key) && expired(sv(*old(shard_guard)).data[key]) ==> !sv(*final(shard_guard)).data.contains_key(key)
            && !sv(*final(shard_guard)).exp.contains_key(key) && marks(sv(*final(shard_guard))).contains(key@),
//@@ body
//@@ end


// ======================= RENAME (both branches) =========================
/// two-key frame + WATCH + index contract for a move of `src` to `dst` inside ONE shard
spec fn move_ok(o: SV, f: SV, src: Vec<u8>, dst: Vec<u8>) -> bool {
    &&& f.data.remove(src).remove(dst) =~= o.data.remove(src).remove(dst)
    &&& f.exp.remove(src).remove(dst) =~= o.exp.remove(src).remove(dst)
    &&& marks(f).subset_of(marks(o).insert(src@).insert(dst@))
    &&& marks(o).subset_of(marks(f))
    &&& (index_ok(o) ==> index_ok(f))
}

// same shard: the statements under the shard's write lock (a source key past its deadline is purged first = missing)
//@@ unit rename_same_shard stmts src/storage/engine.rs StorageEngine::rename "let mut shard_guard = old_shard.write().unwrap();"
//@@   rewrite R2
fn rename_same_shard(shard_guard: &mut DatabaseShard, old_key: &[u8], new_key: Key) -> (r: Result<()>)
    ensures
        move_ok(eff(*old(shard_guard), key_of(old_key@)), sv(*final(shard_guard)), key_of(old_key@), new_key),
        // missing (or expired) source: refused, nothing else changes
        !eff(*old(shard_guard), key_of(old_key@)).data.contains_key(key_of(old_key@)) ==> r is Err && unchanged(eff(*old(shard_guard), key_of(old_key@)), sv(*final(shard_guard))),
        // the value AND its TTL travel to the new name; both names are marked for WATCH
        eff(*old(shard_guard), key_of(old_key@)).data.contains_key(key_of(old_key@)) ==> r is Ok
            && sv(*final(shard_guard)).data.contains_key(new_key) && sv(*final(shard_guard)).data[new_key] == old(shard_guard).data@[key_of(old_key@)]
            && (key_of(old_key@) != new_key ==> !sv(*final(shard_guard)).data.contains_key(key_of(old_key@)))
            && marks(sv(*final(shard_guard))).contains(old_key@) && marks(sv(*final(shard_guard))).contains(new_key@),
//@@ body
//@@ end

// different shards: the statements after both write locks are held
//@@ unit rename_cross_shard stmts src/storage/engine.rs StorageEngine::rename "old_guard.purge_if_expired(old_key);"
fn rename_cross_shard(old_guard: &mut DatabaseShard, new_guard: &mut DatabaseShard, old_key: &[u8], new_key: Key) -> (r: Result<()>)
    ensures
        step_ok(eff(*old(old_guard), key_of(old_key@)), sv(*final(old_guard)), key_of(old_key@)),
        step_ok(sv(*old(new_guard)), sv(*final(new_guard)), new_key),
        !eff(*old(old_guard), key_of(old_key@)).data.contains_key(key_of(old_key@)) ==> r is Err && unchanged(eff(*old(old_guard), key_of(old_key@)), sv(*final(old_guard))) && unchanged(sv(*old(new_guard)), sv(*final(new_guard))),
        eff(*old(old_guard), key_of(old_key@)).data.contains_key(key_of(old_key@)) ==> r is Ok
            && !sv(*final(old_guard)).data.contains_key(key_of(old_key@))
            && sv(*final(new_guard)).data.contains_key(new_key) && sv(*final(new_guard)).data[new_key] == old(old_guard).data@[key_of(old_key@)]
            && marks(sv(*final(old_guard))).contains(old_key@) && marks(sv(*final(new_guard))).contains(new_key@),
//@@ body
//@@ end

} // verus!
fn main() {}
