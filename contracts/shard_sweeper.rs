//@@ include contracts/inc_shard_header.rs
//@@ include contracts/inc_value_units.rs
verus! {

// The sweeper's DELETE phase for one candidate key, verified for an ARBITRARY shard state and an ARBITRARY candidate
// key: this over-approximates every interleaving between the scan phase (read lock) and the delete phase (write lock)
// without modelling threads. Property (C02): "a key that has no TTL (or whose TTL was removed or extended) is never
// deleted by the server on its own" — whatever the scan collected, only keys whose STORED deadline has passed may go.
//@@ unit sweeper_delete_one loopbody src/storage/engine.rs StorageEngine::expiration_cleanup_loop "for key in expired_keys"
fn sweeper_delete_one(engine: &StorageEngine, shard_guard: &mut DatabaseShard, key: Vec<u8>)
    ensures
        step_ok(*old(shard_guard), *final(shard_guard), key),
        // never spurious: if the key disappeared, its stored deadline had passed
        old(shard_guard).data@.contains_key(key) && !final(shard_guard).data@.contains_key(key) ==> expired(old(shard_guard).data@[key]),
        // a key that stays is untouched
        final(shard_guard).data@.contains_key(key) ==> unchanged(*old(shard_guard), *final(shard_guard)),
        // a candidate whose stored deadline has passed is removed, from the key space and from the index, and marked for WATCH
        old(shard_guard).data@.contains_key(key) && expired(old(shard_guard).data@[key]) ==> !final(shard_guard).data@.contains_key(key)
            && !final(shard_guard).expiring_keys@.contains_key(key) && marks(*final(shard_guard)).contains(key@),
//@@ body
//@@ end


// ======================= RENAME (both branches) =========================
/// two-key frame + WATCH + index contract for a move of `src` to `dst` inside ONE shard
spec fn move_ok(o: DatabaseShard, f: DatabaseShard, src: Vec<u8>, dst: Vec<u8>) -> bool {
    &&& f.data@.remove(src).remove(dst) =~= o.data@.remove(src).remove(dst)
    &&& f.expiring_keys@.remove(src).remove(dst) =~= o.expiring_keys@.remove(src).remove(dst)
    &&& marks(f).subset_of(marks(o).insert(src@).insert(dst@))
    &&& marks(o).subset_of(marks(f))
    &&& (index_ok(o) ==> index_ok(f))
}

// same shard: the statements under the shard's write lock
//@@ unit rename_same_shard stmts src/storage/engine.rs StorageEngine::rename "let mut shard_guard = old_shard.write().unwrap();"
//@@   rewrite R2
fn rename_same_shard(shard_guard: &mut DatabaseShard, old_key: &[u8], new_key: Key) -> (r: Result<()>)
    ensures
        move_ok(*old(shard_guard), *final(shard_guard), key_of(old_key@), new_key),
        // missing source: refused, nothing changes
        !old(shard_guard).data@.contains_key(key_of(old_key@)) ==> r is Err && unchanged(*old(shard_guard), *final(shard_guard)),
        // the value AND its TTL travel to the new name; both names are marked for WATCH
        old(shard_guard).data@.contains_key(key_of(old_key@)) ==> r is Ok
            && final(shard_guard).data@.contains_key(new_key) && final(shard_guard).data@[new_key] == old(shard_guard).data@[key_of(old_key@)]
            && (key_of(old_key@) != new_key ==> !final(shard_guard).data@.contains_key(key_of(old_key@)))
            && marks(*final(shard_guard)).contains(old_key@) && marks(*final(shard_guard)).contains(new_key@),
//@@ body
//@@ end

// different shards: the statements after both write locks are held
//@@ unit rename_cross_shard stmts src/storage/engine.rs StorageEngine::rename "if let Some(stored_value) = old_guard.data.remove(old_key)"
fn rename_cross_shard(old_guard: &mut DatabaseShard, new_guard: &mut DatabaseShard, old_key: &[u8], new_key: Key) -> (r: Result<()>)
    ensures
        step_ok(*old(old_guard), *final(old_guard), key_of(old_key@)),
        step_ok(*old(new_guard), *final(new_guard), new_key),
        !old(old_guard).data@.contains_key(key_of(old_key@)) ==> r is Err && unchanged(*old(old_guard), *final(old_guard)) && unchanged(*old(new_guard), *final(new_guard)),
        old(old_guard).data@.contains_key(key_of(old_key@)) ==> r is Ok
            && !final(old_guard).data@.contains_key(key_of(old_key@))
            && final(new_guard).data@.contains_key(new_key) && final(new_guard).data@[new_key] == old(old_guard).data@[key_of(old_key@)]
            && marks(*final(old_guard)).contains(old_key@) && marks(*final(new_guard)).contains(new_key@),
//@@ body
//@@ end

} // verus!
fn main() {}
