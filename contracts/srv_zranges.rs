//@@ include contracts/inc_cmd_header.rs
//@@ include prelude/str_eq.rs
verus! {
// ZRANGEBYSCORE / ZREVRANGEBYSCORE / ZCOUNT at handler level (C04): which argument is the lower and which the upper bound, in which direction the
// engine is asked, and whether scores are wanted. The engine side is unit zrangebyscore of shard_zsets (bound order, direction).
/// upper-cased lossy decoding of an option word (`String::from_utf8_lossy(bytes).to_uppercase()`, RXPR site; uninterpreted)
pub uninterp spec fn spec_upper(b: Seq<u8>) -> Seq<char>;
/// `String::from_utf8_lossy(bytes).to_uppercase() == "WITHSCORES"` (RT site, exact text)
#[verifier::external_body]
pub fn verif_is_withscores(b: &Arc<Vec<u8>>) -> (r: bool) ensures r == (spec_upper(b@) == "WITHSCORES"@), { unimplemented!() }
/// what the score-range commands are told for these arguments: (lower bound, upper bound, scores wanted); None = refused
pub open spec fn score_range_args(parts: Seq<RespFrame>, lo_at: int, hi_at: int) -> Option<(f64, f64, bool)> {
    match (num_arg::<f64>(parts, lo_at), num_arg::<f64>(parts, hi_at)) {
        (Some(lo), Some(hi)) => Some((lo, hi, parts.len() == 5 && arg(parts, 4) is Some && spec_upper(arg(parts, 4)->Some_0) == "WITHSCORES"@)),
        _ => None,
    }
}
pub struct MonStub { pub g: Ghost<int> }
pub uninterp spec fn spec_zcount(ds: DS, db: int, key: Seq<u8>, min: f64, max: f64) -> Option<usize>;
impl EngineModel {
    /// ASSUMED CONTRACT (engine.rs StorageEngine::zcount = the length of zrangebyscore(min, max, forward)): a function of the dataset and of the
    /// bounds IN THIS ORDER; None = refused (wrong type)
    #[verifier::external_body]
    pub fn zcount(&mut self, db: usize, key: &[u8], min_score: f64, max_score: f64) -> (r: Result<usize>)
        ensures final(self).ds@ == old(self).ds@, final(self).ttl@ == old(self).ttl@,
            match spec_zcount(old(self).ds@, db as int, key@, min_score, max_score) { Some(n) => r == Ok::<usize, FerrousError>(n), None => r is Err },
    { unimplemented!() }
}
pub struct Server { pub storage: EngineModel, pub monitoring: MonStub }
impl Server {
//@@ unit zrangebyscore_args stmts src/network/server.rs Server::handle_zrangebyscore "let min_score" upto "let members"
//@@   opt same-return-type
//@@   rewrite RCALL parse "String::from_utf8_lossy(bytes)" verif_cow_parse
//@@   rewrite RT "String::from_utf8_lossy(bytes).to_uppercase() == \"WITHSCORES\"" "verif_is_withscores(bytes)"
//@@   tail *out = (min_score, max_score, with_scores); Ok(RespFrame::ok())
    fn zrangebyscore_args(&self, parts: &[RespFrame], out: &mut (f64, f64, bool)) -> (r: Result<RespFrame>)
        requires 4 <= parts@.len() <= 5,
        ensures
            // ZRANGEBYSCORE key min max [WITHSCORES]: argument 2 is the LOWER bound, argument 3 the upper
            score_range_args(parts@, 2, 3) is None ==> (r matches Ok(f) && f is Error) && *final(out) == *old(out),
            score_range_args(parts@, 2, 3) matches Some(a) ==> (r matches Ok(f) && !(f is Error)) && *final(out) == a,
//@@ body
//@@ end
//@@ unit zrevrangebyscore_args stmts src/network/server.rs Server::handle_zrevrangebyscore "let max_score" upto "let members"
//@@   opt same-return-type
//@@   rewrite RCALL parse "String::from_utf8_lossy(bytes)" verif_cow_parse
//@@   rewrite RT "String::from_utf8_lossy(bytes).to_uppercase() == \"WITHSCORES\"" "verif_is_withscores(bytes)"
//@@   tail *out = (min_score, max_score, with_scores); Ok(RespFrame::ok())
    fn zrevrangebyscore_args(&self, parts: &[RespFrame], out: &mut (f64, f64, bool)) -> (r: Result<RespFrame>)
        requires 4 <= parts@.len() <= 5,
        ensures
            // ZREVRANGEBYSCORE key max min [WITHSCORES]: the other way round — argument 3 is the LOWER bound, argument 2 the upper
            score_range_args(parts@, 3, 2) is None ==> (r matches Ok(f) && f is Error) && *final(out) == *old(out),
            score_range_args(parts@, 3, 2) matches Some(a) ==> (r matches Ok(f) && !(f is Error)) && *final(out) == a,
//@@ body
//@@ end
//@@ unit handle_zcount fn src/network/server.rs Server::handle_zcount
//@@   params drop "&self" add "&mut self"
//@@   rewrite R3
//@@   rewrite RCALL parse "String::from_utf8_lossy(bytes)" verif_cow_parse
    fn handle_zcount(&mut self, parts: &[RespFrame], db: usize) -> (r: Result<RespFrame>)
        ensures
            final(self).storage.ds@ == old(self).storage.ds@, final(self).storage.ttl@ == old(self).storage.ttl@,
            (parts@.len() != 4 || arg(parts@, 1) is None || num_arg::<f64>(parts@, 2) is None || num_arg::<f64>(parts@, 3) is None) ==> (r matches Ok(f) && f is Error),
            parts@.len() == 4 && arg(parts@, 1) is Some && num_arg::<f64>(parts@, 2) is Some && num_arg::<f64>(parts@, 3) is Some ==>
                (match spec_zcount(old(self).storage.ds@, db as int, arg(parts@, 1)->Some_0, num_arg::<f64>(parts@, 2)->Some_0, num_arg::<f64>(parts@, 3)->Some_0) {
                    Some(n) => r == Ok::<RespFrame, FerrousError>(RespFrame::Integer(n as i64)),
                    None => !(r matches Ok(f) && !(f is Error)),
                }),
//@@ body
//@@ end
}
} // verus!
fn main() {}
