//@@ include prelude/head.rs
use std::collections::{HashMap, VecDeque};
use std::sync::Arc;
//@@ include prelude/cmp.rs
verus! {
//@@ item src/error.rs FerrousError
//@@ item src/error.rs CommandError
//@@ item src/error.rs StorageError
//@@ item src/error.rs ScriptError
//@@ item src/protocol/resp.rs Bytes
//@@ item src/protocol/resp.rs RespFrame
pub type Result<T> = std::result::Result<T, FerrousError>;
//@@ item src/storage/commands/transactions.rs TransactionState

/// STUB of network::Connection: only the fields the transaction functions may touch. An access to any other field
/// makes the generated file fail to compile (reported as lost anchor, exit 2) — so "nothing else changes" is enforced
/// by construction for the omitted fields.
pub struct Connection {
    pub db_index: usize,
    pub transaction_state: TransactionState,
}

impl RespFrame {
//@@ unit resp_ok fn src/protocol/resp.rs RespFrame::ok
//@@   rewrite RCALL to_vec "b\"OK\"" verif_lit_to_vec
    pub fn ok() -> (r: Self)
        ensures r is SimpleString,
//@@ body
//@@ end
    /// ASSUMED CONTRACT (`impl Into<Vec<u8>>` argument): builds an Error frame
    #[verifier::external_body]
    pub fn error(msg: &str) -> (r: Self)
        ensures r is Error,
    { unimplemented!() }
}
#[verifier::external_body]
pub fn verif_lit_to_vec<const N: usize>(s: &[u8; N]) -> (r: Vec<u8>)
    ensures r@ == s@,
{ s.to_vec() }

//@@ unit handle_multi fn src/storage/commands/transactions.rs handle_multi
pub fn handle_multi(conn: &mut Connection) -> (r: Result<RespFrame>)
    ensures
        r is Ok,
        final(conn).db_index == old(conn).db_index,
        final(conn).transaction_state.watched_keys == old(conn).transaction_state.watched_keys,
        // nested MULTI: an error reply and nothing changes
        old(conn).transaction_state.in_transaction ==> (r->Ok_0 is Error) && *final(conn) == *old(conn),
        // otherwise: the connection is in a transaction with an empty queue
        !old(conn).transaction_state.in_transaction ==> !(r->Ok_0 is Error) && final(conn).transaction_state.in_transaction
            && final(conn).transaction_state.queued_commands@.len() == 0 && !final(conn).transaction_state.aborted,
//@@ body
//@@ end

//@@ unit handle_discard fn src/storage/commands/transactions.rs handle_discard
pub fn handle_discard(conn: &mut Connection) -> (r: Result<RespFrame>)
    ensures
        r is Ok,
        final(conn).db_index == old(conn).db_index,
        !old(conn).transaction_state.in_transaction ==> (r->Ok_0 is Error) && *final(conn) == *old(conn),
        // DISCARD drops the queue and the watches and leaves the transaction
        old(conn).transaction_state.in_transaction ==> !(r->Ok_0 is Error) && !final(conn).transaction_state.in_transaction
            && final(conn).transaction_state.queued_commands@.len() == 0 && final(conn).transaction_state.watched_keys@.len() == 0
            && !final(conn).transaction_state.aborted,
//@@ body
//@@ end

//@@ unit queue_command fn src/storage/commands/transactions.rs queue_command
//@@   rewrite RCALL to_vec "b\"QUEUED\"" verif_lit_to_vec
pub fn queue_command(conn: &mut Connection, parts: Vec<RespFrame>) -> (r: Result<RespFrame>)
    ensures
        r is Ok, r->Ok_0 is SimpleString,
        // queued in order, nothing executed, nothing else touched
        final(conn).transaction_state.queued_commands@ == old(conn).transaction_state.queued_commands@.push(parts),
        final(conn).transaction_state.in_transaction == old(conn).transaction_state.in_transaction,
        final(conn).transaction_state.watched_keys == old(conn).transaction_state.watched_keys,
        final(conn).transaction_state.aborted == old(conn).transaction_state.aborted,
        final(conn).db_index == old(conn).db_index,
//@@ body
//@@ end

} // verus!
fn main() {}
