//@@ include prelude/head.rs
use std::collections::{HashMap, VecDeque};
use std::sync::Arc;
//@@ include prelude/cmp.rs
//@@ include prelude/hash_keys.rs
//@@ include prelude/arc.rs
//@@ include prelude/clone_take.rs
verus! {
broadcast use {group_byte_keys, group_clone_take, vstd::std_specs::hash::group_hash_axioms};
//@@ item src/error.rs FerrousError
//@@ item src/error.rs CommandError
//@@ item src/error.rs StorageError
//@@ item src/error.rs ScriptError
//@@ item src/protocol/resp.rs Bytes
//@@ item src/protocol/resp.rs RespFrame
pub type Result<T> = std::result::Result<T, FerrousError>;
//@@ item src/storage/commands/transactions.rs TransactionState

/// STUB of network::Connection: only the fields the transaction functions may touch. An access to any other field
/// makes the generated file fail to compile (reported as lost anchor, exit 2) — so "nothing else changes" is enforced
/// by construction for the omitted fields.
pub struct Connection {
    pub db_index: usize,
    pub transaction_state: TransactionState,
}

impl RespFrame {
//@@ unit resp_ok fn src/protocol/resp.rs RespFrame::ok
//@@   rewrite RCALL to_vec "b\"OK\"" verif_lit_to_vec
    pub fn ok() -> (r: Self)
        ensures r is SimpleString,
//@@ body
//@@ end
    /// ASSUMED CONTRACT (`impl Into<Vec<u8>>` argument): builds an Error frame
    #[verifier::external_body]
    pub fn error(msg: &str) -> (r: Self)
        ensures r is Error,
    { unimplemented!() }
}
#[verifier::external_body]
pub fn verif_lit_to_vec<const N: usize>(s: &[u8; N]) -> (r: Vec<u8>)
    ensures r@ == s@,
{ s.to_vec() }

//@@ unit handle_multi fn src/storage/commands/transactions.rs handle_multi
pub fn handle_multi(conn: &mut Connection) -> (r: Result<RespFrame>)
    ensures
        r is Ok,
        final(conn).db_index == old(conn).db_index,
        final(conn).transaction_state.watched_keys == old(conn).transaction_state.watched_keys,
        // nested MULTI: an error reply and nothing changes
        old(conn).transaction_state.in_transaction ==> (r->Ok_0 is Error) && *final(conn) == *old(conn),
        // otherwise: the connection is in a transaction with an empty queue
        !old(conn).transaction_state.in_transaction ==> !(r->Ok_0 is Error) && final(conn).transaction_state.in_transaction
            && final(conn).transaction_state.queued_commands@.len() == 0 && !final(conn).transaction_state.aborted,
//@@ body
//@@ end

//@@ unit handle_discard fn src/storage/commands/transactions.rs handle_discard
pub fn handle_discard(conn: &mut Connection) -> (r: Result<RespFrame>)
    ensures
        r is Ok,
        final(conn).db_index == old(conn).db_index,
        !old(conn).transaction_state.in_transaction ==> (r->Ok_0 is Error) && *final(conn) == *old(conn),
        // DISCARD drops the queue and the watches and leaves the transaction
        old(conn).transaction_state.in_transaction ==> !(r->Ok_0 is Error) && !final(conn).transaction_state.in_transaction
            && final(conn).transaction_state.queued_commands@.len() == 0 && final(conn).transaction_state.watched_keys@.len() == 0
            && !final(conn).transaction_state.aborted,
//@@ body
//@@ end

//@@ unit queue_command fn src/storage/commands/transactions.rs queue_command
//@@   rewrite RCALL to_vec "b\"QUEUED\"" verif_lit_to_vec
pub fn queue_command(conn: &mut Connection, parts: Vec<RespFrame>) -> (r: Result<RespFrame>)
    ensures
        r is Ok, r->Ok_0 is SimpleString,
        // queued in order, nothing executed, nothing else touched
        final(conn).transaction_state.queued_commands@ == old(conn).transaction_state.queued_commands@.push(parts),
        final(conn).transaction_state.in_transaction == old(conn).transaction_state.in_transaction,
        final(conn).transaction_state.watched_keys == old(conn).transaction_state.watched_keys,
        final(conn).transaction_state.aborted == old(conn).transaction_state.aborted,
        final(conn).db_index == old(conn).db_index,
//@@ body
//@@ end

// ======================= WATCH =========================
/// MODEL of the storage engine as far as WATCH uses it: the baseline the engine reports for (db, key) — from register_watch, or, when that
/// refuses, from get_modification_counter, or 0 — is a function of the engine state at the call (shared reference: unchanged by WATCH here)
pub struct WatchStore { pub g: Ghost<int> }
pub uninterp spec fn spec_registered(s: WatchStore, db: usize, key: Seq<u8>) -> Option<u64>;
pub uninterp spec fn spec_counter(s: WatchStore, db: usize, key: Seq<u8>) -> Option<u64>;
impl WatchStore {
    /// ASSUMED CONTRACT (engine.rs StorageEngine::register_watch)
    #[verifier::external_body]
    pub fn register_watch(&self, db: usize, key: &[u8]) -> (r: Result<u64>)
        ensures match spec_registered(*self, db, key@) { Some(c) => r == Ok::<u64, FerrousError>(c), None => r is Err },
    { unimplemented!() }
    /// ASSUMED CONTRACT (engine.rs StorageEngine::get_modification_counter)
    #[verifier::external_body]
    pub fn get_modification_counter(&self, db: usize, key: &[u8]) -> (r: Result<u64>)
        ensures match spec_counter(*self, db, key@) { Some(c) => r == Ok::<u64, FerrousError>(c), None => r is Err },
    { unimplemented!() }
}
pub open spec fn baseline(s: WatchStore, db: usize, key: Seq<u8>) -> u64 {
    match spec_registered(s, db, key) { Some(c) => c, None => match spec_counter(s, db, key) { Some(c) => c, None => 0 } }
}
pub open spec fn bulk_at(parts: Seq<RespFrame>, i: int) -> Option<Seq<u8>> {
    if 0 <= i < parts.len() { match parts[i] { RespFrame::BulkString(Some(b)) => Some(b@), _ => None } } else { None }
}
pub open spec fn all_bulk_from(parts: Seq<RespFrame>, from: int) -> bool { forall|i: int| from <= i < parts.len() ==> #[trigger] bulk_at(parts, i) is Some }
/// the watch table after WATCH has worked through arguments 1..n
pub open spec fn watched_upto(o: Map<Vec<u8>, u64>, f: Map<Vec<u8>, u64>, s: WatchStore, db: usize, parts: Seq<RespFrame>, n: int) -> bool {
    &&& forall|i: int| 1 <= i < n ==> f.contains_key(key_of(#[trigger] bulk_at(parts, i)->Some_0)) && f[key_of(bulk_at(parts, i)->Some_0)] == baseline(s, db, bulk_at(parts, i)->Some_0)
    &&& forall|k: Vec<u8>| #[trigger] f.contains_key(k) ==> ((o.contains_key(k) && f[k] == o[k]) || exists|i: int| 1 <= i < n && #[trigger] bulk_at(parts, i) == Some(k@))
    &&& forall|k: Vec<u8>| #[trigger] o.contains_key(k) ==> f.contains_key(k)
}
//@@ unit handle_watch fn src/storage/commands/transactions.rs handle_watch
//@@   params drop "storage: &Arc<StorageEngine>" add "storage: &WatchStore"
//@@   rewrite RT "bytes.as_ref().clone()" "verif_clone_bytes(bytes)"
//@@   loop 0
//@@|     invariant
//@@|         1 <= i <= parts@.len(), parts@.len() >= 2, !old(conn).transaction_state.in_transaction,
//@@|         conn.db_index == old(conn).db_index, conn.transaction_state.in_transaction == old(conn).transaction_state.in_transaction,
//@@|         conn.transaction_state.queued_commands == old(conn).transaction_state.queued_commands, conn.transaction_state.aborted == old(conn).transaction_state.aborted,
//@@|         forall|j: int| 1 <= j < i ==> #[trigger] bulk_at(parts@, j) is Some,
//@@|         watched_upto(old(conn).transaction_state.watched_keys@, conn.transaction_state.watched_keys@, *storage, old(conn).db_index, parts@, i as int),
//@@   at "match storage.register_watch(conn.db_index, &key)"
//@@|     let ghost before = conn.transaction_state.watched_keys@;
//@@|     proof { assert(bulk_at(parts@, i as int) == Some(key@)); }
pub fn handle_watch(conn: &mut Connection, parts: &[RespFrame], storage: &WatchStore) -> (r: Result<RespFrame>)
    ensures
        r is Ok, final(conn).db_index == old(conn).db_index,
        final(conn).transaction_state.in_transaction == old(conn).transaction_state.in_transaction,
        final(conn).transaction_state.queued_commands == old(conn).transaction_state.queued_commands,
        final(conn).transaction_state.aborted == old(conn).transaction_state.aborted,
        // refused outright: no argument, or inside MULTI — nothing is watched
        (parts@.len() < 2 || old(conn).transaction_state.in_transaction) ==> (r->Ok_0 is Error) && final(conn).transaction_state.watched_keys@ == old(conn).transaction_state.watched_keys@,
        // C08: every key argument is watched under ITS OWN BYTES (not a decoding of them), in the connection's database, with the baseline the
        // engine reports for exactly those bytes; keys watched before stay watched; nothing else enters the table
        parts@.len() >= 2 && !old(conn).transaction_state.in_transaction && all_bulk_from(parts@, 1) ==> !(r->Ok_0 is Error)
            && watched_upto(old(conn).transaction_state.watched_keys@, final(conn).transaction_state.watched_keys@, *storage, old(conn).db_index, parts@, parts@.len() as int),
        parts@.len() >= 2 && !old(conn).transaction_state.in_transaction && !all_bulk_from(parts@, 1) ==> (r->Ok_0 is Error),
//@@ body
//@@ end
/// `bytes.as_ref().clone()` on an Arc<Vec<u8>> (RT site): a copy of the argument's bytes
#[verifier::external_body]
pub fn verif_clone_bytes(b: &Arc<Vec<u8>>) -> (r: Vec<u8>) ensures r@ == b@, { unimplemented!() }

} // verus!
fn main() {}
