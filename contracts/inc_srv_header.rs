//@@ include prelude/head.rs
use std::collections::{HashMap, VecDeque};
use std::sync::Arc;
use std::alloc::Allocator;
use std::time::Instant;
use vstd::std_specs::iter::IteratorSpec;
//@@ include prelude/cmp.rs
//@@ include prelude/slice.rs
//@@ include prelude/hash_keys.rs
//@@ include prelude/vecdeque.rs
//@@ include prelude/hash_iter.rs
//@@ include prelude/clone_take.rs
//@@ include prelude/str_eq.rs
verus! {
broadcast use {group_byte_keys, group_vecdeque, group_clone_take, group_slice, group_str_eq, vstd::std_specs::hash::group_hash_axioms};
#[verifier::external_type_specification]
#[verifier::external_body]
pub struct ExInstant(Instant);
//@@ item src/error.rs FerrousError
//@@ item src/error.rs CommandError
//@@ item src/error.rs StorageError
//@@ item src/error.rs ScriptError
//@@ item src/protocol/resp.rs Bytes
//@@ item src/protocol/resp.rs RespFrame
pub type Result<T> = std::result::Result<T, FerrousError>;
pub type DatabaseIndex = usize;
/// #[derive(Clone)] on RespFrame / ConnectionState (derives are dropped by the item extraction, R4): a clone equals its source
impl Clone for RespFrame {
    #[verifier::external_body]
    fn clone(&self) -> (r: Self) ensures r == *self, { unimplemented!() }
}
//@@ item src/storage/commands/transactions.rs TransactionState
//@@ item src/network/connection.rs ConnectionState
//@@ item src/network/connection.rs BlockedState
//@@ item src/network/connection.rs BlockingOp
impl Clone for ConnectionState {
    #[verifier::external_body]
    fn clone(&self) -> (r: Self) ensures r == *self, { unimplemented!() }
}
/// `a != b` on ConnectionState (#[derive(PartialEq)], dropped by R4; R7 operator site)
#[verifier::external_body]
pub fn verif_state_ne(a: ConnectionState, b: ConnectionState) -> (r: bool) ensures r == (a != b), { unimplemented!() }

/// format!/println!/eprintln! sites (R3): the text of a log line or error message carries no property
#[verifier::external_body]
pub fn verif_print() { }
#[verifier::external_body]
pub fn verif_fmt() -> String { unimplemented!() }

/// STUB of network::Connection: only the fields the server-level units may touch (any other access = compile error = exit 2)
pub struct Connection {
    pub db_index: usize,
    pub transaction_state: TransactionState,
    pub state: ConnectionState,
    pub is_monitoring: bool,
    /// ghost: the frames handed to this connection's write buffer (Connection::send_frame)
    pub out: ConnOut,
}
pub struct ConnOut { pub sent: Ghost<Seq<RespFrame>> }

impl RespFrame {
    /// ASSUMED CONTRACT (resp.rs RespFrame::ok, proved in c07_transactions): +OK
    #[verifier::external_body]
    pub fn ok() -> (r: Self) ensures r is SimpleString, { unimplemented!() }
    /// ASSUMED CONTRACT (`impl Into<Vec<u8>>` argument): builds an Error frame
    #[verifier::external_body]
    pub fn error<T>(msg: T) -> (r: Self) ensures r is Error, { unimplemented!() }
    /// ASSUMED CONTRACT (resp.rs RespFrame::null_array, proved in srv_exec)
    #[verifier::external_body]
    pub fn null_array() -> (r: Self) ensures r == RespFrame::Array(None), { unimplemented!() }
}

/// MODEL of ShardedConnections (a sharded Mutex<HashMap<u64, Connection>>): the table as a ghost map; `with_connection`
/// runs the closure on the entry if it exists (real body: server.rs ShardedConnections::with_connection — lock the shard,
/// `connections.get_mut(&id).map(f)`). Interior mutability is made explicit (&mut self).
pub struct ConnModel { pub map: Ghost<Map<u64, Connection>> }
impl ConnModel {
    #[verifier::external_body]
    pub fn with_connection<R, F: FnOnce(&mut Connection) -> R>(&mut self, id: u64, f: F) -> (r: Option<R>)
        requires forall|x: &mut Connection| f.requires((x,)),
        ensures
            !old(self).map@.contains_key(id) ==> r is None && final(self).map@ == old(self).map@,
            old(self).map@.contains_key(id) ==> r is Some && exists|m: &mut Connection| *m == old(self).map@[id]
                && #[trigger] f.ensures((m,), r->Some_0) && final(self).map@ == old(self).map@.insert(id, *final(m)),
    { unimplemented!() }
}
}
