verus! {
// ======================= value.rs: metadata and expiry predicates (real code) =========================
//@@ unit deadline_after fn src/storage/value.rs deadline_after
//@@   rewrite R7 "now + Duration::from_secs(100 * 365 * 24 * 60 * 60)" verif_instant_add
fn deadline_after(expires_in: Duration) -> (r: Instant)
    ensures iv(r) == sat_deadline(expires_in), iv(r) >= spec_now(),
//@@ body
//@@ end

impl ValueMetadata {
//@@ unit vm_new fn src/storage/value.rs ValueMetadata::new
    fn new() -> (r: Self)
        ensures r.expires_at is None,
//@@ body
//@@ end

//@@ unit vm_with_expiration fn src/storage/value.rs ValueMetadata::with_expiration
    fn with_expiration(expires_in: Duration) -> (r: Self)
        ensures r.expires_at matches Some(d) && iv(d) == sat_deadline(expires_in),
//@@ body
//@@ end

//@@ unit vm_is_expired fn src/storage/value.rs ValueMetadata::is_expired
//@@   rewrite R7 "Instant::now() > expires_at" verif_instant_gt
//@@   rewrite RC 0 "bool" "cr == (spec_now() > iv(expires_at))"
    fn is_expired(&self) -> (r: bool)
        ensures r == (self.expires_at matches Some(d) && spec_now() > iv(d)),
//@@ body
//@@ end

//@@ unit vm_set_expiration fn src/storage/value.rs ValueMetadata::set_expiration
    fn set_expiration(&mut self, expires_in: Duration)
        ensures final(self).expires_at matches Some(d) && iv(d) == sat_deadline(expires_in),
            final(self).created_at == old(self).created_at, final(self).last_accessed == old(self).last_accessed, final(self).encoding == old(self).encoding,
//@@ body
//@@ end

//@@ unit vm_clear_expiration fn src/storage/value.rs ValueMetadata::clear_expiration
    fn clear_expiration(&mut self)
        ensures final(self).expires_at is None,
            final(self).created_at == old(self).created_at, final(self).last_accessed == old(self).last_accessed, final(self).encoding == old(self).encoding,
//@@ body
//@@ end
}

impl Value {
//@@ unit value_integer fn src/storage/value.rs Value::integer
//@@   rewrite RCALL to_string n verif_i64_to_string
    pub fn integer(n: i64) -> (r: Self)
        ensures r == Value::String(key_of(i64_str(n))),
//@@ body
//@@ end

//@@ unit value_as_integer fn src/storage/value.rs Value::as_integer
    pub fn as_integer(&self) -> (r: Option<i64>)
        ensures r == (match *self { Value::String(bytes) => spec_parse_i64(bytes@), _ => None::<i64> }),
//@@ body
//@@ end
}

impl StoredValue {
//@@ unit sv_new fn src/storage/value.rs StoredValue::new
    fn new(value: Value) -> (r: Self)
        ensures r.value == value, r.metadata.expires_at is None,
//@@ body
//@@ end

//@@ unit sv_with_expiration fn src/storage/value.rs StoredValue::with_expiration
    fn with_expiration(value: Value, expires_in: Duration) -> (r: Self)
        ensures r.value == value, r.metadata.expires_at matches Some(d) && iv(d) == sat_deadline(expires_in),
//@@ body
//@@ end

//@@ unit sv_is_expired fn src/storage/value.rs StoredValue::is_expired
    fn is_expired(&self) -> (r: bool)
        ensures r == expired(*self),
//@@ body
//@@ end
}


impl DatabaseShard {
//@@ unit purge_if_expired fn src/storage/engine.rs DatabaseShard::purge_if_expired
    fn purge_if_expired(&mut self, key: &[u8]) -> (r: bool)
        ensures
            r == (old(self).data@.contains_key(key_of(key@)) && expired(old(self).data@[key_of(key@)])),
            // afterwards the shard IS the state an operation on `key` sees: a key past its deadline is gone (key space + index) and marked
            final(self).data@ == eff(*old(self), key_of(key@)).data,
            final(self).expiring_keys@ == eff(*old(self), key_of(key@)).exp,
            final(self).watch_tracker.marks@ == eff(*old(self), key_of(key@)).marks,
//@@ body
//@@ end
}
}
