//@@ include prelude/head.rs
use std::collections::{HashMap, VecDeque};
use std::sync::Arc;
use std::alloc::Allocator;
use vstd::std_specs::iter::IteratorSpec;
//@@ include prelude/cmp.rs
//@@ include prelude/hash_keys.rs
//@@ include prelude/vecdeque.rs
//@@ include prelude/hash_iter.rs
//@@ include prelude/clone_take.rs
verus! {
broadcast use {group_byte_keys, group_vecdeque, group_clone_take, vstd::std_specs::hash::group_hash_axioms};
//@@ item src/error.rs FerrousError
//@@ item src/error.rs CommandError
//@@ item src/error.rs StorageError
//@@ item src/error.rs ScriptError
//@@ item src/protocol/resp.rs Bytes
//@@ item src/protocol/resp.rs RespFrame
pub type Result<T> = std::result::Result<T, FerrousError>;
/// #[derive(Clone)] on RespFrame (derives are dropped by the item extraction, R4): a clone equals its source
impl Clone for RespFrame {
    #[verifier::external_body]
    fn clone(&self) -> (r: Self) ensures r == *self, { unimplemented!() }
}
//@@ item src/storage/commands/transactions.rs TransactionState

/// STUB of network::Connection: only the fields EXEC may touch (any other access = compile error = exit 2)
pub struct Connection {
    pub db_index: usize,
    pub transaction_state: TransactionState,
}

impl RespFrame {
//@@ unit resp_null_array fn src/protocol/resp.rs RespFrame::null_array
//@@   rewrite R3
    pub fn null_array() -> (r: Self)
        ensures r == RespFrame::Array(None),
//@@ body
//@@ end
    /// ASSUMED CONTRACT (`impl Into<Vec<u8>>` argument): builds an Error frame
    #[verifier::external_body]
    pub fn error<T>(msg: T) -> (r: Self)
        ensures r is Error,
    { unimplemented!() }
}
#[verifier::external_body]
pub fn verif_print() { }
#[verifier::external_body]
pub fn verif_fmt() -> String { unimplemented!() }
/// `e.to_string()` on the crate's error type (Display; RCALL site)
#[verifier::external_body]
pub fn verif_err_to_string(e: FerrousError) -> String { unimplemented!() }

/// MODEL of ShardedConnections (a sharded Mutex<HashMap<u64, Connection>>): the table as a ghost map; `with_connection`
/// runs the closure on the entry if it exists (real body: server.rs ShardedConnections::with_connection — lock the shard,
/// `connections.get_mut(&id).map(f)`). Interior mutability is made explicit (&mut self).
pub struct ConnModel { pub map: Ghost<Map<u64, Connection>> }
impl ConnModel {
    #[verifier::external_body]
    pub fn with_connection<R, F: FnOnce(&mut Connection) -> R>(&mut self, id: u64, f: F) -> (r: Option<R>)
        requires forall|x: &mut Connection| f.requires((x,)),
        ensures
            !old(self).map@.contains_key(id) ==> r is None && final(self).map@ == old(self).map@,
            old(self).map@.contains_key(id) ==> r is Some && exists|m: &mut Connection| *m == old(self).map@[id]
                && #[trigger] f.ensures((m,), r->Some_0) && final(self).map@ == old(self).map@.insert(id, *final(m)),
    { unimplemented!() }
}
/// MODEL of the storage engine as far as EXEC uses it: the WATCH verdict is a function of the storage state
pub struct StorageModel { pub st: Ghost<int> }
pub uninterp spec fn spec_modified(st: int, db: usize, key: Seq<u8>, baseline: u64) -> std::result::Result<bool, ()>;
impl StorageModel {
    #[verifier::external_body]
    pub fn was_modified_since(&self, db: usize, key: &[u8], baseline: u64) -> (r: Result<bool>)
        ensures match spec_modified(self.st@, db, key@, baseline) { Ok(b) => r == Ok::<bool, FerrousError>(b), Err(_) => r is Err },
    { unimplemented!() }
}
/// MODEL of Server: the connection table, the storage, and a ghost log of the commands dispatched for execution
pub struct Server {
    pub connections: ConnModel,
    pub storage: StorageModel,
    pub executed: Ghost<Seq<(Seq<RespFrame>, usize)>>,
}
pub open spec fn txn_cleared(c: Connection, o: Connection) -> bool {
    !c.transaction_state.in_transaction && c.transaction_state.watched_keys@.len() == 0 && c.transaction_state.queued_commands@.len() == 0
        && !c.transaction_state.aborted && c.db_index == o.db_index
}
/// the WATCH verdict for the whole watched set
pub open spec fn any_violation(st: int, db: usize, w: Map<Vec<u8>, u64>) -> bool {
    exists|k: Vec<u8>| #[trigger] w.contains_key(k) && spec_modified(st, db, k@, w[k]) != Ok::<bool, ()>(false)
}
pub open spec fn queued_log(q: Seq<Vec<RespFrame>>, db: usize) -> Seq<(Seq<RespFrame>, usize)> {
    Seq::new(q.len(), |i: int| (q[i]@, db))
}

impl Server {
    /// ASSUMED CONTRACT (Server::process_command_parts -> process_normal_command, the 360-line dispatch): the command is
    /// dispatched with the given db; it is called with connection id 0 and does not touch the issuing connection's table entry.
    #[verifier::external_body]
    fn process_command_parts(&mut self, parts: &Vec<RespFrame>, db: usize) -> (r: Result<RespFrame>)
        ensures final(self).executed@ == old(self).executed@.push((parts@, db)), final(self).connections == old(self).connections,
    { unimplemented!() }

//@@ unit handle_exec fn src/network/server.rs Server::handle_exec
//@@   rewrite R3
//@@   rewrite RCALL to_string "e" verif_err_to_string
//@@   rewrite RCT "std::mem::take(&mut conn.transaction_state.queued_commands)" "(VecDeque<Vec<RespFrame>>, bool)" "cr.0@ == old(conn).transaction_state.queued_commands@, cr.1 == old(conn).transaction_state.aborted, txn_cleared(*final(conn), *old(conn))"
//@@   rewrite RCT "conn.transaction_state.queued_commands.clear()" "()" "txn_cleared(*final(conn), *old(conn))"
//@@   rewrite RCT "conn.transaction_state.watched_keys.clone()" "Option<(HashMap<Vec<u8>, u64>, usize, VecDeque<Vec<RespFrame>>, bool)>" "*final(conn) == *old(conn), !old(conn).transaction_state.in_transaction ==> cr is None, old(conn).transaction_state.in_transaction ==> (cr matches Some((w, d, c, t)) && w@ =~= old(conn).transaction_state.watched_keys@ && d == old(conn).db_index && t)"
//@@   rewrite RFOR 0 it
//@@   rewrite RFOR 1 it2
//@@   loop 0
//@@|     invariant
//@@|         self.connections.map@ =~= old(self).connections.map@, self.storage == old(self).storage, self.executed@ == old(self).executed@,
//@@|         old(self).connections.map@.contains_key(conn_id), old(self).connections.map@[conn_id].transaction_state.in_transaction,
//@@|         watched_keys@ == old(self).connections.map@[conn_id].transaction_state.watched_keys@, db_index == old(self).connections.map@[conn_id].db_index,
//@@|         it.seq().len() == watched_keys@.len(),
//@@|         forall|i: int| 0 <= i < it.seq().len() ==> watched_keys@.contains_key(*(#[trigger] it.seq()[i]).0) && watched_keys@[*it.seq()[i].0] == *it.seq()[i].1,
//@@|         forall|k: Vec<u8>| #[trigger] watched_keys@.contains_key(k) ==> exists|i: int| 0 <= i < it.seq().len() && *(#[trigger] it.seq()[i]).0 == k,
//@@|         it.history@ =~= it.seq().take(it.index@),
//@@|         forall|i: int| 0 <= i < it.index@ ==> spec_modified(self.storage.st@, db_index, (#[trigger] it.seq()[i]).0@, *it.seq()[i].1) == Ok::<bool, ()>(false),
//@@|     ensures it.index@ == it.seq().len(),
//@@|         forall|k: Vec<u8>| #[trigger] watched_keys@.contains_key(k) ==> spec_modified(self.storage.st@, db_index, k@, watched_keys@[k]) == Ok::<bool, ()>(false),
//@@   loopstart 0
//@@|     proof { assert(it.seq()[it.index@ as int] == (key, baseline_counter)); assert(watched_keys@.contains_key(*key) && watched_keys@[*key] == *baseline_counter); }
//@@   at "let (commands_to_execute, aborted) ="
//@@|     proof { assert(!any_violation(old(self).storage.st@, db_index, watched_keys@)); }
//@@   loopstart 1
//@@|     proof {
//@@|         let s = commands_to_execute@; let i = it2.index@ as int;
//@@|         assert(queued_log(s.take(i + 1), db_index) =~= queued_log(s.take(i), db_index).push((s[i]@, db_index)));
//@@|     }
//@@   loop 1
//@@|     invariant
//@@|         old(self).connections.map@.contains_key(conn_id), old(self).connections.map@[conn_id].transaction_state.in_transaction,
//@@|         self.connections.map@.dom() =~= old(self).connections.map@.dom(),
//@@|         forall|o: u64| o != conn_id && #[trigger] old(self).connections.map@.contains_key(o) ==> self.connections.map@[o] == old(self).connections.map@[o],
//@@|         txn_cleared(self.connections.map@[conn_id], old(self).connections.map@[conn_id]),
//@@|         commands_to_execute@ == old(self).connections.map@[conn_id].transaction_state.queued_commands@,
//@@|         db_index == old(self).connections.map@[conn_id].db_index,
//@@|         !any_violation(old(self).storage.st@, db_index, old(self).connections.map@[conn_id].transaction_state.watched_keys@),
//@@|         !old(self).connections.map@[conn_id].transaction_state.aborted,
//@@|         self.executed@ == old(self).executed@ + queued_log(commands_to_execute@.take(it2.index@), db_index),
//@@|         results@.len() == it2.index@,
//@@|         it2.seq().len() == commands_to_execute@.len(),
//@@|         forall|i: int| 0 <= i < it2.seq().len() ==> *(#[trigger] it2.seq()[i]) == commands_to_execute@[i],
//@@|         it2.history@ =~= it2.seq().take(it2.index@),
//@@|     ensures it2.index@ == commands_to_execute@.len(),
    fn handle_exec(&mut self, conn_id: u64) -> (r: Result<RespFrame>)
        ensures
            r is Ok,
            match old(self).connections.map@.get(conn_id) {
                // unknown connection / EXEC without MULTI: an error reply, nothing executed, nothing changed
                None => r->Ok_0 is Error && final(self).executed@ == old(self).executed@ && final(self).connections.map@ == old(self).connections.map@,
                Some(c) => if !c.transaction_state.in_transaction {
                    r->Ok_0 is Error && final(self).executed@ == old(self).executed@ && final(self).connections.map@ == old(self).connections.map@
                } else {
                    // the transaction is over whatever the outcome; no other connection's entry changes
                    final(self).connections.map@.dom() == old(self).connections.map@.dom()
                    && (forall|o: u64| o != conn_id && #[trigger] old(self).connections.map@.contains_key(o) ==> final(self).connections.map@[o] == old(self).connections.map@[o])
                    && txn_cleared(final(self).connections.map@[conn_id], c)
                    && if any_violation(old(self).storage.st@, c.db_index, c.transaction_state.watched_keys@) || c.transaction_state.aborted {
                        // C08: a watched key changed (or the verdict is unavailable) => nil reply and NO queued command runs
                        r->Ok_0 == RespFrame::Array(None) && final(self).executed@ == old(self).executed@ && final(self).storage == old(self).storage
                    } else {
                        // C07: otherwise ALL queued commands run, in queue order, on the connection's database, consecutively
                        // (nothing else is dispatched in between), one reply each
                        final(self).executed@ =~= old(self).executed@ + queued_log(c.transaction_state.queued_commands@, c.db_index)
                        && (r->Ok_0 matches RespFrame::Array(Some(v)) && v@.len() == c.transaction_state.queued_commands@.len())
                    }
                },
            },
//@@ body
//@@ end
}

} // verus!
fn main() {}
