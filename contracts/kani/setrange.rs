// Kani twin (extracted text): the two value-building branches of StorageEngine::setrange.
// BOUNDED: existing string <= 4 bytes, offset <= 6, value <= 3 bytes (all contents symbolic).
// What the extraction drops: the shard lookup / marking / insertion around the branches (Verus units cover frame and
// marks; see shard_strings); `shard_guard.mark_modified(&key)` inside the first arm is replaced by a no-op stub.

pub struct MarkStub;
impl MarkStub { pub fn mark_modified(&self, _k: &Vec<u8>) {} }

// arm `Value::String(bytes)`: overwrite / extend in place, returns the new length
//@@ unit setrange_existing arm src/storage/engine.rs StorageEngine::setrange "Value::String(bytes)"
pub fn setrange_existing(bytes: &mut Vec<u8>, offset: usize, value: Vec<u8>, shard_guard: &MarkStub, key: Vec<u8>) -> usize
//@@ body
//@@ end

// missing key: zero padding then the value
//@@ unit setrange_new stmts src/storage/engine.rs StorageEngine::setrange "let mut new_string" upto "let stored_value"
//@@ tail (new_string, len)
pub fn setrange_new(offset: usize, value: Vec<u8>) -> (Vec<u8>, usize)
//@@ body
//@@ end

#[cfg(kani)]
fn sym_vec(max: usize) -> Vec<u8> {
    let n: usize = kani::any();
    kani::assume(n <= max);
    let mut v = Vec::with_capacity(max);
    let mut i = 0;
    while i < n { v.push(kani::any()); i += 1; }
    v
}
#[cfg(kani)]
fn spec_setrange(s: &Vec<u8>, offset: usize, value: &Vec<u8>, i: usize) -> u8 {
    if offset <= i && i < offset + value.len() { value[i - offset] } else if i < s.len() { s[i] } else { 0 }
}

#[cfg(kani)]
#[kani::proof]
#[kani::unwind(12)]
fn setrange_existing_bounded() {
    let old = sym_vec(4);
    let value = sym_vec(3);
    let offset: usize = kani::any();
    kani::assume(offset <= 6);
    let mut bytes = old.clone();
    let len = setrange_existing(&mut bytes, offset, value.clone(), &MarkStub, Vec::new());
    let newlen = if offset + value.len() > old.len() { offset + value.len() } else { old.len() };
    kani::cover!(offset > old.len() && value.len() > 0, "zero padding between old end and offset is reachable");
    assert!(len == newlen && bytes.len() == newlen, "SETRANGE returns and stores the prescribed length");
    let mut i = 0;
    while i < newlen {
        assert!(bytes[i] == spec_setrange(&old, offset, &value, i), "SETRANGE stores old bytes, zero padding and the new value at the prescribed positions");
        i += 1;
    }
}

#[cfg(kani)]
#[kani::proof]
#[kani::unwind(12)]
fn setrange_new_bounded() {
    let value = sym_vec(3);
    let offset: usize = kani::any();
    kani::assume(offset <= 6);
    let (s, len) = setrange_new(offset, value.clone());
    assert!(len == offset + value.len() && s.len() == len, "SETRANGE on a missing key creates offset + len bytes");
    let empty = Vec::new();
    let mut i = 0;
    while i < len {
        assert!(s[i] == spec_setrange(&empty, offset, &value, i), "SETRANGE on a missing key pads with zero bytes");
        i += 1;
    }
}
