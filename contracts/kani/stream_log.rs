// Kani twin (extracted text): StreamData::{range, range_after} and the explicit-ID admission test of add_with_id.
// BOUNDED: <= 3 entries (symbolic strictly increasing IDs), symbolic bounds / COUNT / direction.
// What the extraction drops/substitutes (complete list): StreamEntry.fields has type `()` instead of
// HashMap<Vec<u8>,Vec<u8>> (range code never looks into the payload, it only clones entries; std hash containers are
// intractable for CBMC); derive attributes re-stated by hand; the `stream: &Stream` atomics update tail of add_with_id
// is outside the extracted statement range.
use std::cmp::Ordering as CmpOrdering;

#[derive(Clone, Copy, PartialEq, Eq, Debug)]
//@@ item src/storage/stream.rs StreamId
//@@ item src/storage/stream.rs "<StreamId as PartialOrd>"
//@@ item src/storage/stream.rs "<StreamId as Ord>"
impl StreamId {
//@@ unit sid_new fn src/storage/stream.rs StreamId::new
//@@ sig -
//@@ body
//@@ end
}

#[derive(Clone, Debug)]
pub struct StreamEntry { pub id: StreamId, pub fields: () }

//@@ item src/storage/stream.rs StreamData
#[derive(Debug, Clone)]
//@@ item src/storage/stream.rs StreamRangeResult

impl StreamData {
//@@ unit range fn src/storage/stream.rs StreamData::range
//@@ sig -
//@@ body
//@@ end

//@@ unit range_after fn src/storage/stream.rs StreamData::range_after
//@@ sig -
//@@ body
//@@ end

//@@ unit add_with_id_admission stmts src/storage/stream.rs StreamData::add_with_id "if id <= self.last_id" upto "let entry = StreamEntry"
//@@ opt same-return-type
    fn add_with_id_admission(&mut self, id: StreamId) -> Result<(), &'static str>
//@@ tail Ok(())
//@@ body
//@@ end
}

#[cfg(kani)]
fn mk_data<const N: usize>() -> StreamData {
    let mut d = StreamData { entries: Vec::with_capacity(N), last_id: StreamId::new(0, 0), memory_usage: 0 };
    let mut prev = StreamId::new(0, 0);
    let mut i = 0;
    while i < N {
        let id = StreamId { packed: kani::any() };
        kani::assume(id > prev);
        d.entries.push(StreamEntry { id, fields: () });
        prev = id;
        i += 1;
    }
    // last_id is the highest ID ever added: at least the last present entry (deletions/trimming keep it)
    let top = StreamId { packed: kani::any() };
    kani::assume(top >= prev);
    d.last_id = top;
    d
}

#[cfg(kani)]
fn check_range<const N: usize>(reverse: bool, with_count: bool) {
    let d = mk_data::<N>();
    let s = StreamId { packed: kani::any() };
    let e = StreamId { packed: kani::any() };
    let count: Option<usize> = if with_count { let c: u8 = kani::any(); kani::assume(c <= 3); Some(c as usize) } else { None };
    let r = d.range(&s, &e, count, reverse);
    let mut expect = [StreamId::new(0, 0); N];
    let mut m = 0;
    let mut i = 0;
    while i < N {
        let k = if reverse { N - 1 - i } else { i };
        let id = d.entries[k].id;
        if s <= id && id <= e && count.map_or(true, |c| m < c) { expect[m] = id; m += 1; }
        i += 1;
    }
    kani::cover!(m == N, "the whole log in range is reachable");
    kani::cover!(m == 0 && s <= e, "an empty window with start <= end is reachable");
    assert!(r.entries.len() == m, "XRANGE/XREVRANGE return exactly the present entries within [start,end] (COUNT honoured)");
    let mut j = 0;
    while j < m {
        assert!(r.entries[j].id == expect[j], "XRANGE/XREVRANGE return entries in ID order (reverse for XREVRANGE)");
        j += 1;
    }
}
#[cfg(kani)] #[kani::proof] #[kani::unwind(5)] fn stream_range_n0() { check_range::<0>(kani::any(), kani::any()); }
#[cfg(kani)] #[kani::proof] #[kani::unwind(5)] fn stream_range_n1_fwd() { check_range::<1>(false, false); }
#[cfg(kani)] #[kani::proof] #[kani::unwind(5)] fn stream_range_n1_rev() { check_range::<1>(true, false); }
#[cfg(kani)] #[kani::proof] #[kani::unwind(5)] fn stream_range_n2_fwd() { check_range::<2>(false, false); }
#[cfg(kani)] #[kani::proof] #[kani::unwind(5)] fn stream_range_n2_fwd_count() { check_range::<2>(false, true); }
#[cfg(kani)] #[kani::proof] #[kani::unwind(5)] fn stream_range_n2_rev() { check_range::<2>(true, false); }
#[cfg(kani)] #[kani::proof] #[kani::unwind(5)] fn stream_range_n3_fwd() { check_range::<3>(false, false); }
#[cfg(kani)] #[kani::proof] #[kani::unwind(5)] fn stream_range_n3_rev_count() { check_range::<3>(true, true); }

#[cfg(kani)]
fn check_range_after<const N: usize>() {
    let d = mk_data::<N>();
    let a = StreamId { packed: kani::any() };
    let count: Option<usize> = if kani::any() { let c: u8 = kani::any(); kani::assume(c <= 4); Some(c as usize) } else { None };
    let r = d.range_after(&a, count);
    let mut expect = [StreamId::new(0, 0); N];
    let mut m = 0;
    let mut i = 0;
    while i < N {
        let id = d.entries[i].id;
        if id > a && count.map_or(true, |c| m < c) { expect[m] = id; m += 1; }
        i += 1;
    }
    kani::cover!(m == N, "reading the whole log is reachable");
    assert!(r.entries.len() == m, "XREAD returns exactly the present entries with ID greater than the given one (COUNT honoured)");
    let mut j = 0;
    while j < m {
        assert!(r.entries[j].id == expect[j], "XREAD returns entries in ID order");
        j += 1;
    }
}
#[cfg(kani)] #[kani::proof] #[kani::unwind(5)] fn stream_range_after_n0() { check_range_after::<0>(); }
#[cfg(kani)] #[kani::proof] #[kani::unwind(5)] fn stream_range_after_n2() { check_range_after::<2>(); }
#[cfg(kani)] #[kani::proof] #[kani::unwind(5)] fn stream_range_after_n3() { check_range_after::<3>(); }

#[cfg(kani)]
#[kani::proof]
#[kani::unwind(5)]
fn stream_add_with_id_admission_bounded() {
    let mut d = mk_data::<2>();
    let top = d.last_id;
    let id = StreamId { packed: kani::any() };
    let r = d.add_with_id_admission(id);
    kani::cover!(r.is_ok(), "an admitted explicit ID is reachable");
    kani::cover!(r.is_err(), "a refused explicit ID is reachable");
    assert!(r.is_ok() == (id > top), "XADD with an explicit ID is admitted iff it is greater than the highest ID ever added");
    assert!(d.entries.len() == 2 && d.last_id == top, "the admission test itself changes nothing");
}
