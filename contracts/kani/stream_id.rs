// Kani twin (extracted text): StreamId::generate_next_atomic — COMPLETE (loop-free, full u64 domains).
// What the extraction drops: `get_cached_millis` (thread-local clock cache, unsafe) is replaced by an arbitrary u64
// (every clock reading is explored); #[inline] / derive attributes. Atomics run sequentially, which is the situation in the
// real code (every caller holds Stream.data's mutex).
use std::sync::atomic::{AtomicU64, Ordering};
use std::cmp::Ordering as CmpOrdering;

#[cfg(kani)]
fn get_cached_millis() -> u64 { kani::any() }
#[cfg(not(kani))]
fn get_cached_millis() -> u64 { 0 }

#[derive(Clone, Copy, PartialEq, Eq, Debug)]
//@@ item src/storage/stream.rs StreamId
//@@ item src/storage/stream.rs "<StreamId as PartialOrd>"
//@@ item src/storage/stream.rs "<StreamId as Ord>"

impl StreamId {
//@@ unit sid_new fn src/storage/stream.rs StreamId::new
//@@ sig -
//@@ body
//@@ end
//@@ unit sid_millis fn src/storage/stream.rs StreamId::millis
//@@ sig -
//@@ body
//@@ end
//@@ unit sid_seq fn src/storage/stream.rs StreamId::seq
//@@ sig -
//@@ body
//@@ end
//@@ unit generate_next_atomic fn src/storage/stream.rs StreamId::generate_next_atomic
//@@ sig -
//@@ body
//@@ end
}

#[cfg(kani)]
#[kani::proof]
fn gen_next_atomic() {
    let lm: u64 = kani::any();
    let ls: u64 = kani::any();
    let last_millis = AtomicU64::new(lm);
    let last_seq = AtomicU64::new(ls);
    let id = StreamId::generate_next_atomic(&last_millis, &last_seq);
    kani::cover!(id.millis() > lm, "clock-ahead branch reached");
    kani::cover!(id.millis() == lm, "same-millisecond branch reached");
    assert!(id > StreamId::new(lm, ls), "generated ID is strictly greater than the previous top ID");
    assert!(last_millis.load(Ordering::Relaxed) == id.millis(), "last_id_millis agrees with the returned ID");
    assert!(last_seq.load(Ordering::Relaxed) == id.seq(), "last_id_seq agrees with the returned ID");
}

/// COMPLETE: packing round trip and lexicographic order for all u64 x u64
#[cfg(kani)]
#[kani::proof]
fn sid_pack_order() {
    let (m1, s1, m2, s2): (u64, u64, u64, u64) = (kani::any(), kani::any(), kani::any(), kani::any());
    let a = StreamId::new(m1, s1);
    let b = StreamId::new(m2, s2);
    assert!(a.millis() == m1 && a.seq() == s1, "millis/seq invert new");
    let lex = if m1 != m2 { m1.cmp(&m2) } else { s1.cmp(&s2) };
    assert!(a.cmp(&b) == lex, "ordering is lexicographic on (millis, seq)");
}
