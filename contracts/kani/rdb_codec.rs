// Kani twin (extracted text): RDB length/integer codec and expiry arithmetic.
// COMPLETE harnesses: loop-free apart from byte copies bounded by operand width (<= 8), unwinding assertions on.
// What the extraction substitutes (complete list): the byte sink behind RdbWriter::write_raw is a fixed 16-byte array
// (the real one is `W: Write` + byte counter + checksum); the byte source behind RdbReader::read_exact is a byte array with a
// cursor, a short read is an Err (as `Read::read_exact` guarantees); FerrousError is reduced to its Io variant;
// SystemTime::now() is an arbitrary millisecond value.
use std::io;
use std::time::Duration;

#[derive(Debug)]
pub enum FerrousError { Io(String) }
pub type Result<T> = std::result::Result<T, FerrousError>;

pub struct RdbWriter { pub out: [u8; 16], pub n: usize }
impl RdbWriter {
    fn write_raw(&mut self, data: &[u8]) -> io::Result<()> {
        let mut i = 0;
        while i < data.len() { if self.n < 16 { self.out[self.n] = data[i]; } self.n += 1; i += 1; }
        Ok(())
    }
//@@ unit write_byte fn src/storage/rdb.rs RdbWriter::write_byte
//@@ sig -
//@@ body
//@@ end
//@@ unit write_length fn src/storage/rdb.rs RdbWriter::write_length
//@@ sig -
//@@ body
//@@ end
//@@ unit write_u32_be fn src/storage/rdb.rs RdbWriter::write_u32_be
//@@ sig -
//@@ body
//@@ end
//@@ unit write_u64_le fn src/storage/rdb.rs RdbWriter::write_u64_le
//@@ sig -
//@@ body
//@@ end
//@@ unit write_f64 fn src/storage/rdb.rs RdbWriter::write_f64
//@@ sig -
//@@ body
//@@ end
}

pub struct RdbReader { pub src: [u8; 16], pub len: usize, pub pos: usize }
impl RdbReader {
    fn read_exact(&mut self, buf: &mut [u8]) -> Result<()> {
        if self.len - self.pos < buf.len() { return Err(FerrousError::Io(String::new())); }
        let mut i = 0;
        while i < buf.len() { buf[i] = self.src[self.pos]; self.pos += 1; i += 1; }
        Ok(())
    }
//@@ unit read_byte fn src/storage/rdb.rs RdbReader::read_byte
//@@ sig -
//@@ body
//@@ end
//@@ unit read_length fn src/storage/rdb.rs RdbReader::read_length
//@@ sig -
//@@ body
//@@ end
//@@ unit read_u32_be fn src/storage/rdb.rs RdbReader::read_u32_be
//@@ sig -
//@@ body
//@@ end
//@@ unit read_u32_le fn src/storage/rdb.rs RdbReader::read_u32_le
//@@ sig -
//@@ body
//@@ end
//@@ unit read_u64_le fn src/storage/rdb.rs RdbReader::read_u64_le
//@@ sig -
//@@ body
//@@ end
//@@ unit read_f64 fn src/storage/rdb.rs RdbReader::read_f64
//@@ sig -
//@@ body
//@@ end
}

#[cfg(kani)]
fn stub_fmt(_a: std::fmt::Arguments<'_>) -> String { String::new() }

/// COMPLETE: decode(encode(len)) == len and consumes exactly the encoding, for every len < 2^32
#[cfg(kani)]
#[kani::proof]
#[kani::unwind(10)]
fn rdb_length_roundtrip() {
    let len: usize = kani::any();
    kani::assume(len <= u32::MAX as usize);   // a string/collection of 4 GiB or more cannot be encoded (`len as u32`): stated limit
    let mut w = RdbWriter { out: [0; 16], n: 0 };
    assert!(w.write_length(len).is_ok());
    kani::cover!(w.n == 1, "6-bit form reached");
    kani::cover!(w.n == 2, "14-bit form reached");
    kani::cover!(w.n == 5, "32-bit form reached");
    let mut r = RdbReader { src: w.out, len: w.n, pos: 0 };
    let got = r.read_length();
    assert!(matches!(got, Ok(v) if v == len), "read_length inverts write_length");
    assert!(r.pos == w.n, "read_length consumes exactly the bytes write_length produced");
}

/// COMPLETE: fixed-width integer/float fields round-trip bit-exactly
#[cfg(kani)]
#[kani::proof]
#[kani::unwind(10)]
fn rdb_fixed_roundtrip() {
    let a: u32 = kani::any();
    let b: u64 = kani::any();
    let c: u64 = kani::any();
    let mut w = RdbWriter { out: [0; 16], n: 0 };
    assert!(w.write_u32_be(a).is_ok() && w.write_u64_le(b).is_ok());
    let mut r = RdbReader { src: w.out, len: w.n, pos: 0 };
    assert!(matches!(r.read_u32_be(), Ok(v) if v == a), "u32 big-endian round trip");
    assert!(matches!(r.read_u64_le(), Ok(v) if v == b), "u64 little-endian round trip");
    let f = f64::from_bits(c);
    let mut w2 = RdbWriter { out: [0; 16], n: 0 };
    assert!(w2.write_f64(f).is_ok());
    let mut r2 = RdbReader { src: w2.out, len: w2.n, pos: 0 };
    assert!(matches!(r2.read_f64(), Ok(v) if v.to_bits() == c), "f64 round trip is bit-exact (incl. infinities, -0.0, NaN payloads)");
}

/// COMPLETE: for ARBITRARY source bytes (corrupt/truncated file) read_length neither panics nor reads past the data,
/// and a short read is an error
#[cfg(kani)]
#[kani::proof]
#[kani::unwind(10)]
fn rdb_read_length_total() {
    let src: [u8; 16] = kani::any();
    let len: usize = kani::any();
    kani::assume(len <= 5);
    let mut r = RdbReader { src, len, pos: 0 };
    let got = r.read_length();
    assert!(r.pos <= len, "never reads past the available bytes");
    kani::cover!(got.is_err(), "truncated/invalid encodings are reachable");
    kani::cover!(got.is_ok() && r.pos == 5, "a 32-bit length is reachable");
}

