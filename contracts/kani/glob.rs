// Kani twin (extracted text): pubsub.rs pattern_matches, the glob matcher PSUBSCRIBE / PUBLISH rest on (C14: "to every client subscribed
// at that moment and to nobody else"). BOUNDED: pattern <= 3 bytes, channel <= 3 bytes, every byte symbolic over the alphabet
// { a, b, *, ?, \ } (two ordinary letters are enough to tell equal from different; the three metacharacters are all there are).
// The whole function is extracted; nothing is dropped. Reference: the textbook dynamic-programming table for the same glob dialect.

//@@ unit pattern_matches fn src/pubsub.rs pattern_matches
pub fn pattern_matches(pattern: &[u8], channel: &[u8]) -> bool
//@@ body
//@@ end

// reference: the pattern as at most 3 tokens (star / any one byte / this byte; `\x` is the byte x, a lone trailing `\` is itself), then the
// textbook table m[i][j] = "the first i tokens match the first j channel bytes"
#[cfg(kani)]
#[derive(Clone, Copy, PartialEq)]
enum Tok { Star, Any, Lit(u8) }
#[cfg(kani)]
fn ref_glob(p: &[u8; 3], pn: usize, c: &[u8; 3], cn: usize) -> bool {
    let mut toks = [Tok::Star; 3];
    let mut tn = 0;
    let mut i = 0;
    while i < pn {
        let b = p[i];
        if b == b'*' { toks[tn] = Tok::Star; i += 1; }
        else if b == b'?' { toks[tn] = Tok::Any; i += 1; }
        else if b == b'\\' && i + 1 < pn { toks[tn] = Tok::Lit(p[i + 1]); i += 2; }
        else { toks[tn] = Tok::Lit(b); i += 1; }
        tn += 1;
    }
    let mut m = [[false; 4]; 4];
    m[0][0] = true;
    let mut a = 1;
    while a <= tn {
        let t = toks[a - 1];
        let mut j = 0;
        while j <= cn {
            m[a][j] = match t {
                Tok::Star => m[a - 1][j] || (j > 0 && m[a][j - 1]),
                Tok::Any => j > 0 && m[a - 1][j - 1],
                Tok::Lit(x) => j > 0 && c[j - 1] == x && m[a - 1][j - 1],
            };
            j += 1;
        }
        a += 1;
    }
    m[tn][cn]
}
#[cfg(kani)]
fn sym_byte() -> u8 {
    let b: u8 = kani::any();
    kani::assume(b == b'a' || b == b'b' || b == b'*' || b == b'?' || b == b'\\');
    b
}

#[cfg(kani)]
#[kani::proof]
#[kani::unwind(18)]
fn glob_matches_reference_bounded() {
    let p: [u8; 3] = [sym_byte(), sym_byte(), sym_byte()];
    let c: [u8; 3] = [sym_byte(), sym_byte(), sym_byte()];
    let pn: usize = kani::any();
    let cn: usize = kani::any();
    kani::assume(pn <= 3 && cn <= 3);
    let got = pattern_matches(&p[..pn], &c[..cn]);
    let want = ref_glob(&p, pn, &c, cn);
    kani::cover!(pn == 3 && cn == 3 && got, "a full-length match is reachable");
    kani::cover!(pn == 3 && p[0] == b'*' && !got, "a mismatch after a star is reachable");
    assert!(got == want, "pattern_matches agrees with the reference glob");
}
