// Kani twin (extracted text): pubsub.rs pattern_matches, the glob matcher PSUBSCRIBE / PUBLISH rest on (C14: "to every client subscribed
// at that moment and to nobody else"). BOUNDED: pattern <= 3 bytes, channel <= 4 bytes, every byte symbolic over the alphabet
// { a, b, *, ?, \ } (two ordinary letters are enough to tell equal from different; the three metacharacters are all there are).
// The whole function is extracted; nothing is dropped. Reference: the textbook recursive definition of the same glob dialect.

//@@ unit pattern_matches fn src/pubsub.rs pattern_matches
pub fn pattern_matches(pattern: &[u8], channel: &[u8]) -> bool
//@@ body
//@@ end

#[cfg(kani)]
fn ref_glob(p: &[u8], c: &[u8]) -> bool {
    if p.is_empty() {
        return c.is_empty();
    }
    match p[0] {
        b'*' => ref_glob(&p[1..], c) || (!c.is_empty() && ref_glob(p, &c[1..])),
        b'?' => !c.is_empty() && ref_glob(&p[1..], &c[1..]),
        b'\\' if p.len() >= 2 => !c.is_empty() && p[1] == c[0] && ref_glob(&p[2..], &c[1..]),
        x => !c.is_empty() && x == c[0] && ref_glob(&p[1..], &c[1..]),
    }
}
#[cfg(kani)]
fn sym_byte() -> u8 {
    let b: u8 = kani::any();
    kani::assume(b == b'a' || b == b'b' || b == b'*' || b == b'?' || b == b'\\');
    b
}

#[cfg(kani)]
#[kani::proof]
#[kani::unwind(26)]
fn glob_matches_reference_bounded() {
    let p: [u8; 3] = [sym_byte(), sym_byte(), sym_byte()];
    let c: [u8; 4] = [sym_byte(), sym_byte(), sym_byte(), sym_byte()];
    let pn: usize = kani::any();
    let cn: usize = kani::any();
    kani::assume(pn <= 3 && cn <= 4);
    let got = pattern_matches(&p[..pn], &c[..cn]);
    let want = ref_glob(&p[..pn], &c[..cn]);
    kani::cover!(pn == 3 && cn == 4 && got, "a full-length match is reachable");
    kani::cover!(pn == 3 && p[0] == b'*' && !got, "a mismatch after a star is reachable");
    assert!(got == want, "pattern_matches agrees with the reference glob");
}
