// shared by the direct sorted-set handlers (srv_zsets) and the script path (exec_zsets): the member->score model of the engine and the
// ZADD pair grammar, so that both paths are proved against the same spec values
pub uninterp spec fn f64_is_nan(x: f64) -> bool;
pub assume_specification[ f64::is_nan ](x: f64) -> (r: bool)
    ensures r == f64_is_nan(x);
pub type ZM = Map<Seq<u8>, f64>;
pub type ZS = Map<(int, Seq<u8>), ZM>;
pub open spec fn zmembers(z: ZS, db: int, k: Seq<u8>) -> ZM { if z.contains_key((db, k)) { z[(db, k)] } else { Map::empty() } }
impl EngineModel {
    /// ASSUMED CONTRACT summarising shard_zsets::zadd + the skip-list contract: a NaN score and a key of another type are
    /// refused without any change; otherwise the member has the new score, and the result says whether it was new
    #[verifier::external_body]
    pub fn zadd(&mut self, db: usize, key: Vec<u8>, member: Vec<u8>, score: f64) -> (r: Result<bool>)
        ensures
            final(self).ttl@ == old(self).ttl@,
            (f64_is_nan(score) || (ds_get(old(self).ds@, db as int, key@) matches Some(dv) && !(dv is ZSet))) ==> r is Err && final(self).ds@ == old(self).ds@ && final(self).z@ == old(self).z@,
            r is Err ==> final(self).ds@ == old(self).ds@ && final(self).z@ == old(self).z@,
            (r is Err && !f64_is_nan(score) && !(ds_get(old(self).ds@, db as int, key@) matches Some(dv) && !(dv is ZSet))) ==> mem_exhausted(*old(self)),
            r matches Ok(b) ==> b == !zmembers(old(self).z@, db as int, key@).contains_key(member@)
                && final(self).ds@ == old(self).ds@.insert((db as int, key@), DV::ZSet)
                && final(self).z@ == old(self).z@.insert((db as int, key@), zmembers(old(self).z@, db as int, key@).insert(member@, score)),
    { unimplemented!() }
}
/// the score text a reply carries (`format!("{}", score)` / `score.to_string()`: float formatting is outside the verifier)
pub uninterp spec fn score_text(x: f64) -> RespFrame;
#[verifier::external_body]
pub fn verif_score_frame(x: f64) -> (r: RespFrame) ensures r == score_text(x), r is BulkString, { unimplemented!() }
impl EngineModel {
    #[verifier::external_body]
    pub fn zscore(&mut self, db: usize, key: &[u8], member: &[u8]) -> (r: Result<Option<f64>>)
        ensures final(self).ds@ == old(self).ds@, final(self).ttl@ == old(self).ttl@, final(self).z@ == old(self).z@,
            (ds_get(old(self).ds@, db as int, key@) matches Some(dv) && !(dv is ZSet)) ==> r is Err,
            !(ds_get(old(self).ds@, db as int, key@) matches Some(dv) && !(dv is ZSet)) ==>
                r == Ok::<Option<f64>, FerrousError>(if zmembers(old(self).z@, db as int, key@).contains_key(member@) { Some(zmembers(old(self).z@, db as int, key@)[member@]) } else { None }),
    { unimplemented!() }
    #[verifier::external_body]
    pub fn zcard(&mut self, db: usize, key: &[u8]) -> (r: Result<usize>)
        ensures final(self).ds@ == old(self).ds@, final(self).ttl@ == old(self).ttl@, final(self).z@ == old(self).z@,
            (ds_get(old(self).ds@, db as int, key@) matches Some(dv) && !(dv is ZSet)) ==> r is Err,
            !(ds_get(old(self).ds@, db as int, key@) matches Some(dv) && !(dv is ZSet)) ==> (r matches Ok(n) && n == zmembers(old(self).z@, db as int, key@).dom().len()),
    { unimplemented!() }
    /// removing the last member removes the key (and its TTL)
    #[verifier::external_body]
    pub fn zrem(&mut self, db: usize, key: &[u8], member: &[u8]) -> (r: Result<bool>)
        ensures
            (ds_get(old(self).ds@, db as int, key@) matches Some(dv) && !(dv is ZSet)) ==> r is Err && final(self).ds@ == old(self).ds@ && final(self).ttl@ == old(self).ttl@ && final(self).z@ == old(self).z@,
            !(ds_get(old(self).ds@, db as int, key@) matches Some(dv) && !(dv is ZSet)) ==> ({
                let zm = zmembers(old(self).z@, db as int, key@);
                &&& r == Ok::<bool, FerrousError>(zm.contains_key(member@))
                &&& !zm.contains_key(member@) ==> final(self).ds@ == old(self).ds@ && final(self).ttl@ == old(self).ttl@ && final(self).z@ == old(self).z@
                &&& zm.contains_key(member@) && zm.remove(member@).dom().len() > 0 ==> final(self).ds@ == old(self).ds@ && final(self).ttl@ == old(self).ttl@
                        && final(self).z@ == old(self).z@.insert((db as int, key@), zm.remove(member@))
                &&& zm.contains_key(member@) && zm.remove(member@).dom().len() == 0 ==> final(self).ds@ == old(self).ds@.remove((db as int, key@))
                        && final(self).ttl@ == old(self).ttl@.remove((db as int, key@)) && final(self).z@ == old(self).z@.remove((db as int, key@))
            }),
    { unimplemented!() }
}
impl EngineModel {
    /// ASSUMED CONTRACT summarising shard_zsets::zincrby: NaN increment, a NaN sum, and a key of another type are refused
    /// without change; otherwise the member's score becomes the returned sum (never NaN)
    #[verifier::external_body]
    pub fn zincrby(&mut self, db: usize, key: Vec<u8>, member: Vec<u8>, increment: f64) -> (r: Result<f64>)
        ensures final(self).ttl@ == old(self).ttl@,
            r is Err ==> final(self).ds@ == old(self).ds@ && final(self).z@ == old(self).z@,
            (f64_is_nan(increment) || (ds_get(old(self).ds@, db as int, key@) matches Some(dv) && !(dv is ZSet))) ==> r is Err,
            r matches Ok(s) ==> !f64_is_nan(s) && final(self).ds@ == old(self).ds@.insert((db as int, key@), DV::ZSet)
                && final(self).z@ == old(self).z@.insert((db as int, key@), zmembers(old(self).z@, db as int, key@).insert(member@, s)),
    { unimplemented!() }
}
/// the least / greatest member of a non-empty sorted set in (score, member bytes) order (the order itself is C04's skip-list subject)
pub uninterp spec fn zmin(zm: ZM) -> Seq<u8>;
pub uninterp spec fn zmax(zm: ZM) -> Seq<u8>;
pub broadcast axiom fn axiom_zmin_member(zm: ZM)
    ensures zm.dom().len() > 0 ==> zm.contains_key(#[trigger] zmin(zm));
pub broadcast axiom fn axiom_zmax_member(zm: ZM)
    ensures zm.dom().len() > 0 ==> zm.contains_key(#[trigger] zmax(zm));
impl EngineModel {
    /// ASSUMED CONTRACT for the two rank ranges ZPOPMIN / ZPOPMAX ask for: (0, 0) = the least member, (-1, -1) = the greatest
    #[verifier::external_body]
    pub fn zrange(&mut self, db: usize, key: &[u8], start: isize, stop: isize, rev: bool) -> (r: Result<Vec<(Vec<u8>, f64)>>)
        requires model_domain(!rev && ((start == 0 && stop == 0) || (start == -1 && stop == -1))),
        ensures final(self).ds@ == old(self).ds@, final(self).ttl@ == old(self).ttl@, final(self).z@ == old(self).z@,
            other_type(old(self).ds@, db as int, key@) ==> r is Err,
            !other_type(old(self).ds@, db as int, key@) ==> r is Ok,
            (!other_type(old(self).ds@, db as int, key@) && !rev && ((start == 0 && stop == 0) || (start == -1 && stop == -1))) ==> ({
                let zm = zmembers(old(self).z@, db as int, key@);
                let m = if start == 0 { zmin(zm) } else { zmax(zm) };
                if zm.dom().len() == 0 { r->Ok_0@.len() == 0 } else { r->Ok_0@.len() == 1 && r->Ok_0@[0].0@ == m && r->Ok_0@[0].1 == zm[m] }
            }),
    { unimplemented!() }
}
/// marks a precondition that delimits what an assumed model contract describes (a call outside it makes the unit UNDECIDED)
pub open spec fn model_domain(b: bool) -> bool { b }
/// `v.into_iter().next()` (RXPR site): the first element, if any
#[verifier::external_body]
pub fn verif_first(v: Vec<(Vec<u8>, f64)>) -> (r: Option<(Vec<u8>, f64)>)
    ensures v@.len() == 0 ==> r is None, v@.len() > 0 ==> r == Some(v@[0]),
{ unimplemented!() }
/// ZPOPMIN / ZPOPMAX key n: the first n extreme members, one after the other (fewer if the set runs out); each pop is a ZREM
pub open spec fn zpop_upto(m: EngineModel, db: int, k: Seq<u8>, n: int, least: bool) -> (Seq<(Seq<u8>, f64)>, DS, Map<(int, Seq<u8>), int>, ZS)
    decreases n
{
    if n <= 0 { (Seq::empty(), m.ds@, m.ttl@, m.z@) } else {
        let p = zpop_upto(m, db, k, n - 1, least);
        let zm = zmembers(p.3, db, k);
        if zm.dom().len() == 0 { p } else {
            let x = if least { zmin(zm) } else { zmax(zm) };
            if zm.remove(x).dom().len() > 0 { (p.0.push((x, zm[x])), p.1, p.2, p.3.insert((db, k), zm.remove(x))) }
            else { (p.0.push((x, zm[x])), p.1.remove((db, k)), p.2.remove((db, k)), p.3.remove((db, k))) }
        }
    }
}
/// once the set has run out, asking for more pops changes nothing
pub proof fn lemma_zpop_stable(m: EngineModel, db: int, k: Seq<u8>, a: int, b: int, least: bool)
    requires 0 <= a <= b, zmembers(zpop_upto(m, db, k, a, least).3, db, k).dom().len() == 0,
    ensures zpop_upto(m, db, k, b, least) == zpop_upto(m, db, k, a, least),
    decreases b - a
{
    if a < b { lemma_zpop_stable(m, db, k, a, b - 1, least); }
}
/// the reply lists the popped members with their scores, in pop order: [m1, s1, m2, s2, ..]
pub open spec fn zpop_reply(v: Seq<RespFrame>, popped: Seq<(Seq<u8>, f64)>) -> bool {
    v.len() == 2 * popped.len() && forall|j: int| 0 <= j < popped.len() ==> bulk_reply(#[trigger] v[2 * j]) == Some(Some(popped[j].0)) && v[2 * j + 1] == score_text(popped[j].1)
}
/// the key holds a value that is not a sorted set
pub open spec fn other_type(ds: DS, db: int, k: Seq<u8>) -> bool { ds_get(ds, db, k) matches Some(dv) && !(dv is ZSet) }
/// ZREM key m1 ..: members removed left to right; the key disappears with its last member; non-bulk arguments are skipped
pub open spec fn zrem_upto(m: EngineModel, db: int, k: Seq<u8>, parts: Seq<RespFrame>, n: int) -> (int, DS, Map<(int, Seq<u8>), int>, ZS)
    decreases n
{
    if n <= 2 { (0, m.ds@, m.ttl@, m.z@) } else {
        let p = zrem_upto(m, db, k, parts, n - 1);
        match arg(parts, n - 1) {
            None => p,
            Some(x) => {
                let zm = zmembers(p.3, db, k);
                if !zm.contains_key(x) { p }
                else if zm.remove(x).dom().len() > 0 { (p.0 + 1, p.1, p.2, p.3.insert((db, k), zm.remove(x))) }
                else { (p.0 + 1, p.1.remove((db, k)), p.2.remove((db, k)), p.3.remove((db, k))) }
            },
        }
    }
}
/// the score at position i: a bulk string that parses as a float and is a number
pub open spec fn score_arg(parts: Seq<RespFrame>, i: int) -> Option<f64> {
    match num_arg::<f64>(parts, i) { Some(x) => if f64_is_nan(x) { None } else { Some(x) }, None => None }
}
/// pair j of ZADD (score at 2+2j, member at 3+2j) is well-formed
pub open spec fn pair_ok(parts: Seq<RespFrame>, j: int) -> bool { score_arg(parts, 2 + 2 * j) is Some && arg(parts, 2 + 2 * j + 1) is Some }
/// every (score, member) pair of ZADD is well-formed
pub open spec fn zadd_pairs_ok(parts: Seq<RespFrame>) -> bool {
    forall|j: int| 0 <= j < (parts.len() - 2) / 2 ==> #[trigger] pair_ok(parts, j)
}
/// members after the first n pairs, and how many of them were new
pub open spec fn zadd_upto(zm: ZM, parts: Seq<RespFrame>, n: int) -> (int, ZM)
    decreases n
{
    if n <= 0 { (0, zm) } else {
        let p = zadd_upto(zm, parts, n - 1);
        let m = arg(parts, 2 + 2 * (n - 1) + 1)->Some_0; let s = score_arg(parts, 2 + 2 * (n - 1))->Some_0;
        (p.0 + (if p.1.contains_key(m) { 0int } else { 1int }), p.1.insert(m, s))
    }
}

