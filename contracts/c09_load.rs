//@@ include prelude/head.rs
use std::time::{Duration, Instant};
use std::sync::Arc;
use std::collections::{VecDeque, HashMap};
use std::alloc::Allocator;
//@@ include prelude/time.rs
//@@ include prelude/deque_iter.rs
//@@ include prelude/strnum.rs
//@@ include prelude/cmp.rs
//@@ include prelude/hash_keys.rs
//@@ include prelude/c16_keys.rs
verus! {
broadcast use {group_time, group_byte_keys, vstd::std_specs::hash::group_hash_axioms};
// C09, value level (lists): what the loader does with a LIST record. The reader is a MODEL that returns arbitrary items and notes them in a
// ghost sequence; the storage engine is a MODEL that notes the calls it receives. The unit is the real match arm of
// RdbReader::read_key_value_with_type.
pub struct FerrousError { pub g: Ghost<int> }
pub type Result<T> = std::result::Result<T, FerrousError>;
pub enum Item { Str(Seq<u8>), Len(int) }
pub enum Eff { RPush(int, Seq<u8>, Seq<Seq<u8>>), Expire(int, Seq<u8>, int), XAdd(int, Seq<u8>, StreamId) }
pub struct RdbReader { pub reads: Ghost<Seq<Item>> }
pub struct StoreLog { pub effs: Ghost<Seq<Eff>> }
impl StoreLog {
    #[verifier::external_body]
    pub fn rpush(&mut self, db: usize, key: Vec<u8>, elements: Vec<Vec<u8>>) -> (r: Result<usize>)
        ensures final(self).effs@ == old(self).effs@.push(Eff::RPush(db as int, key@, elements@.map_values(|e: Vec<u8>| e@))),
    { unimplemented!() }
    #[verifier::external_body]
    pub fn set_string(&mut self, db: usize, key: Vec<u8>, value: Vec<u8>) -> (r: Result<()>) { unimplemented!() }
    #[verifier::external_body]
    pub fn set_string_ex(&mut self, db: usize, key: Vec<u8>, value: Vec<u8>, ttl: Duration) -> (r: Result<()>) { unimplemented!() }
    #[verifier::external_body]
    pub fn sadd(&mut self, db: usize, key: Vec<u8>, members: Vec<Vec<u8>>) -> (r: Result<usize>) { unimplemented!() }
    #[verifier::external_body]
    pub fn hset(&mut self, db: usize, key: Vec<u8>, field_values: Vec<(Vec<u8>, Vec<u8>)>) -> (r: Result<usize>) { unimplemented!() }
    #[verifier::external_body]
    pub fn zadd(&mut self, db: usize, key: Vec<u8>, member: Vec<u8>, score: f64) -> (r: Result<bool>) { unimplemented!() }
    #[verifier::external_body]
    pub fn xadd_with_id(&mut self, db: usize, key: Vec<u8>, id: StreamId, fields: HashMap<Vec<u8>, Vec<u8>>) -> (r: Result<()>)
        ensures final(self).effs@ == old(self).effs@.push(Eff::XAdd(db as int, key@, id)),
    { unimplemented!() }
    #[verifier::external_body]
    pub fn expire(&mut self, db: usize, key: &[u8], ttl: Duration) -> (r: Result<bool>)
        ensures final(self).effs@ == old(self).effs@.push(Eff::Expire(db as int, key@, dur_nanos(ttl))),
    { unimplemented!() }
}
impl RdbReader {
    #[verifier::external_body]
    fn read_string(&mut self) -> (r: Result<Vec<u8>>)
        ensures r matches Ok(v) ==> final(self).reads@ == old(self).reads@.push(Item::Str(v@)), r is Err ==> final(self).reads@ == old(self).reads@,
    { unimplemented!() }
    #[verifier::external_body]
    fn read_f64(&mut self) -> (r: Result<f64>) { unimplemented!() }
    #[verifier::external_body]
    fn read_length(&mut self) -> (r: Result<usize>)
        ensures r matches Ok(n) ==> final(self).reads@ == old(self).reads@.push(Item::Len(n as int)), r is Err ==> final(self).reads@ == old(self).reads@,
    { unimplemented!() }
}
/// the items of a LIST record body: key, element count, the elements
pub open spec fn list_items(key: Seq<u8>, elems: Seq<Seq<u8>>) -> Seq<Item> {
    seq![Item::Str(key), Item::Len(elems.len() as int)] + elems.map_values(|e: Seq<u8>| Item::Str(e))
}
/// loading them: one RPUSH per element, in file order
pub open spec fn list_effs(db: int, key: Seq<u8>, elems: Seq<Seq<u8>>) -> Seq<Eff> { elems.map_values(|e: Seq<u8>| Eff::RPush(db, key, seq![e])) }

impl RdbReader {
//@@ unit load_list_arm arm src/storage/rdb.rs RdbReader::read_key_value_with_type "op if op == RdbOpcode::List as u8"
//@@   opt same-return-type
//@@   tail Ok(())
//@@   params drop "storage: &Arc<StorageEngine>" add "storage: &mut StoreLog"
//@@   rewrite RFORC 0
//@@   at "for _ in 0..count"
//@@|     let ghost mut elems: Seq<Seq<u8>> = Seq::empty(); let ghost r0 = old(self).reads@; let ghost e0 = old(storage).effs@;
//@@   loop 0
//@@|     invariant
//@@|         0 <= ___n <= ___end, ___end == count, elems.len() == ___n,
//@@|         self.reads@ =~= r0 + seq![Item::Str(key@), Item::Len(count as int)] + elems.map_values(|e: Seq<u8>| Item::Str(e)),
//@@|         storage.effs@ =~= e0 + list_effs(db as int, key@, elems),
//@@|     decreases ___end - ___n,
//@@   at "storage.rpush(db, key.clone(), vec![element])?;"
//@@|     let ghost el = element@; let ghost elems_b = elems;
//@@   after "storage.rpush(db, key.clone(), vec![element])?;"
//@@|     proof {
//@@|         elems = elems_b.push(el);
//@@|         assert(storage.effs@.len() == e0.len() + elems_b.len() + 1);
//@@|         assert(storage.effs@.last() matches Eff::RPush(d, k, es) && d == db as int && k == key@ && es =~= seq![el]);
//@@|         assert(seq![element].map_values(|e: Vec<u8>| e@) =~= seq![el]);
//@@|         assert(list_effs(db as int, key@, elems) =~= list_effs(db as int, key@, elems_b).push(Eff::RPush(db as int, key@, seq![el])));
//@@|         assert(elems.map_values(|e: Seq<u8>| Item::Str(e)) =~= elems_b.map_values(|e: Seq<u8>| Item::Str(e)).push(Item::Str(el)));
//@@|     }
//@@   after "if let Some(ttl) = ttl"
//@@|     proof {
//@@|         assert(self.reads@.subrange(r0.len() as int, self.reads@.len() as int) =~= list_items(key@, elems));
//@@|         assert(self.reads@.take(r0.len() as int) =~= r0);
//@@|         assert(storage.effs@ =~= e0 + list_effs(db as int, key@, elems) + (match ttl { Some(t) => seq![Eff::Expire(db as int, key@, dur_nanos(t))], None => Seq::<Eff>::empty() }));
//@@|     }
    fn load_list_arm(&mut self, storage: &mut StoreLog, db: usize, ttl: Option<Duration>) -> (r: Result<()>)
        ensures
            // C09: a LIST record is loaded as a list of exactly the elements that follow the count, whatever their bytes are, in file order,
            // one RPUSH each; the TTL of the record (if any) is applied after the last element
            r is Ok ==> exists|key: Seq<u8>, elems: Seq<Seq<u8>>| #[trigger] list_items(key, elems) == final(self).reads@.subrange(old(self).reads@.len() as int, final(self).reads@.len() as int)
                && final(self).reads@.take(old(self).reads@.len() as int) == old(self).reads@
                && final(storage).effs@ == old(storage).effs@ + list_effs(db as int, key, elems)
                    + (match ttl { Some(t) => seq![Eff::Expire(db as int, key, dur_nanos(t))], None => Seq::<Eff>::empty() }),
//@@ body
//@@ end
}

/// `StreamId::from_string(..)` (RPCALL site): the id the text spells, if any — unconstrained here
#[verifier::external_body]
pub fn verif_sid_from_str(s: &str) -> Option<StreamId> { unimplemented!() }
/// every effect from position `from` on concerns this key of this database
pub open spec fn only_key(effs: Seq<Eff>, from: int, db: int, key: Seq<u8>) -> bool {
    forall|i: int| from <= i < effs.len() ==> (match #[trigger] effs[i] { Eff::XAdd(d, k, _) => d == db && k == key, Eff::Expire(d, k, _) => d == db && k == key, Eff::RPush(d, k, _) => d == db && k == key })
}
impl RdbReader {
//@@ unit load_stream_arm arm src/storage/rdb.rs RdbReader::read_key_value_with_type "op if op == RdbOpcode::Stream as u8"
//@@   opt same-return-type
//@@   tail Ok(())
//@@   params drop "storage: &Arc<StorageEngine>" add "storage: &mut StoreLog"
//@@   rewrite RPCALL "crate::storage::stream::StreamId::from_string" verif_sid_from_str
//@@   rewrite RT "let mut fields = HashMap::new();" "let mut fields: HashMap<Vec<u8>, Vec<u8>> = HashMap::new();"
//@@   rewrite RFORC 1
//@@   loop 0
//@@|     invariant entry_idx <= remaining_count,
//@@|     decreases remaining_count - entry_idx,
//@@   loop 1
//@@|     invariant 0 <= ___n <= ___end, ___end == field_count, entry_idx + 2 * (field_count - ___n) <= remaining_count, entry_idx0 + 2 * ___n == entry_idx,
//@@|     decreases ___end - ___n,
//@@   at "for _ in 0..field_count"
//@@|     let ghost entry_idx0 = entry_idx as int;
    // C10 ("Loading a truncated or corrupted file ends with an error or a clean partial load, never a panic, a hang ..."): no postcondition —
    // the obligations of this unit are its SAFETY and TERMINATION conditions: for every answer of the reader (every count, every field-count
    // text: they come from the file) no arithmetic in the arm overflows and both loops terminate
    fn load_stream_arm(&mut self, storage: &mut StoreLog, db: usize, ttl: Option<Duration>) -> (r: Result<()>)
//@@ body
//@@ end
}
impl RdbReader {
//@@ unit load_string_arm arm src/storage/rdb.rs RdbReader::read_key_value_with_type "op if op == RdbOpcode::String as u8"
//@@   opt same-return-type
//@@   tail Ok(())
//@@   params drop "storage: &Arc<StorageEngine>" add "storage: &mut StoreLog"
    // C10: safety and termination only (see load_stream_arm): whatever count the file names, the arm neither overflows, nor allocates by that
    // count (elements are pushed one by one as they are read), nor loops for ever
    fn load_string_arm(&mut self, storage: &mut StoreLog, db: usize, ttl: Option<Duration>) -> (r: Result<()>)
//@@ body
//@@ end

//@@ unit load_zset_arm arm src/storage/rdb.rs RdbReader::read_key_value_with_type "op if op == RdbOpcode::ZSet as u8 || op == RdbOpcode::ZSet2 as u8"
//@@   opt same-return-type
//@@   tail Ok(())
//@@   params drop "storage: &Arc<StorageEngine>" add "storage: &mut StoreLog"
//@@   rewrite RFORC 0
//@@   loop 0
//@@|     invariant 0 <= ___n <= ___end, ___end == count,
//@@|     decreases ___end - ___n,
    // C10: safety and termination only (see load_stream_arm): whatever count the file names, the arm neither overflows, nor allocates by that
    // count (elements are pushed one by one as they are read), nor loops for ever
    fn load_zset_arm(&mut self, storage: &mut StoreLog, db: usize, ttl: Option<Duration>) -> (r: Result<()>)
//@@ body
//@@ end

//@@ unit load_set_arm arm src/storage/rdb.rs RdbReader::read_key_value_with_type "op if op == RdbOpcode::Set as u8"
//@@   opt same-return-type
//@@   tail Ok(())
//@@   params drop "storage: &Arc<StorageEngine>" add "storage: &mut StoreLog"
//@@   rewrite RT "let mut members = Vec::new();" "let mut members: Vec<Vec<u8>> = Vec::new();"
//@@   rewrite RFORC 0
//@@   loop 0
//@@|     invariant 0 <= ___n <= ___end, ___end == count,
//@@|     decreases ___end - ___n,
    // C10: safety and termination only (see load_stream_arm): whatever count the file names, the arm neither overflows, nor allocates by that
    // count (elements are pushed one by one as they are read), nor loops for ever
    fn load_set_arm(&mut self, storage: &mut StoreLog, db: usize, ttl: Option<Duration>) -> (r: Result<()>)
//@@ body
//@@ end

//@@ unit load_hash_arm arm src/storage/rdb.rs RdbReader::read_key_value_with_type "op if op == RdbOpcode::Hash as u8"
//@@   opt same-return-type
//@@   tail Ok(())
//@@   params drop "storage: &Arc<StorageEngine>" add "storage: &mut StoreLog"
//@@   rewrite RT "let mut field_values = Vec::new();" "let mut field_values: Vec<(Vec<u8>, Vec<u8>)> = Vec::new();"
//@@   rewrite RFORC 0
//@@   loop 0
//@@|     invariant 0 <= ___n <= ___end, ___end == count,
//@@|     decreases ___end - ___n,
    // C10: safety and termination only (see load_stream_arm): whatever count the file names, the arm neither overflows, nor allocates by that
    // count (elements are pushed one by one as they are read), nor loops for ever
    fn load_hash_arm(&mut self, storage: &mut StoreLog, db: usize, ttl: Option<Duration>) -> (r: Result<()>)
//@@ body
//@@ end
}

// ---- the writer's side of the same record
pub struct IoError { pub g: Ghost<int> }
pub enum WItem { Byte(u8), Str(Seq<u8>), Len(int) }
/// MODEL of RdbWriter<W>: notes what is written, item by item (the byte-level encoders write_string / write_length are C09's codec units)
pub struct RdbWriter { pub out: Ghost<Seq<WItem>> }
impl RdbWriter {
    #[verifier::external_body]
    fn write_byte(&mut self, byte: u8) -> (r: std::result::Result<(), IoError>)
        ensures r is Ok ==> final(self).out@ == old(self).out@.push(WItem::Byte(byte)),
    { unimplemented!() }
    #[verifier::external_body]
    fn write_string(&mut self, s: &[u8]) -> (r: std::result::Result<(), IoError>)
        ensures r is Ok ==> final(self).out@ == old(self).out@.push(WItem::Str(s@)),
    { unimplemented!() }
    #[verifier::external_body]
    fn write_length(&mut self, len: usize) -> (r: std::result::Result<(), IoError>)
        ensures r is Ok ==> final(self).out@ == old(self).out@.push(WItem::Len(len as int)),
    { unimplemented!() }

//@@ unit save_list_arm arm src/storage/rdb.rs RdbWriter::write_key_value "Value::List(list)"
//@@   opt same-return-type
//@@   tail Ok(())
//@@   rewrite RT "RdbOpcode::List as u8" "1u8"
//@@   rewrite RFOR 0 it
//@@   at "for item in list"
//@@|     let ghost o0 = old(self).out@;
//@@   loop 0
//@@|     invariant
//@@|         it.seq().len() == list@.len(), forall|j: int| 0 <= j < list@.len() ==> *(#[trigger] it.seq()[j]) == list@[j], it.history@ =~= it.seq().take(it.index@),
//@@|         self.out@ =~= o0 + seq![WItem::Byte(1u8), WItem::Str(key@), WItem::Len(list@.len() as int)] + list@.take(it.index@ as int).map_values(|e: Vec<u8>| WItem::Str(e@)),
//@@   loopstart 0
//@@|     proof { assert(*item == list@[it.index@ as int]); assert(list@.take(it.index@ + 1) =~= list@.take(it.index@ as int).push(*item)); }
//@@   afterloop 0
//@@|     proof { assert(list@.take(list@.len() as int) =~= list@); }
    fn save_list_arm(&mut self, key: &[u8], list: &VecDeque<Vec<u8>>) -> (r: std::result::Result<(), IoError>)
        ensures
            // C09: a list is written as the LIST type byte, the key, the element count and every element in list order — nothing else
            r is Ok ==> final(self).out@ == old(self).out@ + seq![WItem::Byte(1u8), WItem::Str(key@), WItem::Len(list@.len() as int)] + list@.map_values(|e: Vec<u8>| WItem::Str(e@)),
//@@ body
//@@ end
}
/// round trip at item level: what save_list_arm writes after the type byte is exactly a LIST record body (list_items) for the list's
/// elements, and load_list_arm turns such a body into one RPUSH per element in the same order — so the loaded list has the saved elements
/// in the saved order (RPUSH appends: shard_lists::rpush under C03)
pub proof fn lemma_list_record_roundtrip(key: Seq<u8>, list: Seq<Vec<u8>>)
    ensures ({
        let elems = list.map_values(|e: Vec<u8>| e@);
        let written = seq![WItem::Str(key), WItem::Len(list.len() as int)] + list.map_values(|e: Vec<u8>| WItem::Str(e@));
        &&& written.len() == list_items(key, elems).len()
        &&& forall|i: int| 0 <= i < written.len() ==> (match (#[trigger] written[i], list_items(key, elems)[i]) { (WItem::Str(a), Item::Str(b)) => a == b, (WItem::Len(a), Item::Len(b)) => a == b, _ => false })
        &&& list_effs(0, key, elems).len() == list.len()
        &&& forall|i: int| 0 <= i < list.len() ==> #[trigger] list_effs(0, key, elems)[i] == Eff::RPush(0, key, seq![list[i]@])
    }),
{
}
} // verus!
fn main() {}
