//@@ include prelude/head.rs
use std::time::{Duration, Instant};
use std::sync::Arc;
use std::collections::{VecDeque, HashMap, HashSet};
use std::alloc::Allocator;
//@@ include prelude/time.rs
//@@ include prelude/deque_iter.rs
//@@ include prelude/hash_iter.rs
//@@ include prelude/strnum.rs
//@@ include prelude/cmp.rs
//@@ include prelude/hash_keys.rs
//@@ include prelude/c16_keys.rs
verus! {
broadcast use {group_time, group_byte_keys, vstd::std_specs::hash::group_hash_axioms};
// C09, value level (lists): what the loader does with a LIST record. The reader is a MODEL that returns arbitrary items and notes them in a
// ghost sequence; the storage engine is a MODEL that notes the calls it receives. The unit is the real match arm of
// RdbReader::read_key_value_with_type.
pub struct FerrousError { pub g: Ghost<int> }
pub type Result<T> = std::result::Result<T, FerrousError>;
pub enum Item { Str(Seq<u8>), Len(int), F64(f64) }
pub enum Eff { RPush(int, Seq<u8>, Seq<Seq<u8>>), Expire(int, Seq<u8>, int), XAdd(int, Seq<u8>, StreamId), SAdd(int, Seq<u8>, Seq<Seq<u8>>), HSet(int, Seq<u8>, Seq<(Seq<u8>, Seq<u8>)>), SetStr(int, Seq<u8>, Seq<u8>, Option<int>), ZAdd(int, Seq<u8>, Seq<u8>, f64) }
pub struct RdbReader { pub reads: Ghost<Seq<Item>> }
pub struct StoreLog { pub effs: Ghost<Seq<Eff>> }
impl StoreLog {
    #[verifier::external_body]
    pub fn rpush(&mut self, db: usize, key: Vec<u8>, elements: Vec<Vec<u8>>) -> (r: Result<usize>)
        ensures final(self).effs@ == old(self).effs@.push(Eff::RPush(db as int, key@, elements@.map_values(|e: Vec<u8>| e@))),
    { unimplemented!() }
    #[verifier::external_body]
    pub fn set_string(&mut self, db: usize, key: Vec<u8>, value: Vec<u8>) -> (r: Result<()>)
        ensures final(self).effs@ == old(self).effs@.push(Eff::SetStr(db as int, key@, value@, None)),
    { unimplemented!() }
    #[verifier::external_body]
    pub fn set_string_ex(&mut self, db: usize, key: Vec<u8>, value: Vec<u8>, ttl: Duration) -> (r: Result<()>)
        ensures final(self).effs@ == old(self).effs@.push(Eff::SetStr(db as int, key@, value@, Some(dur_nanos(ttl)))),
    { unimplemented!() }
    #[verifier::external_body]
    pub fn sadd(&mut self, db: usize, key: Vec<u8>, members: Vec<Vec<u8>>) -> (r: Result<usize>)
        ensures final(self).effs@ == old(self).effs@.push(Eff::SAdd(db as int, key@, members@.map_values(|e: Vec<u8>| e@))),
    { unimplemented!() }
    #[verifier::external_body]
    pub fn hset(&mut self, db: usize, key: Vec<u8>, field_values: Vec<(Vec<u8>, Vec<u8>)>) -> (r: Result<usize>)
        ensures final(self).effs@ == old(self).effs@.push(Eff::HSet(db as int, key@, field_values@.map_values(|p: (Vec<u8>, Vec<u8>)| (p.0@, p.1@)))),
    { unimplemented!() }
    #[verifier::external_body]
    pub fn zadd(&mut self, db: usize, key: Vec<u8>, member: Vec<u8>, score: f64) -> (r: Result<bool>)
        ensures final(self).effs@ == old(self).effs@.push(Eff::ZAdd(db as int, key@, member@, score)),
    { unimplemented!() }
    #[verifier::external_body]
    pub fn xadd_with_id(&mut self, db: usize, key: Vec<u8>, id: StreamId, fields: HashMap<Vec<u8>, Vec<u8>>) -> (r: Result<()>)
        ensures final(self).effs@ == old(self).effs@.push(Eff::XAdd(db as int, key@, id)),
    { unimplemented!() }
    #[verifier::external_body]
    pub fn expire(&mut self, db: usize, key: &[u8], ttl: Duration) -> (r: Result<bool>)
        ensures final(self).effs@ == old(self).effs@.push(Eff::Expire(db as int, key@, dur_nanos(ttl))),
    { unimplemented!() }
}
impl RdbReader {
    #[verifier::external_body]
    fn read_string(&mut self) -> (r: Result<Vec<u8>>)
        ensures r matches Ok(v) ==> final(self).reads@ == old(self).reads@.push(Item::Str(v@)), r is Err ==> final(self).reads@ == old(self).reads@,
    { unimplemented!() }
    #[verifier::external_body]
    fn read_f64(&mut self) -> (r: Result<f64>)
        ensures r matches Ok(x) ==> final(self).reads@ == old(self).reads@.push(Item::F64(x)), r is Err ==> final(self).reads@ == old(self).reads@,
    { unimplemented!() }
    #[verifier::external_body]
    fn read_length(&mut self) -> (r: Result<usize>)
        ensures r matches Ok(n) ==> final(self).reads@ == old(self).reads@.push(Item::Len(n as int)), r is Err ==> final(self).reads@ == old(self).reads@,
    { unimplemented!() }
}
/// the items of a LIST record body: key, element count, the elements
pub open spec fn list_items(key: Seq<u8>, elems: Seq<Seq<u8>>) -> Seq<Item> {
    seq![Item::Str(key), Item::Len(elems.len() as int)] + elems.map_values(|e: Seq<u8>| Item::Str(e))
}
/// loading them: one RPUSH per element, in file order
pub open spec fn list_effs(db: int, key: Seq<u8>, elems: Seq<Seq<u8>>) -> Seq<Eff> { elems.map_values(|e: Seq<u8>| Eff::RPush(db, key, seq![e])) }

pub open spec fn str_record(r0: Seq<Item>, key: Seq<u8>, value: Seq<u8>) -> Seq<Item> { r0.push(Item::Str(key)).push(Item::Str(value)) }
pub open spec fn ttl_ns(ttl: Option<Duration>) -> Option<int> { match ttl { Some(t) => Some(dur_nanos(t)), None => None } }
/// member, score, member, score, ... as read; and the ZADDs they become
pub open spec fn zset_items(ms: Seq<(Seq<u8>, f64)>) -> Seq<Item>
    decreases ms.len()
{
    if ms.len() == 0 { Seq::empty() } else { zset_items(ms.drop_last()).push(Item::Str(ms.last().0)).push(Item::F64(ms.last().1)) }
}
pub open spec fn zset_record(key: Seq<u8>, ms: Seq<(Seq<u8>, f64)>) -> Seq<Item> { seq![Item::Str(key), Item::Len(ms.len() as int)] + zset_items(ms) }
pub open spec fn zset_effs(db: int, key: Seq<u8>, ms: Seq<(Seq<u8>, f64)>) -> Seq<Eff>
    decreases ms.len()
{
    if ms.len() == 0 { Seq::empty() } else { zset_effs(db, key, ms.drop_last()).push(Eff::ZAdd(db, key, ms.last().0, ms.last().1)) }
}
/// the items of the pairs of a HASH record: field, value, field, value, ...
pub open spec fn hash_items(fv: Seq<(Seq<u8>, Seq<u8>)>) -> Seq<Item>
    decreases fv.len()
{
    if fv.len() == 0 { Seq::empty() } else { hash_items(fv.drop_last()).push(Item::Str(fv.last().0)).push(Item::Str(fv.last().1)) }
}
pub open spec fn hash_record(key: Seq<u8>, fv: Seq<(Seq<u8>, Seq<u8>)>) -> Seq<Item> { seq![Item::Str(key), Item::Len(fv.len() as int)] + hash_items(fv) }
pub proof fn lemma_hash_items_push(fv: Seq<(Seq<u8>, Seq<u8>)>, p: (Seq<u8>, Seq<u8>))
    ensures hash_items(fv.push(p)) == hash_items(fv).push(Item::Str(p.0)).push(Item::Str(p.1)),
{
    assert(fv.push(p).drop_last() =~= fv);
}
impl RdbReader {
//@@ unit load_list_arm arm src/storage/rdb.rs RdbReader::read_key_value_with_type "op if op == RdbOpcode::List as u8"
//@@   opt same-return-type
//@@   tail Ok(())
//@@   params drop "storage: &Arc<StorageEngine>" add "storage: &mut StoreLog"
//@@   rewrite RFORC 0
//@@   after "let count = self.read_length()?;"
//@@|     let ghost mut elems: Seq<Seq<u8>> = Seq::empty(); let ghost r0 = old(self).reads@; let ghost e0 = old(storage).effs@;
//@@   loop 0
//@@|     invariant
//@@|         0 <= ___n <= ___end, ___end == count, elems.len() == ___n,
//@@|         self.reads@ =~= r0 + seq![Item::Str(key@), Item::Len(count as int)] + elems.map_values(|e: Seq<u8>| Item::Str(e)),
//@@|         storage.effs@ =~= e0 + list_effs(db as int, key@, elems),
//@@|     decreases ___end - ___n,
//@@   at "storage.rpush(db, key.clone(), vec![element])?;"
//@@|     let ghost el = element@; let ghost elems_b = elems;
//@@   after "storage.rpush(db, key.clone(), vec![element])?;"
//@@|     proof {
//@@|         elems = elems_b.push(el);
//@@|         assert(storage.effs@.len() == e0.len() + elems_b.len() + 1);
//@@|         assert(storage.effs@.last() matches Eff::RPush(d, k, es) && d == db as int && k == key@ && es =~= seq![el]);
//@@|         assert(seq![element].map_values(|e: Vec<u8>| e@) =~= seq![el]);
//@@|         assert(list_effs(db as int, key@, elems) =~= list_effs(db as int, key@, elems_b).push(Eff::RPush(db as int, key@, seq![el])));
//@@|         assert(elems.map_values(|e: Seq<u8>| Item::Str(e)) =~= elems_b.map_values(|e: Seq<u8>| Item::Str(e)).push(Item::Str(el)));
//@@|     }
//@@   after "if let Some(ttl) = ttl"
//@@|     proof {
//@@|         assert(self.reads@.subrange(r0.len() as int, self.reads@.len() as int) =~= list_items(key@, elems));
//@@|         assert(self.reads@.take(r0.len() as int) =~= r0);
//@@|         assert(storage.effs@ =~= e0 + list_effs(db as int, key@, elems) + (match ttl { Some(t) => seq![Eff::Expire(db as int, key@, dur_nanos(t))], None => Seq::<Eff>::empty() }));
//@@|     }
    fn load_list_arm(&mut self, storage: &mut StoreLog, db: usize, ttl: Option<Duration>) -> (r: Result<()>)
        ensures
            // C09: a LIST record is loaded as a list of exactly the elements that follow the count, whatever their bytes are, in file order,
            // one RPUSH each; the TTL of the record (if any) is applied after the last element
            r is Ok ==> exists|key: Seq<u8>, elems: Seq<Seq<u8>>| #[trigger] list_items(key, elems) == final(self).reads@.subrange(old(self).reads@.len() as int, final(self).reads@.len() as int)
                && final(self).reads@.take(old(self).reads@.len() as int) == old(self).reads@
                && final(storage).effs@ == old(storage).effs@ + list_effs(db as int, key, elems)
                    + (match ttl { Some(t) => seq![Eff::Expire(db as int, key, dur_nanos(t))], None => Seq::<Eff>::empty() }),
//@@ body
//@@ end
}

/// `StreamId::from_string(..)` (RPCALL site): the id the text spells, if any — unconstrained here
#[verifier::external_body]
pub fn verif_sid_from_str(s: &str) -> Option<StreamId> { unimplemented!() }
/// every effect from position `from` on concerns this key of this database
pub open spec fn only_key(effs: Seq<Eff>, from: int, db: int, key: Seq<u8>) -> bool {
    forall|i: int| from <= i < effs.len() ==> (match #[trigger] effs[i] { Eff::XAdd(d, k, _) => d == db && k == key, Eff::Expire(d, k, _) => d == db && k == key, Eff::RPush(d, k, _) => d == db && k == key, Eff::SAdd(d, k, _) => d == db && k == key, Eff::HSet(d, k, _) => d == db && k == key, Eff::SetStr(d, k, _, _) => d == db && k == key, Eff::ZAdd(d, k, _, _) => d == db && k == key })
}
impl RdbReader {
//@@ unit load_stream_arm arm src/storage/rdb.rs RdbReader::read_key_value_with_type "op if op == RdbOpcode::Stream as u8"
//@@   opt same-return-type
//@@   tail Ok(())
//@@   params drop "storage: &Arc<StorageEngine>" add "storage: &mut StoreLog"
//@@   rewrite RPCALL "crate::storage::stream::StreamId::from_string" verif_sid_from_str
//@@   rewrite RT "let mut fields = HashMap::new();" "let mut fields: HashMap<Vec<u8>, Vec<u8>> = HashMap::new();"
//@@   rewrite RFORC 1
//@@   loop 0
//@@|     invariant entry_idx <= remaining_count,
//@@|     decreases remaining_count - entry_idx,
//@@   loop 1
//@@|     invariant 0 <= ___n <= ___end, ___end == field_count, entry_idx + 2 * (field_count - ___n) <= remaining_count, entry_idx0 + 2 * ___n == entry_idx,
//@@|     decreases ___end - ___n,
//@@   at "for _ in 0..field_count"
//@@|     let ghost entry_idx0 = entry_idx as int;
    // C10 ("Loading a truncated or corrupted file ends with an error or a clean partial load, never a panic, a hang ..."): no postcondition —
    // the obligations of this unit are its SAFETY and TERMINATION conditions: for every answer of the reader (every count, every field-count
    // text: they come from the file) no arithmetic in the arm overflows and both loops terminate
    fn load_stream_arm(&mut self, storage: &mut StoreLog, db: usize, ttl: Option<Duration>) -> (r: Result<()>)
//@@ body
//@@ end
}
impl RdbReader {
//@@ unit load_string_arm arm src/storage/rdb.rs RdbReader::read_key_value_with_type "op if op == RdbOpcode::String as u8"
//@@   opt same-return-type
//@@   tail Ok(())
//@@   params drop "storage: &Arc<StorageEngine>" add "storage: &mut StoreLog"
//@@   after "let value = self.read_string()?;"
//@@|     let ghost kk = key@; let ghost vv = value@;
//@@   after "if let Some(ttl) = ttl"
//@@|     proof { assert(str_record(old(self).reads@, kk, vv) =~= self.reads@); }
    fn load_string_arm(&mut self, storage: &mut StoreLog, db: usize, ttl: Option<Duration>) -> (r: Result<()>)
        ensures
            // C09: a STRING record (key, value) is loaded with one SET of exactly those bytes, carrying the record's TTL if it has one —
            // never without it (C02: a key saved with a deadline does not come back persistent)
            r is Ok ==> exists|key: Seq<u8>, value: Seq<u8>| #[trigger] str_record(old(self).reads@, key, value) == final(self).reads@
                && final(storage).effs@ == old(storage).effs@.push(Eff::SetStr(db as int, key, value, ttl_ns(ttl))),
//@@ body
//@@ end

//@@ unit load_zset_arm arm src/storage/rdb.rs RdbReader::read_key_value_with_type "op if op == RdbOpcode::ZSet as u8 || op == RdbOpcode::ZSet2 as u8"
//@@   opt same-return-type
//@@   tail Ok(())
//@@   params drop "storage: &Arc<StorageEngine>" add "storage: &mut StoreLog"
//@@   rewrite RFORC 0
//@@   after "let count = self.read_length()?;"
//@@|     let ghost r0 = old(self).reads@; let ghost e0 = old(storage).effs@; let ghost mut ms: Seq<(Seq<u8>, f64)> = Seq::empty();
//@@   loop 0
//@@|     invariant 0 <= ___n <= ___end, ___end == count, ms.len() == ___n,
//@@|         self.reads@ =~= r0 + seq![Item::Str(key@), Item::Len(count as int)] + zset_items(ms),
//@@|         storage.effs@ =~= e0 + zset_effs(db as int, key@, ms),
//@@|     decreases ___end - ___n,
//@@   at "storage.zadd(db, key.clone(), member, score)?;"
//@@|     let ghost ms_b = ms; let ghost mm = member@;
//@@   after "storage.zadd(db, key.clone(), member, score)?;"
//@@|     proof { ms = ms_b.push((mm, score)); assert(ms.drop_last() =~= ms_b); }
//@@   after "if let Some(ttl) = ttl"
//@@|     proof {
//@@|         assert(self.reads@.subrange(r0.len() as int, self.reads@.len() as int) =~= zset_record(key@, ms));
//@@|         assert(self.reads@.take(r0.len() as int) =~= r0);
//@@|         assert(storage.effs@ =~= e0 + zset_effs(db as int, key@, ms) + (match ttl { Some(t) => seq![Eff::Expire(db as int, key@, dur_nanos(t))], None => Seq::<Eff>::empty() }));
//@@|     }
    fn load_zset_arm(&mut self, storage: &mut StoreLog, db: usize, ttl: Option<Duration>) -> (r: Result<()>)
        ensures
            // C09: a ZSET record (key, count, then member string and score alternating) is loaded with one ZADD per pair, member and score exactly as
            // read, in file order, then the record's TTL
            r is Ok ==> exists|key: Seq<u8>, ms: Seq<(Seq<u8>, f64)>| #[trigger] zset_record(key, ms) == final(self).reads@.subrange(old(self).reads@.len() as int, final(self).reads@.len() as int)
                && final(self).reads@.take(old(self).reads@.len() as int) == old(self).reads@
                && final(storage).effs@ == old(storage).effs@ + zset_effs(db as int, key, ms)
                    + (match ttl { Some(t) => seq![Eff::Expire(db as int, key, dur_nanos(t))], None => Seq::<Eff>::empty() }),
//@@ body
//@@ end

//@@ unit load_set_arm arm src/storage/rdb.rs RdbReader::read_key_value_with_type "op if op == RdbOpcode::Set as u8"
//@@   opt same-return-type
//@@   tail Ok(())
//@@   params drop "storage: &Arc<StorageEngine>" add "storage: &mut StoreLog"
//@@   rewrite RT "let mut members = Vec::new();" "let mut members: Vec<Vec<u8>> = Vec::new();"
//@@   rewrite RFORC 0
//@@   after "let count = self.read_length()?;"
//@@|     let ghost r0 = old(self).reads@;
//@@   loop 0
//@@|     invariant 0 <= ___n <= ___end, ___end == count, members@.len() == ___n, storage.effs@ == old(storage).effs@,
//@@|         self.reads@ =~= r0 + seq![Item::Str(key@), Item::Len(count as int)] + members@.map_values(|e: Vec<u8>| Item::Str(e@)),
//@@|     decreases ___end - ___n,
//@@   at "storage.sadd(db, key.clone(), members)?;"
//@@|     let ghost ms = members@.map_values(|e: Vec<u8>| e@);
//@@|     proof { assert(members@.map_values(|e: Vec<u8>| Item::Str(e@)) =~= ms.map_values(|e: Seq<u8>| Item::Str(e))); }
//@@   after "if let Some(ttl) = ttl"
//@@|     proof {
//@@|         assert(self.reads@.subrange(r0.len() as int, self.reads@.len() as int) =~= list_items(key@, ms));
//@@|         assert(self.reads@.take(r0.len() as int) =~= r0);
//@@|         assert(storage.effs@ =~= old(storage).effs@ + seq![Eff::SAdd(db as int, key@, ms)] + (match ttl { Some(t) => seq![Eff::Expire(db as int, key@, dur_nanos(t))], None => Seq::<Eff>::empty() }));
//@@|     }
    fn load_set_arm(&mut self, storage: &mut StoreLog, db: usize, ttl: Option<Duration>) -> (r: Result<()>)
        ensures
            // C09: a SET record (key, count, members — the same item layout as a LIST body) is loaded with ONE SADD of exactly the members that follow
            // the count, then the record's TTL
            r is Ok ==> exists|key: Seq<u8>, ms: Seq<Seq<u8>>| #[trigger] list_items(key, ms) == final(self).reads@.subrange(old(self).reads@.len() as int, final(self).reads@.len() as int)
                && final(self).reads@.take(old(self).reads@.len() as int) == old(self).reads@
                && final(storage).effs@ == old(storage).effs@ + seq![Eff::SAdd(db as int, key, ms)]
                    + (match ttl { Some(t) => seq![Eff::Expire(db as int, key, dur_nanos(t))], None => Seq::<Eff>::empty() }),
//@@ body
//@@ end

//@@ unit load_hash_arm arm src/storage/rdb.rs RdbReader::read_key_value_with_type "op if op == RdbOpcode::Hash as u8"
//@@   opt same-return-type
//@@   tail Ok(())
//@@   params drop "storage: &Arc<StorageEngine>" add "storage: &mut StoreLog"
//@@   rewrite RT "let mut field_values = Vec::new();" "let mut field_values: Vec<(Vec<u8>, Vec<u8>)> = Vec::new();"
//@@   rewrite RFORC 0
//@@   after "let count = self.read_length()?;"
//@@|     let ghost r0 = old(self).reads@;
//@@   loop 0
//@@|     invariant 0 <= ___n <= ___end, ___end == count, field_values@.len() == ___n, storage.effs@ == old(storage).effs@,
//@@|         self.reads@ =~= r0 + seq![Item::Str(key@), Item::Len(count as int)] + hash_items(field_values@.map_values(|p: (Vec<u8>, Vec<u8>)| (p.0@, p.1@))),
//@@|     decreases ___end - ___n,
//@@   at "field_values.push((field, value));"
//@@|     let ghost fv_b = field_values@.map_values(|p: (Vec<u8>, Vec<u8>)| (p.0@, p.1@)); let ghost f = field@; let ghost v = value@;
//@@   after "field_values.push((field, value));"
//@@|     proof {
//@@|         assert(field_values@.map_values(|p: (Vec<u8>, Vec<u8>)| (p.0@, p.1@)) =~= fv_b.push((f, v)));
//@@|         lemma_hash_items_push(fv_b, (f, v));
//@@|     }
//@@   at "storage.hset(db, key.clone(), field_values)?;"
//@@|     let ghost fv = field_values@.map_values(|p: (Vec<u8>, Vec<u8>)| (p.0@, p.1@));
//@@   after "if let Some(ttl) = ttl"
//@@|     proof {
//@@|         assert(self.reads@.subrange(r0.len() as int, self.reads@.len() as int) =~= hash_record(key@, fv));
//@@|         assert(self.reads@.take(r0.len() as int) =~= r0);
//@@|         assert(storage.effs@ =~= old(storage).effs@ + seq![Eff::HSet(db as int, key@, fv)] + (match ttl { Some(t) => seq![Eff::Expire(db as int, key@, dur_nanos(t))], None => Seq::<Eff>::empty() }));
//@@|     }
    fn load_hash_arm(&mut self, storage: &mut StoreLog, db: usize, ttl: Option<Duration>) -> (r: Result<()>)
        ensures
            // C09: a HASH record (key, pair count, then field and value strings alternating) is loaded with ONE HSET of exactly those pairs, in file
            // order, then the record's TTL
            r is Ok ==> exists|key: Seq<u8>, fv: Seq<(Seq<u8>, Seq<u8>)>| #[trigger] hash_record(key, fv) == final(self).reads@.subrange(old(self).reads@.len() as int, final(self).reads@.len() as int)
                && final(self).reads@.take(old(self).reads@.len() as int) == old(self).reads@
                && final(storage).effs@ == old(storage).effs@ + seq![Eff::HSet(db as int, key, fv)]
                    + (match ttl { Some(t) => seq![Eff::Expire(db as int, key, dur_nanos(t))], None => Seq::<Eff>::empty() }),
//@@ body
//@@ end
}

// ---- the writer's side of the same record
/// MODEL of the skip list for the writer: its (member, score) pairs in rank order (the order itself is C04's subject); len and range_by_rank as
/// the contracts c04 / shard_zsets assume for them
pub struct SkipList { pub pairs: Ghost<Seq<(Vec<u8>, f64)>> }
pub struct RangeResult { pub items: Vec<(Vec<u8>, f64)> }
impl SkipList {
    #[verifier::external_body]
    pub fn len(&self) -> (r: usize) ensures r == self.pairs@.len(), { unimplemented!() }
    #[verifier::external_body]
    pub fn range_by_rank(&self, start_rank: usize, end_rank: usize) -> (r: RangeResult)
        requires start_rank <= end_rank < self.pairs@.len(),
        ensures r.items@ == self.pairs@.subrange(start_rank as int, end_rank + 1),
    { unimplemented!() }
}
/// member, score, member, score, ... as written
pub open spec fn zset_witems(ps: Seq<(Vec<u8>, f64)>) -> Seq<WItem>
    decreases ps.len()
{
    if ps.len() == 0 { Seq::empty() } else { zset_witems(ps.drop_last()).push(WItem::Str(ps.last().0@)).push(WItem::F64(ps.last().1)) }
}
/// expiry opcode, then the deadline now + ttl in milliseconds, saturating
pub open spec fn ttl_prefix(o0: Seq<WItem>, now_ms: u64, ttl_ms: int) -> Seq<WItem> {
    o0.push(WItem::Byte(0xFCu8)).push(WItem::U64(if now_ms + ttl_ms <= u64::MAX { (now_ms + ttl_ms) as u64 } else { u64::MAX }))
}
/// the wall clock in milliseconds since the epoch (RXPR site): unconstrained
#[verifier::external_body]
pub fn verif_now_ms() -> u128 { unimplemented!() }
/// `u64::try_from(x).unwrap_or(u64::MAX)` (RT site): the value if it fits, else the greatest
pub fn verif_u64_or_max(x: u128) -> (r: u64)
    ensures r == (if x <= u64::MAX { x as u64 } else { u64::MAX }),
{ if x <= u64::MAX as u128 { x as u64 } else { u64::MAX } }
pub struct IoError { pub g: Ghost<int> }
pub enum WItem { Byte(u8), Str(Seq<u8>), Len(int), U64(u64), F64(f64) }
/// MODEL of RdbWriter<W>: notes what is written, item by item (the byte-level encoders write_string / write_length are C09's codec units)
pub struct RdbWriter { pub out: Ghost<Seq<WItem>> }
impl RdbWriter {
    #[verifier::external_body]
    fn write_byte(&mut self, byte: u8) -> (r: std::result::Result<(), IoError>)
        ensures r is Ok ==> final(self).out@ == old(self).out@.push(WItem::Byte(byte)),
    { unimplemented!() }
    #[verifier::external_body]
    fn write_string(&mut self, s: &[u8]) -> (r: std::result::Result<(), IoError>)
        ensures r is Ok ==> final(self).out@ == old(self).out@.push(WItem::Str(s@)),
    { unimplemented!() }
    #[verifier::external_body]
    fn write_length(&mut self, len: usize) -> (r: std::result::Result<(), IoError>)
        ensures r is Ok ==> final(self).out@ == old(self).out@.push(WItem::Len(len as int)),
    { unimplemented!() }

    #[verifier::external_body]
    fn write_u64_le(&mut self, n: u64) -> (r: std::result::Result<(), IoError>)
        ensures r is Ok ==> final(self).out@ == old(self).out@.push(WItem::U64(n)),
    { unimplemented!() }

//@@ unit save_ttl_prefix stmts src/storage/rdb.rs RdbWriter::write_key_value "if let Some(ttl) = ttl" upto "match value"
//@@   opt same-return-type
//@@   tail Ok(())
//@@   rewrite RXPR "SystemTime::now() .duration_since(UNIX_EPOCH) .unwrap() .as_millis()" "verif_now_ms()"
//@@   rewrite RT "RdbOpcode::ExpireTimeMs as u8" "0xFCu8"
//@@   rewrite RT "u64::try_from(ttl.as_millis()).unwrap_or(u64::MAX)" "verif_u64_or_max(ttl.as_millis())"
//@@   after "self.write_u64_le(expiry_ms)?;"
//@@|     proof { assert(ttl_prefix(old(self).out@, now_ms, dur_nanos(ttl) / 1_000_000) =~= self.out@); }
    fn save_ttl_prefix(&mut self, ttl: Option<Duration>) -> (r: std::result::Result<(), IoError>)
        ensures
            // C09 / C10 / C06: a key with a TTL is written with the expiry opcode and the deadline now + ttl in milliseconds — computed without
            // overflow for EVERY ttl (saturating at the greatest deadline); a key without TTL gets no prefix
            ttl is None ==> r is Ok && final(self).out@ == old(self).out@,
            (ttl is Some && r is Ok) ==> exists|now_ms: u64| #[trigger] ttl_prefix(old(self).out@, now_ms, dur_nanos(ttl->Some_0) / 1_000_000) == final(self).out@,
//@@ body
//@@ end

    #[verifier::external_body]
    fn write_f64(&mut self, n: f64) -> (r: std::result::Result<(), IoError>)
        ensures r is Ok ==> final(self).out@ == old(self).out@.push(WItem::F64(n)),
    { unimplemented!() }

//@@ unit save_zset_arm arm src/storage/rdb.rs RdbWriter::write_key_value "Value::SortedSet(skiplist)"
//@@   opt same-return-type
//@@   tail Ok(())
//@@   rewrite RT "RdbOpcode::ZSet as u8" "3u8"
//@@   rewrite RFOR 0 it
//@@   at "for (member, score) in items"
//@@|     let ghost o0 = old(self).out@; let ghost ps = skiplist.pairs@; proof { assert(items@ =~= ps); }
//@@   loop 0
//@@|     invariant it.seq() == ps, it.history@ =~= it.seq().take(it.index@),
//@@|         self.out@ =~= o0 + seq![WItem::Byte(3u8), WItem::Str(key@), WItem::Len(ps.len() as int)] + zset_witems(ps.take(it.index@ as int)),
//@@   loopstart 0
//@@|     proof { assert(ps[it.index@ as int] == (member, score)); assert(ps.take(it.index@ + 1).drop_last() =~= ps.take(it.index@ as int)); }
//@@   afterloop 0
//@@|     proof { assert(ps.take(ps.len() as int) =~= ps); }
    fn save_zset_arm(&mut self, key: &[u8], skiplist: &SkipList) -> (r: std::result::Result<(), IoError>)
        requires skiplist.pairs@.len() > 0,     // no key holds an empty sorted set (the key goes with its last member: shard_zsets::zrem, C04)
        ensures
            // C09: a sorted set is written as the ZSET type byte, the key, the member count and every (member, score) pair in rank order
            r is Ok ==> final(self).out@ == old(self).out@ + seq![WItem::Byte(3u8), WItem::Str(key@), WItem::Len(skiplist.pairs@.len() as int)] + zset_witems(skiplist.pairs@),
//@@ body
//@@ end

//@@ unit save_string_arm arm src/storage/rdb.rs RdbWriter::write_key_value "Value::String(bytes)"
//@@   opt same-return-type
//@@   tail Ok(())
//@@   rewrite RT "RdbOpcode::String as u8" "0u8"
    fn save_string_arm(&mut self, key: &[u8], bytes: &Vec<u8>) -> (r: std::result::Result<(), IoError>)
        ensures r is Ok ==> final(self).out@ == old(self).out@.push(WItem::Byte(0u8)).push(WItem::Str(key@)).push(WItem::Str(bytes@)),
//@@ body
//@@ end

//@@ unit save_list_arm arm src/storage/rdb.rs RdbWriter::write_key_value "Value::List(list)"
//@@   opt same-return-type
//@@   tail Ok(())
//@@   rewrite RT "RdbOpcode::List as u8" "1u8"
//@@   rewrite RFOR 0 it
//@@   at "for item in list"
//@@|     let ghost o0 = old(self).out@;
//@@   loop 0
//@@|     invariant
//@@|         it.seq().len() == list@.len(), forall|j: int| 0 <= j < list@.len() ==> *(#[trigger] it.seq()[j]) == list@[j], it.history@ =~= it.seq().take(it.index@),
//@@|         self.out@ =~= o0 + seq![WItem::Byte(1u8), WItem::Str(key@), WItem::Len(list@.len() as int)] + list@.take(it.index@ as int).map_values(|e: Vec<u8>| WItem::Str(e@)),
//@@   loopstart 0
//@@|     proof { assert(*item == list@[it.index@ as int]); assert(list@.take(it.index@ + 1) =~= list@.take(it.index@ as int).push(*item)); }
//@@   afterloop 0
//@@|     proof { assert(list@.take(list@.len() as int) =~= list@); }
    fn save_list_arm(&mut self, key: &[u8], list: &VecDeque<Vec<u8>>) -> (r: std::result::Result<(), IoError>)
        ensures
            // C09: a list is written as the LIST type byte, the key, the element count and every element in list order — nothing else
            r is Ok ==> final(self).out@ == old(self).out@ + seq![WItem::Byte(1u8), WItem::Str(key@), WItem::Len(list@.len() as int)] + list@.map_values(|e: Vec<u8>| WItem::Str(e@)),
//@@ body
//@@ end

//@@ unit save_set_arm arm src/storage/rdb.rs RdbWriter::write_key_value "Value::Set(set)"
//@@   opt same-return-type
//@@   tail Ok(())
//@@   rewrite RT "RdbOpcode::Set as u8" "2u8"
//@@   rewrite RFOR 0 it
//@@   at "for member in set"
//@@|     let ghost o0 = old(self).out@; let ghost mut ord: Seq<Vec<u8>> = Seq::empty();
//@@   loop 0
//@@|     invariant
//@@|         it.seq().no_duplicates(), it.seq().len() == set@.len(), forall|j: int| 0 <= j < it.seq().len() ==> set@.contains(*(#[trigger] it.seq()[j])), it.history@ =~= it.seq().take(it.index@),
//@@|         ord.len() == it.index@, forall|j: int| 0 <= j < ord.len() ==> #[trigger] ord[j] == *it.seq()[j],
//@@|         self.out@ =~= o0 + seq![WItem::Byte(2u8), WItem::Str(key@), WItem::Len(set@.len() as int)] + ord.map_values(|e: Vec<u8>| WItem::Str(e@)),
//@@|     ensures ord.len() == set@.len(), ord.no_duplicates(), forall|j: int| 0 <= j < ord.len() ==> set@.contains(#[trigger] ord[j]),
//@@|         self.out@ =~= o0 + seq![WItem::Byte(2u8), WItem::Str(key@), WItem::Len(set@.len() as int)] + ord.map_values(|e: Vec<u8>| WItem::Str(e@)),
//@@   loopstart 0
//@@|     let ghost ord_b = ord;
//@@|     proof { assert(member == it.seq()[it.index@ as int]); ord = ord_b.push(*member);
//@@|         assert(ord.map_values(|e: Vec<u8>| WItem::Str(e@)) =~= ord_b.map_values(|e: Vec<u8>| WItem::Str(e@)).push(WItem::Str(member@))); }
//@@   after "for member in set"
//@@|     proof { assert(set_written(o0, key@, ord) =~= self.out@); }
    fn save_set_arm(&mut self, key: &[u8], set: &HashSet<Vec<u8>>) -> (r: std::result::Result<(), IoError>)
        ensures
            // C09: a set is written as the SET type byte, the key, the member count and every member exactly once (in the container's order)
            r is Ok ==> exists|ms: Seq<Vec<u8>>| ms.len() == set@.len() && ms.no_duplicates() && (forall|j: int| 0 <= j < ms.len() ==> set@.contains(#[trigger] ms[j]))
                && #[trigger] set_written(old(self).out@, key@, ms) == final(self).out@,
//@@ body
//@@ end

//@@ unit save_hash_arm arm src/storage/rdb.rs RdbWriter::write_key_value "Value::Hash(hash)"
//@@   opt same-return-type
//@@   tail Ok(())
//@@   rewrite RT "RdbOpcode::Hash as u8" "4u8"
//@@   rewrite RFOR 0 it
//@@   at "for (field, value) in hash"
//@@|     let ghost o0 = old(self).out@; let ghost mut ord: Seq<(Vec<u8>, Vec<u8>)> = Seq::empty();
//@@   loop 0
//@@|     invariant
//@@|         it.seq().no_duplicates(), it.seq().len() == hash@.len(), it.history@ =~= it.seq().take(it.index@),
//@@|         forall|j: int| 0 <= j < it.seq().len() ==> hash@.contains_key(*(#[trigger] it.seq()[j]).0) && hash@[*it.seq()[j].0] == *it.seq()[j].1,
//@@|         ord.len() == it.index@, forall|j: int| 0 <= j < ord.len() ==> #[trigger] ord[j] == (*it.seq()[j].0, *it.seq()[j].1),
//@@|         self.out@ =~= o0 + seq![WItem::Byte(4u8), WItem::Str(key@), WItem::Len(hash@.len() as int)] + hash_witems(ord),
//@@|     ensures ord.len() == hash@.len(), forall|j: int| 0 <= j < ord.len() ==> hash@.contains_key((#[trigger] ord[j]).0) && hash@[ord[j].0] == ord[j].1,
//@@|         self.out@ =~= o0 + seq![WItem::Byte(4u8), WItem::Str(key@), WItem::Len(hash@.len() as int)] + hash_witems(ord),
//@@   loopstart 0
//@@|     let ghost ord_b = ord;
//@@|     proof { assert((field, value) == it.seq()[it.index@ as int]); ord = ord_b.push((*field, *value)); assert(ord.drop_last() =~= ord_b); }
//@@   after "for (field, value) in hash"
//@@|     proof { assert(hash_written(o0, key@, ord) =~= self.out@); }
    fn save_hash_arm(&mut self, key: &[u8], hash: &HashMap<Vec<u8>, Vec<u8>>) -> (r: std::result::Result<(), IoError>)
        ensures
            // C09: a hash is written as the HASH type byte, the key, the pair count and every (field, value) pair of the hash — field then value —
            // as many pairs as the hash has
            r is Ok ==> exists|ord: Seq<(Vec<u8>, Vec<u8>)>| ord.len() == hash@.len() && (forall|j: int| 0 <= j < ord.len() ==> hash@.contains_key((#[trigger] ord[j]).0) && hash@[ord[j].0] == ord[j].1)
                && #[trigger] hash_written(old(self).out@, key@, ord) == final(self).out@,
//@@ body
//@@ end
}
/// field, value, field, value, ... as written
pub open spec fn hash_witems(ord: Seq<(Vec<u8>, Vec<u8>)>) -> Seq<WItem>
    decreases ord.len()
{
    if ord.len() == 0 { Seq::empty() } else { hash_witems(ord.drop_last()).push(WItem::Str(ord.last().0@)).push(WItem::Str(ord.last().1@)) }
}
pub open spec fn hash_written(o0: Seq<WItem>, key: Seq<u8>, ord: Seq<(Vec<u8>, Vec<u8>)>) -> Seq<WItem> {
    o0 + seq![WItem::Byte(4u8), WItem::Str(key), WItem::Len(ord.len() as int)] + hash_witems(ord)
}
pub open spec fn set_written(o0: Seq<WItem>, key: Seq<u8>, ms: Seq<Vec<u8>>) -> Seq<WItem> {
    o0 + seq![WItem::Byte(2u8), WItem::Str(key), WItem::Len(ms.len() as int)] + ms.map_values(|e: Vec<u8>| WItem::Str(e@))
}
/// round trip at item level: what save_list_arm writes after the type byte is exactly a LIST record body (list_items) for the list's
/// elements, and load_list_arm turns such a body into one RPUSH per element in the same order — so the loaded list has the saved elements
/// in the saved order (RPUSH appends: shard_lists::rpush under C03)
pub proof fn lemma_list_record_roundtrip(key: Seq<u8>, list: Seq<Vec<u8>>)
    ensures ({
        let elems = list.map_values(|e: Vec<u8>| e@);
        let written = seq![WItem::Str(key), WItem::Len(list.len() as int)] + list.map_values(|e: Vec<u8>| WItem::Str(e@));
        &&& written.len() == list_items(key, elems).len()
        &&& forall|i: int| 0 <= i < written.len() ==> (match (#[trigger] written[i], list_items(key, elems)[i]) { (WItem::Str(a), Item::Str(b)) => a == b, (WItem::Len(a), Item::Len(b)) => a == b, _ => false })
        &&& list_effs(0, key, elems).len() == list.len()
        &&& forall|i: int| 0 <= i < list.len() ==> #[trigger] list_effs(0, key, elems)[i] == Eff::RPush(0, key, seq![list[i]@])
    }),
{
}
} // verus!
fn main() {}
