//@@ include contracts/inc_cmd_header.rs
verus! {
pub uninterp spec fn f64_is_nan(x: f64) -> bool;
pub assume_specification[ f64::is_nan ](x: f64) -> (r: bool)
    ensures r == f64_is_nan(x);
pub type ZM = Map<Seq<u8>, f64>;
pub type ZS = Map<(int, Seq<u8>), ZM>;
pub open spec fn zmembers(z: ZS, db: int, k: Seq<u8>) -> ZM { if z.contains_key((db, k)) { z[(db, k)] } else { Map::empty() } }
impl EngineModel {
    /// ASSUMED CONTRACT summarising shard_zsets::zadd + the skip-list contract: a NaN score and a key of another type are
    /// refused without any change; otherwise the member has the new score, and the result says whether it was new
    #[verifier::external_body]
    pub fn zadd(&mut self, db: usize, key: Vec<u8>, member: Vec<u8>, score: f64) -> (r: Result<bool>)
        ensures
            final(self).ttl@ == old(self).ttl@,
            (f64_is_nan(score) || (ds_get(old(self).ds@, db as int, key@) matches Some(dv) && !(dv is ZSet))) ==> r is Err && final(self).ds@ == old(self).ds@ && final(self).z@ == old(self).z@,
            r is Err ==> final(self).ds@ == old(self).ds@ && final(self).z@ == old(self).z@,
            (r is Err && !f64_is_nan(score) && !(ds_get(old(self).ds@, db as int, key@) matches Some(dv) && !(dv is ZSet))) ==> mem_exhausted(*old(self)),
            r matches Ok(b) ==> b == !zmembers(old(self).z@, db as int, key@).contains_key(member@)
                && final(self).ds@ == old(self).ds@.insert((db as int, key@), DV::ZSet)
                && final(self).z@ == old(self).z@.insert((db as int, key@), zmembers(old(self).z@, db as int, key@).insert(member@, score)),
    { unimplemented!() }
}
pub struct MonStub { pub g: Ghost<int> }
pub struct Server { pub storage: EngineModel, pub monitoring: MonStub }
pub open spec fn zrefused(r: Result<RespFrame>, o: Server, f: Server) -> bool {
    (r matches Ok(fr) && fr is Error) && f.storage.ds@ == o.storage.ds@ && f.storage.ttl@ == o.storage.ttl@ && f.storage.z@ == o.storage.z@
}
/// the score at position i: a bulk string that parses as a float and is a number
pub open spec fn score_arg(parts: Seq<RespFrame>, i: int) -> Option<f64> {
    match num_arg::<f64>(parts, i) { Some(x) => if f64_is_nan(x) { None } else { Some(x) }, None => None }
}
/// pair j of ZADD (score at 2+2j, member at 3+2j) is well-formed
pub open spec fn pair_ok(parts: Seq<RespFrame>, j: int) -> bool { score_arg(parts, 2 + 2 * j) is Some && arg(parts, 2 + 2 * j + 1) is Some }
/// every (score, member) pair of ZADD is well-formed
pub open spec fn zadd_pairs_ok(parts: Seq<RespFrame>) -> bool {
    forall|j: int| 0 <= j < (parts.len() - 2) / 2 ==> #[trigger] pair_ok(parts, j)
}
/// members after the first n pairs, and how many of them were new
pub open spec fn zadd_upto(zm: ZM, parts: Seq<RespFrame>, n: int) -> (int, ZM)
    decreases n
{
    if n <= 0 { (0, zm) } else {
        let p = zadd_upto(zm, parts, n - 1);
        let m = arg(parts, 2 + 2 * (n - 1) + 1)->Some_0; let s = score_arg(parts, 2 + 2 * (n - 1))->Some_0;
        (p.0 + (if p.1.contains_key(m) { 0int } else { 1int }), p.1.insert(m, s))
    }
}

impl Server {
//@@ unit handle_zadd fn src/network/server.rs Server::handle_zadd
//@@   rewrite R3
//@@   params drop "&self" add "&mut self"
//@@   rewrite RCALL parse "String::from_utf8_lossy(bytes)" verif_cow_parse
//@@   rewrite RFOR 1 it
//@@   loop 0
//@@|     invariant
//@@|         2 <= i <= parts@.len(), i % 2 == 0, parts@.len() % 2 == 0, parts@.len() >= 4, arg(parts@, 1) == Some(key@),
//@@|         self.storage == old(self).storage,
//@@|         pairs@.len() == (i - 2) / 2,
//@@|         forall|j: int| 0 <= j < pairs@.len() ==> #[trigger] pair_ok(parts@, j),
//@@|         forall|j: int| 0 <= j < pairs@.len() ==> score_arg(parts@, 2 + 2 * j) == Some((#[trigger] pairs@[j]).0),
//@@|         forall|j: int| 0 <= j < pairs@.len() ==> arg(parts@, 2 + 2 * j + 1) == Some((#[trigger] pairs@[j]).1@),
//@@|     decreases parts@.len() - i,
//@@   loopstart 0
//@@|     let ghost j0 = (i - 2) / 2; let ghost oldp = pairs@;
//@@|     proof {
//@@|         assert(2 + 2 * j0 == i && 0 <= j0 < (parts@.len() - 2) / 2);
//@@|         assert(pair_ok(parts@, j0) == (score_arg(parts@, i as int) is Some && arg(parts@, i + 1) is Some));
//@@|     }
//@@   after "pairs.push((score, member));"
//@@|     proof {
//@@|         assert(pairs@ =~= oldp.push((score, member)));
//@@|         assert(pairs@[j0] == (score, member));
//@@|         assert forall|j: int| 0 <= j < j0 implies pairs@[j] == oldp[j] by {}
//@@|         assert((i + 2 - 2) / 2 == j0 + 1);
//@@|         assert(score_arg(parts@, i as int) == Some(score));
//@@|         assert(arg(parts@, i + 1) == Some(member@));
//@@|     }
//@@   after "if self.storage.zadd(db, key.clone(), member, score)?"
//@@|     proof {
//@@|         let zm0 = zmembers(old(self).storage.z@, db as int, key@);
//@@|         assert(zadd_upto(zm0, parts@, n0 + 1).1 == zadd_upto(zm0, parts@, n0).1.insert(member@, score));
//@@|         assert(self.storage.z@ =~= old(self).storage.z@.insert((db as int, key@), zadd_upto(zm0, parts@, n0 + 1).1));
//@@|         assert(self.storage.ds@ =~= old(self).storage.ds@.insert((db as int, key@), DV::ZSet));
//@@|     }
//@@   loop 1
//@@|     invariant
//@@|         it.seq() == pairs0, it.history@ =~= it.seq().take(it.index@),
//@@|         parts@.len() % 2 == 0, parts@.len() >= 4, arg(parts@, 1) == Some(key@), zadd_pairs_ok(parts@),
//@@|         pairs0.len() == (parts@.len() - 2) / 2,
//@@|         forall|j: int| 0 <= j < pairs0.len() ==> score_arg(parts@, 2 + 2 * j) == Some((#[trigger] pairs0[j]).0) && arg(parts@, 2 + 2 * j + 1) == Some(pairs0[j].1@),
//@@|         0 <= new_members <= it.index@,
//@@|         self.storage.ttl@ == old(self).storage.ttl@,
//@@|         it.index@ == 0 ==> self.storage.ds@ == old(self).storage.ds@ && self.storage.z@ == old(self).storage.z@,
//@@|         it.index@ > 0 ==> self.storage.ds@ == old(self).storage.ds@.insert((db as int, key@), DV::ZSet)
//@@|             && self.storage.z@ == old(self).storage.z@.insert((db as int, key@), zadd_upto(zmembers(old(self).storage.z@, db as int, key@), parts@, it.index@ as int).1),
//@@|         new_members as int == zadd_upto(zmembers(old(self).storage.z@, db as int, key@), parts@, it.index@ as int).0,
//@@|         it.index@ > 0 ==> !(ds_get(old(self).storage.ds@, db as int, key@) matches Some(dv) && !(dv is ZSet)),
//@@|     ensures it.index@ == pairs0.len(),
//@@   loopstart 1
//@@|     let ghost n0 = it.index@ as int;
//@@|     proof {
//@@|         assert(pairs0[n0] == (score, member));
//@@|         assert(zmembers(self.storage.z@, db as int, key@) == zadd_upto(zmembers(old(self).storage.z@, db as int, key@), parts@, n0).1);
//@@|         reveal_with_fuel(zadd_upto, 2);
//@@|     }
//@@   at "let mut new_members = 0;"
//@@|     let ghost pairs0 = pairs@;
//@@|     proof {
//@@|         assert forall|j: int| 0 <= j < (parts@.len() - 2) / 2 implies #[trigger] pair_ok(parts@, j) by { let p = pairs0[j]; assert(pair_ok(parts@, j)); }
//@@|     }
    fn handle_zadd(&mut self, parts: &[RespFrame], db: usize) -> (r: Result<RespFrame>)
        ensures
            (parts@.len() < 4 || parts@.len() % 2 != 0 || arg(parts@, 1) is None) ==> zrefused(r, *old(self), *final(self)),
            // C04: a multi-member ZADD with ANY malformed pair (a score that is not a number included) is refused and adds NOTHING
            (parts@.len() >= 4 && parts@.len() % 2 == 0 && arg(parts@, 1) is Some && !zadd_pairs_ok(parts@)) ==> zrefused(r, *old(self), *final(self)),
            (parts@.len() >= 4 && parts@.len() % 2 == 0 && arg(parts@, 1) is Some && zadd_pairs_ok(parts@)) ==> ({
                let k = arg(parts@, 1)->Some_0; let n = (parts@.len() - 2) / 2;
                let res = zadd_upto(zmembers(old(self).storage.z@, db as int, k), parts@, n as int);
                // a key of another type: no success reply, nothing changes
                &&& (ds_get(old(self).storage.ds@, db as int, k) matches Some(dv) && !(dv is ZSet)) ==> !(r matches Ok(f) && !(f is Error))
                        && final(self).storage.ds@ == old(self).storage.ds@ && final(self).storage.z@ == old(self).storage.z@
                // otherwise every pair is applied left to right; the reply counts the members that were new
                // (a storage failure part-way through — memory limit — is reported as an error)
                &&& (!(ds_get(old(self).storage.ds@, db as int, k) matches Some(dv) && !(dv is ZSet)) && r is Ok) ==>
                        r == Ok::<RespFrame, FerrousError>(RespFrame::Integer(res.0 as i64))
                        && final(self).storage.ds@ == old(self).storage.ds@.insert((db as int, k), DV::ZSet)
                        && final(self).storage.z@ == old(self).storage.z@.insert((db as int, k), res.1)
                        && final(self).storage.ttl@ == old(self).storage.ttl@
            }),
//@@ body
//@@ end
}

} // verus!
fn main() {}
