//@@ include contracts/inc_cmd_header.rs
verus! {
pub uninterp spec fn f64_is_nan(x: f64) -> bool;
pub assume_specification[ f64::is_nan ](x: f64) -> (r: bool)
    ensures r == f64_is_nan(x);
pub type ZM = Map<Seq<u8>, f64>;
pub type ZS = Map<(int, Seq<u8>), ZM>;
pub open spec fn zmembers(z: ZS, db: int, k: Seq<u8>) -> ZM { if z.contains_key((db, k)) { z[(db, k)] } else { Map::empty() } }
impl EngineModel {
    /// ASSUMED CONTRACT summarising shard_zsets::zadd + the skip-list contract: a NaN score and a key of another type are
    /// refused without any change; otherwise the member has the new score, and the result says whether it was new
    #[verifier::external_body]
    pub fn zadd(&mut self, db: usize, key: Vec<u8>, member: Vec<u8>, score: f64) -> (r: Result<bool>)
        ensures
            final(self).ttl@ == old(self).ttl@,
            (f64_is_nan(score) || (ds_get(old(self).ds@, db as int, key@) matches Some(dv) && !(dv is ZSet))) ==> r is Err && final(self).ds@ == old(self).ds@ && final(self).z@ == old(self).z@,
            r is Err ==> final(self).ds@ == old(self).ds@ && final(self).z@ == old(self).z@,
            (r is Err && !f64_is_nan(score) && !(ds_get(old(self).ds@, db as int, key@) matches Some(dv) && !(dv is ZSet))) ==> mem_exhausted(*old(self)),
            r matches Ok(b) ==> b == !zmembers(old(self).z@, db as int, key@).contains_key(member@)
                && final(self).ds@ == old(self).ds@.insert((db as int, key@), DV::ZSet)
                && final(self).z@ == old(self).z@.insert((db as int, key@), zmembers(old(self).z@, db as int, key@).insert(member@, score)),
    { unimplemented!() }
}
/// the score text a reply carries (`format!("{}", score)` / `score.to_string()`: float formatting is outside the verifier)
pub uninterp spec fn score_text(x: f64) -> RespFrame;
#[verifier::external_body]
pub fn verif_score_frame(x: f64) -> (r: RespFrame) ensures r == score_text(x), r is BulkString, { unimplemented!() }
impl EngineModel {
    #[verifier::external_body]
    pub fn zscore(&mut self, db: usize, key: &[u8], member: &[u8]) -> (r: Result<Option<f64>>)
        ensures final(self).ds@ == old(self).ds@, final(self).ttl@ == old(self).ttl@, final(self).z@ == old(self).z@,
            (ds_get(old(self).ds@, db as int, key@) matches Some(dv) && !(dv is ZSet)) ==> r is Err,
            !(ds_get(old(self).ds@, db as int, key@) matches Some(dv) && !(dv is ZSet)) ==>
                r == Ok::<Option<f64>, FerrousError>(if zmembers(old(self).z@, db as int, key@).contains_key(member@) { Some(zmembers(old(self).z@, db as int, key@)[member@]) } else { None }),
    { unimplemented!() }
    #[verifier::external_body]
    pub fn zcard(&mut self, db: usize, key: &[u8]) -> (r: Result<usize>)
        ensures final(self).ds@ == old(self).ds@, final(self).ttl@ == old(self).ttl@, final(self).z@ == old(self).z@,
            (ds_get(old(self).ds@, db as int, key@) matches Some(dv) && !(dv is ZSet)) ==> r is Err,
            !(ds_get(old(self).ds@, db as int, key@) matches Some(dv) && !(dv is ZSet)) ==> (r matches Ok(n) && n == zmembers(old(self).z@, db as int, key@).dom().len()),
    { unimplemented!() }
    /// removing the last member removes the key (and its TTL)
    #[verifier::external_body]
    pub fn zrem(&mut self, db: usize, key: &[u8], member: &[u8]) -> (r: Result<bool>)
        ensures
            (ds_get(old(self).ds@, db as int, key@) matches Some(dv) && !(dv is ZSet)) ==> r is Err && final(self).ds@ == old(self).ds@ && final(self).ttl@ == old(self).ttl@ && final(self).z@ == old(self).z@,
            !(ds_get(old(self).ds@, db as int, key@) matches Some(dv) && !(dv is ZSet)) ==> ({
                let zm = zmembers(old(self).z@, db as int, key@);
                &&& r == Ok::<bool, FerrousError>(zm.contains_key(member@))
                &&& !zm.contains_key(member@) ==> final(self).ds@ == old(self).ds@ && final(self).ttl@ == old(self).ttl@ && final(self).z@ == old(self).z@
                &&& zm.contains_key(member@) && zm.remove(member@).dom().len() > 0 ==> final(self).ds@ == old(self).ds@ && final(self).ttl@ == old(self).ttl@
                        && final(self).z@ == old(self).z@.insert((db as int, key@), zm.remove(member@))
                &&& zm.contains_key(member@) && zm.remove(member@).dom().len() == 0 ==> final(self).ds@ == old(self).ds@.remove((db as int, key@))
                        && final(self).ttl@ == old(self).ttl@.remove((db as int, key@)) && final(self).z@ == old(self).z@.remove((db as int, key@))
            }),
    { unimplemented!() }
}
impl EngineModel {
    /// ASSUMED CONTRACT summarising shard_zsets::zincrby: NaN increment, a NaN sum, and a key of another type are refused
    /// without change; otherwise the member's score becomes the returned sum (never NaN)
    #[verifier::external_body]
    pub fn zincrby(&mut self, db: usize, key: Vec<u8>, member: Vec<u8>, increment: f64) -> (r: Result<f64>)
        ensures final(self).ttl@ == old(self).ttl@,
            r is Err ==> final(self).ds@ == old(self).ds@ && final(self).z@ == old(self).z@,
            (f64_is_nan(increment) || (ds_get(old(self).ds@, db as int, key@) matches Some(dv) && !(dv is ZSet))) ==> r is Err,
            r matches Ok(s) ==> !f64_is_nan(s) && final(self).ds@ == old(self).ds@.insert((db as int, key@), DV::ZSet)
                && final(self).z@ == old(self).z@.insert((db as int, key@), zmembers(old(self).z@, db as int, key@).insert(member@, s)),
    { unimplemented!() }
}
/// the least / greatest member of a non-empty sorted set in (score, member bytes) order (the order itself is C04's skip-list subject)
pub uninterp spec fn zmin(zm: ZM) -> Seq<u8>;
pub uninterp spec fn zmax(zm: ZM) -> Seq<u8>;
pub broadcast axiom fn axiom_zmin_member(zm: ZM)
    ensures zm.dom().len() > 0 ==> zm.contains_key(#[trigger] zmin(zm));
pub broadcast axiom fn axiom_zmax_member(zm: ZM)
    ensures zm.dom().len() > 0 ==> zm.contains_key(#[trigger] zmax(zm));
impl EngineModel {
    /// ASSUMED CONTRACT for the two rank ranges ZPOPMIN / ZPOPMAX ask for: (0, 0) = the least member, (-1, -1) = the greatest
    #[verifier::external_body]
    pub fn zrange(&mut self, db: usize, key: &[u8], start: isize, stop: isize, rev: bool) -> (r: Result<Vec<(Vec<u8>, f64)>>)
        requires model_domain(!rev && ((start == 0 && stop == 0) || (start == -1 && stop == -1))),
        ensures final(self).ds@ == old(self).ds@, final(self).ttl@ == old(self).ttl@, final(self).z@ == old(self).z@,
            other_type(old(self).ds@, db as int, key@) ==> r is Err,
            !other_type(old(self).ds@, db as int, key@) ==> r is Ok,
            (!other_type(old(self).ds@, db as int, key@) && !rev && ((start == 0 && stop == 0) || (start == -1 && stop == -1))) ==> ({
                let zm = zmembers(old(self).z@, db as int, key@);
                let m = if start == 0 { zmin(zm) } else { zmax(zm) };
                if zm.dom().len() == 0 { r->Ok_0@.len() == 0 } else { r->Ok_0@.len() == 1 && r->Ok_0@[0].0@ == m && r->Ok_0@[0].1 == zm[m] }
            }),
    { unimplemented!() }
}
/// marks a precondition that delimits what an assumed model contract describes (a call outside it makes the unit UNDECIDED)
pub open spec fn model_domain(b: bool) -> bool { b }
/// `v.into_iter().next()` (RXPR site): the first element, if any
#[verifier::external_body]
pub fn verif_first(v: Vec<(Vec<u8>, f64)>) -> (r: Option<(Vec<u8>, f64)>)
    ensures v@.len() == 0 ==> r is None, v@.len() > 0 ==> r == Some(v@[0]),
{ unimplemented!() }
/// ZPOPMIN / ZPOPMAX key n: the first n extreme members, one after the other (fewer if the set runs out); each pop is a ZREM
pub open spec fn zpop_upto(m: EngineModel, db: int, k: Seq<u8>, n: int, least: bool) -> (Seq<(Seq<u8>, f64)>, DS, Map<(int, Seq<u8>), int>, ZS)
    decreases n
{
    if n <= 0 { (Seq::empty(), m.ds@, m.ttl@, m.z@) } else {
        let p = zpop_upto(m, db, k, n - 1, least);
        let zm = zmembers(p.3, db, k);
        if zm.dom().len() == 0 { p } else {
            let x = if least { zmin(zm) } else { zmax(zm) };
            if zm.remove(x).dom().len() > 0 { (p.0.push((x, zm[x])), p.1, p.2, p.3.insert((db, k), zm.remove(x))) }
            else { (p.0.push((x, zm[x])), p.1.remove((db, k)), p.2.remove((db, k)), p.3.remove((db, k))) }
        }
    }
}
/// once the set has run out, asking for more pops changes nothing
pub proof fn lemma_zpop_stable(m: EngineModel, db: int, k: Seq<u8>, a: int, b: int, least: bool)
    requires 0 <= a <= b, zmembers(zpop_upto(m, db, k, a, least).3, db, k).dom().len() == 0,
    ensures zpop_upto(m, db, k, b, least) == zpop_upto(m, db, k, a, least),
    decreases b - a
{
    if a < b { lemma_zpop_stable(m, db, k, a, b - 1, least); }
}
/// the reply lists the popped members with their scores, in pop order: [m1, s1, m2, s2, ..]
pub open spec fn zpop_reply(v: Seq<RespFrame>, popped: Seq<(Seq<u8>, f64)>) -> bool {
    v.len() == 2 * popped.len() && forall|j: int| 0 <= j < popped.len() ==> bulk_reply(#[trigger] v[2 * j]) == Some(Some(popped[j].0)) && v[2 * j + 1] == score_text(popped[j].1)
}
/// the key holds a value that is not a sorted set
pub open spec fn other_type(ds: DS, db: int, k: Seq<u8>) -> bool { ds_get(ds, db, k) matches Some(dv) && !(dv is ZSet) }
/// ZREM key m1 ..: members removed left to right; the key disappears with its last member; non-bulk arguments are skipped
pub open spec fn zrem_upto(m: EngineModel, db: int, k: Seq<u8>, parts: Seq<RespFrame>, n: int) -> (int, DS, Map<(int, Seq<u8>), int>, ZS)
    decreases n
{
    if n <= 2 { (0, m.ds@, m.ttl@, m.z@) } else {
        let p = zrem_upto(m, db, k, parts, n - 1);
        match arg(parts, n - 1) {
            None => p,
            Some(x) => {
                let zm = zmembers(p.3, db, k);
                if !zm.contains_key(x) { p }
                else if zm.remove(x).dom().len() > 0 { (p.0 + 1, p.1, p.2, p.3.insert((db, k), zm.remove(x))) }
                else { (p.0 + 1, p.1.remove((db, k)), p.2.remove((db, k)), p.3.remove((db, k))) }
            },
        }
    }
}
pub struct MonStub { pub g: Ghost<int> }
pub struct Server { pub storage: EngineModel, pub monitoring: MonStub }
pub open spec fn zrefused(r: Result<RespFrame>, o: Server, f: Server) -> bool {
    (r matches Ok(fr) && fr is Error) && f.storage.ds@ == o.storage.ds@ && f.storage.ttl@ == o.storage.ttl@ && f.storage.z@ == o.storage.z@
}
/// the score at position i: a bulk string that parses as a float and is a number
pub open spec fn score_arg(parts: Seq<RespFrame>, i: int) -> Option<f64> {
    match num_arg::<f64>(parts, i) { Some(x) => if f64_is_nan(x) { None } else { Some(x) }, None => None }
}
/// pair j of ZADD (score at 2+2j, member at 3+2j) is well-formed
pub open spec fn pair_ok(parts: Seq<RespFrame>, j: int) -> bool { score_arg(parts, 2 + 2 * j) is Some && arg(parts, 2 + 2 * j + 1) is Some }
/// every (score, member) pair of ZADD is well-formed
pub open spec fn zadd_pairs_ok(parts: Seq<RespFrame>) -> bool {
    forall|j: int| 0 <= j < (parts.len() - 2) / 2 ==> #[trigger] pair_ok(parts, j)
}
/// members after the first n pairs, and how many of them were new
pub open spec fn zadd_upto(zm: ZM, parts: Seq<RespFrame>, n: int) -> (int, ZM)
    decreases n
{
    if n <= 0 { (0, zm) } else {
        let p = zadd_upto(zm, parts, n - 1);
        let m = arg(parts, 2 + 2 * (n - 1) + 1)->Some_0; let s = score_arg(parts, 2 + 2 * (n - 1))->Some_0;
        (p.0 + (if p.1.contains_key(m) { 0int } else { 1int }), p.1.insert(m, s))
    }
}

impl Server {
//@@ unit handle_zadd fn src/network/server.rs Server::handle_zadd
//@@   rewrite R3
//@@   params drop "&self" add "&mut self"
//@@   rewrite RCALL parse "String::from_utf8_lossy(bytes)" verif_cow_parse
//@@   rewrite RFOR 1 it
//@@   loop 0
//@@|     invariant
//@@|         2 <= i <= parts@.len(), i % 2 == 0, parts@.len() % 2 == 0, parts@.len() >= 4, arg(parts@, 1) == Some(key@),
//@@|         self.storage == old(self).storage,
//@@|         pairs@.len() == (i - 2) / 2,
//@@|         forall|j: int| 0 <= j < pairs@.len() ==> #[trigger] pair_ok(parts@, j),
//@@|         forall|j: int| 0 <= j < pairs@.len() ==> score_arg(parts@, 2 + 2 * j) == Some((#[trigger] pairs@[j]).0),
//@@|         forall|j: int| 0 <= j < pairs@.len() ==> arg(parts@, 2 + 2 * j + 1) == Some((#[trigger] pairs@[j]).1@),
//@@|     decreases parts@.len() - i,
//@@   loopstart 0
//@@|     let ghost j0 = (i - 2) / 2; let ghost oldp = pairs@;
//@@|     proof {
//@@|         assert(2 + 2 * j0 == i && 0 <= j0 < (parts@.len() - 2) / 2);
//@@|         assert(pair_ok(parts@, j0) == (score_arg(parts@, i as int) is Some && arg(parts@, i + 1) is Some));
//@@|     }
//@@   after "pairs.push((score, member));"
//@@|     proof {
//@@|         assert(pairs@ =~= oldp.push((score, member)));
//@@|         assert(pairs@[j0] == (score, member));
//@@|         assert forall|j: int| 0 <= j < j0 implies pairs@[j] == oldp[j] by {}
//@@|         assert((i + 2 - 2) / 2 == j0 + 1);
//@@|         assert(score_arg(parts@, i as int) == Some(score));
//@@|         assert(arg(parts@, i + 1) == Some(member@));
//@@|     }
//@@   after "if self.storage.zadd(db, key.clone(), member, score)?"
//@@|     proof {
//@@|         let zm0 = zmembers(old(self).storage.z@, db as int, key@);
//@@|         assert(zadd_upto(zm0, parts@, n0 + 1).1 == zadd_upto(zm0, parts@, n0).1.insert(member@, score));
//@@|         assert(self.storage.z@ =~= old(self).storage.z@.insert((db as int, key@), zadd_upto(zm0, parts@, n0 + 1).1));
//@@|         assert(self.storage.ds@ =~= old(self).storage.ds@.insert((db as int, key@), DV::ZSet));
//@@|     }
//@@   loop 1
//@@|     invariant
//@@|         it.seq() == pairs0, it.history@ =~= it.seq().take(it.index@),
//@@|         parts@.len() % 2 == 0, parts@.len() >= 4, arg(parts@, 1) == Some(key@), zadd_pairs_ok(parts@),
//@@|         pairs0.len() == (parts@.len() - 2) / 2,
//@@|         forall|j: int| 0 <= j < pairs0.len() ==> score_arg(parts@, 2 + 2 * j) == Some((#[trigger] pairs0[j]).0) && arg(parts@, 2 + 2 * j + 1) == Some(pairs0[j].1@),
//@@|         0 <= new_members <= it.index@,
//@@|         self.storage.ttl@ == old(self).storage.ttl@,
//@@|         it.index@ == 0 ==> self.storage.ds@ == old(self).storage.ds@ && self.storage.z@ == old(self).storage.z@,
//@@|         it.index@ > 0 ==> self.storage.ds@ == old(self).storage.ds@.insert((db as int, key@), DV::ZSet)
//@@|             && self.storage.z@ == old(self).storage.z@.insert((db as int, key@), zadd_upto(zmembers(old(self).storage.z@, db as int, key@), parts@, it.index@ as int).1),
//@@|         new_members as int == zadd_upto(zmembers(old(self).storage.z@, db as int, key@), parts@, it.index@ as int).0,
//@@|         it.index@ > 0 ==> !(ds_get(old(self).storage.ds@, db as int, key@) matches Some(dv) && !(dv is ZSet)),
//@@|     ensures it.index@ == pairs0.len(),
//@@   loopstart 1
//@@|     let ghost n0 = it.index@ as int;
//@@|     proof {
//@@|         assert(pairs0[n0] == (score, member));
//@@|         assert(zmembers(self.storage.z@, db as int, key@) == zadd_upto(zmembers(old(self).storage.z@, db as int, key@), parts@, n0).1);
//@@|         reveal_with_fuel(zadd_upto, 2);
//@@|     }
//@@   at "let mut new_members = 0;"
//@@|     let ghost pairs0 = pairs@;
//@@|     proof {
//@@|         assert forall|j: int| 0 <= j < (parts@.len() - 2) / 2 implies #[trigger] pair_ok(parts@, j) by { let p = pairs0[j]; assert(pair_ok(parts@, j)); }
//@@|     }
    fn handle_zadd(&mut self, parts: &[RespFrame], db: usize) -> (r: Result<RespFrame>)
        ensures
            (parts@.len() < 4 || parts@.len() % 2 != 0 || arg(parts@, 1) is None) ==> zrefused(r, *old(self), *final(self)),
            // C04: a multi-member ZADD with ANY malformed pair (a score that is not a number included) is refused and adds NOTHING
            (parts@.len() >= 4 && parts@.len() % 2 == 0 && arg(parts@, 1) is Some && !zadd_pairs_ok(parts@)) ==> zrefused(r, *old(self), *final(self)),
            (parts@.len() >= 4 && parts@.len() % 2 == 0 && arg(parts@, 1) is Some && zadd_pairs_ok(parts@)) ==> ({
                let k = arg(parts@, 1)->Some_0; let n = (parts@.len() - 2) / 2;
                let res = zadd_upto(zmembers(old(self).storage.z@, db as int, k), parts@, n as int);
                // a key of another type: no success reply, nothing changes
                &&& (ds_get(old(self).storage.ds@, db as int, k) matches Some(dv) && !(dv is ZSet)) ==> !(r matches Ok(f) && !(f is Error))
                        && final(self).storage.ds@ == old(self).storage.ds@ && final(self).storage.z@ == old(self).storage.z@
                // otherwise every pair is applied left to right; the reply counts the members that were new
                // (a storage failure part-way through — memory limit — is reported as an error)
                &&& (!(ds_get(old(self).storage.ds@, db as int, k) matches Some(dv) && !(dv is ZSet)) && r is Ok) ==>
                        r == Ok::<RespFrame, FerrousError>(RespFrame::Integer(res.0 as i64))
                        && final(self).storage.ds@ == old(self).storage.ds@.insert((db as int, k), DV::ZSet)
                        && final(self).storage.z@ == old(self).storage.z@.insert((db as int, k), res.1)
                        && final(self).storage.ttl@ == old(self).storage.ttl@
            }),
//@@ body
//@@ end

//@@ unit handle_zrem fn src/network/server.rs Server::handle_zrem
//@@   rewrite R3
//@@   params drop "&self" add "&mut self"
//@@   rewrite RFORC 0
//@@   loop 0
//@@|     invariant
//@@|         2 <= i__n <= i__end, i__end == parts@.len(), 0 <= removed <= i__n - 2, arg(parts@, 1) == Some(key@),
//@@|         other_type(old(self).storage.ds@, db as int, key@) && all_bulk(parts@, 2) ==> i__n == 2,
//@@|         other_type(old(self).storage.ds@, db as int, key@) ==> self.storage.ds@ == old(self).storage.ds@ && self.storage.ttl@ == old(self).storage.ttl@ && self.storage.z@ == old(self).storage.z@,
//@@|         !other_type(old(self).storage.ds@, db as int, key@) ==> !other_type(self.storage.ds@, db as int, key@)
//@@|             && (removed as int, self.storage.ds@, self.storage.ttl@, self.storage.z@) == zrem_upto(old(self).storage, db as int, key@, parts@, i__n as int),
//@@|     decreases i__end - i__n,
    fn handle_zrem(&mut self, parts: &[RespFrame], db: usize) -> (r: Result<RespFrame>)
        ensures
            (parts@.len() < 3 || arg(parts@, 1) is None) ==> zrefused(r, *old(self), *final(self)),
            parts@.len() >= 3 && arg(parts@, 1) is Some ==> ({
                let k = arg(parts@, 1)->Some_0;
                if ds_get(old(self).storage.ds@, db as int, k) matches Some(dv) && !(dv is ZSet) {
                    // (member arguments that are not bulk strings are skipped; a real client sends bulk strings only)
                    (all_bulk(parts@, 2) ==> !(r matches Ok(f) && !(f is Error))) && final(self).storage.ds@ == old(self).storage.ds@ && final(self).storage.z@ == old(self).storage.z@ && final(self).storage.ttl@ == old(self).storage.ttl@
                } else {
                    let s = zrem_upto(old(self).storage, db as int, k, parts@, parts@.len() as int);
                    r == Ok::<RespFrame, FerrousError>(RespFrame::Integer(s.0 as i64)) && final(self).storage.ds@ == s.1 && final(self).storage.ttl@ == s.2 && final(self).storage.z@ == s.3
                }
            }),
//@@ body
//@@ end

//@@ unit handle_zincrby fn src/network/server.rs Server::handle_zincrby
//@@   rewrite R3
//@@   params drop "&self" add "&mut self"
//@@   rewrite RCALL parse "String::from_utf8_lossy(bytes)" verif_cow_parse
//@@   rewrite RXPR "new_score.to_string()" "new_score"
//@@   rewrite RT "RespFrame::from_string(" "verif_score_frame("
    fn handle_zincrby(&mut self, parts: &[RespFrame], db: usize) -> (r: Result<RespFrame>)
        ensures
            (parts@.len() != 4 || arg(parts@, 1) is None || num_arg::<f64>(parts@, 2) is None || arg(parts@, 3) is None) ==> zrefused(r, *old(self), *final(self)),
            parts@.len() == 4 && arg(parts@, 1) is Some && num_arg::<f64>(parts@, 2) is Some && arg(parts@, 3) is Some ==> ({
                let k = arg(parts@, 1)->Some_0; let inc = num_arg::<f64>(parts@, 2)->Some_0; let m = arg(parts@, 3)->Some_0;
                // an increment that is not a number, or a key of another type: no success reply, nothing changes
                &&& (f64_is_nan(inc) || (ds_get(old(self).storage.ds@, db as int, k) matches Some(dv) && !(dv is ZSet))) ==>
                        !(r matches Ok(f) && !(f is Error)) && final(self).storage.ds@ == old(self).storage.ds@ && final(self).storage.z@ == old(self).storage.z@
                // a success reply carries the score that is now stored for the member, and that score is a number
                &&& (r matches Ok(f) && !(f is Error)) ==> exists|s: f64| !f64_is_nan(s) && r->Ok_0 == score_text(s)
                        && final(self).storage.z@ == old(self).storage.z@.insert((db as int, k), zmembers(old(self).storage.z@, db as int, k).insert(m, s))
                // a failure leaves everything as it was
                &&& !(r matches Ok(f) && !(f is Error)) ==> final(self).storage.ds@ == old(self).storage.ds@ && final(self).storage.z@ == old(self).storage.z@
            }),
//@@ body
//@@ end

//@@ unit handle_zpopmin fn src/network/server.rs Server::handle_zpopmin
//@@   rewrite R3
//@@   params drop "&self" add "&mut self"
//@@   rewrite RCALL parse "String::from_utf8_lossy(bytes)" verif_cow_parse
//@@   rewrite? RXPR "members.into_iter().next()" "verif_first(members)"
//@@   rewrite RXPR "score.to_string()" "score"
//@@   rewrite RT "RespFrame::from_string(" "verif_score_frame("
//@@   rewrite RFOR 0 it
//@@   loop 0
//@@|     invariant_except_break
//@@|         results@.len() == 2 * it.index@,
//@@|     invariant
//@@|         it.index@ <= count, arg(parts@, 1) == Some(key@), results@.len() % 2 == 0, results@.len() / 2 <= count,
//@@|         2 <= parts@.len() <= 3, parts@.len() == 3 ==> num_arg::<usize>(parts@, 2) == Some(count), parts@.len() == 2 ==> count == 1,
//@@|         other_type(old(self).storage.ds@, db as int, key@) ==> self.storage.ds@ == old(self).storage.ds@ && self.storage.ttl@ == old(self).storage.ttl@ && self.storage.z@ == old(self).storage.z@ && results@.len() == 0,
//@@|         !other_type(old(self).storage.ds@, db as int, key@) ==> !other_type(self.storage.ds@, db as int, key@) && ({
//@@|             let s = zpop_upto(old(self).storage, db as int, key@, (results@.len() / 2) as int, true);
//@@|             self.storage.ds@ == s.1 && self.storage.ttl@ == s.2 && self.storage.z@ == s.3 && zpop_reply(results@, s.0) && s.0.len() == results@.len() / 2 }),
//@@|     ensures
//@@|         other_type(old(self).storage.ds@, db as int, key@) ==> count == 0,
//@@|         !other_type(old(self).storage.ds@, db as int, key@) ==> (results@.len() / 2 == count || zmembers(self.storage.z@, db as int, key@).dom().len() == 0),
//@@   at "if parts.len() < 2 || parts.len() > 3"
//@@|     broadcast use {axiom_zmin_member, axiom_zmax_member};
//@@   loopstart 0
//@@|     let ghost n0 = (results@.len() / 2) as int; let ghost res0 = results@;
//@@|     proof { reveal_with_fuel(zpop_upto, 2); }
//@@   at "if self.storage.zrem(db, key, &member)?"
//@@|     proof {
//@@|         let zm = zmembers(self.storage.z@, db as int, key@);
//@@|         assert(zm.dom().len() > 0);
//@@|         axiom_zmin_member(zm); axiom_zmax_member(zm);
//@@|         assert(zm.contains_key(member@));
//@@|     }
//@@   after "results.push(RespFrame::from_string(score.to_string()));"
//@@|     proof {
//@@|         let s1 = zpop_upto(old(self).storage, db as int, key@, n0 + 1, true);
//@@|         assert(results@.len() == res0.len() + 2);
//@@|         assert(results@.len() / 2 == n0 + 1);
//@@|         assert forall|j: int| 0 <= j < s1.0.len() implies bulk_reply(#[trigger] results@[2 * j]) == Some(Some(s1.0[j].0)) && results@[2 * j + 1] == score_text(s1.0[j].1) by {
//@@|             if j < n0 { assert(results@[2 * j] == res0[2 * j]); assert(results@[2 * j + 1] == res0[2 * j + 1]); }
//@@|         }
//@@|     }
//@@   afterloop 0
//@@|     proof {
//@@|         if !other_type(old(self).storage.ds@, db as int, key@) && results@.len() / 2 != count {
//@@|             lemma_zpop_stable(old(self).storage, db as int, key@, (results@.len() / 2) as int, count as int, true);
//@@|         }
//@@|     }
    fn handle_zpopmin(&mut self, parts: &[RespFrame], db: usize) -> (r: Result<RespFrame>)
        ensures
            (parts@.len() < 2 || parts@.len() > 3 || arg(parts@, 1) is None || (parts@.len() == 3 && num_arg::<usize>(parts@, 2) is None)) ==> zrefused(r, *old(self), *final(self)),
            (2 <= parts@.len() <= 3 && arg(parts@, 1) is Some && (parts@.len() == 3 ==> num_arg::<usize>(parts@, 2) is Some)) ==> ({
                let k = arg(parts@, 1)->Some_0; let n = if parts@.len() == 3 { num_arg::<usize>(parts@, 2)->Some_0 as int } else { 1int };
                if other_type(old(self).storage.ds@, db as int, k) {
                    (n > 0 ==> !(r matches Ok(f) && !(f is Error))) && final(self).storage.ds@ == old(self).storage.ds@ && final(self).storage.z@ == old(self).storage.z@
                } else {
                    let s = zpop_upto(old(self).storage, db as int, k, n, true);
                    // exactly min(n, cardinality) members leave the set, the extreme ones first; a count of 0 pops nothing
                    r is Ok && final(self).storage.ds@ == s.1 && final(self).storage.ttl@ == s.2 && final(self).storage.z@ == s.3
                    && (if s.0.len() == 0 { r->Ok_0 == RespFrame::Array(None) } else { r->Ok_0 matches RespFrame::Array(Some(v)) && zpop_reply(v@, s.0) })
                }
            }),
//@@ body
//@@ end

//@@ unit handle_zpopmax fn src/network/server.rs Server::handle_zpopmax
//@@   rewrite R3
//@@   params drop "&self" add "&mut self"
//@@   rewrite RCALL parse "String::from_utf8_lossy(bytes)" verif_cow_parse
//@@   rewrite? RXPR "members.into_iter().next()" "verif_first(members)"
//@@   rewrite RXPR "score.to_string()" "score"
//@@   rewrite RT "RespFrame::from_string(" "verif_score_frame("
//@@   rewrite RFOR 0 it
//@@   loop 0
//@@|     invariant_except_break
//@@|         results@.len() == 2 * it.index@,
//@@|     invariant
//@@|         it.index@ <= count, arg(parts@, 1) == Some(key@), results@.len() % 2 == 0, results@.len() / 2 <= count,
//@@|         2 <= parts@.len() <= 3, parts@.len() == 3 ==> num_arg::<usize>(parts@, 2) == Some(count), parts@.len() == 2 ==> count == 1,
//@@|         other_type(old(self).storage.ds@, db as int, key@) ==> self.storage.ds@ == old(self).storage.ds@ && self.storage.ttl@ == old(self).storage.ttl@ && self.storage.z@ == old(self).storage.z@ && results@.len() == 0,
//@@|         !other_type(old(self).storage.ds@, db as int, key@) ==> !other_type(self.storage.ds@, db as int, key@) && ({
//@@|             let s = zpop_upto(old(self).storage, db as int, key@, (results@.len() / 2) as int, false);
//@@|             self.storage.ds@ == s.1 && self.storage.ttl@ == s.2 && self.storage.z@ == s.3 && zpop_reply(results@, s.0) && s.0.len() == results@.len() / 2 }),
//@@|     ensures
//@@|         other_type(old(self).storage.ds@, db as int, key@) ==> count == 0,
//@@|         !other_type(old(self).storage.ds@, db as int, key@) ==> (results@.len() / 2 == count || zmembers(self.storage.z@, db as int, key@).dom().len() == 0),
//@@   at "if parts.len() < 2 || parts.len() > 3"
//@@|     broadcast use {axiom_zmin_member, axiom_zmax_member};
//@@   loopstart 0
//@@|     let ghost n0 = (results@.len() / 2) as int; let ghost res0 = results@;
//@@|     proof { reveal_with_fuel(zpop_upto, 2); }
//@@   at "if self.storage.zrem(db, key, &member)?"
//@@|     proof {
//@@|         let zm = zmembers(self.storage.z@, db as int, key@);
//@@|         assert(zm.dom().len() > 0);
//@@|         axiom_zmin_member(zm); axiom_zmax_member(zm);
//@@|         assert(zm.contains_key(member@));
//@@|     }
//@@   after "results.push(RespFrame::from_string(score.to_string()));"
//@@|     proof {
//@@|         let s1 = zpop_upto(old(self).storage, db as int, key@, n0 + 1, false);
//@@|         assert(results@.len() == res0.len() + 2);
//@@|         assert(results@.len() / 2 == n0 + 1);
//@@|         assert forall|j: int| 0 <= j < s1.0.len() implies bulk_reply(#[trigger] results@[2 * j]) == Some(Some(s1.0[j].0)) && results@[2 * j + 1] == score_text(s1.0[j].1) by {
//@@|             if j < n0 { assert(results@[2 * j] == res0[2 * j]); assert(results@[2 * j + 1] == res0[2 * j + 1]); }
//@@|         }
//@@|     }
//@@   afterloop 0
//@@|     proof {
//@@|         if !other_type(old(self).storage.ds@, db as int, key@) && results@.len() / 2 != count {
//@@|             lemma_zpop_stable(old(self).storage, db as int, key@, (results@.len() / 2) as int, count as int, false);
//@@|         }
//@@|     }
    fn handle_zpopmax(&mut self, parts: &[RespFrame], db: usize) -> (r: Result<RespFrame>)
        ensures
            (parts@.len() < 2 || parts@.len() > 3 || arg(parts@, 1) is None || (parts@.len() == 3 && num_arg::<usize>(parts@, 2) is None)) ==> zrefused(r, *old(self), *final(self)),
            (2 <= parts@.len() <= 3 && arg(parts@, 1) is Some && (parts@.len() == 3 ==> num_arg::<usize>(parts@, 2) is Some)) ==> ({
                let k = arg(parts@, 1)->Some_0; let n = if parts@.len() == 3 { num_arg::<usize>(parts@, 2)->Some_0 as int } else { 1int };
                if other_type(old(self).storage.ds@, db as int, k) {
                    (n > 0 ==> !(r matches Ok(f) && !(f is Error))) && final(self).storage.ds@ == old(self).storage.ds@ && final(self).storage.z@ == old(self).storage.z@
                } else {
                    let s = zpop_upto(old(self).storage, db as int, k, n, false);
                    // exactly min(n, cardinality) members leave the set, the extreme ones first; a count of 0 pops nothing
                    r is Ok && final(self).storage.ds@ == s.1 && final(self).storage.ttl@ == s.2 && final(self).storage.z@ == s.3
                    && (if s.0.len() == 0 { r->Ok_0 == RespFrame::Array(None) } else { r->Ok_0 matches RespFrame::Array(Some(v)) && zpop_reply(v@, s.0) })
                }
            }),
//@@ body
//@@ end

//@@ unit handle_zscore fn src/network/server.rs Server::handle_zscore
//@@   params drop "&self" add "&mut self"
//@@   rewrite RT "format!(\"{}\", score)" "score"
//@@   rewrite RT "RespFrame::from_string(score_str)" "verif_score_frame(score_str)"
    fn handle_zscore(&mut self, parts: &[RespFrame], db: usize) -> (r: Result<RespFrame>)
        ensures
            final(self).storage.ds@ == old(self).storage.ds@ && final(self).storage.ttl@ == old(self).storage.ttl@ && final(self).storage.z@ == old(self).storage.z@,
            (parts@.len() != 3 || arg(parts@, 1) is None || arg(parts@, 2) is None) ==> (r matches Ok(f) && f is Error),
            parts@.len() == 3 && arg(parts@, 1) is Some && arg(parts@, 2) is Some ==> ({
                let k = arg(parts@, 1)->Some_0; let m = arg(parts@, 2)->Some_0; let zm = zmembers(old(self).storage.z@, db as int, k);
                if ds_get(old(self).storage.ds@, db as int, k) matches Some(dv) && !(dv is ZSet) { !(r matches Ok(f) && !(f is Error)) }
                else if zm.contains_key(m) { r == Ok::<RespFrame, FerrousError>(score_text(zm[m])) }          // the member's latest score
                else { r == Ok::<RespFrame, FerrousError>(RespFrame::BulkString(None)) }
            }),
//@@ body
//@@ end

//@@ unit handle_zcard fn src/network/server.rs Server::handle_zcard
//@@   rewrite R3
//@@   params drop "&self" add "&mut self"
    fn handle_zcard(&mut self, parts: &[RespFrame], db: usize) -> (r: Result<RespFrame>)
        ensures
            final(self).storage.ds@ == old(self).storage.ds@ && final(self).storage.ttl@ == old(self).storage.ttl@ && final(self).storage.z@ == old(self).storage.z@,
            (parts@.len() != 2 || arg(parts@, 1) is None) ==> (r matches Ok(f) && f is Error),
            parts@.len() == 2 && arg(parts@, 1) is Some ==> ({
                let k = arg(parts@, 1)->Some_0;
                if ds_get(old(self).storage.ds@, db as int, k) matches Some(dv) && !(dv is ZSet) { !(r matches Ok(f) && !(f is Error)) }
                else { r == Ok::<RespFrame, FerrousError>(RespFrame::Integer(zmembers(old(self).storage.z@, db as int, k).dom().len() as i64)) }
            }),
//@@ body
//@@ end
}

} // verus!
fn main() {}
