//@@ include contracts/inc_cmd_header.rs
verus! {
//@@ include contracts/inc_zset_model.rs
pub struct MonStub { pub g: Ghost<int> }
pub struct Server { pub storage: EngineModel, pub monitoring: MonStub }
pub open spec fn zrefused(r: Result<RespFrame>, o: Server, f: Server) -> bool {
    (r matches Ok(fr) && fr is Error) && f.storage.ds@ == o.storage.ds@ && f.storage.ttl@ == o.storage.ttl@ && f.storage.z@ == o.storage.z@
}
impl Server {
//@@ unit handle_zadd fn src/network/server.rs Server::handle_zadd
//@@   rewrite R3
//@@   params drop "&self" add "&mut self"
//@@   rewrite RCALL parse "String::from_utf8_lossy(bytes)" verif_cow_parse
//@@   rewrite RFOR 1 it
//@@   loop 0
//@@|     invariant
//@@|         2 <= i <= parts@.len(), i % 2 == 0, parts@.len() % 2 == 0, parts@.len() >= 4, arg(parts@, 1) == Some(key@),
//@@|         self.storage == old(self).storage,
//@@|         pairs@.len() == (i - 2) / 2,
//@@|         forall|j: int| 0 <= j < pairs@.len() ==> #[trigger] pair_ok(parts@, j),
//@@|         forall|j: int| 0 <= j < pairs@.len() ==> score_arg(parts@, 2 + 2 * j) == Some((#[trigger] pairs@[j]).0),
//@@|         forall|j: int| 0 <= j < pairs@.len() ==> arg(parts@, 2 + 2 * j + 1) == Some((#[trigger] pairs@[j]).1@),
//@@|     decreases parts@.len() - i,
//@@   loopstart 0
//@@|     let ghost j0 = (i - 2) / 2; let ghost oldp = pairs@;
//@@|     proof {
//@@|         assert(2 + 2 * j0 == i && 0 <= j0 < (parts@.len() - 2) / 2);
//@@|         assert(pair_ok(parts@, j0) == (score_arg(parts@, i as int) is Some && arg(parts@, i + 1) is Some));
//@@|     }
//@@   after "pairs.push((score, member));"
//@@|     proof {
//@@|         assert(pairs@ =~= oldp.push((score, member)));
//@@|         assert(pairs@[j0] == (score, member));
//@@|         assert forall|j: int| 0 <= j < j0 implies pairs@[j] == oldp[j] by {}
//@@|         assert((i + 2 - 2) / 2 == j0 + 1);
//@@|         assert(score_arg(parts@, i as int) == Some(score));
//@@|         assert(arg(parts@, i + 1) == Some(member@));
//@@|     }
//@@   after "if self.storage.zadd(db, key.clone(), member, score)?"
//@@|     proof {
//@@|         let zm0 = zmembers(old(self).storage.z@, db as int, key@);
//@@|         assert(zadd_upto(zm0, parts@, n0 + 1).1 == zadd_upto(zm0, parts@, n0).1.insert(member@, score));
//@@|         assert(self.storage.z@ =~= old(self).storage.z@.insert((db as int, key@), zadd_upto(zm0, parts@, n0 + 1).1));
//@@|         assert(self.storage.ds@ =~= old(self).storage.ds@.insert((db as int, key@), DV::ZSet));
//@@|     }
//@@   loop 1
//@@|     invariant
//@@|         it.seq() == pairs0, it.history@ =~= it.seq().take(it.index@),
//@@|         parts@.len() % 2 == 0, parts@.len() >= 4, arg(parts@, 1) == Some(key@), zadd_pairs_ok(parts@),
//@@|         pairs0.len() == (parts@.len() - 2) / 2,
//@@|         forall|j: int| 0 <= j < pairs0.len() ==> score_arg(parts@, 2 + 2 * j) == Some((#[trigger] pairs0[j]).0) && arg(parts@, 2 + 2 * j + 1) == Some(pairs0[j].1@),
//@@|         0 <= new_members <= it.index@,
//@@|         self.storage.ttl@ == old(self).storage.ttl@,
//@@|         it.index@ == 0 ==> self.storage.ds@ == old(self).storage.ds@ && self.storage.z@ == old(self).storage.z@,
//@@|         it.index@ > 0 ==> self.storage.ds@ == old(self).storage.ds@.insert((db as int, key@), DV::ZSet)
//@@|             && self.storage.z@ == old(self).storage.z@.insert((db as int, key@), zadd_upto(zmembers(old(self).storage.z@, db as int, key@), parts@, it.index@ as int).1),
//@@|         new_members as int == zadd_upto(zmembers(old(self).storage.z@, db as int, key@), parts@, it.index@ as int).0,
//@@|         it.index@ > 0 ==> !(ds_get(old(self).storage.ds@, db as int, key@) matches Some(dv) && !(dv is ZSet)),
//@@|     ensures it.index@ == pairs0.len(),
//@@   loopstart 1
//@@|     let ghost n0 = it.index@ as int;
//@@|     proof {
//@@|         assert(pairs0[n0] == (score, member));
//@@|         assert(zmembers(self.storage.z@, db as int, key@) == zadd_upto(zmembers(old(self).storage.z@, db as int, key@), parts@, n0).1);
//@@|         reveal_with_fuel(zadd_upto, 2);
//@@|     }
//@@   at "let mut new_members = 0;"
//@@|     let ghost pairs0 = pairs@;
//@@|     proof {
//@@|         assert forall|j: int| 0 <= j < (parts@.len() - 2) / 2 implies #[trigger] pair_ok(parts@, j) by { let p = pairs0[j]; assert(pair_ok(parts@, j)); }
//@@|     }
    fn handle_zadd(&mut self, parts: &[RespFrame], db: usize) -> (r: Result<RespFrame>)
        ensures
            (parts@.len() < 4 || parts@.len() % 2 != 0 || arg(parts@, 1) is None) ==> zrefused(r, *old(self), *final(self)),
            // C04: a multi-member ZADD with ANY malformed pair (a score that is not a number included) is refused and adds NOTHING
            (parts@.len() >= 4 && parts@.len() % 2 == 0 && arg(parts@, 1) is Some && !zadd_pairs_ok(parts@)) ==> zrefused(r, *old(self), *final(self)),
            (parts@.len() >= 4 && parts@.len() % 2 == 0 && arg(parts@, 1) is Some && zadd_pairs_ok(parts@)) ==> ({
                let k = arg(parts@, 1)->Some_0; let n = (parts@.len() - 2) / 2;
                let res = zadd_upto(zmembers(old(self).storage.z@, db as int, k), parts@, n as int);
                // a key of another type: no success reply, nothing changes
                &&& (ds_get(old(self).storage.ds@, db as int, k) matches Some(dv) && !(dv is ZSet)) ==> !(r matches Ok(f) && !(f is Error))
                        && final(self).storage.ds@ == old(self).storage.ds@ && final(self).storage.z@ == old(self).storage.z@
                // otherwise every pair is applied left to right; the reply counts the members that were new
                // (a storage failure part-way through — memory limit — is reported as an error)
                &&& (!(ds_get(old(self).storage.ds@, db as int, k) matches Some(dv) && !(dv is ZSet)) && r is Ok) ==>
                        r == Ok::<RespFrame, FerrousError>(RespFrame::Integer(res.0 as i64))
                        && final(self).storage.ds@ == old(self).storage.ds@.insert((db as int, k), DV::ZSet)
                        && final(self).storage.z@ == old(self).storage.z@.insert((db as int, k), res.1)
                        && final(self).storage.ttl@ == old(self).storage.ttl@
            }),
//@@ body
//@@ end

//@@ unit handle_zrem fn src/network/server.rs Server::handle_zrem
//@@   rewrite R3
//@@   params drop "&self" add "&mut self"
//@@   rewrite RFORC 0
//@@   loop 0
//@@|     invariant
//@@|         2 <= i__n <= i__end, i__end == parts@.len(), 0 <= removed <= i__n - 2, arg(parts@, 1) == Some(key@),
//@@|         other_type(old(self).storage.ds@, db as int, key@) && all_bulk(parts@, 2) ==> i__n == 2,
//@@|         other_type(old(self).storage.ds@, db as int, key@) ==> self.storage.ds@ == old(self).storage.ds@ && self.storage.ttl@ == old(self).storage.ttl@ && self.storage.z@ == old(self).storage.z@,
//@@|         !other_type(old(self).storage.ds@, db as int, key@) ==> !other_type(self.storage.ds@, db as int, key@)
//@@|             && (removed as int, self.storage.ds@, self.storage.ttl@, self.storage.z@) == zrem_upto(old(self).storage, db as int, key@, parts@, i__n as int),
//@@|     decreases i__end - i__n,
    fn handle_zrem(&mut self, parts: &[RespFrame], db: usize) -> (r: Result<RespFrame>)
        ensures
            (parts@.len() < 3 || arg(parts@, 1) is None) ==> zrefused(r, *old(self), *final(self)),
            parts@.len() >= 3 && arg(parts@, 1) is Some ==> ({
                let k = arg(parts@, 1)->Some_0;
                if ds_get(old(self).storage.ds@, db as int, k) matches Some(dv) && !(dv is ZSet) {
                    // (member arguments that are not bulk strings are skipped; a real client sends bulk strings only)
                    (all_bulk(parts@, 2) ==> !(r matches Ok(f) && !(f is Error))) && final(self).storage.ds@ == old(self).storage.ds@ && final(self).storage.z@ == old(self).storage.z@ && final(self).storage.ttl@ == old(self).storage.ttl@
                } else {
                    let s = zrem_upto(old(self).storage, db as int, k, parts@, parts@.len() as int);
                    r == Ok::<RespFrame, FerrousError>(RespFrame::Integer(s.0 as i64)) && final(self).storage.ds@ == s.1 && final(self).storage.ttl@ == s.2 && final(self).storage.z@ == s.3
                }
            }),
//@@ body
//@@ end

//@@ unit handle_zincrby fn src/network/server.rs Server::handle_zincrby
//@@   rewrite R3
//@@   params drop "&self" add "&mut self"
//@@   rewrite RCALL parse "String::from_utf8_lossy(bytes)" verif_cow_parse
//@@   rewrite RXPR "new_score.to_string()" "new_score"
//@@   rewrite RT "RespFrame::from_string(" "verif_score_frame("
    fn handle_zincrby(&mut self, parts: &[RespFrame], db: usize) -> (r: Result<RespFrame>)
        ensures
            (parts@.len() != 4 || arg(parts@, 1) is None || num_arg::<f64>(parts@, 2) is None || arg(parts@, 3) is None) ==> zrefused(r, *old(self), *final(self)),
            parts@.len() == 4 && arg(parts@, 1) is Some && num_arg::<f64>(parts@, 2) is Some && arg(parts@, 3) is Some ==> ({
                let k = arg(parts@, 1)->Some_0; let inc = num_arg::<f64>(parts@, 2)->Some_0; let m = arg(parts@, 3)->Some_0;
                // an increment that is not a number, or a key of another type: no success reply, nothing changes
                &&& (f64_is_nan(inc) || (ds_get(old(self).storage.ds@, db as int, k) matches Some(dv) && !(dv is ZSet))) ==>
                        !(r matches Ok(f) && !(f is Error)) && final(self).storage.ds@ == old(self).storage.ds@ && final(self).storage.z@ == old(self).storage.z@
                // a success reply carries the score that is now stored for the member, and that score is a number
                &&& (r matches Ok(f) && !(f is Error)) ==> exists|s: f64| !f64_is_nan(s) && r->Ok_0 == score_text(s)
                        && final(self).storage.z@ == old(self).storage.z@.insert((db as int, k), zmembers(old(self).storage.z@, db as int, k).insert(m, s))
                // a failure leaves everything as it was
                &&& !(r matches Ok(f) && !(f is Error)) ==> final(self).storage.ds@ == old(self).storage.ds@ && final(self).storage.z@ == old(self).storage.z@
            }),
//@@ body
//@@ end

//@@ unit handle_zpopmin fn src/network/server.rs Server::handle_zpopmin
//@@   rewrite R3
//@@   params drop "&self" add "&mut self"
//@@   rewrite RCALL parse "String::from_utf8_lossy(bytes)" verif_cow_parse
//@@   rewrite? RXPR "members.into_iter().next()" "verif_first(members)"
//@@   rewrite RXPR "score.to_string()" "score"
//@@   rewrite RT "RespFrame::from_string(" "verif_score_frame("
//@@   rewrite RFOR 0 it
//@@   loop 0
//@@|     invariant_except_break
//@@|         results@.len() == 2 * it.index@,
//@@|     invariant
//@@|         it.index@ <= count, arg(parts@, 1) == Some(key@), results@.len() % 2 == 0, results@.len() / 2 <= count,
//@@|         2 <= parts@.len() <= 3, parts@.len() == 3 ==> num_arg::<usize>(parts@, 2) == Some(count), parts@.len() == 2 ==> count == 1,
//@@|         other_type(old(self).storage.ds@, db as int, key@) ==> self.storage.ds@ == old(self).storage.ds@ && self.storage.ttl@ == old(self).storage.ttl@ && self.storage.z@ == old(self).storage.z@ && results@.len() == 0,
//@@|         !other_type(old(self).storage.ds@, db as int, key@) ==> !other_type(self.storage.ds@, db as int, key@) && ({
//@@|             let s = zpop_upto(old(self).storage, db as int, key@, (results@.len() / 2) as int, true);
//@@|             self.storage.ds@ == s.1 && self.storage.ttl@ == s.2 && self.storage.z@ == s.3 && zpop_reply(results@, s.0) && s.0.len() == results@.len() / 2 }),
//@@|     ensures
//@@|         other_type(old(self).storage.ds@, db as int, key@) ==> count == 0,
//@@|         !other_type(old(self).storage.ds@, db as int, key@) ==> (results@.len() / 2 == count || zmembers(self.storage.z@, db as int, key@).dom().len() == 0),
//@@   at "if parts.len() < 2 || parts.len() > 3"
//@@|     broadcast use {axiom_zmin_member, axiom_zmax_member};
//@@   loopstart 0
//@@|     let ghost n0 = (results@.len() / 2) as int; let ghost res0 = results@;
//@@|     proof { reveal_with_fuel(zpop_upto, 2); }
//@@   at "if self.storage.zrem(db, key, &member)?"
//@@|     proof {
//@@|         let zm = zmembers(self.storage.z@, db as int, key@);
//@@|         assert(zm.dom().len() > 0);
//@@|         axiom_zmin_member(zm); axiom_zmax_member(zm);
//@@|         assert(zm.contains_key(member@));
//@@|     }
//@@   after "results.push(RespFrame::from_string(score.to_string()));"
//@@|     proof {
//@@|         let s1 = zpop_upto(old(self).storage, db as int, key@, n0 + 1, true);
//@@|         assert(results@.len() == res0.len() + 2);
//@@|         assert(results@.len() / 2 == n0 + 1);
//@@|         assert forall|j: int| 0 <= j < s1.0.len() implies bulk_reply(#[trigger] results@[2 * j]) == Some(Some(s1.0[j].0)) && results@[2 * j + 1] == score_text(s1.0[j].1) by {
//@@|             if j < n0 { assert(results@[2 * j] == res0[2 * j]); assert(results@[2 * j + 1] == res0[2 * j + 1]); }
//@@|         }
//@@|     }
//@@   afterloop 0
//@@|     proof {
//@@|         if !other_type(old(self).storage.ds@, db as int, key@) && results@.len() / 2 != count {
//@@|             lemma_zpop_stable(old(self).storage, db as int, key@, (results@.len() / 2) as int, count as int, true);
//@@|         }
//@@|     }
    fn handle_zpopmin(&mut self, parts: &[RespFrame], db: usize) -> (r: Result<RespFrame>)
        ensures
            (parts@.len() < 2 || parts@.len() > 3 || arg(parts@, 1) is None || (parts@.len() == 3 && num_arg::<usize>(parts@, 2) is None)) ==> zrefused(r, *old(self), *final(self)),
            (2 <= parts@.len() <= 3 && arg(parts@, 1) is Some && (parts@.len() == 3 ==> num_arg::<usize>(parts@, 2) is Some)) ==> ({
                let k = arg(parts@, 1)->Some_0; let n = if parts@.len() == 3 { num_arg::<usize>(parts@, 2)->Some_0 as int } else { 1int };
                if other_type(old(self).storage.ds@, db as int, k) {
                    (n > 0 ==> !(r matches Ok(f) && !(f is Error))) && final(self).storage.ds@ == old(self).storage.ds@ && final(self).storage.z@ == old(self).storage.z@
                } else {
                    let s = zpop_upto(old(self).storage, db as int, k, n, true);
                    // exactly min(n, cardinality) members leave the set, the extreme ones first; a count of 0 pops nothing; nothing popped = an EMPTY array
                    // (as Redis and as the script path answer; a null array before the repair)
                    r is Ok && final(self).storage.ds@ == s.1 && final(self).storage.ttl@ == s.2 && final(self).storage.z@ == s.3
                    && (r->Ok_0 matches RespFrame::Array(Some(v)) && zpop_reply(v@, s.0))
                }
            }),
//@@ body
//@@ end

//@@ unit handle_zpopmax fn src/network/server.rs Server::handle_zpopmax
//@@   rewrite R3
//@@   params drop "&self" add "&mut self"
//@@   rewrite RCALL parse "String::from_utf8_lossy(bytes)" verif_cow_parse
//@@   rewrite? RXPR "members.into_iter().next()" "verif_first(members)"
//@@   rewrite RXPR "score.to_string()" "score"
//@@   rewrite RT "RespFrame::from_string(" "verif_score_frame("
//@@   rewrite RFOR 0 it
//@@   loop 0
//@@|     invariant_except_break
//@@|         results@.len() == 2 * it.index@,
//@@|     invariant
//@@|         it.index@ <= count, arg(parts@, 1) == Some(key@), results@.len() % 2 == 0, results@.len() / 2 <= count,
//@@|         2 <= parts@.len() <= 3, parts@.len() == 3 ==> num_arg::<usize>(parts@, 2) == Some(count), parts@.len() == 2 ==> count == 1,
//@@|         other_type(old(self).storage.ds@, db as int, key@) ==> self.storage.ds@ == old(self).storage.ds@ && self.storage.ttl@ == old(self).storage.ttl@ && self.storage.z@ == old(self).storage.z@ && results@.len() == 0,
//@@|         !other_type(old(self).storage.ds@, db as int, key@) ==> !other_type(self.storage.ds@, db as int, key@) && ({
//@@|             let s = zpop_upto(old(self).storage, db as int, key@, (results@.len() / 2) as int, false);
//@@|             self.storage.ds@ == s.1 && self.storage.ttl@ == s.2 && self.storage.z@ == s.3 && zpop_reply(results@, s.0) && s.0.len() == results@.len() / 2 }),
//@@|     ensures
//@@|         other_type(old(self).storage.ds@, db as int, key@) ==> count == 0,
//@@|         !other_type(old(self).storage.ds@, db as int, key@) ==> (results@.len() / 2 == count || zmembers(self.storage.z@, db as int, key@).dom().len() == 0),
//@@   at "if parts.len() < 2 || parts.len() > 3"
//@@|     broadcast use {axiom_zmin_member, axiom_zmax_member};
//@@   loopstart 0
//@@|     let ghost n0 = (results@.len() / 2) as int; let ghost res0 = results@;
//@@|     proof { reveal_with_fuel(zpop_upto, 2); }
//@@   at "if self.storage.zrem(db, key, &member)?"
//@@|     proof {
//@@|         let zm = zmembers(self.storage.z@, db as int, key@);
//@@|         assert(zm.dom().len() > 0);
//@@|         axiom_zmin_member(zm); axiom_zmax_member(zm);
//@@|         assert(zm.contains_key(member@));
//@@|     }
//@@   after "results.push(RespFrame::from_string(score.to_string()));"
//@@|     proof {
//@@|         let s1 = zpop_upto(old(self).storage, db as int, key@, n0 + 1, false);
//@@|         assert(results@.len() == res0.len() + 2);
//@@|         assert(results@.len() / 2 == n0 + 1);
//@@|         assert forall|j: int| 0 <= j < s1.0.len() implies bulk_reply(#[trigger] results@[2 * j]) == Some(Some(s1.0[j].0)) && results@[2 * j + 1] == score_text(s1.0[j].1) by {
//@@|             if j < n0 { assert(results@[2 * j] == res0[2 * j]); assert(results@[2 * j + 1] == res0[2 * j + 1]); }
//@@|         }
//@@|     }
//@@   afterloop 0
//@@|     proof {
//@@|         if !other_type(old(self).storage.ds@, db as int, key@) && results@.len() / 2 != count {
//@@|             lemma_zpop_stable(old(self).storage, db as int, key@, (results@.len() / 2) as int, count as int, false);
//@@|         }
//@@|     }
    fn handle_zpopmax(&mut self, parts: &[RespFrame], db: usize) -> (r: Result<RespFrame>)
        ensures
            (parts@.len() < 2 || parts@.len() > 3 || arg(parts@, 1) is None || (parts@.len() == 3 && num_arg::<usize>(parts@, 2) is None)) ==> zrefused(r, *old(self), *final(self)),
            (2 <= parts@.len() <= 3 && arg(parts@, 1) is Some && (parts@.len() == 3 ==> num_arg::<usize>(parts@, 2) is Some)) ==> ({
                let k = arg(parts@, 1)->Some_0; let n = if parts@.len() == 3 { num_arg::<usize>(parts@, 2)->Some_0 as int } else { 1int };
                if other_type(old(self).storage.ds@, db as int, k) {
                    (n > 0 ==> !(r matches Ok(f) && !(f is Error))) && final(self).storage.ds@ == old(self).storage.ds@ && final(self).storage.z@ == old(self).storage.z@
                } else {
                    let s = zpop_upto(old(self).storage, db as int, k, n, false);
                    // exactly min(n, cardinality) members leave the set, the extreme ones first; a count of 0 pops nothing; nothing popped = an EMPTY array
                    // (as Redis and as the script path answer; a null array before the repair)
                    r is Ok && final(self).storage.ds@ == s.1 && final(self).storage.ttl@ == s.2 && final(self).storage.z@ == s.3
                    && (r->Ok_0 matches RespFrame::Array(Some(v)) && zpop_reply(v@, s.0))
                }
            }),
//@@ body
//@@ end

//@@ unit handle_zscore fn src/network/server.rs Server::handle_zscore
//@@   params drop "&self" add "&mut self"
//@@   rewrite RT "format!(\"{}\", score)" "score"
//@@   rewrite RT "RespFrame::from_string(score_str)" "verif_score_frame(score_str)"
    fn handle_zscore(&mut self, parts: &[RespFrame], db: usize) -> (r: Result<RespFrame>)
        ensures
            final(self).storage.ds@ == old(self).storage.ds@ && final(self).storage.ttl@ == old(self).storage.ttl@ && final(self).storage.z@ == old(self).storage.z@,
            (parts@.len() != 3 || arg(parts@, 1) is None || arg(parts@, 2) is None) ==> (r matches Ok(f) && f is Error),
            parts@.len() == 3 && arg(parts@, 1) is Some && arg(parts@, 2) is Some ==> ({
                let k = arg(parts@, 1)->Some_0; let m = arg(parts@, 2)->Some_0; let zm = zmembers(old(self).storage.z@, db as int, k);
                if ds_get(old(self).storage.ds@, db as int, k) matches Some(dv) && !(dv is ZSet) { !(r matches Ok(f) && !(f is Error)) }
                else if zm.contains_key(m) { r == Ok::<RespFrame, FerrousError>(score_text(zm[m])) }          // the member's latest score
                else { r == Ok::<RespFrame, FerrousError>(RespFrame::BulkString(None)) }
            }),
//@@ body
//@@ end

//@@ unit handle_zcard fn src/network/server.rs Server::handle_zcard
//@@   rewrite R3
//@@   params drop "&self" add "&mut self"
    fn handle_zcard(&mut self, parts: &[RespFrame], db: usize) -> (r: Result<RespFrame>)
        ensures
            final(self).storage.ds@ == old(self).storage.ds@ && final(self).storage.ttl@ == old(self).storage.ttl@ && final(self).storage.z@ == old(self).storage.z@,
            (parts@.len() != 2 || arg(parts@, 1) is None) ==> (r matches Ok(f) && f is Error),
            parts@.len() == 2 && arg(parts@, 1) is Some ==> ({
                let k = arg(parts@, 1)->Some_0;
                if ds_get(old(self).storage.ds@, db as int, k) matches Some(dv) && !(dv is ZSet) { !(r matches Ok(f) && !(f is Error)) }
                else { r == Ok::<RespFrame, FerrousError>(RespFrame::Integer(zmembers(old(self).storage.z@, db as int, k).dom().len() as i64)) }
            }),
//@@ body
//@@ end
}

} // verus!
fn main() {}
