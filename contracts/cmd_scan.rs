//@@ include contracts/inc_cmd_header.rs
//@@ include prelude/str_eq.rs
verus! {
/// upper-cased lossy decoding of an option word (uninterpreted; `String::from_utf8_lossy(option).to_uppercase()`, RXPR site)
pub uninterp spec fn spec_upper(b: Seq<u8>) -> Seq<char>;
#[verifier::external_body]
pub fn verif_upper(b: &Arc<Vec<u8>>) -> (r: String) ensures r@ == spec_upper(b@), { unimplemented!() }
/// lossy decoding of the TYPE argument (`String::from_utf8_lossy(t).to_string()`, RXPR site)
#[verifier::external_body]
pub fn verif_lossy_string(b: &Arc<Vec<u8>>) -> (r: String) ensures r@ == lossy(b@), { unimplemented!() }
/// the cursor in the reply: `RespFrame::from_string(next_cursor.to_string())` (RXPR/RT sites)
pub uninterp spec fn cursor_frame(c: u64) -> RespFrame;
#[verifier::external_body]
pub fn verif_cursor_frame(c: u64) -> (r: RespFrame) ensures r == cursor_frame(c), { unimplemented!() }
/// `pattern.map(|p| &**p)` / `type_filter.as_deref()` (RXPR sites): the same optional value, borrowed
#[verifier::external_body]
pub fn verif_opt_bytes<'a>(p: Option<&'a Vec<u8>>) -> (r: Option<&'a [u8]>) ensures (r is Some) == (p is Some), p is Some ==> r->Some_0@ == p->Some_0@, { unimplemented!() }
#[verifier::external_body]
pub fn verif_opt_str<'a>(p: &'a Option<String>) -> (r: Option<&'a str>) ensures (r is Some) == (p is Some), p is Some ==> r->Some_0@ == p->Some_0@, { unimplemented!() }

/// what one keyspace SCAN step returns for these arguments (the engine's window computation is the subject of c19_scan)
pub uninterp spec fn spec_scan_step(ds: DS, db: int, cursor: u64, pattern: Option<Seq<u8>>, ty: Option<Seq<char>>, count: usize) -> (u64, Seq<Seq<u8>>);
impl EngineModel {
    #[verifier::external_body]
    pub fn scan(&mut self, db: usize, cursor: u64, pattern: Option<&[u8]>, type_filter: Option<&str>, count: usize) -> (r: Result<(u64, Vec<Vec<u8>>)>)
        ensures final(self).ds@ == old(self).ds@, final(self).ttl@ == old(self).ttl@, r is Ok,
            r matches Ok(t) ==> (t.0, t.1@.map_values(|k: Vec<u8>| k@)) == spec_scan_step(old(self).ds@, db as int, cursor,
                (match pattern { Some(p) => Some(p@), None => None }), (match type_filter { Some(t) => Some(t@), None => None }), count),
    { unimplemented!() }
}
/// SCAN's options accumulated so far
pub struct ScanOpts { pub pattern: Option<Seq<u8>>, pub ty: Option<Seq<char>>, pub count: usize }
/// SCAN cursor [MATCH pattern] [TYPE type] [COUNT count], options read left to right from position i; None = syntax error
pub open spec fn scan_opts(parts: Seq<RespFrame>, i: int, o: ScanOpts) -> Option<ScanOpts>
    decreases parts.len() - i
{
    if i >= parts.len() { Some(o) } else {
        match arg(parts, i) {
            None => None,
            Some(w) => {
                let u = spec_upper(w);
                if u == "MATCH"@ { match arg(parts, i + 1) { Some(p) => scan_opts(parts, i + 2, ScanOpts { pattern: Some(p), ty: o.ty, count: o.count }), None => None } }
                else if u == "TYPE"@ { match arg(parts, i + 1) { Some(t) => scan_opts(parts, i + 2, ScanOpts { pattern: o.pattern, ty: Some(lossy(t)), count: o.count }), None => None } }
                else if u == "COUNT"@ { match arg(parts, i + 1) { Some(c) => match parse_lossy_spec::<usize>(c) { Some(n) => scan_opts(parts, i + 2, ScanOpts { pattern: o.pattern, ty: o.ty, count: n }), None => None }, None => None } }
                else { None }
            },
        }
    }
}

//@@ unit handle_scan fn src/storage/commands/scan.rs handle_scan
//@@   params drop "storage: &Arc<StorageEngine>" add "storage: &mut EngineModel"
//@@   rewrite R3
//@@   rewrite RT "let mut pattern = None;" "let mut pattern: Option<&Vec<u8>> = None;"
//@@   rewrite RT "let mut type_filter = None;" "let mut type_filter: Option<String> = None;"
//@@   rewrite RCALL parse "String::from_utf8_lossy(bytes)" verif_cow_parse
//@@   rewrite RCALL parse "String::from_utf8_lossy(c)" verif_cow_parse
//@@   rewrite RXPR "String::from_utf8_lossy(option).to_uppercase()" "verif_upper(option)"
//@@   rewrite RXPR "String::from_utf8_lossy(t).to_string()" "verif_lossy_string(t)"
//@@   rewrite RXPR "pattern.map(|p| &**p)" "verif_opt_bytes(pattern)"
//@@   rewrite RXPR "type_filter.as_deref()" "verif_opt_str(&type_filter)"
//@@   rewrite RXPR "keys.into_iter() .map(|k| RespFrame::from_bytes(k)) .collect()" "verif_bulk_frames(keys)"
//@@   rewrite RXPR "next_cursor.to_string()" "next_cursor"
//@@   rewrite RT "RespFrame::from_string(cursor_str)" "verif_cursor_frame(cursor_str)"
//@@   loop 0
//@@|     invariant
//@@|         2 <= i <= parts@.len() + 1, parts@.len() >= 2,
//@@|         *storage == *old(storage),
//@@|         scan_opts(parts@, 2, ScanOpts { pattern: None, ty: None, count: 10 }) == scan_opts(parts@, i as int, ScanOpts {
//@@|             pattern: (match pattern { Some(p) => Some(p@), None => None }), ty: (match type_filter { Some(t) => Some(t@), None => None }), count: count }),
//@@|     decreases parts@.len() + 1 - i,
//@@   loopstart 0
//@@|     proof { broadcast use group_str_eq; reveal_with_fuel(scan_opts, 2); }
pub fn handle_scan(storage: &mut EngineModel, db: usize, parts: &[RespFrame]) -> (r: Result<RespFrame>)
    ensures
        final(storage).ds@ == old(storage).ds@, final(storage).ttl@ == old(storage).ttl@,
        (parts@.len() < 2 || num_arg::<u64>(parts@, 1) is None) ==> (r matches Ok(f) && f is Error),
        parts@.len() >= 2 && num_arg::<u64>(parts@, 1) is Some ==> (match scan_opts(parts@, 2, ScanOpts { pattern: None, ty: None, count: 10 }) {
            None => r matches Ok(f) && f is Error,
            // C19: the engine is asked for exactly the step the command names — this cursor, this pattern (an empty pattern is a
            // pattern, not "no filter"), this type, this count — and the reply is [next cursor, the keys of that step in order]
            Some(o) => ({
                let step = spec_scan_step(old(storage).ds@, db as int, num_arg::<u64>(parts@, 1)->Some_0, o.pattern, o.ty, o.count);
                r matches Ok(RespFrame::Array(Some(v))) && v@.len() == 2 && v@[0] == cursor_frame(step.0)
                    && (v@[1] matches RespFrame::Array(Some(ks)) && ks@.len() == step.1.len() && forall|j: int| 0 <= j < step.1.len() ==> bulk_reply(#[trigger] ks@[j]) == Some(Some(step.1[j])))
            }),
        }),
//@@ body
//@@ end

// ======================= HSCAN / SSCAN: key cursor [MATCH pattern] [COUNT count] ([NOVALUES] for HSCAN) =========================
pub struct KScanOpts { pub pattern: Option<Seq<u8>>, pub count: usize, pub novalues: bool }
pub open spec fn kscan_opts(parts: Seq<RespFrame>, i: int, o: KScanOpts, allow_novalues: bool) -> Option<KScanOpts>
    decreases parts.len() - i
{
    if i >= parts.len() { Some(o) } else {
        match arg(parts, i) {
            None => None,
            Some(w) => {
                let u = spec_upper(w);
                if u == "MATCH"@ { match arg(parts, i + 1) { Some(p) => kscan_opts(parts, i + 2, KScanOpts { pattern: Some(p), count: o.count, novalues: o.novalues }, allow_novalues), None => None } }
                else if u == "COUNT"@ { match arg(parts, i + 1) { Some(c) => match parse_lossy_spec::<usize>(c) { Some(n) => kscan_opts(parts, i + 2, KScanOpts { pattern: o.pattern, count: n, novalues: o.novalues }, allow_novalues), None => None }, None => None } }
                else if allow_novalues && u == "NOVALUES"@ { kscan_opts(parts, i + 1, KScanOpts { pattern: o.pattern, count: o.count, novalues: true }, allow_novalues) }
                else { None }
            },
        }
    }
}
pub uninterp spec fn spec_hscan_step(ds: DS, db: int, key: Seq<u8>, cursor: u64, pattern: Option<Seq<u8>>, count: usize, novalues: bool) -> Option<(u64, Seq<Seq<u8>>)>;
pub uninterp spec fn spec_sscan_step(ds: DS, db: int, key: Seq<u8>, cursor: u64, pattern: Option<Seq<u8>>, count: usize) -> Option<(u64, Seq<Seq<u8>>)>;
impl EngineModel {
    /// one HSCAN / SSCAN step (the window computation is unit hscan_window / sscan_window in c19_scan); None = refused (wrong type)
    #[verifier::external_body]
    pub fn hscan(&mut self, db: usize, key: &[u8], cursor: u64, pattern: Option<&[u8]>, count: usize, no_values: bool) -> (r: Result<(u64, Vec<Vec<u8>>)>)
        ensures final(self).ds@ == old(self).ds@, final(self).ttl@ == old(self).ttl@,
            match spec_hscan_step(old(self).ds@, db as int, key@, cursor, (match pattern { Some(p) => Some(p@), None => None }), count, no_values) {
                Some(s) => r matches Ok(t) && (t.0, t.1@.map_values(|k: Vec<u8>| k@)) == s, None => r is Err },
    { unimplemented!() }
    #[verifier::external_body]
    pub fn sscan(&mut self, db: usize, key: &[u8], cursor: u64, pattern: Option<&[u8]>, count: usize) -> (r: Result<(u64, Vec<Vec<u8>>)>)
        ensures final(self).ds@ == old(self).ds@, final(self).ttl@ == old(self).ttl@,
            match spec_sscan_step(old(self).ds@, db as int, key@, cursor, (match pattern { Some(p) => Some(p@), None => None }), count) {
                Some(s) => r matches Ok(t) && (t.0, t.1@.map_values(|k: Vec<u8>| k@)) == s, None => r is Err },
    { unimplemented!() }
}
pub open spec fn scan_reply(r: Result<RespFrame>, step: Option<(u64, Seq<Seq<u8>>)>) -> bool {
    match step {
        None => !(r matches Ok(f) && !(f is Error)),
        Some(s) => r matches Ok(RespFrame::Array(Some(v))) && v@.len() == 2 && v@[0] == cursor_frame(s.0)
            && (v@[1] matches RespFrame::Array(Some(ks)) && ks@.len() == s.1.len() && forall|j: int| 0 <= j < s.1.len() ==> bulk_reply(#[trigger] ks@[j]) == Some(Some(s.1[j]))),
    }
}

//@@ unit handle_hscan fn src/storage/commands/scan.rs handle_hscan
//@@   params drop "storage: &Arc<StorageEngine>" add "storage: &mut EngineModel"
//@@   rewrite R3
//@@   rewrite RT "let mut pattern = None;" "let mut pattern: Option<&Vec<u8>> = None;"
//@@   rewrite RCALL parse "String::from_utf8_lossy(bytes)" verif_cow_parse
//@@   rewrite RCALL parse "String::from_utf8_lossy(c)" verif_cow_parse
//@@   rewrite RXPR "String::from_utf8_lossy(option).to_uppercase()" "verif_upper(option)"
//@@   rewrite RXPR "pattern.map(|p| &**p)" "verif_opt_bytes(pattern)"
//@@   rewrite RXPR "elements.into_iter() .map(|e| RespFrame::from_bytes(e)) .collect()" "verif_bulk_frames(elements)"
//@@   rewrite RXPR "next_cursor.to_string()" "next_cursor"
//@@   rewrite RT "RespFrame::from_string(cursor_str)" "verif_cursor_frame(cursor_str)"
//@@   loop 0
//@@|     invariant
//@@|         3 <= i <= parts@.len() + 1, parts@.len() >= 3,
//@@|         *storage == *old(storage),
//@@|         kscan_opts(parts@, 3, KScanOpts { pattern: None, count: 10, novalues: false }, true) == kscan_opts(parts@, i as int, KScanOpts {
//@@|             pattern: (match pattern { Some(p) => Some(p@), None => None }), count: count, novalues: no_values }, true),
//@@|     decreases parts@.len() + 1 - i,
//@@   loopstart 0
//@@|     proof { broadcast use group_str_eq; reveal_with_fuel(kscan_opts, 2); }
pub fn handle_hscan(storage: &mut EngineModel, db: usize, parts: &[RespFrame]) -> (r: Result<RespFrame>)
    ensures
        final(storage).ds@ == old(storage).ds@, final(storage).ttl@ == old(storage).ttl@,
        (parts@.len() < 3 || arg(parts@, 1) is None || num_arg::<u64>(parts@, 2) is None) ==> (r matches Ok(f) && f is Error),
        parts@.len() >= 3 && arg(parts@, 1) is Some && num_arg::<u64>(parts@, 2) is Some ==> (match kscan_opts(parts@, 3, KScanOpts { pattern: None, count: 10, novalues: false }, true) {
            None => r matches Ok(f) && f is Error,
            Some(o) => scan_reply(r, spec_hscan_step(old(storage).ds@, db as int, arg(parts@, 1)->Some_0, num_arg::<u64>(parts@, 2)->Some_0, o.pattern, o.count, o.novalues)),
        }),
//@@ body
//@@ end

//@@ unit handle_sscan fn src/storage/commands/scan.rs handle_sscan
//@@   params drop "storage: &Arc<StorageEngine>" add "storage: &mut EngineModel"
//@@   rewrite R3
//@@   rewrite RT "let mut pattern = None;" "let mut pattern: Option<&Vec<u8>> = None;"
//@@   rewrite RCALL parse "String::from_utf8_lossy(bytes)" verif_cow_parse
//@@   rewrite RCALL parse "String::from_utf8_lossy(c)" verif_cow_parse
//@@   rewrite RXPR "String::from_utf8_lossy(option).to_uppercase()" "verif_upper(option)"
//@@   rewrite RXPR "pattern.map(|p| &**p)" "verif_opt_bytes(pattern)"
//@@   rewrite RXPR "members.into_iter() .map(|m| RespFrame::from_bytes(m)) .collect()" "verif_bulk_frames(members)"
//@@   rewrite RXPR "next_cursor.to_string()" "next_cursor"
//@@   rewrite RT "RespFrame::from_string(cursor_str)" "verif_cursor_frame(cursor_str)"
//@@   loop 0
//@@|     invariant
//@@|         3 <= i <= parts@.len() + 1, parts@.len() >= 3,
//@@|         *storage == *old(storage),
//@@|         kscan_opts(parts@, 3, KScanOpts { pattern: None, count: 10, novalues: false }, false) == kscan_opts(parts@, i as int, KScanOpts {
//@@|             pattern: (match pattern { Some(p) => Some(p@), None => None }), count: count, novalues: false }, false),
//@@|     decreases parts@.len() + 1 - i,
//@@   loopstart 0
//@@|     proof { broadcast use group_str_eq; reveal_with_fuel(kscan_opts, 2); }
pub fn handle_sscan(storage: &mut EngineModel, db: usize, parts: &[RespFrame]) -> (r: Result<RespFrame>)
    ensures
        final(storage).ds@ == old(storage).ds@, final(storage).ttl@ == old(storage).ttl@,
        (parts@.len() < 3 || arg(parts@, 1) is None || num_arg::<u64>(parts@, 2) is None) ==> (r matches Ok(f) && f is Error),
        parts@.len() >= 3 && arg(parts@, 1) is Some && num_arg::<u64>(parts@, 2) is Some ==> (match kscan_opts(parts@, 3, KScanOpts { pattern: None, count: 10, novalues: false }, false) {
            None => r matches Ok(f) && f is Error,
            Some(o) => scan_reply(r, spec_sscan_step(old(storage).ds@, db as int, arg(parts@, 1)->Some_0, num_arg::<u64>(parts@, 2)->Some_0, o.pattern, o.count)),
        }),
//@@ body
//@@ end

// ======================= ZSCAN key cursor [MATCH pattern] [COUNT count] =========================
pub uninterp spec fn spec_zscan_step(ds: DS, db: int, key: Seq<u8>, cursor: u64, pattern: Option<Seq<u8>>, count: usize) -> Option<(u64, Seq<(Seq<u8>, f64)>)>;
/// the text frame of a score in the reply (`RespFrame::from_string(score.to_string())`, RT site; uninterpreted)
pub uninterp spec fn zscan_score_frame(x: f64) -> RespFrame;
#[verifier::external_body]
pub fn verif_zscan_score_frame(x: f64) -> (r: RespFrame) ensures r == zscan_score_frame(x), { unimplemented!() }
impl EngineModel {
    /// one ZSCAN step (the window computation is unit zscan_window in c19_scan); None = refused (wrong type)
    #[verifier::external_body]
    pub fn zscan(&mut self, db: usize, key: &[u8], cursor: u64, pattern: Option<&[u8]>, count: usize) -> (r: Result<(u64, Vec<(Vec<u8>, f64)>)>)
        ensures final(self).ds@ == old(self).ds@, final(self).ttl@ == old(self).ttl@,
            match spec_zscan_step(old(self).ds@, db as int, key@, cursor, (match pattern { Some(p) => Some(p@), None => None }), count) {
                Some(s) => r matches Ok(t) && t.0 == s.0 && t.1@.len() == s.1.len() && (forall|j: int| 0 <= j < s.1.len() ==> (#[trigger] t.1@[j]).0@ == s.1[j].0 && t.1@[j].1 == s.1[j].1),
                None => r is Err },
    { unimplemented!() }
}
/// [next cursor, [member1, score1, member2, score2, ...]] — every pair of the step, in order, each member followed by ITS score
pub open spec fn zscan_reply(r: Result<RespFrame>, step: Option<(u64, Seq<(Seq<u8>, f64)>)>) -> bool {
    match step {
        None => !(r matches Ok(f) && !(f is Error)),
        Some(s) => r matches Ok(RespFrame::Array(Some(v))) && v@.len() == 2 && v@[0] == cursor_frame(s.0)
            && (v@[1] matches RespFrame::Array(Some(ks)) && ks@.len() == 2 * s.1.len()
                && forall|j: int| 0 <= j < s.1.len() ==> bulk_reply(#[trigger] ks@[2 * j]) == Some(Some(s.1[j].0)) && ks@[2 * j + 1] == zscan_score_frame(s.1[j].1)),
    }
}
//@@ unit handle_zscan fn src/storage/commands/scan.rs handle_zscan
//@@   params drop "storage: &Arc<StorageEngine>" add "storage: &mut EngineModel"
//@@   rewrite R3
//@@   rewrite RT "let mut pattern = None;" "let mut pattern: Option<&Vec<u8>> = None;"
//@@   rewrite RCALL parse "String::from_utf8_lossy(bytes)" verif_cow_parse
//@@   rewrite RCALL parse "String::from_utf8_lossy(c)" verif_cow_parse
//@@   rewrite RXPR "String::from_utf8_lossy(option).to_uppercase()" "verif_upper(option)"
//@@   rewrite RXPR "pattern.map(|p| &**p)" "verif_opt_bytes(pattern)"
//@@   rewrite RXPR "next_cursor.to_string()" "next_cursor"
//@@   rewrite RT "RespFrame::from_string(cursor_str)" "verif_cursor_frame(cursor_str)"
//@@   rewrite RT "RespFrame::from_string(score.to_string())" "verif_zscan_score_frame(score)"
//@@   rewrite RT "let mut elements_frames = Vec::with_capacity(items.len() * 2);" "let mut elements_frames: Vec<RespFrame> = Vec::with_capacity(items.len() * 2);"
//@@   rewrite RFOR 1 it
//@@   loop 0
//@@|     invariant
//@@|         3 <= i <= parts@.len() + 1, parts@.len() >= 3,
//@@|         *storage == *old(storage),
//@@|         kscan_opts(parts@, 3, KScanOpts { pattern: None, count: 10, novalues: false }, false) == kscan_opts(parts@, i as int, KScanOpts {
//@@|             pattern: (match pattern { Some(p) => Some(p@), None => None }), count: count, novalues: false }, false),
//@@|     decreases parts@.len() + 1 - i,
//@@   loopstart 0
//@@|     proof { broadcast use group_str_eq; reveal_with_fuel(kscan_opts, 2); }
//@@   at "for (member, score) in items"
//@@|     let ghost its = items@;
//@@   loop 1
//@@|     invariant
//@@|         it.seq() == its, it.history@ =~= it.seq().take(it.index@), elements_frames@.len() == 2 * it.index@,
//@@|         forall|j: int| 0 <= j < it.index@ ==> bulk_reply(#[trigger] elements_frames@[2 * j]) == Some(Some(its[j].0@)) && elements_frames@[2 * j + 1] == zscan_score_frame(its[j].1),
//@@|     ensures it.index@ == its.len(),
//@@   loopstart 1
//@@|     let ghost n0 = it.index@ as int; let ghost fr0 = elements_frames@;
//@@   after "elements_frames.push(RespFrame::from_string(score.to_string()));"
//@@|     proof {
//@@|         assert(its[n0] == (member, score));
//@@|         assert forall|j: int| 0 <= j < n0 + 1 implies bulk_reply(#[trigger] elements_frames@[2 * j]) == Some(Some(its[j].0@)) && elements_frames@[2 * j + 1] == zscan_score_frame(its[j].1) by {
//@@|             if j < n0 { assert(elements_frames@[2 * j] == fr0[2 * j]); assert(elements_frames@[2 * j + 1] == fr0[2 * j + 1]); }
//@@|         }
//@@|     }
pub fn handle_zscan(storage: &mut EngineModel, db: usize, parts: &[RespFrame]) -> (r: Result<RespFrame>)
    ensures
        final(storage).ds@ == old(storage).ds@, final(storage).ttl@ == old(storage).ttl@,
        (parts@.len() < 3 || arg(parts@, 1) is None || num_arg::<u64>(parts@, 2) is None) ==> (r matches Ok(f) && f is Error),
        parts@.len() >= 3 && arg(parts@, 1) is Some && num_arg::<u64>(parts@, 2) is Some ==> (match kscan_opts(parts@, 3, KScanOpts { pattern: None, count: 10, novalues: false }, false) {
            None => r matches Ok(f) && f is Error,
            Some(o) => zscan_reply(r, spec_zscan_step(old(storage).ds@, db as int, arg(parts@, 1)->Some_0, num_arg::<u64>(parts@, 2)->Some_0, o.pattern, o.count)),
        }),
//@@ body
//@@ end

} // verus!
fn main() {}
