//@@ include contracts/inc_srv_header.rs
verus! {
/// what one iteration of process_connection's frame loop may set in motion (ghost log written by the MODEL methods)
pub enum Eff {
    /// handle_sync_command: registers the peer as a replica and streams the whole dataset (RDB) to it
    Sync(u64),
    /// the frame went through process_frame (whose own gate is the subject of unit process_frame)
    Frame(RespFrame, u64),
}
pub struct ConfigStub { pub password: Option<String> }
pub enum Ordering { Relaxed }
pub struct CounterStub { pub g: Ghost<int> }
impl CounterStub { #[verifier::external_body] pub fn fetch_add(&self, n: u64, o: Ordering) -> u64 { unimplemented!() } }
pub struct StatsStub { pub total_commands_processed: CounterStub, pub auth_successes: CounterStub, pub auth_failures: CounterStub }
/// UTF-8 decoding of the AUTH argument (uninterpreted; `String::from_utf8` is its std implementation — RPCALL site)
pub uninterp spec fn spec_utf8_decode(b: Seq<u8>) -> Option<Seq<char>>;
pub struct Utf8Err { pub g: Ghost<int> }
#[verifier::external_body]
pub fn verif_from_utf8(v: Vec<u8>) -> (r: std::result::Result<String, Utf8Err>)
    ensures match spec_utf8_decode(v@) { Some(s) => r matches Ok(st) && st@ == s, None => r is Err },
{ unimplemented!() }
/// `String == String` (R7 site, by reference)
#[verifier::external_body]
pub fn verif_string_eq2(a: &String, b: &String) -> (r: bool) ensures r == (a@ == b@), { unimplemented!() }
/// the bytes of the AUTH argument, if the command has the right shape
pub open spec fn auth_arg(parts: Seq<RespFrame>) -> Option<Seq<u8>> {
    if parts.len() == 2 { match parts[1] { RespFrame::BulkString(Some(b)) => Some(b@), _ => None } } else { None }
}
/// AUTH succeeds exactly when the argument decodes to the configured password
pub open spec fn auth_accepts(s: Server, parts: Seq<RespFrame>) -> bool {
    s.config.password matches Some(pw) && auth_arg(parts) matches Some(b) && spec_utf8_decode(b) == Some(pw@)
}
pub struct Server {
    pub config: ConfigStub,
    pub connections: ConnModel,
    pub stats: StatsStub,
    pub effects: Ghost<Seq<Eff>>,
}
pub uninterp spec fn spec_upper_name(b: Seq<u8>) -> Seq<char>;
/// `String::from_utf8_lossy(bytes).to_uppercase()` (RXPR site)
#[verifier::external_body]
pub fn verif_upper_name(bytes: &Arc<Vec<u8>>) -> (r: String) ensures r@ == spec_upper_name(bytes@), { unimplemented!() }
/// `String == &str` (R7 site, by reference)
#[verifier::external_body]
pub fn verif_string_eq(a: &String, b: &&str) -> (r: bool) ensures r == (a@ == b@), { unimplemented!() }

/// `a == b` on ConnectionState (#[derive(PartialEq)], dropped by R4; R7 operator site, by reference)
#[verifier::external_body]
pub fn verif_state_eq(a: &ConnectionState, b: &ConnectionState) -> (r: bool) ensures r == (*a == *b), { unimplemented!() }
pub open spec fn gate_closed(s: Server, conn_id: u64) -> bool {
    s.config.password is Some && s.connections.map@.contains_key(conn_id) && s.connections.map@[conn_id].state != ConnectionState::Authenticated
}

impl Server {
    #[verifier::external_body]
    fn handle_sync_command(&mut self, command: &str, parts: &Vec<RespFrame>, conn_id: u64) -> (r: Result<RespFrame>)
        ensures final(self).effects@ == old(self).effects@.push(Eff::Sync(conn_id)), final(self).config == old(self).config,
    { unimplemented!() }
    #[verifier::external_body]
    fn process_frame(&mut self, frame: RespFrame, conn_id: u64) -> (r: Result<RespFrame>)
        ensures final(self).effects@ == old(self).effects@.push(Eff::Frame(frame, conn_id)), final(self).config == old(self).config,
    { unimplemented!() }

//@@ unit connection_is_authorized fn src/network/server.rs Server::connection_is_authorized
//@@   rewrite R3
//@@   params drop "&self" add "&mut self"
//@@   rewrite RCT "conn.state == ConnectionState::Authenticated" "bool" "*final(conn) == *old(conn), cr == (old(conn).state == ConnectionState::Authenticated)"
//@@   rewrite R7 "conn.state == ConnectionState::Authenticated" verif_state_eq byref
    fn connection_is_authorized(&mut self, conn_id: u64) -> (r: bool)
        ensures r ==> !gate_closed(*old(self), conn_id), final(self).effects@ == old(self).effects@, final(self).config == old(self).config,
            final(self).connections.map@ =~= old(self).connections.map@,
//@@ body
//@@ end

//@@ unit handle_auth fn src/network/server.rs Server::handle_auth
//@@   rewrite R3
//@@   params drop "&self" add "&mut self"
//@@   rewrite RPCALL "String::from_utf8" verif_from_utf8
//@@   rewrite R7 "provided_password == *server_password" verif_string_eq2 byref
//@@   rewrite RCT "conn.state = ConnectionState::Authenticated" "()" "final(conn).state == ConnectionState::Authenticated, final(conn).db_index == old(conn).db_index, final(conn).transaction_state == old(conn).transaction_state, final(conn).is_monitoring == old(conn).is_monitoring"
    fn handle_auth(&mut self, parts: &[RespFrame], conn_id: u64) -> (r: Result<RespFrame>)
        ensures
            r is Ok, final(self).config == old(self).config, final(self).effects@ == old(self).effects@,
            // only the exact password authenticates, and only the issuing connection; a failed AUTH changes nothing
            auth_accepts(*old(self), parts@) ==> !(r->Ok_0 is Error) && (old(self).connections.map@.contains_key(conn_id) ==>
                final(self).connections.map@ =~= old(self).connections.map@.insert(conn_id, final(self).connections.map@[conn_id])
                && final(self).connections.map@[conn_id].state == ConnectionState::Authenticated
                && final(self).connections.map@[conn_id].db_index == old(self).connections.map@[conn_id].db_index
                && final(self).connections.map@[conn_id].transaction_state == old(self).connections.map@[conn_id].transaction_state),
            !auth_accepts(*old(self), parts@) ==> r->Ok_0 is Error && final(self).connections.map@ =~= old(self).connections.map@,
//@@ body
//@@ end

}

} // verus!
fn main() {}
