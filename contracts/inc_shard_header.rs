//@@ include prelude/head.rs
use std::collections::{HashMap, HashSet, VecDeque};
use std::sync::Arc;
use std::time::{Duration, Instant};
use std::borrow::Cow;
//@@ include prelude/hash_keys.rs
//@@ include prelude/time.rs
//@@ include prelude/slice.rs
//@@ include prelude/cmp.rs
//@@ include prelude/strnum.rs
//@@ include prelude/lossy.rs
//@@ include prelude/lossy_parse.rs
//@@ include prelude/arc.rs
//@@ include prelude/vecdeque.rs
//@@ include prelude/skiplist_stub.rs
verus! {
broadcast use {group_byte_keys, group_time, group_slice, group_strnum, group_lossy_parse, group_vecdeque, vstd::std_specs::hash::group_hash_axioms};
//@@ item src/error.rs FerrousError
//@@ item src/error.rs CommandError
//@@ item src/error.rs StorageError
//@@ item src/error.rs ScriptError
//@@ item src/error.rs "<FerrousError as From>" #1
//@@ item src/error.rs "<FerrousError as From>" #2
//@@ item src/storage/value.rs Value
//@@ item src/storage/value.rs StringEncoding
//@@ item src/storage/value.rs ValueMetadata
//@@ item src/storage/value.rs StoredValue
//@@ item src/storage/engine.rs DatabaseShard
//@@ item src/storage/engine.rs GetResult
}
//@@ include prelude/shard_types.rs
//@@ include spec/shard.rs
