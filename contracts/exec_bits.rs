//@@ include contracts/inc_cmd_header.rs
verus! {
/// MODEL of UnifiedCommandExecutor (the implementation scripts reach through redis.call): the storage engine model
pub struct UnifiedCommandExecutor { pub storage: EngineModel }
/// `slice.iter().map(|&byte| byte.count_ones() as i64).sum::<i64>()` (RXPR site): the number of one bits
#[verifier::external_body]
pub fn verif_count_ones(s: &[u8]) -> (r: i64) ensures 0 <= r <= 8 * s@.len(), { unimplemented!() }
/// `a.max(b)` / `a.min(b)` on isize (RCALL sites)
pub fn verif_imax(a: isize, b: isize) -> (r: isize) ensures r == (if a >= b { a } else { b }), { if a >= b { a } else { b } }
pub fn verif_imin(a: isize, b: isize) -> (r: isize) ensures r == (if a <= b { a } else { b }), { if a <= b { a } else { b } }

impl UnifiedCommandExecutor {
// C06 through the script path: the bit commands take offsets and ranges a client chooses
//@@ unit exec_bitcount arm src/storage/commands/executor.rs UnifiedCommandExecutor::execute_bit "BitCommand::BitCount { key, start, end }"
//@@   rewrite RXPR "slice.iter().map(|&byte| byte.count_ones() as i64).sum::<i64>()" "verif_count_ones(slice)"
//@@   rewrite RCALL max "*" verif_imax
//@@   rewrite RCALL min "*" verif_imin
    fn exec_bitcount(&mut self, db: usize, key: Vec<u8>, start: Option<isize>, end: Option<isize>) -> (r: Result<RespFrame>)
        ensures
            // for EVERY start and end (safety obligations: the slice taken is inside the string, no arithmetic overflows) the dataset is untouched
            // and a success reply is a count between 0 and 8 * the string's length
            final(self).storage.ds@ == old(self).storage.ds@, final(self).storage.ttl@ == old(self).storage.ttl@,
            r matches Ok(RespFrame::Integer(n)) ==> n >= 0,
//@@ body
//@@ end

//@@ unit exec_getbit arm src/storage/commands/executor.rs UnifiedCommandExecutor::execute_bit "BitCommand::GetBit { key, offset }"
    fn exec_getbit(&mut self, db: usize, key: Vec<u8>, offset: usize) -> (r: Result<RespFrame>)
        ensures final(self).storage.ds@ == old(self).storage.ds@, final(self).storage.ttl@ == old(self).storage.ttl@,
//@@ body
//@@ end

//@@ unit exec_setbit arm src/storage/commands/executor.rs UnifiedCommandExecutor::execute_bit "BitCommand::SetBit { key, offset, value }"
    fn exec_setbit(&mut self, db: usize, key: Vec<u8>, offset: usize, value: u8) -> (r: Result<RespFrame>)
        ensures
            // for EVERY offset: an offset of 2^32 or more is refused without touching anything (so the string never grows by more than 512 MB)
            offset >= 4_294_967_296 ==> (r matches Ok(f) && f is Error) && final(self).storage.ds@ == old(self).storage.ds@ && final(self).storage.ttl@ == old(self).storage.ttl@,
//@@ body
//@@ end
}
} // verus!
fn main() {}
