//@@ include contracts/inc_shard_header.rs
//@@ include contracts/inc_value_units.rs
verus! {
spec fn set_at(s: SV, key: Vec<u8>) -> Option<Set<Vec<u8>>> {
    if s.data.contains_key(key) { match s.data[key].value { Value::Set(m) => Some(m@), _ => None } } else { None }
}
spec fn holds_non_set(s: SV, key: Vec<u8>) -> bool {
    s.data.contains_key(key) && !(s.data[key].value is Set)
}
/// the set of the first n members of a sequence
spec fn seq_set(e: Seq<Vec<u8>>, n: int) -> Set<Vec<u8>> { e.subrange(0, n).to_set() }

proof fn lemma_seq_set_step(e: Seq<Vec<u8>>, n: int)
    requires 0 <= n < e.len(),
    ensures seq_set(e, n + 1) =~= seq_set(e, n).insert(e[n]), seq_set(e, 0) =~= Set::<Vec<u8>>::empty(),
{
    let a = e.subrange(0, n + 1);
    let b = e.subrange(0, n);
    assert forall|x: Vec<u8>| a.to_set().contains(x) <==> b.to_set().insert(e[n]).contains(x) by {
        if a.to_set().contains(x) {
            let i = choose|i: int| 0 <= i < a.len() && a[i] == x;
            if i < n { assert(b[i] == x); } else { assert(x == e[n]); }
        }
        if b.to_set().contains(x) {
            let i = choose|i: int| 0 <= i < b.len() && b[i] == x;
            assert(a[i] == x);
        }
        if x == e[n] { assert(a[n] == x); }
    }
    assert(e.subrange(0, 0).to_set() =~= Set::<Vec<u8>>::empty());
}

impl StorageEngine {
//@@ unit sadd fn src/storage/engine.rs StorageEngine::sadd
//@@   params drop "db: DatabaseIndex" add "shard_guard: &mut DatabaseShard"
//@@   rewrite R2
//@@   rewrite RFOR 0 it
//@@   rewrite RFOR 1 it
//@@   loop 0
//@@|     invariant set@ =~= old_set.union(seq_set(members@, it.index@ as int)), 
//@@|         added == set@.len() - old_set.len(), added <= it.index@, it.index@ <= members@.len(), members@.len() <= usize::MAX,
//@@   loop 1
//@@|     invariant set@ =~= seq_set(members@, it.index@ as int), added == set@.len(), added <= it.index@, it.index@ <= members@.len(), members@.len() <= usize::MAX,
//@@   at "let mut added = 0;"
//@@| let ghost old_set = set@;
//@@| proof { lemma_seq_set_step(members@, 0); }
//@@   at "if set.insert(member)" #0
//@@| proof { lemma_seq_set_step(members@, it.index@ as int); }
//@@   at "if set.insert(member)" #1
//@@| proof { lemma_seq_set_step(members@, it.index@ as int); }
//@@   at "let mut added = 0;" #1
//@@| proof { lemma_seq_set_step(members@, 0); }
//@@   at "drop(stored_value);"
//@@| proof { if added == 0 { vstd::set_lib::lemma_subset_equality(old_set, set@); } }
//@@   at "let stored_value = StoredValue::new(Value::Set(set));"
//@@| proof { assert(members@.subrange(0, members@.len() as int)[0] == members@[0]); vstd::set::lemma_set_contains_len(set@, members@[0]); }
    fn sadd(&self, shard_guard: &mut DatabaseShard, key: Key, members: Vec<Vec<u8>>) -> (r: Result<usize>)
        requires members@.len() > 0,
        ensures
            step_ok(eff(*old(shard_guard), key), sv(*final(shard_guard)), key),
            coll_ok(eff(*old(shard_guard), key)) ==> coll_ok(sv(*final(shard_guard))),
            holds_non_set(eff(*old(shard_guard), key), key) ==> r is Err && unchanged(eff(*old(shard_guard), key), sv(*final(shard_guard))),
            // existing set: union with the arguments; reply = number of members that were new
            set_at(eff(*old(shard_guard), key), key) matches Some(m) ==> set_at(sv(*final(shard_guard)), key) == Some(m.union(seq_set(members@, members@.len() as int)))
                && r == Ok::<usize, FerrousError>((m.union(seq_set(members@, members@.len() as int)).len() - m.len()) as usize)
                && sv(*final(shard_guard)).data[key].metadata == eff(*old(shard_guard), key).data[key].metadata,
            !eff(*old(shard_guard), key).data.contains_key(key) ==> set_at(sv(*final(shard_guard)), key) == Some(seq_set(members@, members@.len() as int))
                && r == Ok::<usize, FerrousError>(seq_set(members@, members@.len() as int).len() as usize)
                && sv(*final(shard_guard)).data[key].metadata.expires_at is None,
//@@ body
//@@ end

//@@ unit scard fn src/storage/engine.rs StorageEngine::scard
//@@   params drop "db: DatabaseIndex" add "shard_guard: &mut DatabaseShard"
//@@   rewrite R2
    fn scard(&self, shard_guard: &mut DatabaseShard, key: &[u8]) -> (r: Result<usize>)
        ensures
            unchanged(eff(*old(shard_guard), key_of(key@)), sv(*final(shard_guard))),
            holds_non_set(eff(*old(shard_guard), key_of(key@)), key_of(key@)) ==> r is Err,
            !eff(*old(shard_guard), key_of(key@)).data.contains_key(key_of(key@)) ==> r == Ok::<usize, FerrousError>(0),
            set_at(eff(*old(shard_guard), key_of(key@)), key_of(key@)) matches Some(m) ==> r == Ok::<usize, FerrousError>(m.len() as usize),
//@@ body
//@@ end

//@@ unit sismember fn src/storage/engine.rs StorageEngine::sismember
//@@   params drop "db: DatabaseIndex" add "shard_guard: &mut DatabaseShard"
//@@   rewrite R2
    fn sismember(&self, shard_guard: &mut DatabaseShard, key: &[u8], member: &[u8]) -> (r: Result<bool>)
        ensures
            unchanged(eff(*old(shard_guard), key_of(key@)), sv(*final(shard_guard))),
            holds_non_set(eff(*old(shard_guard), key_of(key@)), key_of(key@)) ==> r is Err,
            !eff(*old(shard_guard), key_of(key@)).data.contains_key(key_of(key@)) ==> r == Ok::<bool, FerrousError>(false),
            set_at(eff(*old(shard_guard), key_of(key@)), key_of(key@)) matches Some(m) ==> r == Ok::<bool, FerrousError>(m.contains(key_of(member@))),
//@@ body
//@@ end
}

} // verus!
fn main() {}
