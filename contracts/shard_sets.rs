//@@ include contracts/inc_shard_header.rs
//@@ include contracts/inc_value_units.rs
//@@ include prelude/hash_iter.rs
verus! {
spec fn set_at(s: SV, key: Vec<u8>) -> Option<Set<Vec<u8>>> {
    if s.data.contains_key(key) { match s.data[key].value { Value::Set(m) => Some(m@), _ => None } } else { None }
}
spec fn holds_non_set(s: SV, key: Vec<u8>) -> bool {
    s.data.contains_key(key) && !(s.data[key].value is Set)
}
/// the set of the first n members of a sequence
spec fn seq_set(e: Seq<Vec<u8>>, n: int) -> Set<Vec<u8>> { e.subrange(0, n).to_set() }

proof fn lemma_seq_set_step(e: Seq<Vec<u8>>, n: int)
    requires 0 <= n < e.len(),
    ensures seq_set(e, n + 1) =~= seq_set(e, n).insert(e[n]), seq_set(e, 0) =~= Set::<Vec<u8>>::empty(),
{
    let a = e.subrange(0, n + 1);
    let b = e.subrange(0, n);
    assert forall|x: Vec<u8>| a.to_set().contains(x) <==> b.to_set().insert(e[n]).contains(x) by {
        if a.to_set().contains(x) {
            let i = choose|i: int| 0 <= i < a.len() && a[i] == x;
            if i < n { assert(b[i] == x); } else { assert(x == e[n]); }
        }
        if b.to_set().contains(x) {
            let i = choose|i: int| 0 <= i < b.len() && b[i] == x;
            assert(a[i] == x);
        }
        if x == e[n] { assert(a[n] == x); }
    }
    assert(e.subrange(0, 0).to_set() =~= Set::<Vec<u8>>::empty());
}

impl StorageEngine {
//@@ unit sadd fn src/storage/engine.rs StorageEngine::sadd
//@@   params drop "db: DatabaseIndex" add "shard_guard: &mut DatabaseShard"
//@@   rewrite R2
//@@   rewrite RFOR 0 it
//@@   rewrite RFOR 1 it
//@@   loop 0
//@@|     invariant set@ =~= old_set.union(seq_set(members@, it.index@ as int)), 
//@@|         added == set@.len() - old_set.len(), added <= it.index@, it.index@ <= members@.len(), members@.len() <= usize::MAX,
//@@   loop 1
//@@|     invariant set@ =~= seq_set(members@, it.index@ as int), added == set@.len(), added <= it.index@, it.index@ <= members@.len(), members@.len() <= usize::MAX,
//@@   at "let mut added = 0;"
//@@| let ghost old_set = set@;
//@@| proof { lemma_seq_set_step(members@, 0); }
//@@   at "if set.insert(member)" #0
//@@| proof { lemma_seq_set_step(members@, it.index@ as int); }
//@@   at "if set.insert(member)" #1
//@@| proof { lemma_seq_set_step(members@, it.index@ as int); }
//@@   at "let mut added = 0;" #1
//@@| proof { lemma_seq_set_step(members@, 0); }
//@@   at "drop(stored_value);"
//@@| proof { if added == 0 { vstd::set_lib::lemma_subset_equality(old_set, set@); } }
//@@   at "let stored_value = StoredValue::new(Value::Set(set));"
//@@| proof { assert(members@.subrange(0, members@.len() as int)[0] == members@[0]); vstd::set::lemma_set_contains_len(set@, members@[0]); }
    fn sadd(&self, shard_guard: &mut DatabaseShard, key: Key, members: Vec<Vec<u8>>) -> (r: Result<usize>)
        requires members@.len() > 0,
        ensures
            step_ok(eff(*old(shard_guard), key), sv(*final(shard_guard)), key),
            coll_ok(eff(*old(shard_guard), key)) ==> coll_ok(sv(*final(shard_guard))),
            holds_non_set(eff(*old(shard_guard), key), key) ==> r is Err && unchanged(eff(*old(shard_guard), key), sv(*final(shard_guard))),
            // existing set: union with the arguments; reply = number of members that were new
            set_at(eff(*old(shard_guard), key), key) matches Some(m) ==> set_at(sv(*final(shard_guard)), key) == Some(m.union(seq_set(members@, members@.len() as int)))
                && r == Ok::<usize, FerrousError>((m.union(seq_set(members@, members@.len() as int)).len() - m.len()) as usize)
                && sv(*final(shard_guard)).data[key].metadata == eff(*old(shard_guard), key).data[key].metadata,
            !eff(*old(shard_guard), key).data.contains_key(key) ==> set_at(sv(*final(shard_guard)), key) == Some(seq_set(members@, members@.len() as int))
                && r == Ok::<usize, FerrousError>(seq_set(members@, members@.len() as int).len() as usize)
                && sv(*final(shard_guard)).data[key].metadata.expires_at is None,
//@@ body
//@@ end

// SREM (members taken at T = Vec<u8>; `member.as_ref()` -> as_slice, RT): exactly the named members leave; the reply counts those that were
// there; a set that becomes empty ceases to exist as a key (with its deadline-index entry); a removal is marked for WATCH
//@@ unit srem fn src/storage/engine.rs StorageEngine::srem
//@@   params drop "db: DatabaseIndex" "members: &[T]" add "shard_guard: &mut DatabaseShard" "members: &[Vec<u8>]"
//@@   rewrite R2
//@@   rewrite RT "member.as_ref()" "member.as_slice()"
//@@   rewrite RFOR 0 it
//@@   loop 0
//@@|     invariant set@ =~= old_set.difference(seq_set(members@, it.index@ as int)), old_set.finite(),
//@@|         removed == old_set.len() - set@.len(), removed <= it.index@, it.index@ <= members@.len(), members@.len() <= usize::MAX,
//@@   at "let mut removed = 0;"
//@@| let ghost old_set = set@;
//@@| proof { assert(members@.subrange(0, 0).to_set() =~= Set::<Vec<u8>>::empty()); }
//@@   at "if set.remove(member.as_ref())"
//@@| proof { lemma_seq_set_step(members@, it.index@ as int); vstd::set_lib::lemma_len_subset(set@, old_set); }
//@@   at "let is_empty = set.is_empty();"
//@@| proof { vstd::set_lib::lemma_len_subset(set@, old_set); if removed == 0 { vstd::set_lib::lemma_subset_equality(set@, old_set); } }
    fn srem(&self, shard_guard: &mut DatabaseShard, key: &[u8], members: &[Vec<u8>]) -> (r: Result<usize>)
        ensures
            step_ok(eff(*old(shard_guard), key_of(key@)), sv(*final(shard_guard)), key_of(key@)),
            coll_ok(eff(*old(shard_guard), key_of(key@))) ==> coll_ok(sv(*final(shard_guard))),
            holds_non_set(eff(*old(shard_guard), key_of(key@)), key_of(key@)) ==> r is Err && unchanged(eff(*old(shard_guard), key_of(key@)), sv(*final(shard_guard))),
            !eff(*old(shard_guard), key_of(key@)).data.contains_key(key_of(key@)) ==> r == Ok::<usize, FerrousError>(0) && unchanged(eff(*old(shard_guard), key_of(key@)), sv(*final(shard_guard))),
            set_at(eff(*old(shard_guard), key_of(key@)), key_of(key@)) matches Some(m) ==> ({
                let left = m.difference(seq_set(members@, members@.len() as int));
                &&& r == Ok::<usize, FerrousError>((m.len() - left.len()) as usize)
                &&& (left.len() == 0 ==> !sv(*final(shard_guard)).data.contains_key(key_of(key@)) && !sv(*final(shard_guard)).exp.contains_key(key_of(key@)))
                &&& (left.len() != 0 ==> set_at(sv(*final(shard_guard)), key_of(key@)) == Some(left)
                        && sv(*final(shard_guard)).data[key_of(key@)].metadata == eff(*old(shard_guard), key_of(key@)).data[key_of(key@)].metadata)
            }),
//@@ body
//@@ end

// SPOP: "random picks come from the current members" — whatever the shuffle does (ASSUMED only to permute), the members handed out are
// distinct members of the set as it was, min(count, cardinality) of them; exactly they leave; an emptied set ceases to exist as a key
//@@ unit spop fn src/storage/engine.rs StorageEngine::spop
//@@   params drop "db: DatabaseIndex" add "shard_guard: &mut DatabaseShard"
//@@   rewrite R2
//@@   rewrite RXPR "set.iter().cloned().collect()" "verif_members_vec(set)"
//@@   rewrite RT "let mut rng = rand::thread_rng();" ""
//@@   rewrite RT "members.shuffle(&mut rng);" "verif_shuffle(&mut members);"
//@@   rewrite RT "std::cmp::min(count, members.len())" "verif_min(count, members.len())"
//@@   rewrite RXPR "members.drain(..n).collect()" "verif_take_front(&mut members, n)"
//@@   rewrite RFORS 0
//@@   loop 0
//@@|     invariant member__n <= result@.len(), set@ =~= old_set.difference(seq_set(result@, member__n as int)), old_set.finite(),
//@@|     decreases result@.len() - member__n,
//@@   at "if members.is_empty()"
//@@|     proof { members@.unique_seq_to_set(); }
//@@   at "let n = std::cmp::min(count, members.len());"
//@@|     let ghost all = members@;
//@@|     let ghost old_set = set@;
//@@|     proof { all.unique_seq_to_set(); }
//@@   at "for member in"
//@@|     proof {
//@@|         assert(result@.subrange(0, 0).to_set() =~= Set::<Vec<u8>>::empty());
//@@|         assert forall|i: int, j: int| 0 <= i < j < result@.len() implies result@[i] != result@[j] by { assert(all[i] != all[j]); }
//@@|         assert forall|x: Vec<u8>| result@.to_set().contains(x) implies old_set.contains(x) by {
//@@|             let i = choose|i: int| 0 <= i < result@.len() && result@[i] == x; assert(all[i] == x); assert(all.to_set().contains(x));
//@@|         }
//@@|     }
//@@   at "set.remove(member);"
//@@|     proof { lemma_seq_set_step(result@, member__n as int - 1); }
//@@   at "let is_empty = set.is_empty();"
//@@|     proof {
//@@|         assert(result@.subrange(0, result@.len() as int) =~= result@);
//@@|         vstd::set_lib::lemma_len_subset(set@, old_set);
//@@|         result@.unique_seq_to_set();
//@@|         vstd::set_lib::lemma_len_subset(result@.to_set(), old_set);
//@@|         vstd::set_lib::lemma_len_difference(old_set, result@.to_set());
//@@|         if result@.len() == 0 { assert(set@ =~= old_set); }
//@@|     }
    fn spop(&self, shard_guard: &mut DatabaseShard, key: Key, count: usize) -> (r: Result<Vec<Vec<u8>>>)
        ensures
            step_ok(eff(*old(shard_guard), key), sv(*final(shard_guard)), key),
            coll_ok(eff(*old(shard_guard), key)) ==> coll_ok(sv(*final(shard_guard))),
            holds_non_set(eff(*old(shard_guard), key), key) ==> r is Err && unchanged(eff(*old(shard_guard), key), sv(*final(shard_guard))),
            !eff(*old(shard_guard), key).data.contains_key(key) ==> (r matches Ok(v) && v@.len() == 0) && unchanged(eff(*old(shard_guard), key), sv(*final(shard_guard))),
            // (under the data invariant that no empty set is stored — kept by every operation under contract)
            coll_ok(eff(*old(shard_guard), key)) ==> (set_at(eff(*old(shard_guard), key), key) matches Some(m) ==> (r matches Ok(v) && ({
                let left = m.difference(v@.to_set());
                &&& v@.no_duplicates() && v@.to_set().subset_of(m)
                &&& v@.len() == (if count <= m.len() { count as int } else { m.len() as int })
                &&& (left.len() == 0 ==> !sv(*final(shard_guard)).data.contains_key(key) && !sv(*final(shard_guard)).exp.contains_key(key))
                &&& (left.len() != 0 ==> set_at(sv(*final(shard_guard)), key) == Some(left)
                        && sv(*final(shard_guard)).data[key].metadata == eff(*old(shard_guard), key).data[key].metadata)
            }))),
//@@ body
//@@ end

// SRANDMEMBER: a read (lazy purge only). count >= 0: distinct members, min(count, cardinality) of them; count < 0: |count| picks, repeats
// allowed, every one a current member. The shuffle is ASSUMED only to permute, `choose` only to return an element of the slice it is given.
//@@ unit srandmember fn src/storage/engine.rs StorageEngine::srandmember
//@@   params drop "db: DatabaseIndex" add "shard_guard: &mut DatabaseShard"
//@@   rewrite R2
//@@   rewrite RXPR "set.iter().cloned().collect()" "verif_members_vec(set)"
//@@   rewrite RT "let mut rng = rand::thread_rng();" ""
//@@   rewrite RT "result.shuffle(&mut rng);" "verif_shuffle(&mut result);"
//@@   rewrite RT "std::cmp::min(count as usize, members.len())" "verif_min(count as usize, members.len())"
//@@   rewrite RT "members.choose(&mut rng)" "verif_choose(&members)"
//@@   rewrite RT "let mut result = Vec::new();" "let mut result: Vec<Vec<u8>> = Vec::new();"
//@@   rewrite RFORC 0
//@@   at "if members.is_empty()"
//@@|     proof { members@.unique_seq_to_set(); }
//@@   loop 0
//@@|     invariant forall|j: int| 0 <= j < result@.len() ==> members@.contains(#[trigger] result@[j]), result@.len() <= ___n <= ___end, ___end == n, members@.len() > 0,
//@@|     decreases ___end - ___n,
//@@   at "let n = std::cmp::min(count as usize, members.len());"
//@@|     let ghost all = members@;
//@@   at "result.truncate("
//@@|     let ghost shuffled = result@;
//@@   after "result.truncate("
//@@|     proof {
//@@|         assert forall|i: int, j: int| 0 <= i < j < result@.len() implies result@[i] != result@[j] by { assert(shuffled[i] != shuffled[j]); }
//@@|         assert forall|j: int| 0 <= j < result@.len() implies all.to_set().contains(#[trigger] result@[j]) by { assert(shuffled[j] == result@[j]); assert(shuffled.to_set().contains(shuffled[j])); }
//@@|     }
    fn srandmember(&self, shard_guard: &mut DatabaseShard, key: &[u8], count: i64) -> (r: Result<Vec<Vec<u8>>>)
        ensures
            unchanged(eff(*old(shard_guard), key_of(key@)), sv(*final(shard_guard))),
            holds_non_set(eff(*old(shard_guard), key_of(key@)), key_of(key@)) ==> r is Err,
            !eff(*old(shard_guard), key_of(key@)).data.contains_key(key_of(key@)) ==> (r matches Ok(v) && v@.len() == 0),
            set_at(eff(*old(shard_guard), key_of(key@)), key_of(key@)) matches Some(m) ==> (r matches Ok(v)
                && (forall|j: int| 0 <= j < v@.len() ==> m.contains(#[trigger] v@[j]))
                && (count >= 0 ==> v@.no_duplicates() && v@.len() == (if count as int <= m.len() { count as int } else { m.len() as int }))
                && (count < 0 && m.len() > 0 ==> v@.len() <= -(count as int))),
//@@ body
//@@ end

//@@ unit smembers fn src/storage/engine.rs StorageEngine::smembers
//@@   params drop "db: DatabaseIndex" add "shard_guard: &mut DatabaseShard"
//@@   rewrite R2
//@@   rewrite RXPR "set.iter().cloned().collect()" "verif_members_vec(set)"
    fn smembers(&self, shard_guard: &mut DatabaseShard, key: &[u8]) -> (r: Result<Vec<Vec<u8>>>)
        ensures
            unchanged(eff(*old(shard_guard), key_of(key@)), sv(*final(shard_guard))),
            holds_non_set(eff(*old(shard_guard), key_of(key@)), key_of(key@)) ==> r is Err,
            !eff(*old(shard_guard), key_of(key@)).data.contains_key(key_of(key@)) ==> (r matches Ok(v) && v@.len() == 0),
            set_at(eff(*old(shard_guard), key_of(key@)), key_of(key@)) matches Some(m) ==> (r matches Ok(v) && v@.no_duplicates() && v@.to_set() == m),
//@@ body
//@@ end

//@@ unit scard fn src/storage/engine.rs StorageEngine::scard
//@@   params drop "db: DatabaseIndex" add "shard_guard: &mut DatabaseShard"
//@@   rewrite R2
    fn scard(&self, shard_guard: &mut DatabaseShard, key: &[u8]) -> (r: Result<usize>)
        ensures
            unchanged(eff(*old(shard_guard), key_of(key@)), sv(*final(shard_guard))),
            holds_non_set(eff(*old(shard_guard), key_of(key@)), key_of(key@)) ==> r is Err,
            !eff(*old(shard_guard), key_of(key@)).data.contains_key(key_of(key@)) ==> r == Ok::<usize, FerrousError>(0),
            set_at(eff(*old(shard_guard), key_of(key@)), key_of(key@)) matches Some(m) ==> r == Ok::<usize, FerrousError>(m.len() as usize),
//@@ body
//@@ end

//@@ unit sismember fn src/storage/engine.rs StorageEngine::sismember
//@@   params drop "db: DatabaseIndex" add "shard_guard: &mut DatabaseShard"
//@@   rewrite R2
    fn sismember(&self, shard_guard: &mut DatabaseShard, key: &[u8], member: &[u8]) -> (r: Result<bool>)
        ensures
            unchanged(eff(*old(shard_guard), key_of(key@)), sv(*final(shard_guard))),
            holds_non_set(eff(*old(shard_guard), key_of(key@)), key_of(key@)) ==> r is Err,
            !eff(*old(shard_guard), key_of(key@)).data.contains_key(key_of(key@)) ==> r == Ok::<bool, FerrousError>(false),
            set_at(eff(*old(shard_guard), key_of(key@)), key_of(key@)) matches Some(m) ==> r == Ok::<bool, FerrousError>(m.contains(key_of(member@))),
//@@ body
//@@ end

// ---- SDIFF / SUNION / SINTER, one operand (the body of the per-key loop): the operand is read through the lazy purge, so a set whose
// deadline has passed counts as absent (C02: never observable, also as the 2nd..n-th operand of a multi-key read); another type refuses;
// the accumulated result changes by exactly the operand's members; the shard is otherwise untouched. `keys[k].as_ref()` on the generic
// `T: AsRef<[u8]>` is taken at T = Vec<u8> (RT to as_slice: the trait method has no specification)
//@@ unit sdiff_operand_step loopbody src/storage/engine.rs StorageEngine::sdiff "for k in 1..keys.len()"
//@@   rewrite R2
//@@   rewrite RT "keys[k].as_ref()" "keys[k].as_slice()"
//@@   rewrite RFOR 0 it
//@@   tail Ok(Vec::new())
//@@   loop 0
//@@|     invariant
//@@|         it.seq().no_duplicates(), it.seq().len() == set@.len(),
//@@|         forall|i: int| 0 <= i < it.seq().len() ==> set@.contains(*(#[trigger] it.seq()[i])),
//@@|         forall|m: Vec<u8>| #[trigger] set@.contains(m) ==> exists|i: int| 0 <= i < it.seq().len() && *(#[trigger] it.seq()[i]) == m,
//@@|         it.history@ =~= it.seq().take(it.index@),
//@@|         forall|m: Vec<u8>| #[trigger] result@.contains(m) <==> (old(result)@.contains(m) && !(exists|j: int| 0 <= j < it.index@ && *(#[trigger] it.seq()[j]) == m)),
//@@|     ensures it.index@ == it.seq().len(),
    fn sdiff_operand_step(&self, shard_guard: &mut DatabaseShard, keys: &[Vec<u8>], k: usize, result: &mut HashSet<Vec<u8>>) -> (r: Result<Vec<Vec<u8>>>)
        requires 1 <= k < keys@.len(),
        ensures
            unchanged(eff(*old(shard_guard), keys@[k as int]), sv(*final(shard_guard))),
            holds_non_set(eff(*old(shard_guard), keys@[k as int]), keys@[k as int]) ==> r is Err,
            !eff(*old(shard_guard), keys@[k as int]).data.contains_key(keys@[k as int]) ==> r is Ok && final(result)@ == old(result)@,
            set_at(eff(*old(shard_guard), keys@[k as int]), keys@[k as int]) matches Some(m) ==> r is Ok && final(result)@ =~= old(result)@.difference(m),
//@@ body
//@@ end

// the base operand (first key) of SDIFF and SINTER: its members, read through the lazy purge; absent (or past its deadline) answers empty at once
//@@ unit sdiff_base_step stmts src/storage/engine.rs StorageEngine::sdiff "let first_key" upto "drop(shard_guard)"
//@@   opt same-return-type
//@@   rewrite R2
//@@   rewrite RT "keys[0].as_ref()" "keys[0].as_slice()"
//@@   rewrite RXPR "set.iter().cloned().collect()" "verif_clone_set(set)"
//@@   rewrite RT "return Ok(Vec::new());" "{ proof { *early = Ghost(true); } return Ok(Vec::new()); }"
//@@   tail *out = result; Ok(Vec::new())
    fn sdiff_base_step(&self, shard_guard: &mut DatabaseShard, keys: &[Vec<u8>], out: &mut HashSet<Vec<u8>>, early: &mut Ghost<bool>) -> (r: Result<Vec<Vec<u8>>>)
        requires keys@.len() >= 1, !old(early)@,
        ensures
            unchanged(eff(*old(shard_guard), keys@[0]), sv(*final(shard_guard))),
            holds_non_set(eff(*old(shard_guard), keys@[0]), keys@[0]) ==> r is Err,
            !eff(*old(shard_guard), keys@[0]).data.contains_key(keys@[0]) ==> (r matches Ok(v) && v@.len() == 0) && final(early)@,
            set_at(eff(*old(shard_guard), keys@[0]), keys@[0]) matches Some(m) ==> r is Ok && !final(early)@ && final(out)@ == m,
//@@ body
//@@ end
//@@ unit sinter_base_step stmts src/storage/engine.rs StorageEngine::sinter "let first_key" upto "drop(shard_guard)"
//@@   opt same-return-type
//@@   rewrite R2
//@@   rewrite RT "keys[0].as_ref()" "keys[0].as_slice()"
//@@   rewrite RXPR "set.iter().cloned().collect()" "verif_clone_set(set)"
//@@   rewrite RT "return Ok(Vec::new());" "{ proof { *early = Ghost(true); } return Ok(Vec::new()); }"
//@@   tail *out = result; Ok(Vec::new())
    fn sinter_base_step(&self, shard_guard: &mut DatabaseShard, keys: &[Vec<u8>], out: &mut HashSet<Vec<u8>>, early: &mut Ghost<bool>) -> (r: Result<Vec<Vec<u8>>>)
        requires keys@.len() >= 1, !old(early)@,
        ensures
            unchanged(eff(*old(shard_guard), keys@[0]), sv(*final(shard_guard))),
            holds_non_set(eff(*old(shard_guard), keys@[0]), keys@[0]) ==> r is Err,
            !eff(*old(shard_guard), keys@[0]).data.contains_key(keys@[0]) ==> (r matches Ok(v) && v@.len() == 0) && final(early)@,
            set_at(eff(*old(shard_guard), keys@[0]), keys@[0]) matches Some(m) ==> r is Ok && !final(early)@ && final(out)@ == m,
//@@ body
//@@ end

//@@ unit sunion_operand_step loopbody src/storage/engine.rs StorageEngine::sunion "for key_ref in keys"
//@@   rewrite R2
//@@   rewrite RT "key_ref.as_ref()" "key_ref.as_slice()"
//@@   rewrite RFOR 0 it
//@@   tail Ok(Vec::new())
//@@   loop 0
//@@|     invariant
//@@|         it.seq().no_duplicates(), it.seq().len() == set@.len(),
//@@|         forall|i: int| 0 <= i < it.seq().len() ==> set@.contains(*(#[trigger] it.seq()[i])),
//@@|         forall|m: Vec<u8>| #[trigger] set@.contains(m) ==> exists|i: int| 0 <= i < it.seq().len() && *(#[trigger] it.seq()[i]) == m,
//@@|         it.history@ =~= it.seq().take(it.index@),
//@@|         forall|m: Vec<u8>| #[trigger] result@.contains(m) <==> (old(result)@.contains(m) || (exists|j: int| 0 <= j < it.index@ && *(#[trigger] it.seq()[j]) == m)),
//@@|     ensures it.index@ == it.seq().len(),
    fn sunion_operand_step(&self, shard_guard: &mut DatabaseShard, key_ref: &Vec<u8>, result: &mut HashSet<Vec<u8>>) -> (r: Result<Vec<Vec<u8>>>)
        ensures
            unchanged(eff(*old(shard_guard), *key_ref), sv(*final(shard_guard))),
            holds_non_set(eff(*old(shard_guard), *key_ref), *key_ref) ==> r is Err,
            !eff(*old(shard_guard), *key_ref).data.contains_key(*key_ref) ==> r is Ok && final(result)@ == old(result)@,
            set_at(eff(*old(shard_guard), *key_ref), *key_ref) matches Some(m) ==> r is Ok && final(result)@ =~= old(result)@.union(m),
//@@ body
//@@ end

//@@ unit sinter_operand_step loopbody src/storage/engine.rs StorageEngine::sinter "for k in 1..keys.len()"
//@@   rewrite R2
//@@   rewrite RT "keys[k].as_ref()" "keys[k].as_slice()"
//@@   rewrite RXPR "result.retain(|member| set.contains(member))" "verif_retain_in(result, set)"
//@@   rewrite RT "return Ok(Vec::new());" "{ proof { *early = Ghost(true); } return Ok(Vec::new()); }"
//@@   tail Ok(Vec::new())
    fn sinter_operand_step(&self, shard_guard: &mut DatabaseShard, keys: &[Vec<u8>], k: usize, result: &mut HashSet<Vec<u8>>, early: &mut Ghost<bool>) -> (r: Result<Vec<Vec<u8>>>)
        requires 1 <= k < keys@.len(), !old(early)@,
        ensures
            unchanged(eff(*old(shard_guard), keys@[k as int]), sv(*final(shard_guard))),
            holds_non_set(eff(*old(shard_guard), keys@[k as int]), keys@[k as int]) ==> r is Err,
            // an absent operand — also one whose deadline has passed (C02) — makes the whole intersection empty: the command answers at once
            !eff(*old(shard_guard), keys@[k as int]).data.contains_key(keys@[k as int]) ==> (r matches Ok(v) && v@.len() == 0) && final(early)@,
            set_at(eff(*old(shard_guard), keys@[k as int]), keys@[k as int]) matches Some(m) ==> r is Ok && !final(early)@ && final(result)@ =~= old(result)@.intersect(m),
//@@ body
//@@ end
}
/// `set.iter().cloned().collect()` into a Vec (RXPR site): ASSUMED — every member once, in some order
#[verifier::external_body]
pub fn verif_members_vec(set: &HashSet<Vec<u8>>) -> (r: Vec<Vec<u8>>) ensures r@.no_duplicates(), r@.to_set() == set@, { unimplemented!() }
/// `members.shuffle(&mut rng)` with the thread-local generator (RT site, two statements): ASSUMED to permute — the same members, each once
#[verifier::external_body]
pub fn verif_shuffle(v: &mut Vec<Vec<u8>>) ensures final(v)@.no_duplicates() == old(v)@.no_duplicates(), final(v)@.to_set() == old(v)@.to_set(), final(v)@.len() == old(v)@.len(), { unimplemented!() }
/// i64::unsigned_abs (std): the magnitude, exact for every i64 (i64::MIN -> 2^63)
pub assume_specification[ i64::unsigned_abs ](x: i64) -> (r: u64)
    ensures r as int == (if x >= 0 { x as int } else { -(x as int) });
/// `members.choose(&mut rng)` (RT site): ASSUMED — some element of the slice, None only when it is empty
#[verifier::external_body]
pub fn verif_choose<'a>(v: &'a Vec<Vec<u8>>) -> (r: Option<&'a Vec<u8>>) ensures v@.len() == 0 ==> r is None, v@.len() > 0 ==> (r matches Some(x) && v@.contains(*x)), { unimplemented!() }
/// `std::cmp::min` on usize (RT site)
#[verifier::external_body]
pub fn verif_min(a: usize, b: usize) -> (r: usize) ensures r == (if a <= b { a } else { b }), { unimplemented!() }
/// `members.drain(..n).collect()` (RXPR site): the first n elements, in order
#[verifier::external_body]
pub fn verif_take_front(v: &mut Vec<Vec<u8>>, n: usize) -> (r: Vec<Vec<u8>>)
    requires n <= old(v)@.len(),
    ensures r@ == old(v)@.subrange(0, n as int), final(v)@ == old(v)@.subrange(n as int, old(v)@.len() as int),
{ unimplemented!() }
/// `set.iter().cloned().collect()` into a HashSet (RXPR site): a copy of the set
#[verifier::external_body]
pub fn verif_clone_set(set: &HashSet<Vec<u8>>) -> (r: HashSet<Vec<u8>>) ensures r@ == set@, { unimplemented!() }
/// `result.retain(|member| set.contains(member))` (RXPR site; HashSet::retain with a closure has no vstd specification): keeps exactly the members that are in `set`
#[verifier::external_body]
pub fn verif_retain_in(result: &mut HashSet<Vec<u8>>, set: &HashSet<Vec<u8>>)
    ensures final(result)@ == old(result)@.intersect(set@),
{ unimplemented!() }

} // verus!
fn main() {}
