//@@ include contracts/inc_shard_header.rs
verus! {
//@@ item src/protocol/resp.rs Bytes
//@@ item src/protocol/resp.rs RespFrame

impl RespFrame {
    /// ASSUMED CONTRACT (`impl Into<Vec<u8>>` argument): builds an Error frame
    #[verifier::external_body]
    pub fn error<T>(msg: T) -> (r: Self) ensures r is Error, { unimplemented!() }
    /// ASSUMED CONTRACT: +OK
    #[verifier::external_body]
    pub fn ok() -> (r: Self) ensures r is SimpleString, { unimplemented!() }
//@@ unit resp_from_bytes fn src/protocol/resp.rs RespFrame::from_bytes
    pub fn from_bytes(bytes: Vec<u8>) -> (r: Self)
        ensures r == RespFrame::BulkString(Some(Arc::new(bytes))),
//@@ body
//@@ end
    /// ASSUMED CONTRACT (resp.rs null_array; proved in srv_exec)
    #[verifier::external_body]
    pub fn null_array() -> (r: Self) ensures r == RespFrame::Array(None), { unimplemented!() }
//@@ unit resp_null_bulk fn src/protocol/resp.rs RespFrame::null_bulk
    pub fn null_bulk() -> (r: Self)
        ensures r == RespFrame::BulkString(None),
//@@ body
//@@ end
}
/// argument i of the command is a bulk string with these bytes
pub open spec fn arg(parts: Seq<RespFrame>, i: int) -> Option<Seq<u8>> {
    if 0 <= i < parts.len() { match parts[i] { RespFrame::BulkString(Some(b)) => Some(b@), _ => None } } else { None }
}
/// argument i as the exec byte vector (for element lists)
pub open spec fn arg_vec(parts: Seq<RespFrame>, i: int) -> Option<Vec<u8>> {
    if 0 <= i < parts.len() { match parts[i] { RespFrame::BulkString(Some(b)) => Some(*b), _ => None } } else { None }
}
pub open spec fn all_bulk(parts: Seq<RespFrame>, from: int) -> bool { forall|i: int| from <= i < parts.len() ==> (#[trigger] parts[i] matches RespFrame::BulkString(Some(_))) }
/// the arguments from `from` on, as byte vectors
pub open spec fn args_from(parts: Seq<RespFrame>, from: int) -> Seq<Vec<u8>> {
    Seq::new((parts.len() - from) as nat, |j: int| arg_vec(parts, from + j)->Some_0)
}
/// numeric argument i parsed the way the handlers do (lossy decode, then FromStr)
pub open spec fn num_arg<F>(parts: Seq<RespFrame>, i: int) -> Option<F> {
    match arg(parts, i) { Some(b) => parse_lossy_spec::<F>(b), None => None }
}
pub open spec fn bulk_reply(r: RespFrame) -> Option<Option<Seq<u8>>> {
    match r { RespFrame::BulkString(Some(b)) => Some(Some(b@)), RespFrame::BulkString(None) => Some(None), _ => None }
}
}
//@@ include spec/strings.rs
//@@ include spec/lists.rs
//@@ include spec/ranges.rs
//@@ include spec/dataset.rs
//@@ include prelude/engine_model.rs
verus! {
/// a reply frame agrees with the abstract reply (error replies are compared up to message wording: "is an Error frame")
pub open spec fn reply_matches(f: RespFrame, rv: RV) -> bool {
    match rv {
        RV::Int(n) => f == RespFrame::Integer(n as i64),
        RV::Bulk(ob) => bulk_reply(f) == Some(ob),
        RV::Okay => f is SimpleString,
        RV::Arr(a) => f matches RespFrame::Array(Some(v)) && v@.len() == a.len() && forall|i: int| 0 <= i < a.len() ==> bulk_reply(#[trigger] v@[i]) == Some(Some(a[i])),
        // unordered reply: one bulk frame per member, no duplicates
        RV::ArrSet(m) => f matches RespFrame::Array(Some(v)) && v@.len() == m.len() && (forall|i: int| 0 <= i < v@.len() ==> (bulk_reply(#[trigger] v@[i]) matches Some(Some(b)) && m.contains(key_of(b))))
            && (forall|i: int, j: int| 0 <= i < j < v@.len() ==> bulk_reply(v@[i]) != bulk_reply(v@[j])),
        RV::WrongType => f is Error,
        RV::OtherErr => f is Error,
    }
}
/// the handler's outcome agrees with the reference model: reply as prescribed and dataset as prescribed
pub open spec fn cmd_ok(r: Result<RespFrame>, ds1: DS, spec: (RV, DS)) -> bool {
    (r matches Ok(f) && reply_matches(f, spec.0)) && ds1 == spec.1
}
/// malformed command: an error reply and the dataset exactly as it was
pub open spec fn cmd_refused(r: Result<RespFrame>, ds0: DS, ds1: DS) -> bool {
    (r matches Ok(f) && f is Error) && ds1 == ds0
}
}
