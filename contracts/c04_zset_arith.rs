//@@ include prelude/head.rs
//@@ include prelude/cmp.rs
//@@ include prelude/vec_extra.rs
//@@ include prelude/skiplist_stub.rs
//@@ include spec/ranges.rs
verus! {

/// ZRANGE / ZREVRANGE by rank: the index pair addresses the rank order (reversed for ZREVRANGE)
pub open spec fn spec_zrange<T>(v: Seq<T>, start: int, stop: int, reverse: bool) -> Seq<T> {
    let w = if reverse { seq_rev(v) } else { v };
    match spec_range(v.len() as int, start, stop) {
        None => Seq::<T>::empty(),
        Some((a, b)) => w.subrange(a, b + 1),
    }
}

//@@ unit zrange_arm arm src/storage/engine.rs StorageEngine::zrange "Value::SortedSet(skiplist)"
pub fn zrange_arm(skiplist: &SkipList<Vec<u8>, f64>, start: isize, stop: isize, reverse: bool) -> (result: Vec<(Vec<u8>, f64)>)
    requires skiplist.view().len() <= isize::MAX,
    ensures result@ == spec_zrange(skiplist.view(), start as int, stop as int, reverse),
//@@ body
//@@ end

//@@ unit zrank_arm arm src/storage/engine.rs StorageEngine::zrank "Value::SortedSet(skiplist)"
//@@   rewrite RCALL get_rank skiplist verif_get_rank
pub fn zrank_arm(skiplist: &SkipList<Vec<u8>, f64>, member: &[u8], reverse: bool) -> (result: Option<usize>)
    ensures
        spec_rank_of(skiplist.view(), member@) is None ==> result is None,
        spec_rank_of(skiplist.view(), member@) matches Some(k) ==> result == Some(if reverse { (skiplist.view().len() - 1 - k) as usize } else { k as usize }),
//@@ body
//@@ end

pub uninterp spec fn spec_rank_of(v: Seq<(Vec<u8>, f64)>, m: Seq<u8>) -> Option<int>;

/// ASSUMED CONTRACT for SkipList::get_rank (generic `Q: ?Sized` lookup, not expressible on the stub): the rank is an index into the view
#[verifier::external_body]
pub fn verif_get_rank(sl: &SkipList<Vec<u8>, f64>, member: &[u8]) -> (r: Option<usize>)
    ensures
        r is None <==> spec_rank_of(sl.view(), member@) is None,
        r matches Some(k) ==> spec_rank_of(sl.view(), member@) == Some(k as int) && k < sl.view().len(),
{ unimplemented!() }

} // verus!
fn main() {}
