//@@ include contracts/inc_srv_header.rs
verus! {
pub struct StorageStub { pub g: Ghost<int> }
/// MODEL of BlockingManager as far as the push path uses it: per (db, key) the clients blocked on it in the order they
/// blocked, and the ghost sequence of clients handed to the wake-up queue. (The registry behind it is the subject of the
/// C13 registry units; notify_key_ready's own body is unit notify_served_arm there.)
pub struct BlockingModel {
    pub waiters: Ghost<Map<(usize, Seq<u8>), Seq<u64>>>,
    pub woken: Ghost<Seq<u64>>,
}
pub open spec fn waiting(b: BlockingModel, db: usize, key: Seq<u8>) -> Seq<u64> {
    if b.waiters@.contains_key((db, key)) { b.waiters@[(db, key)] } else { Seq::empty() }
}
impl BlockingModel {
    #[verifier::external_body]
    pub fn has_blocked_clients(&self, db: usize, key: &[u8]) -> (r: bool)
        ensures r == (waiting(*self, db, key@).len() > 0),
    { unimplemented!() }
    /// whether the wake-up queue is non-empty (reads only)
    #[verifier::external_body]
    pub fn has_pending_wakeups(&self) -> (r: bool) { unimplemented!() }
    /// one call wakes exactly the first waiter of the key (FIFO) if there is one
    #[verifier::external_body]
    pub fn notify_key_ready(&mut self, db: usize, key: &[u8])
        ensures
            waiting(*old(self), db, key@).len() == 0 ==> *final(self) == *old(self),
            waiting(*old(self), db, key@).len() > 0 ==> final(self).woken@ == old(self).woken@.push(waiting(*old(self), db, key@)[0])
                && waiting(*final(self), db, key@) == waiting(*old(self), db, key@).drop_first(),
    { unimplemented!() }
}
/// MODEL of Server for the push arms: storage (opaque), the blocking manager, and a ghost count of blocked clients SERVED
/// (popped for) synchronously — serving belongs to the event loop's process_wakeups, never to the pushing command
pub struct Server {
    pub storage: StorageStub,
    pub blocking_manager: BlockingModel,
    pub served_inline: Ghost<int>,
}
/// `crate::storage::commands::lists::handle_lpush / handle_rpush` (RPCALL sites; proved in cmd_lists against the reference
/// model): here only their reply matters
#[verifier::external_body]
pub fn verif_handle_push(storage: &StorageStub, db: usize, parts: &[RespFrame]) -> (r: Result<RespFrame>) { unimplemented!() }

pub open spec fn min_int(a: int, b: int) -> int { if a <= b { a } else { b } }
/// the key a push command names, when the command is well-formed enough for the notification to apply
pub open spec fn push_key(parts: Seq<RespFrame>) -> Option<Seq<u8>> {
    if parts.len() >= 3 { match parts[1] { RespFrame::BulkString(Some(b)) => Some(b@), _ => None } } else { None }
}
/// C13: after a successful push of n elements onto a key with w blocked clients, exactly the first min(n, w) of them are
/// handed to the wake-up queue, in the order they blocked (each will pop one element) — no pushed element stays in the
/// list while a client is blocked on it; nobody is woken otherwise; nobody is served inside the push itself (C07: a push
/// inside MULTI/EXEC must not run another client's pop between two queued commands)
/// exactly the first min(n, waiters) clients blocked on the key are handed to the wake-up queue, in order; nothing else changes
pub open spec fn notified_n(o: Server, f: Server, db: usize, key: Seq<u8>, n: int) -> bool {
    let k = min_int(n, waiting(o.blocking_manager, db, key).len() as int);
    f.served_inline@ == o.served_inline@ && f.storage == o.storage
    && f.blocking_manager.woken@ =~= o.blocking_manager.woken@ + waiting(o.blocking_manager, db, key).take(k)
    && waiting(f.blocking_manager, db, key) =~= waiting(o.blocking_manager, db, key).skip(k)
}
pub open spec fn push_notifies(o: Server, f: Server, parts: Seq<RespFrame>, db: usize, r: Result<RespFrame>) -> bool {
    f.served_inline@ == o.served_inline@ && f.storage == o.storage
    && match (r, push_key(parts)) {
        (Ok(RespFrame::Integer(count)), Some(key)) => if count > 0 {
            let k = min_int(parts.len() - 2, waiting(o.blocking_manager, db, key).len() as int);
            f.blocking_manager.woken@ =~= o.blocking_manager.woken@ + waiting(o.blocking_manager, db, key).take(k)
            && waiting(f.blocking_manager, db, key) =~= waiting(o.blocking_manager, db, key).skip(k)
        } else { f.blocking_manager == o.blocking_manager },
        _ => f.blocking_manager == o.blocking_manager,
    }
}

impl Server {
    /// ASSUMED CONTRACT, proved in group srv_notify (unit notify_list_push) against the real function
    #[verifier::external_body]
    fn notify_list_push(&mut self, db: usize, key: &[u8], pushed: usize)
        ensures notified_n(*old(self), *final(self), db, key@, pushed as int),
    { unimplemented!() }
    /// MODEL: Server::process_wakeups serves blocked clients (pops for them and replies)
    #[verifier::external_body]
    fn process_wakeups(&mut self) -> (r: Result<bool>)
        ensures final(self).served_inline@ == old(self).served_inline@ + 1,
    { unimplemented!() }

//@@ unit lpush_arm arm src/network/server.rs Server::process_normal_command "\"LPUSH\""
//@@   rewrite R3
//@@   rewrite RPCALL "crate::storage::commands::lists::handle_lpush" verif_handle_push
    fn lpush_arm(&mut self, parts: &[RespFrame], db: usize, conn_id: u64) -> (r: Result<RespFrame>)
        requires parts@.len() >= 1,
        ensures push_notifies(*old(self), *final(self), parts@, db, r),
//@@ body
//@@ end

//@@ unit rpush_arm arm src/network/server.rs Server::process_normal_command "\"RPUSH\""
//@@   rewrite R3
//@@   rewrite RPCALL "crate::storage::commands::lists::handle_rpush" verif_handle_push
    fn rpush_arm(&mut self, parts: &[RespFrame], db: usize, conn_id: u64) -> (r: Result<RespFrame>)
        requires parts@.len() >= 1,
        ensures push_notifies(*old(self), *final(self), parts@, db, r),
//@@ body
//@@ end
}

} // verus!
fn main() {}
