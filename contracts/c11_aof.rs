//@@ include prelude/head.rs
use std::time::{Duration, Instant};
use std::sync::Arc;
//@@ include prelude/time.rs
//@@ include prelude/slice.rs
verus! {
broadcast use {group_time, group_slice};
//@@ item src/error.rs FerrousError
//@@ item src/error.rs CommandError
//@@ item src/error.rs StorageError
//@@ item src/error.rs ScriptError
pub type Result<T> = std::result::Result<T, FerrousError>;
//@@ item src/protocol/resp.rs Bytes
//@@ item src/protocol/resp.rs RespFrame
//@@ item src/storage/aof.rs FsyncPolicy

impl Clone for RespFrame {
    #[verifier::external_body]
    fn clone(&self) -> (r: Self) ensures r == *self, { unimplemented!() }
}

/// wire encoding of one logged command (uninterpreted here; its shape is C20's subject)
pub uninterp spec fn enc_frame(f: RespFrame) -> Seq<u8>;
/// wire encoding of a command = array frame of its parts
pub uninterp spec fn enc_cmd(parts: Seq<RespFrame>) -> Seq<u8>;

/// STUB of BufWriter<File>: bytes accepted but still in the user-space buffer, and bytes handed to the file.
/// ASSUMED CONTRACTS: serialize appends the frame's encoding to the buffer (or fails leaving a prefix of it there);
/// flush moves the whole buffer to the file; sync_all changes neither.
pub struct FileStub { pub x: u8 }
pub struct WriterModel { pub buffered: Ghost<Seq<u8>>, pub file: Ghost<Seq<u8>>, pub f: FileStub }
impl WriterModel {
    #[verifier::external_body]
    pub fn flush(&mut self) -> (r: Result<()>)
        ensures r is Ok ==> final(self).file@ == old(self).file@ + old(self).buffered@ && final(self).buffered@.len() == 0,
    { unimplemented!() }
    #[verifier::external_body]
    pub fn get_ref(&self) -> (r: &FileStub) { unimplemented!() }
}
impl FileStub {
    #[verifier::external_body]
    pub fn sync_all(&self) -> (r: Result<()>) { unimplemented!() }
}
#[verifier::external_body]
pub fn serialize_resp_frame(frame: &RespFrame, writer: &mut WriterModel) -> (r: Result<()>)
    ensures r is Ok ==> final(writer).file@ == old(writer).file@ && (*frame matches RespFrame::Array(Some(v)) ==> final(writer).buffered@ == old(writer).buffered@ + enc_cmd(v@)),
{ unimplemented!() }

pub struct PoisonStub { pub p: u8 }
impl std::fmt::Debug for PoisonStub { #[verifier::external_body] fn fmt(&self, f: &mut std::fmt::Formatter<'_>) -> std::fmt::Result { Ok(()) } }
pub struct InstantCell { pub v: Instant }
impl InstantCell {
    #[verifier::external_body]
    pub fn lock(&mut self) -> (r: std::result::Result<&mut Instant, PoisonStub>)
        ensures r is Ok,
    { unimplemented!() }
}
/// `last_fsync.elapsed() >= Duration::from_secs(1)` (R7 operator site; both operands are replaced by unit placeholders
/// because `Instant::elapsed` reads the clock): arbitrary outcome — the proof must hold whether or not an fsync is due
#[verifier::external_body]
pub fn verif_fsync_due<A, B>(a: A, b: B) -> (r: bool) { unimplemented!() }
#[verifier::external_body]
pub fn verif_elapsed(i: &Instant) -> (r: Duration) { i.elapsed() }

pub struct AofConfig { pub enabled: bool, pub fsync_policy: FsyncPolicy }
pub struct AofEngine { pub config: AofConfig, pub last_fsync: InstantCell }

impl AofEngine {
// the logging step for one command, after the writer has been obtained (C11: "the AOF is at all times a sequence of
// complete RESP command frames" — when append_command reports success the WHOLE frame has been handed to the file under
// every fsync policy, so the file never ends in a torn frame between commands)
//@@ unit aof_append_step stmts src/storage/aof.rs AofEngine::append_command "let frame = RespFrame::Array(Some(command.to_vec()));"
//@@   opt same-return-type
//@@   tail Ok(())
//@@   at "serialize_resp_frame(&frame, writer)?;"
//@@| assert(frame matches RespFrame::Array(Some(v)) && v@ =~= command@);
//@@   rewrite R7 "last_fsync.elapsed() >= Duration::from_secs(1)" verif_fsync_due
    fn aof_append_step(&mut self, writer: &mut WriterModel, command: &[RespFrame]) -> (r: Result<()>)
        requires old(writer).buffered@.len() == 0,
        ensures r is Ok ==> final(writer).buffered@.len() == 0 && final(writer).file@ =~= old(writer).file@ + enc_cmd(command@),
//@@ body
//@@ end
}

} // verus!
fn main() {}
