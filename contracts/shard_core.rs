//@@ include contracts/inc_shard_header.rs
//@@ include contracts/inc_value_units.rs
verus! {

// ======================= engine.rs: key-space operations on one shard (R2) =========================
impl StorageEngine {

//@@ unit delete fn src/storage/engine.rs StorageEngine::delete
//@@   params drop "db: DatabaseIndex" add "shard_guard: &mut DatabaseShard"
//@@   rewrite R2
    fn delete(&self, shard_guard: &mut DatabaseShard, key: &[u8]) -> (r: Result<bool>)
        ensures
            step_ok(eff(*old(shard_guard), key_of(key@)), sv(*final(shard_guard)), key_of(key@)),
            r == Ok::<bool, FerrousError>(eff(*old(shard_guard), key_of(key@)).data.contains_key(key_of(key@))),
            !sv(*final(shard_guard)).data.contains_key(key_of(key@)),
//@@ body
//@@ end


//@@ unit get fn src/storage/engine.rs StorageEngine::get
//@@   params drop "db: DatabaseIndex" add "shard_guard: &mut DatabaseShard"
//@@   rewrite R2
    fn get(&self, shard_guard: &mut DatabaseShard, key: &[u8]) -> (r: Result<GetResult>)
        ensures
            step_ok(sv(*old(shard_guard)), sv(*final(shard_guard)), key_of(key@)),
            // absent
            !sv(*old(shard_guard)).data.contains_key(key_of(key@)) ==> r == Ok::<GetResult, FerrousError>(GetResult::NotFound) && unchanged(sv(*old(shard_guard)), sv(*final(shard_guard))),
            // present and live: value returned, nothing changes
            sv(*old(shard_guard)).data.contains_key(key_of(key@)) && !expired(sv(*old(shard_guard)).data[key_of(key@)]) ==>
                r == Ok::<GetResult, FerrousError>(GetResult::Found(sv(*old(shard_guard)).data[key_of(key@)].value)) && unchanged(sv(*old(shard_guard)), sv(*final(shard_guard))),
            // present but past its deadline: reported as expired, removed from key space and index, and marked for WATCH
            sv(*old(shard_guard)).data.contains_key(key_of(key@)) && expired(sv(*old(shard_guard)).data[key_of(key@)]) ==>
                r == Ok::<GetResult, FerrousError>(GetResult::Expired) && !sv(*final(shard_guard)).data.contains_key(key_of(key@))
                && !sv(*final(shard_guard)).exp.contains_key(key_of(key@)) && marks(sv(*final(shard_guard))).contains(key@),
//@@ body
//@@ end

//@@ unit exists fn src/storage/engine.rs StorageEngine::exists
//@@   params drop "db: DatabaseIndex" add "shard_guard: &DatabaseShard"
//@@   rewrite R2
    fn exists(&self, shard_guard: &DatabaseShard, key: &[u8]) -> (r: Result<bool>)
        ensures r == Ok::<bool, FerrousError>(sv(*shard_guard).data.contains_key(key_of(key@)) && !expired(sv(*shard_guard).data[key_of(key@)])),
//@@ body
//@@ end

//@@ unit expire fn src/storage/engine.rs StorageEngine::expire
//@@   params drop "db: DatabaseIndex" add "shard_guard: &mut DatabaseShard"
//@@   rewrite R2
    fn expire(&self, shard_guard: &mut DatabaseShard, key: &[u8], expires_in: Duration) -> (r: Result<bool>)
        ensures
            step_ok(eff(*old(shard_guard), key_of(key@)), sv(*final(shard_guard)), key_of(key@)),
            r == Ok::<bool, FerrousError>(eff(*old(shard_guard), key_of(key@)).data.contains_key(key_of(key@))),
            eff(*old(shard_guard), key_of(key@)).data.contains_key(key_of(key@)) ==> sv(*final(shard_guard)).data.contains_key(key_of(key@))
                && sv(*final(shard_guard)).data[key_of(key@)].value == eff(*old(shard_guard), key_of(key@)).data[key_of(key@)].value
                && (sv(*final(shard_guard)).data[key_of(key@)].metadata.expires_at matches Some(d) && iv(d) == sat_deadline(expires_in)),
            !eff(*old(shard_guard), key_of(key@)).data.contains_key(key_of(key@)) ==> unchanged(eff(*old(shard_guard), key_of(key@)), sv(*final(shard_guard))),
//@@ body
//@@ end

//@@ unit persist fn src/storage/engine.rs StorageEngine::persist
//@@   params drop "db: DatabaseIndex" add "shard_guard: &mut DatabaseShard"
//@@   rewrite R2
    fn persist(&self, shard_guard: &mut DatabaseShard, key: &[u8]) -> (r: Result<bool>)
        ensures
            step_ok(eff(*old(shard_guard), key_of(key@)), sv(*final(shard_guard)), key_of(key@)),
            r == Ok::<bool, FerrousError>(eff(*old(shard_guard), key_of(key@)).data.contains_key(key_of(key@)) && eff(*old(shard_guard), key_of(key@)).data[key_of(key@)].metadata.expires_at is Some),
            eff(*old(shard_guard), key_of(key@)).data.contains_key(key_of(key@)) ==> sv(*final(shard_guard)).data.contains_key(key_of(key@))
                && sv(*final(shard_guard)).data[key_of(key@)].value == eff(*old(shard_guard), key_of(key@)).data[key_of(key@)].value
                && sv(*final(shard_guard)).data[key_of(key@)].metadata.expires_at is None,
            !eff(*old(shard_guard), key_of(key@)).data.contains_key(key_of(key@)) ==> unchanged(eff(*old(shard_guard), key_of(key@)), sv(*final(shard_guard))),
//@@ body
//@@ end

//@@ unit ttl fn src/storage/engine.rs StorageEngine::ttl
//@@   params drop "db: DatabaseIndex" add "shard_guard: &mut DatabaseShard"
//@@   rewrite R2
//@@   rewrite R7 "expires_at > now" verif_instant_gt
//@@   rewrite R7 "expires_at - now" verif_instant_sub
    fn ttl(&self, shard_guard: &mut DatabaseShard, key: &[u8]) -> (r: Result<Option<Duration>>)
        ensures
            unchanged(eff(*old(shard_guard), key_of(key@)), sv(*final(shard_guard))),
            r is Ok,
            // no deadline or absent: None
            (!eff(*old(shard_guard), key_of(key@)).data.contains_key(key_of(key@)) || eff(*old(shard_guard), key_of(key@)).data[key_of(key@)].metadata.expires_at is None) ==> r->Ok_0 is None,
            // deadline in the future: exactly the remaining time; reached or passed: zero
            eff(*old(shard_guard), key_of(key@)).data.contains_key(key_of(key@)) && (eff(*old(shard_guard), key_of(key@)).data[key_of(key@)].metadata.expires_at matches Some(d) && iv(d) > spec_now())
                ==> (r->Ok_0 matches Some(t) && dur_nanos(t) == iv(eff(*old(shard_guard), key_of(key@)).data[key_of(key@)].metadata.expires_at->Some_0) - spec_now()),
            eff(*old(shard_guard), key_of(key@)).data.contains_key(key_of(key@)) && (eff(*old(shard_guard), key_of(key@)).data[key_of(key@)].metadata.expires_at matches Some(d) && iv(d) <= spec_now())
                ==> (r->Ok_0 matches Some(t) && dur_nanos(t) == 0),
//@@ body
//@@ end

//@@ unit set_value fn src/storage/engine.rs StorageEngine::set_value
//@@   params drop "db: DatabaseIndex" add "shard_guard: &mut DatabaseShard"
//@@   rewrite R2
    fn set_value(&self, shard_guard: &mut DatabaseShard, key: Key, value: Value, expires_in: Option<Duration>) -> (r: Result<()>)
        ensures
            step_ok(sv(*old(shard_guard)), sv(*final(shard_guard)), key),
            r is Err ==> unchanged(sv(*old(shard_guard)), sv(*final(shard_guard))),
            r is Ok ==> sv(*final(shard_guard)).data.contains_key(key) && sv(*final(shard_guard)).data[key].value == value && marks(sv(*final(shard_guard))).contains(key@)
                && (expires_in is None ==> sv(*final(shard_guard)).data[key].metadata.expires_at is None)
                && (expires_in matches Some(d) ==> (sv(*final(shard_guard)).data[key].metadata.expires_at matches Some(t) && iv(t) == sat_deadline(d))),
//@@ body
//@@ end

//@@ unit set_string_nx fn src/storage/engine.rs StorageEngine::set_string_nx
//@@   params drop "db: DatabaseIndex" add "shard_guard: &mut DatabaseShard"
//@@   rewrite R2
    fn set_string_nx(&self, shard_guard: &mut DatabaseShard, key: Key, value: Vec<u8>) -> (r: Result<bool>)
        ensures
            step_ok(sv(*old(shard_guard)), sv(*final(shard_guard)), key),
            // key is live: refused, nothing changes
            sv(*old(shard_guard)).data.contains_key(key) && !expired(sv(*old(shard_guard)).data[key]) ==> r == Ok::<bool, FerrousError>(false) && unchanged(sv(*old(shard_guard)), sv(*final(shard_guard))),
            r is Err ==> unchanged(sv(*old(shard_guard)), sv(*final(shard_guard))),
            r == Ok::<bool, FerrousError>(true) ==> sv(*final(shard_guard)).data.contains_key(key) && sv(*final(shard_guard)).data[key].value == Value::String(value)
                && sv(*final(shard_guard)).data[key].metadata.expires_at is None,
            r matches Ok(b) ==> b == !(sv(*old(shard_guard)).data.contains_key(key) && !expired(sv(*old(shard_guard)).data[key])),
//@@ body
//@@ end

//@@ unit set_string_nx_ex fn src/storage/engine.rs StorageEngine::set_string_nx_ex
//@@   params drop "db: DatabaseIndex" add "shard_guard: &mut DatabaseShard"
//@@   rewrite R2
    fn set_string_nx_ex(&self, shard_guard: &mut DatabaseShard, key: Key, value: Vec<u8>, expires_in: Duration) -> (r: Result<bool>)
        ensures
            step_ok(sv(*old(shard_guard)), sv(*final(shard_guard)), key),
            sv(*old(shard_guard)).data.contains_key(key) && !expired(sv(*old(shard_guard)).data[key]) ==> r == Ok::<bool, FerrousError>(false) && unchanged(sv(*old(shard_guard)), sv(*final(shard_guard))),
            r is Err ==> unchanged(sv(*old(shard_guard)), sv(*final(shard_guard))),
            r == Ok::<bool, FerrousError>(true) ==> sv(*final(shard_guard)).data.contains_key(key) && sv(*final(shard_guard)).data[key].value == Value::String(value)
                && (sv(*final(shard_guard)).data[key].metadata.expires_at matches Some(t) && iv(t) == sat_deadline(expires_in)),
            r matches Ok(b) ==> b == !(sv(*old(shard_guard)).data.contains_key(key) && !expired(sv(*old(shard_guard)).data[key])),
//@@ body
//@@ end

//@@ unit incr_by fn src/storage/engine.rs StorageEngine::incr_by
//@@   params drop "db: DatabaseIndex" add "shard_guard: &mut DatabaseShard"
//@@   rewrite R2
    fn incr_by(&self, shard_guard: &mut DatabaseShard, key: Key, increment: i64) -> (r: Result<i64>)
        ensures
            step_ok(eff(*old(shard_guard), key), sv(*final(shard_guard)), key),
            // refused (not an integer / wrong type / overflow / OOM): dataset exactly as it was
            r is Err ==> unchanged(eff(*old(shard_guard), key), sv(*final(shard_guard))),
            // absent: created with the increment
            !eff(*old(shard_guard), key).data.contains_key(key) && r is Ok ==> r->Ok_0 == increment
                && sv(*final(shard_guard)).data.contains_key(key) && sv(*final(shard_guard)).data[key].value == Value::String(key_of(i64_str(increment)))
                && sv(*final(shard_guard)).data[key].metadata.expires_at is None,
            // present: must hold a decimal i64; result is the exact sum or an error on overflow; TTL survives
            eff(*old(shard_guard), key).data.contains_key(key) ==> (match eff(*old(shard_guard), key).data[key].value {
                Value::String(b) => match spec_parse_i64(b@) {
                    Some(cur) => if i64::MIN <= cur + increment <= i64::MAX {
                            r == Ok::<i64, FerrousError>((cur + increment) as i64)
                            && sv(*final(shard_guard)).data.contains_key(key)
                            && sv(*final(shard_guard)).data[key].value == Value::String(key_of(i64_str((cur + increment) as i64)))
                            && sv(*final(shard_guard)).data[key].metadata == eff(*old(shard_guard), key).data[key].metadata
                        } else { r is Err },
                    None => r is Err,
                },
                _ => r is Err,
            }),
//@@ body
//@@ end

//@@ unit strlen fn src/storage/engine.rs StorageEngine::strlen
//@@   params drop "db: DatabaseIndex" add "shard_guard: &mut DatabaseShard"
//@@   rewrite R2
    fn strlen(&self, shard_guard: &mut DatabaseShard, key: &[u8]) -> (r: Result<usize>)
        ensures
            unchanged(eff(*old(shard_guard), key_of(key@)), sv(*final(shard_guard))),
            !eff(*old(shard_guard), key_of(key@)).data.contains_key(key_of(key@)) ==> r == Ok::<usize, FerrousError>(0),
            eff(*old(shard_guard), key_of(key@)).data.contains_key(key_of(key@)) ==> (match eff(*old(shard_guard), key_of(key@)).data[key_of(key@)].value {
                Value::String(b) => r == Ok::<usize, FerrousError>(b@.len() as usize),
                _ => r is Err,
            }),
//@@ body
//@@ end
}

} // verus!
fn main() {}
