//@@ include contracts/inc_shard_header.rs
//@@ include contracts/inc_value_units.rs
verus! {

// ======================= engine.rs: key-space operations on one shard (R2) =========================
impl StorageEngine {

//@@ unit delete fn src/storage/engine.rs StorageEngine::delete
//@@   params drop "db: DatabaseIndex" add "shard_guard: &mut DatabaseShard"
//@@   rewrite R2
    fn delete(&self, shard_guard: &mut DatabaseShard, key: &[u8]) -> (r: Result<bool>)
        ensures
            step_ok(*old(shard_guard), *final(shard_guard), key_of(key@)),
            r == Ok::<bool, FerrousError>(old(shard_guard).data@.contains_key(key_of(key@))),
            !final(shard_guard).data@.contains_key(key_of(key@)),
//@@ body
//@@ end


//@@ unit get fn src/storage/engine.rs StorageEngine::get
//@@   params drop "db: DatabaseIndex" add "shard_guard: &mut DatabaseShard"
//@@   rewrite R2
    fn get(&self, shard_guard: &mut DatabaseShard, key: &[u8]) -> (r: Result<GetResult>)
        ensures
            step_ok(*old(shard_guard), *final(shard_guard), key_of(key@)),
            // absent
            !old(shard_guard).data@.contains_key(key_of(key@)) ==> r == Ok::<GetResult, FerrousError>(GetResult::NotFound) && unchanged(*old(shard_guard), *final(shard_guard)),
            // present and live: value returned, nothing changes
            old(shard_guard).data@.contains_key(key_of(key@)) && !expired(old(shard_guard).data@[key_of(key@)]) ==>
                r == Ok::<GetResult, FerrousError>(GetResult::Found(old(shard_guard).data@[key_of(key@)].value)) && unchanged(*old(shard_guard), *final(shard_guard)),
            // present but past its deadline: reported as expired, removed from key space and index, and marked for WATCH
            old(shard_guard).data@.contains_key(key_of(key@)) && expired(old(shard_guard).data@[key_of(key@)]) ==>
                r == Ok::<GetResult, FerrousError>(GetResult::Expired) && !final(shard_guard).data@.contains_key(key_of(key@))
                && !final(shard_guard).expiring_keys@.contains_key(key_of(key@)) && marks(*final(shard_guard)).contains(key@),
//@@ body
//@@ end

//@@ unit exists fn src/storage/engine.rs StorageEngine::exists
//@@   params drop "db: DatabaseIndex" add "shard_guard: &DatabaseShard"
//@@   rewrite R2
    fn exists(&self, shard_guard: &DatabaseShard, key: &[u8]) -> (r: Result<bool>)
        ensures r == Ok::<bool, FerrousError>(shard_guard.data@.contains_key(key_of(key@)) && !expired(shard_guard.data@[key_of(key@)])),
//@@ body
//@@ end

//@@ unit expire fn src/storage/engine.rs StorageEngine::expire
//@@   params drop "db: DatabaseIndex" add "shard_guard: &mut DatabaseShard"
//@@   rewrite R2
    fn expire(&self, shard_guard: &mut DatabaseShard, key: &[u8], expires_in: Duration) -> (r: Result<bool>)
        ensures
            step_ok(*old(shard_guard), *final(shard_guard), key_of(key@)),
            r == Ok::<bool, FerrousError>(old(shard_guard).data@.contains_key(key_of(key@))),
            old(shard_guard).data@.contains_key(key_of(key@)) ==> final(shard_guard).data@.contains_key(key_of(key@))
                && final(shard_guard).data@[key_of(key@)].value == old(shard_guard).data@[key_of(key@)].value
                && (final(shard_guard).data@[key_of(key@)].metadata.expires_at matches Some(d) && iv(d) == sat_deadline(expires_in)),
            !old(shard_guard).data@.contains_key(key_of(key@)) ==> unchanged(*old(shard_guard), *final(shard_guard)),
//@@ body
//@@ end

//@@ unit persist fn src/storage/engine.rs StorageEngine::persist
//@@   params drop "db: DatabaseIndex" add "shard_guard: &mut DatabaseShard"
//@@   rewrite R2
    fn persist(&self, shard_guard: &mut DatabaseShard, key: &[u8]) -> (r: Result<bool>)
        ensures
            step_ok(*old(shard_guard), *final(shard_guard), key_of(key@)),
            r == Ok::<bool, FerrousError>(old(shard_guard).data@.contains_key(key_of(key@)) && old(shard_guard).data@[key_of(key@)].metadata.expires_at is Some),
            old(shard_guard).data@.contains_key(key_of(key@)) ==> final(shard_guard).data@.contains_key(key_of(key@))
                && final(shard_guard).data@[key_of(key@)].value == old(shard_guard).data@[key_of(key@)].value
                && final(shard_guard).data@[key_of(key@)].metadata.expires_at is None,
            !old(shard_guard).data@.contains_key(key_of(key@)) ==> unchanged(*old(shard_guard), *final(shard_guard)),
//@@ body
//@@ end

//@@ unit ttl fn src/storage/engine.rs StorageEngine::ttl
//@@   params drop "db: DatabaseIndex" add "shard_guard: &DatabaseShard"
//@@   rewrite R2
//@@   rewrite R7 "expires_at > now" verif_instant_gt
//@@   rewrite R7 "expires_at - now" verif_instant_sub
    fn ttl(&self, shard_guard: &DatabaseShard, key: &[u8]) -> (r: Result<Option<Duration>>)
        ensures
            r is Ok,
            // no deadline or absent: None
            (!shard_guard.data@.contains_key(key_of(key@)) || shard_guard.data@[key_of(key@)].metadata.expires_at is None) ==> r->Ok_0 is None,
            // deadline in the future: exactly the remaining time; reached or passed: zero
            shard_guard.data@.contains_key(key_of(key@)) && (shard_guard.data@[key_of(key@)].metadata.expires_at matches Some(d) && iv(d) > spec_now())
                ==> (r->Ok_0 matches Some(t) && dur_nanos(t) == iv(shard_guard.data@[key_of(key@)].metadata.expires_at->Some_0) - spec_now()),
            shard_guard.data@.contains_key(key_of(key@)) && (shard_guard.data@[key_of(key@)].metadata.expires_at matches Some(d) && iv(d) <= spec_now())
                ==> (r->Ok_0 matches Some(t) && dur_nanos(t) == 0),
//@@ body
//@@ end

//@@ unit set_value fn src/storage/engine.rs StorageEngine::set_value
//@@   params drop "db: DatabaseIndex" add "shard_guard: &mut DatabaseShard"
//@@   rewrite R2
    fn set_value(&self, shard_guard: &mut DatabaseShard, key: Key, value: Value, expires_in: Option<Duration>) -> (r: Result<()>)
        ensures
            step_ok(*old(shard_guard), *final(shard_guard), key),
            r is Err ==> unchanged(*old(shard_guard), *final(shard_guard)),
            r is Ok ==> final(shard_guard).data@.contains_key(key) && final(shard_guard).data@[key].value == value && marks(*final(shard_guard)).contains(key@)
                && (expires_in is None ==> final(shard_guard).data@[key].metadata.expires_at is None)
                && (expires_in matches Some(d) ==> (final(shard_guard).data@[key].metadata.expires_at matches Some(t) && iv(t) == sat_deadline(d))),
//@@ body
//@@ end

//@@ unit set_string_nx fn src/storage/engine.rs StorageEngine::set_string_nx
//@@   params drop "db: DatabaseIndex" add "shard_guard: &mut DatabaseShard"
//@@   rewrite R2
    fn set_string_nx(&self, shard_guard: &mut DatabaseShard, key: Key, value: Vec<u8>) -> (r: Result<bool>)
        ensures
            step_ok(*old(shard_guard), *final(shard_guard), key),
            // key is live: refused, nothing changes
            old(shard_guard).data@.contains_key(key) && !expired(old(shard_guard).data@[key]) ==> r == Ok::<bool, FerrousError>(false) && unchanged(*old(shard_guard), *final(shard_guard)),
            r is Err ==> unchanged(*old(shard_guard), *final(shard_guard)),
            r == Ok::<bool, FerrousError>(true) ==> final(shard_guard).data@.contains_key(key) && final(shard_guard).data@[key].value == Value::String(value)
                && final(shard_guard).data@[key].metadata.expires_at is None,
            r matches Ok(b) ==> b == !(old(shard_guard).data@.contains_key(key) && !expired(old(shard_guard).data@[key])),
//@@ body
//@@ end

//@@ unit set_string_nx_ex fn src/storage/engine.rs StorageEngine::set_string_nx_ex
//@@   params drop "db: DatabaseIndex" add "shard_guard: &mut DatabaseShard"
//@@   rewrite R2
    fn set_string_nx_ex(&self, shard_guard: &mut DatabaseShard, key: Key, value: Vec<u8>, expires_in: Duration) -> (r: Result<bool>)
        ensures
            step_ok(*old(shard_guard), *final(shard_guard), key),
            old(shard_guard).data@.contains_key(key) && !expired(old(shard_guard).data@[key]) ==> r == Ok::<bool, FerrousError>(false) && unchanged(*old(shard_guard), *final(shard_guard)),
            r is Err ==> unchanged(*old(shard_guard), *final(shard_guard)),
            r == Ok::<bool, FerrousError>(true) ==> final(shard_guard).data@.contains_key(key) && final(shard_guard).data@[key].value == Value::String(value)
                && (final(shard_guard).data@[key].metadata.expires_at matches Some(t) && iv(t) == sat_deadline(expires_in)),
            r matches Ok(b) ==> b == !(old(shard_guard).data@.contains_key(key) && !expired(old(shard_guard).data@[key])),
//@@ body
//@@ end

//@@ unit incr_by fn src/storage/engine.rs StorageEngine::incr_by
//@@   params drop "db: DatabaseIndex" add "shard_guard: &mut DatabaseShard"
//@@   rewrite R2
    fn incr_by(&self, shard_guard: &mut DatabaseShard, key: Key, increment: i64) -> (r: Result<i64>)
        ensures
            step_ok(*old(shard_guard), *final(shard_guard), key),
            // refused (not an integer / wrong type / overflow / OOM): dataset exactly as it was
            r is Err ==> unchanged(*old(shard_guard), *final(shard_guard)),
            // absent: created with the increment
            !old(shard_guard).data@.contains_key(key) && r is Ok ==> r->Ok_0 == increment
                && final(shard_guard).data@.contains_key(key) && final(shard_guard).data@[key].value == Value::String(key_of(i64_str(increment)))
                && final(shard_guard).data@[key].metadata.expires_at is None,
            // present: must hold a decimal i64; result is the exact sum or an error on overflow; TTL survives
            old(shard_guard).data@.contains_key(key) ==> (match old(shard_guard).data@[key].value {
                Value::String(b) => match spec_parse_i64(b@) {
                    Some(cur) => if i64::MIN <= cur + increment <= i64::MAX {
                            r == Ok::<i64, FerrousError>((cur + increment) as i64)
                            && final(shard_guard).data@.contains_key(key)
                            && final(shard_guard).data@[key].value == Value::String(key_of(i64_str((cur + increment) as i64)))
                            && final(shard_guard).data@[key].metadata == old(shard_guard).data@[key].metadata
                        } else { r is Err },
                    None => r is Err,
                },
                _ => r is Err,
            }),
//@@ body
//@@ end

//@@ unit strlen fn src/storage/engine.rs StorageEngine::strlen
//@@   params drop "db: DatabaseIndex" add "shard_guard: &DatabaseShard"
//@@   rewrite R2
    fn strlen(&self, shard_guard: &DatabaseShard, key: &[u8]) -> (r: Result<usize>)
        ensures
            !shard_guard.data@.contains_key(key_of(key@)) ==> r == Ok::<usize, FerrousError>(0),
            shard_guard.data@.contains_key(key_of(key@)) ==> (match shard_guard.data@[key_of(key@)].value {
                Value::String(b) => r == Ok::<usize, FerrousError>(b@.len() as usize),
                _ => r is Err,
            }),
//@@ body
//@@ end
}

} // verus!
fn main() {}
