//@@ include prelude/head.rs
verus! {
//@@ item src/error.rs FerrousError
//@@ item src/error.rs CommandError
//@@ item src/error.rs StorageError
//@@ item src/error.rs ScriptError
pub type Result<T> = std::result::Result<T, FerrousError>;
#[verifier::external_body]
pub fn verif_print() { }

/// STUB of the save thread's view of RdbEngine: the in-progress flag (a Mutex<bool> in the real code; here a cell whose
/// `lock()` hands out the boolean) and the blocking save (ASSUMED: returns Ok or Err and does not touch the flag).
pub struct FlagCell { pub v: bool }
pub struct PoisonStub { pub p: u8 }
impl std::fmt::Debug for PoisonStub { #[verifier::external_body] fn fmt(&self, f: &mut std::fmt::Formatter<'_>) -> std::fmt::Result { Ok(()) } }
impl FlagCell {
    #[verifier::external_body]
    pub fn lock(&mut self) -> (r: std::result::Result<&mut bool, PoisonStub>)
        ensures r matches Ok(b) && *b == old(self).v && final(self).v == *final(b),
    { unimplemented!() }
}
pub struct StorageStub { pub s: u8 }
pub struct RdbEngine { pub bgsave_in_progress: FlagCell }
impl RdbEngine {
    #[verifier::external_body]
    pub fn save(&mut self, storage: &StorageStub) -> (r: Result<()>)
        ensures final(self).bgsave_in_progress.v == old(self).bgsave_in_progress.v,
    { unimplemented!() }
}

// body of the background-save thread (C10: the in-progress flag "must be cleared when a background save ends, however
// it ends" — otherwise every later BGSAVE/auto-save is refused). Panics inside save() are outside this contract.
//@@ unit bgsave_thread_body stmts src/storage/rdb.rs RdbEngine::bgsave "println!(\"RDB: Background saving started\");"
//@@   opt same-return-type
//@@   rewrite R3
fn bgsave_thread_body(engine: &mut RdbEngine, storage: StorageStub)
    ensures !final(engine).bgsave_in_progress.v,
//@@ body
//@@ end

} // verus!
fn main() {}
