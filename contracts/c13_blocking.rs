//@@ include prelude/head.rs
use std::collections::{HashMap, HashSet, VecDeque};
use std::time::Instant;
//@@ include prelude/hash_keys.rs
//@@ include prelude/time.rs
//@@ include prelude/vecdeque.rs
//@@ include prelude/cmp.rs
verus! {
broadcast use {group_byte_keys, group_vecdeque, vstd::std_specs::hash::group_hash_axioms};
pub type DatabaseIndex = usize;
//@@ item src/network/connection.rs BlockingOp
//@@ item src/network/blocking.rs BlockedClient
//@@ item src/network/blocking.rs BlockingRegistry

/// registry representation invariant (anchor of C13): the key set is exactly the domain of the waiter map and no
/// key keeps an empty queue
spec fn reg_wf(r: BlockingRegistry) -> bool {
    &&& r.blocked_keys@ =~= r.blocked_on_key@.dom()
    &&& forall|k: Vec<u8>| #[trigger] r.blocked_on_key@.contains_key(k) ==> r.blocked_on_key@[k]@.len() > 0
}

impl BlockingRegistry {
//@@ unit has_blocked_clients fn src/network/blocking.rs BlockingRegistry::has_blocked_clients
    fn has_blocked_clients(&self, key: &[u8]) -> (r: bool)
        requires reg_wf(*self),
        ensures r == self.blocked_on_key@.contains_key(key_of(key@)),
//@@ body
//@@ end

//@@ unit pop_first_waiter fn src/network/blocking.rs BlockingRegistry::pop_first_waiter
    fn pop_first_waiter(&mut self, key: &[u8]) -> (r: Option<BlockedClient>)
        requires reg_wf(*old(self)),
        ensures
            reg_wf(*final(self)),
            // nobody waits on the key: nothing happens
            !old(self).blocked_on_key@.contains_key(key_of(key@)) ==> r is None && final(self).blocked_on_key@ == old(self).blocked_on_key@,
            // FIFO: the client that blocked first is served first; the rest keep their order
            old(self).blocked_on_key@.contains_key(key_of(key@)) ==> r == Some(old(self).blocked_on_key@[key_of(key@)]@[0])
                && (if old(self).blocked_on_key@[key_of(key@)]@.len() == 1 { !final(self).blocked_on_key@.contains_key(key_of(key@)) }
                    else { final(self).blocked_on_key@.contains_key(key_of(key@))
                           && final(self).blocked_on_key@[key_of(key@)]@ == old(self).blocked_on_key@[key_of(key@)]@.subrange(1, old(self).blocked_on_key@[key_of(key@)]@.len() as int) }),
            // waiters on other keys are untouched
            final(self).blocked_on_key@.remove(key_of(key@)) =~= old(self).blocked_on_key@.remove(key_of(key@)),
//@@ body
//@@ end
}


spec fn registered_anywhere(r: BlockingRegistry, conn_id: u64) -> bool {
    exists|k: Vec<u8>, i: int| #![auto] r.blocked_on_key@.contains_key(k) && 0 <= i < r.blocked_on_key@[k]@.len() && r.blocked_on_key@[k]@[i].conn_id == conn_id
}
impl BlockingRegistry {
    /// ASSUMED CONTRACT (iter_mut + retain closures are outside Verus' subset; std hash containers are outside Kani's reach):
    /// the client is removed from every queue, other clients keep their places, the invariant is preserved
    #[verifier::external_body]
    fn unregister_client(&mut self, conn_id: u64)
        requires reg_wf(*old(self)),
        ensures reg_wf(*final(self)), !registered_anywhere(*final(self), conn_id),
            forall|c: u64| c != conn_id ==> (registered_anywhere(*final(self), c) <==> registered_anywhere(*old(self), c)),
    { unimplemented!() }
}

// unregister_client, step by step (the iter_mut loop as a whole has no vstd specification: that every key is visited is std's meaning of
// iter_mut; under contract is what happens at each key): the leaving client goes from this key's queue and EVERY OTHER WAITER KEEPS ITS PLACE
// (C13: "clients blocked on a key are served in the order they blocked"); a queue that became empty is queued for removal, and the removal
// takes the key out of both tables
/// `clients.retain(|client| client.conn_id != conn_id)` (RXPR site, exact text): ASSUMED std meaning of VecDeque::retain — the elements that
/// satisfy the predicate, in their old order
#[verifier::external_body]
fn verif_retain_others(clients: &mut VecDeque<BlockedClient>, conn_id: u64)
    ensures final(clients)@ == old(clients)@.filter(|c: BlockedClient| c.conn_id != conn_id),
{ unimplemented!() }
//@@ unit unregister_key_step loopbody src/network/blocking.rs BlockingRegistry::unregister_client "for (key, clients) in self.blocked_on_key.iter_mut()"
//@@   rewrite RXPR "clients.retain(|client| client.conn_id != conn_id)" "verif_retain_others(clients, conn_id)"
fn unregister_key_step(key: &Vec<u8>, clients: &mut VecDeque<BlockedClient>, keys_to_remove: &mut Vec<Vec<u8>>, conn_id: u64)
    ensures
        final(clients)@ == old(clients)@.filter(|c: BlockedClient| c.conn_id != conn_id),
        final(clients)@.len() == 0 ==> final(keys_to_remove)@.len() == old(keys_to_remove)@.len() + 1 && final(keys_to_remove)@.last()@ == key@
            && final(keys_to_remove)@.drop_last() =~= old(keys_to_remove)@,
        final(clients)@.len() != 0 ==> final(keys_to_remove)@ == old(keys_to_remove)@,
//@@ body
//@@ end
impl BlockingRegistry {
//@@ unit unregister_drop_key loopbody src/network/blocking.rs BlockingRegistry::unregister_client "for key in keys_to_remove"
    fn unregister_drop_key(&mut self, key: Vec<u8>)
        ensures final(self).blocked_on_key@ == old(self).blocked_on_key@.remove(key), final(self).blocked_keys@ == old(self).blocked_keys@.remove(key),
//@@ body
//@@ end
}

// the branch of notify_key_ready that picks the client to serve (C13: "once served ... a client has no leftover
// registration that could swallow later elements or cut short a later blocking call")
//@@ unit notify_served_arm arm src/network/blocking.rs BlockingManager::notify_key_ready "Some(c)"
fn notify_served_arm(registry: &mut BlockingRegistry, c: BlockedClient) -> (r: BlockedClient)
    requires reg_wf(*old(registry)),
    ensures reg_wf(*final(registry)), r == c, !registered_anywhere(*final(registry), c.conn_id),
//@@ body
//@@ end

// one step of the timeout sweep (get_expired_clients, inner removal loop): taking the timed-out waiter at index i out of a
// key's queue. C13: "waiters are served in the order they blocked" — removing one waiter must not reorder the others
// (`VecDeque::remove` keeps the order; an O(1) `swap_remove_back` would move the LAST waiter into the hole).
//@@ unit expired_remove_step loopbody src/network/blocking.rs BlockingRegistry::get_expired_clients "for &i in expired_in_key.iter().rev()"
fn expired_remove_step(clients: &mut VecDeque<BlockedClient>, i: usize, expired: &mut Vec<u64>)
    ensures
        i < old(clients)@.len() ==> final(clients)@ == old(clients)@.remove(i as int) && final(expired)@ == old(expired)@.push(old(clients)@[i as int].conn_id),
        i >= old(clients)@.len() ==> final(clients)@ == old(clients)@ && final(expired)@ == old(expired)@,
//@@ body
//@@ end

} // verus!
fn main() {}
