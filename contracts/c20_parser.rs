//@@ include prelude/head.rs
use std::sync::Arc;
//@@ include prelude/slice.rs
//@@ include prelude/strnum.rs
verus! {
broadcast use {group_slice, group_strnum};
//@@ item src/error.rs FerrousError
//@@ item src/error.rs CommandError
//@@ item src/error.rs StorageError
//@@ item src/error.rs ScriptError
//@@ item src/protocol/resp.rs Bytes
//@@ item src/protocol/resp.rs RespFrame
pub type Result<T> = std::result::Result<T, FerrousError>;
}
//@@ include spec/resp.rs
verus! {

//@@ unit parse_line fn src/protocol/parser.rs parse_line
fn parse_line(data: &[u8], skip_prefix: usize) -> (r: Result<Option<(&[u8], usize)>>)
    requires skip_prefix <= 1,
    ensures
        r is Ok,
        match spec_line(data@, skip_prefix as int) {
            None => r->Ok_0 is None,
            Some((line, n)) => r->Ok_0 matches Some((l, c)) && l@ == line && c == n && skip_prefix + 2 <= c <= data@.len(),
        },
//@@ loop 0
//@@|     invariant
//@@|         skip_prefix <= 1, data@.len() >= skip_prefix + 2,
//@@|         forall|j: int| skip_prefix <= j < i ==> !is_crlf_at(data@, j),
//@@|         first_crlf(data@, skip_prefix as int) == first_crlf(data@, i as int),
//@@ body
//@@ end


pub open spec fn bulk_frame(f: RespFrame) -> Option<Option<Seq<u8>>> {
    match f { RespFrame::BulkString(Some(b)) => Some(Some(b@)), RespFrame::BulkString(None) => Some(None), _ => None }
}

//@@ unit parse_bulk_string fn src/protocol/parser.rs parse_bulk_string
//@@   rewrite R1
fn parse_bulk_string(data: &[u8]) -> (r: Result<Option<(RespFrame, usize)>>)
    requires data@.len() < 0x4000_0000_0000_0000,   // request buffers are far below 2^62 bytes (DESIGN §4.3)
    ensures
        match spec_bulk(data@) {
            BulkSpec::Incomplete => r is Ok && r->Ok_0 is None,
            BulkSpec::Bad => r is Err,
            BulkSpec::Null(n) => r is Ok && (r->Ok_0 matches Some((f, c)) && bulk_frame(f) == Some(None::<Seq<u8>>) && c == n && 0 < c <= data@.len()),
            BulkSpec::Data(payload, n) => r is Ok && (r->Ok_0 matches Some((f, c)) && bulk_frame(f) == Some(Some(payload)) && c == n && 0 < c <= data@.len()),
        },
//@@ body
//@@ end

//@@ unit parse_null fn src/protocol/parser.rs parse_null
fn parse_null(data: &[u8]) -> (r: Result<Option<(RespFrame, usize)>>)
    requires data@.len() >= 1,
    ensures
        data@.len() < 3 ==> r is Ok && r->Ok_0 is None,
        data@.len() >= 3 && is_crlf_at(data@, 1) ==> r is Ok && (r->Ok_0 matches Some((f, c)) && f == RespFrame::Null && c == 3),
        data@.len() >= 3 && !is_crlf_at(data@, 1) ==> r is Err,
//@@ body
//@@ end

//@@ unit parse_boolean fn src/protocol/parser.rs parse_boolean
fn parse_boolean(data: &[u8]) -> (r: Result<Option<(RespFrame, usize)>>)
    requires data@.len() >= 1,
    ensures
        data@.len() < 4 ==> r is Ok && r->Ok_0 is None,
        data@.len() >= 4 && is_crlf_at(data@, 2) && data@[1] == 116u8 ==> r is Ok && (r->Ok_0 matches Some((f, c)) && f == RespFrame::Boolean(true) && c == 4),
        data@.len() >= 4 && is_crlf_at(data@, 2) && data@[1] == 102u8 ==> r is Ok && (r->Ok_0 matches Some((f, c)) && f == RespFrame::Boolean(false) && c == 4),
        data@.len() >= 4 && !(is_crlf_at(data@, 2) && (data@[1] == 116u8 || data@[1] == 102u8)) ==> r is Err,
//@@ body
//@@ end


// ---- allocation budget: "never reserves memory according to a declared length it has not received" (C20/C06).
// Every `Vec::with_capacity(n)` in the aggregate parsers is routed (RPCALL) through this helper, whose body is the same
// call; its precondition bounds the reservation by the number of bytes received (alloc_budget() == data.len()).
pub uninterp spec fn alloc_budget() -> int;
#[verifier::external_body]
fn verif_with_capacity<T>(n: usize) -> (v: Vec<T>)
    requires n <= alloc_budget(),
    ensures v@.len() == 0,
{ Vec::with_capacity(n) }

// ASSUMED CONTRACTS (tuple-pattern closures are outside Verus' subset; bounded Kani unit `resp_line_frames` checks them):
// a complete result consumes between 1 and data.len() bytes.
#[verifier::external_body]
fn parse_simple_string(data: &[u8]) -> (r: Result<Option<(RespFrame, usize)>>)
    ensures r matches Ok(Some((f, c))) ==> 0 < c <= data@.len(),
{ unimplemented!() }
#[verifier::external_body]
fn parse_error(data: &[u8]) -> (r: Result<Option<(RespFrame, usize)>>)
    ensures r matches Ok(Some((f, c))) ==> 0 < c <= data@.len(),
{ unimplemented!() }
#[verifier::external_body]
fn parse_integer(data: &[u8]) -> (r: Result<Option<(RespFrame, usize)>>)
    ensures r matches Ok(Some((f, c))) ==> 0 < c <= data@.len(),
{ unimplemented!() }
#[verifier::external_body]
fn parse_double(data: &[u8]) -> (r: Result<Option<(RespFrame, usize)>>)
    ensures r matches Ok(Some((f, c))) ==> 0 < c <= data@.len(),
{ unimplemented!() }
#[verifier::external_body]
fn verif_fmt() -> String { unimplemented!() }

//@@ unit parse_frame fn src/protocol/parser.rs parse_frame
//@@   rewrite R3
fn parse_frame(data: &[u8]) -> (r: Result<Option<(RespFrame, usize)>>)
    requires data@.len() < 0x4000_0000_0000_0000, alloc_budget() >= data@.len(),
    ensures r matches Ok(Some((f, c))) ==> 0 < c <= data@.len(),
        data@.len() > 0 && data@[0] == 36u8 ==> (match spec_bulk(data@) {
            BulkSpec::Incomplete => r is Ok && r->Ok_0 is None,
            BulkSpec::Bad => r is Err,
            BulkSpec::Null(n) => r is Ok && (r->Ok_0 matches Some((f, c)) && bulk_frame(f) == Some(None::<Seq<u8>>) && c == n),
            BulkSpec::Data(payload, n) => r is Ok && (r->Ok_0 matches Some((f, c)) && bulk_frame(f) == Some(Some(payload)) && c == n),
        }),
    decreases data@.len(), 1int,
//@@ body
//@@ end

//@@ unit parse_array fn src/protocol/parser.rs parse_array
//@@   rewrite R1
//@@   rewrite RPCALL "Vec::with_capacity" verif_with_capacity
//@@   loop 0
//@@|     invariant
//@@|         data@.len() < 0x4000_0000_0000_0000, alloc_budget() >= data@.len(),
//@@|         3 <= header_consumed <= total_consumed <= data@.len(),
fn parse_array(data: &[u8]) -> (r: Result<Option<(RespFrame, usize)>>)
    requires data@.len() < 0x4000_0000_0000_0000, alloc_budget() >= data@.len(), data@.len() >= 1,
    ensures r matches Ok(Some((f, c))) ==> 0 < c <= data@.len(),
    decreases data@.len(), 0int,
//@@ body
//@@ end

//@@ unit parse_set fn src/protocol/parser.rs parse_set
//@@   rewrite R1
//@@   rewrite RPCALL "Vec::with_capacity" verif_with_capacity
//@@   loop 0
//@@|     invariant
//@@|         data@.len() < 0x4000_0000_0000_0000, alloc_budget() >= data@.len(),
//@@|         3 <= header_consumed <= total_consumed <= data@.len(),
fn parse_set(data: &[u8]) -> (r: Result<Option<(RespFrame, usize)>>)
    requires data@.len() < 0x4000_0000_0000_0000, alloc_budget() >= data@.len(), data@.len() >= 1,
    ensures r matches Ok(Some((f, c))) ==> 0 < c <= data@.len(),
    decreases data@.len(), 0int,
//@@ body
//@@ end

//@@ unit parse_map fn src/protocol/parser.rs parse_map
//@@   rewrite R1
//@@   rewrite RPCALL "Vec::with_capacity" verif_with_capacity
//@@   loop 0
//@@|     invariant
//@@|         data@.len() < 0x4000_0000_0000_0000, alloc_budget() >= data@.len(),
//@@|         3 <= header_consumed <= total_consumed <= data@.len(),
fn parse_map(data: &[u8]) -> (r: Result<Option<(RespFrame, usize)>>)
    requires data@.len() < 0x4000_0000_0000_0000, alloc_budget() >= data@.len(), data@.len() >= 1,
    ensures r matches Ok(Some((f, c))) ==> 0 < c <= data@.len(),
    decreases data@.len(), 0int,
//@@ body
//@@ end

} // verus!
fn main() {}
