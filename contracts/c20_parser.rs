//@@ include prelude/head.rs
use std::sync::Arc;
//@@ include prelude/slice.rs
//@@ include prelude/strnum.rs
verus! {
broadcast use {group_slice, group_strnum};
//@@ item src/error.rs FerrousError
//@@ item src/error.rs CommandError
//@@ item src/error.rs StorageError
//@@ item src/error.rs ScriptError
//@@ item src/protocol/resp.rs Bytes
//@@ item src/protocol/resp.rs RespFrame
pub type Result<T> = std::result::Result<T, FerrousError>;
}
//@@ include spec/resp.rs
verus! {
/// abstract tree of an exec frame
pub open spec fn fview(f: RespFrame) -> FV
    decreases f
{
    match f {
        RespFrame::SimpleString(b) => FV::Simple(b@),
        RespFrame::Error(b) => FV::Error(b@),
        RespFrame::Integer(n) => FV::Int(n),
        RespFrame::BulkString(Some(b)) => FV::Bulk(Some(b@)),
        RespFrame::BulkString(None) => FV::Bulk(None),
        RespFrame::Array(Some(v)) => FV::Arr(Some(Seq::new(v@.len(), |i: int| if 0 <= i < v@.len() { fview(v@[i]) } else { FV::Null }))),
        RespFrame::Array(None) => FV::Arr(None),
        RespFrame::NoResponse => FV::Null,
        RespFrame::Null => FV::Null,
        RespFrame::Boolean(b) => FV::Bool(b),
        RespFrame::Double(x) => FV::Double(x),
        RespFrame::Map(v) => FV::Map(Seq::new(v@.len(), |i: int| if 0 <= i < v@.len() { (fview(v@[i].0), fview(v@[i].1)) } else { (FV::Null, FV::Null) })),
        RespFrame::Set(v) => FV::Set(Seq::new(v@.len(), |i: int| if 0 <= i < v@.len() { fview(v@[i]) } else { FV::Null })),
    }
}
/// the parser's answer agrees with the grammar oracle: frame / request for more data / error, payloads and consumed count exact
pub open spec fn pres(r: Result<Option<(RespFrame, usize)>>, p: PR) -> bool {
    match p {
        PR::Incomplete => r matches Ok(None),
        PR::Bad => r is Err,
        PR::Done(fv, n) => r matches Ok(Some((f, c))) && fview(f) == fv && c == n,
    }
}

//@@ unit parse_line fn src/protocol/parser.rs parse_line
fn parse_line(data: &[u8], skip_prefix: usize) -> (r: Result<Option<(&[u8], usize)>>)
    requires skip_prefix <= 1,
    ensures
        r is Ok,
        match spec_line(data@, skip_prefix as int) {
            None => r->Ok_0 is None,
            Some((line, n)) => r->Ok_0 matches Some((l, c)) && l@ == line && c == n && skip_prefix + 2 <= c <= data@.len(),
        },
//@@ loop 0
//@@|     invariant
//@@|         skip_prefix <= 1, data@.len() >= skip_prefix + 2,
//@@|         forall|j: int| skip_prefix <= j < i ==> !is_crlf_at(data@, j),
//@@|         first_crlf(data@, skip_prefix as int) == first_crlf(data@, i as int),
//@@ body
//@@ end


pub open spec fn bulk_frame(f: RespFrame) -> Option<Option<Seq<u8>>> {
    match f { RespFrame::BulkString(Some(b)) => Some(Some(b@)), RespFrame::BulkString(None) => Some(None), _ => None }
}

//@@ unit parse_bulk_string fn src/protocol/parser.rs parse_bulk_string
//@@   rewrite R1
fn parse_bulk_string(data: &[u8]) -> (r: Result<Option<(RespFrame, usize)>>)
    requires data@.len() < 0x4000_0000_0000_0000,   // request buffers are far below 2^62 bytes (DESIGN §4.3)
    ensures
        data@.len() > 0 && data@[0] == 36u8 ==> pres(r, spec_frame(data@)),
        match spec_bulk(data@) {
            BulkSpec::Incomplete => r is Ok && r->Ok_0 is None,
            BulkSpec::Bad => r is Err,
            BulkSpec::Null(n) => r is Ok && (r->Ok_0 matches Some((f, c)) && bulk_frame(f) == Some(None::<Seq<u8>>) && c == n && 0 < c <= data@.len()),
            BulkSpec::Data(payload, n) => r is Ok && (r->Ok_0 matches Some((f, c)) && bulk_frame(f) == Some(Some(payload)) && c == n && 0 < c <= data@.len()),
        },
//@@ body
//@@ end

//@@ unit parse_null fn src/protocol/parser.rs parse_null
fn parse_null(data: &[u8]) -> (r: Result<Option<(RespFrame, usize)>>)
    requires data@.len() >= 1,
    ensures
        data@[0] == 95u8 ==> pres(r, spec_frame(data@)),
        data@.len() < 3 ==> r is Ok && r->Ok_0 is None,
        data@.len() >= 3 && is_crlf_at(data@, 1) ==> r is Ok && (r->Ok_0 matches Some((f, c)) && f == RespFrame::Null && c == 3),
        data@.len() >= 3 && !is_crlf_at(data@, 1) ==> r is Err,
//@@ body
//@@ end

//@@ unit parse_boolean fn src/protocol/parser.rs parse_boolean
fn parse_boolean(data: &[u8]) -> (r: Result<Option<(RespFrame, usize)>>)
    requires data@.len() >= 1,
    ensures
        data@[0] == 35u8 ==> pres(r, spec_frame(data@)),
        data@.len() < 4 ==> r is Ok && r->Ok_0 is None,
        data@.len() >= 4 && is_crlf_at(data@, 2) && data@[1] == 116u8 ==> r is Ok && (r->Ok_0 matches Some((f, c)) && f == RespFrame::Boolean(true) && c == 4),
        data@.len() >= 4 && is_crlf_at(data@, 2) && data@[1] == 102u8 ==> r is Ok && (r->Ok_0 matches Some((f, c)) && f == RespFrame::Boolean(false) && c == 4),
        data@.len() >= 4 && !(is_crlf_at(data@, 2) && (data@[1] == 116u8 || data@[1] == 102u8)) ==> r is Err,
//@@ body
//@@ end


// ---- allocation budget: "never reserves memory according to a declared length it has not received" (C20/C06).
// Every `Vec::with_capacity(n)` in the aggregate parsers is routed (RPCALL) through this helper, whose body is the same
// call; its precondition bounds the reservation by the number of bytes received (alloc_budget() == data.len()).
pub uninterp spec fn alloc_budget() -> int;
#[verifier::external_body]
fn verif_with_capacity<T>(n: usize) -> (v: Vec<T>)
    requires n <= alloc_budget(),
    ensures v@.len() == 0,
{ Vec::with_capacity(n) }

// ASSUMED CONTRACTS (tuple-pattern closures are outside Verus' subset): the four line-frame parsers compute the grammar
// oracle for their type byte (each is `parse_line` + a conversion); a complete result consumes between 1 and data.len() bytes.
#[verifier::external_body]
fn parse_simple_string(data: &[u8]) -> (r: Result<Option<(RespFrame, usize)>>)
    requires data@.len() > 0, data@[0] == 43u8,
    ensures pres(r, spec_frame(data@)), r matches Ok(Some((f, c))) ==> 0 < c <= data@.len(),
{ unimplemented!() }
#[verifier::external_body]
fn parse_error(data: &[u8]) -> (r: Result<Option<(RespFrame, usize)>>)
    requires data@.len() > 0, data@[0] == 45u8,
    ensures pres(r, spec_frame(data@)), r matches Ok(Some((f, c))) ==> 0 < c <= data@.len(),
{ unimplemented!() }
#[verifier::external_body]
fn parse_integer(data: &[u8]) -> (r: Result<Option<(RespFrame, usize)>>)
    requires data@.len() > 0, data@[0] == 58u8,
    ensures pres(r, spec_frame(data@)), r matches Ok(Some((f, c))) ==> 0 < c <= data@.len(),
{ unimplemented!() }
#[verifier::external_body]
fn parse_double(data: &[u8]) -> (r: Result<Option<(RespFrame, usize)>>)
    requires data@.len() > 0, data@[0] == 44u8,
    ensures pres(r, spec_frame(data@)), r matches Ok(Some((f, c))) ==> 0 < c <= data@.len(),
{ unimplemented!() }
#[verifier::external_body]
fn verif_fmt() -> String { unimplemented!() }

pub open spec fn arr_of(er: ER) -> PR { match er { ER::Incomplete => PR::Incomplete, ER::Bad => PR::Bad, ER::Done(fs, e) => PR::Done(FV::Arr(Some(fs)), e) } }
pub open spec fn set_of(er: ER) -> PR { match er { ER::Incomplete => PR::Incomplete, ER::Bad => PR::Bad, ER::Done(fs, e) => PR::Done(FV::Set(fs), e) } }
pub open spec fn map_of(er: ER) -> PR { match er { ER::Incomplete => PR::Incomplete, ER::Bad => PR::Bad, ER::Done(fs, e) => PR::Done(FV::Map(pairs_of(fs)), e) } }
pub open spec fn fseq(v: Seq<RespFrame>) -> Seq<FV> { Seq::new(v.len(), |i: int| if 0 <= i < v.len() { fview(v[i]) } else { FV::Null }) }

//@@ unit parse_frame fn src/protocol/parser.rs parse_frame
//@@   rewrite R3
fn parse_frame(data: &[u8]) -> (r: Result<Option<(RespFrame, usize)>>)
    requires data@.len() < 0x4000_0000_0000_0000, alloc_budget() >= data@.len(),
    ensures
        // for arbitrary bytes: a frame, a request for more data, or an error — exactly as the grammar prescribes
        pres(r, spec_frame(data@)),
        r matches Ok(Some((f, c))) ==> 0 < c <= data@.len(),
    decreases data@.len(), 1int,
//@@ body
//@@ end

//@@ unit parse_array fn src/protocol/parser.rs parse_array
//@@   rewrite R1
//@@   rewrite RPCALL "Vec::with_capacity" verif_with_capacity
//@@   rewrite RFOR 0 it
//@@   loop 0
//@@|     invariant
//@@|         data@.len() < 0x4000_0000_0000_0000, alloc_budget() >= data@.len(),
//@@|         3 <= header_consumed <= total_consumed <= data@.len(),
//@@|         elements@.len() == it.index@, it.index@ <= len,
//@@|         spec_elems(data@, header_consumed as int, len as int, Seq::<FV>::empty()) == spec_elems(data@, total_consumed as int, len - it.index@, fseq(elements@)),
//@@|         spec_frame(data@) == arr_of(spec_elems(data@, header_consumed as int, len as int, Seq::<FV>::empty())),
//@@   at "for _ in 0..len"
//@@| proof { assert(fseq(elements@) =~= Seq::<FV>::empty()); }
//@@   at "Ok(Some((RespFrame::Array(Some(elements)), total_consumed)))"
//@@| proof { reveal_with_fuel(fview, 2); let fr = RespFrame::Array(Some(elements)); assert(fview(fr) matches FV::Arr(Some(s)) && s =~= fseq(elements@)); }
//@@   at "elements.push(frame);"
//@@| let ghost before = fseq(elements@);
//@@   at "total_consumed += consumed;"
//@@| proof { assert(fseq(elements@) =~= before.push(fview(elements@[elements@.len() - 1]))); }
fn parse_array(data: &[u8]) -> (r: Result<Option<(RespFrame, usize)>>)
    requires data@.len() < 0x4000_0000_0000_0000, alloc_budget() >= data@.len(), data@.len() >= 1, data@[0] == 42u8,
    ensures pres(r, spec_frame(data@)), r matches Ok(Some((f, c))) ==> 0 < c <= data@.len(),
    decreases data@.len(), 0int,
//@@ body
//@@ end

//@@ unit parse_set fn src/protocol/parser.rs parse_set
//@@   rewrite R1
//@@   rewrite RPCALL "Vec::with_capacity" verif_with_capacity
//@@   rewrite RFOR 0 it
//@@   loop 0
//@@|     invariant
//@@|         data@.len() < 0x4000_0000_0000_0000, alloc_budget() >= data@.len(),
//@@|         3 <= header_consumed <= total_consumed <= data@.len(),
//@@|         elements@.len() == it.index@, it.index@ <= len,
//@@|         spec_elems(data@, header_consumed as int, len as int, Seq::<FV>::empty()) == spec_elems(data@, total_consumed as int, len - it.index@, fseq(elements@)),
//@@|         spec_frame(data@) == set_of(spec_elems(data@, header_consumed as int, len as int, Seq::<FV>::empty())),
//@@   at "for _ in 0..len"
//@@| proof { assert(fseq(elements@) =~= Seq::<FV>::empty()); }
//@@   at "elements.push(frame);"
//@@| let ghost before = fseq(elements@);
//@@   at "total_consumed += consumed;"
//@@| proof { assert(fseq(elements@) =~= before.push(fview(elements@[elements@.len() - 1]))); }
//@@   at "Ok(Some((RespFrame::Set(elements), total_consumed)))"
//@@| proof { reveal_with_fuel(fview, 2); let fr = RespFrame::Set(elements); assert(fview(fr) matches FV::Set(s) && s =~= fseq(elements@)); }
fn parse_set(data: &[u8]) -> (r: Result<Option<(RespFrame, usize)>>)
    requires data@.len() < 0x4000_0000_0000_0000, alloc_budget() >= data@.len(), data@.len() >= 1, data@[0] == 126u8,
    ensures pres(r, spec_frame(data@)), r matches Ok(Some((f, c))) ==> 0 < c <= data@.len(),
    decreases data@.len(), 0int,
//@@ body
//@@ end

/// flat sequence key0, value0, key1, value1, ... of a pair list
pub open spec fn flat(v: Seq<(RespFrame, RespFrame)>) -> Seq<FV> { Seq::new(2 * v.len(), |i: int| if 0 <= i < 2 * v.len() { if i % 2 == 0 { fview(v[i / 2].0) } else { fview(v[i / 2].1) } } else { FV::Null }) }

proof fn lemma_flat_push(v: Seq<(RespFrame, RespFrame)>, k: RespFrame, x: RespFrame)
    ensures flat(v.push((k, x))) =~= flat(v).push(fview(k)).push(fview(x)),
{
    let a = flat(v.push((k, x)));
    let b = flat(v).push(fview(k)).push(fview(x));
    assert(a.len() == b.len());
    assert forall|i: int| 0 <= i < a.len() implies a[i] == b[i] by {
        if i < 2 * v.len() { assert(v.push((k, x))[i / 2] == v[i / 2]); }
        else { assert(i / 2 == v.len()); assert(v.push((k, x))[i / 2] == (k, x)); }
    }
}

//@@ unit parse_map fn src/protocol/parser.rs parse_map
//@@   rewrite R1
//@@   rewrite RPCALL "Vec::with_capacity" verif_with_capacity
//@@   rewrite RFOR 0 it
//@@   loop 0
//@@|     invariant
//@@|         data@.len() < 0x4000_0000_0000_0000, alloc_budget() >= data@.len(),
//@@|         3 <= header_consumed <= total_consumed <= data@.len(),
//@@|         pairs@.len() == it.index@, it.index@ <= len,
//@@|         spec_elems(data@, header_consumed as int, 2 * (len as int), Seq::<FV>::empty()) == spec_elems(data@, total_consumed as int, 2 * (len - it.index@), flat(pairs@)),
//@@|         spec_frame(data@) == map_of(spec_elems(data@, header_consumed as int, 2 * (len as int), Seq::<FV>::empty())),
//@@   at "for _ in 0..len"
//@@| proof { assert(flat(pairs@) =~= Seq::<FV>::empty()); }
//@@   at "let key = match parse_frame"
//@@| let ghost before = flat(pairs@); let ghost t0 = total_consumed as int; let ghost k0 = 2 * (len - it.index@);
//@@   at "let value = match parse_frame"
//@@| proof { assert(spec_elems(data@, t0, k0, before) == spec_elems(data@, total_consumed as int, k0 - 1, before.push(fview(key)))); }
//@@| let ghost t1 = total_consumed as int;
//@@   at "pairs.push((key, value));"
//@@| let ghost kf = fview(key); let ghost vf = fview(value);
//@@| proof { assert(spec_elems(data@, t1, k0 - 1, before.push(kf)) == spec_elems(data@, total_consumed as int, k0 - 2, before.push(kf).push(vf))); }
//@@| proof { assert(flat(pairs@.push((key, value))) =~= before.push(kf).push(vf)) by { lemma_flat_push(pairs@, key, value); } }
//@@   at "Ok(Some((RespFrame::Map(pairs), total_consumed)))"
//@@| proof { reveal_with_fuel(fview, 2); let fr = RespFrame::Map(pairs); assert(fview(fr) matches FV::Map(s) && s =~= pairs_of(flat(pairs@))); }
fn parse_map(data: &[u8]) -> (r: Result<Option<(RespFrame, usize)>>)
    requires data@.len() < 0x4000_0000_0000_0000, alloc_budget() >= data@.len(), data@.len() >= 1, data@[0] == 37u8,
    ensures pres(r, spec_frame(data@)), r matches Ok(Some((f, c))) ==> 0 < c <= data@.len(),
    decreases data@.len(), 0int,
//@@ body
//@@ end


// ======================= incremental parser: RespParser::{feed, parse} =========================
//@@ item src/protocol/parser.rs RespParser

/// the bytes fed so far and not yet consumed — the only thing `parse` may depend on (buffer compaction and the read
/// offset are representation details)
spec fn unconsumed(p: RespParser) -> Seq<u8> { p.buffer@.subrange(p.position as int, p.buffer@.len() as int) }
spec fn parser_wf(p: RespParser) -> bool { p.position <= p.buffer@.len() && p.buffer@.len() < 0x2000_0000_0000_0000 }
pub open spec fn is_ws(b: u8) -> bool { b == 32u8 || b == 13u8 || b == 10u8 || b == 9u8 }
pub open spec fn is_trail(b: u8) -> bool { b == 32u8 || b == 13u8 || b == 10u8 }
pub open spec fn is_nl(b: u8) -> bool { b == 13u8 || b == 10u8 }
/// s without its longest prefix of bytes satisfying `which` (0 = ws, 1 = trail, 2 = newline)
pub open spec fn skip(s: Seq<u8>, which: int) -> Seq<u8>
    decreases s.len()
{
    if s.len() > 0 && (if which == 0 { is_ws(s[0]) } else if which == 1 { is_trail(s[0]) } else { is_nl(s[0]) }) { skip(s.subrange(1, s.len() as int), which) } else { s }
}
pub open spec fn ping() -> Seq<u8> { seq![80u8, 73u8, 78u8, 71u8] }
pub open spec fn ping_frame() -> FV { FV::Arr(Some(seq![FV::Bulk(Some(ping()))])) }
pub enum Next { More, Bad, Frame(FV, Seq<u8>) }
/// what the next `parse` call must answer for unconsumed bytes u, and what must remain unconsumed afterwards
pub open spec fn spec_next(u: Seq<u8>) -> Next {
    let w = skip(u, 0);
    if w.len() == 0 { Next::More }
    else if w.len() < 4 && w == ping().subrange(0, w.len() as int) { Next::More }      // a proper prefix of a raw "PING"
    else if w.len() >= 4 && w.subrange(0, 4) == ping() { Next::Frame(ping_frame(), skip(w.subrange(4, w.len() as int), 1)) }
    else { match spec_frame(w) {
        PR::Incomplete => Next::More,
        PR::Bad => Next::Bad,
        PR::Done(f, n) => Next::Frame(f, skip(w.subrange(n, w.len() as int), 2)),
    } }
}

spec fn wof(p: RespParser) -> Seq<u8> { skip(unconsumed(p), 0) }
spec fn is_ping_frame(fr: RespFrame) -> bool {
    fr matches RespFrame::Array(Some(v)) && v@.len() == 1 && (v@[0] matches RespFrame::BulkString(Some(a)) && a@ == ping())
}
proof fn lemma_ping_frame()
    ensures forall|fr: RespFrame| is_ping_frame(fr) ==> #[trigger] fview(fr) == ping_frame(),
{
    reveal_with_fuel(fview, 3);
    assert forall|fr: RespFrame| is_ping_frame(fr) implies #[trigger] fview(fr) == ping_frame() by {
        if let RespFrame::Array(Some(v)) = fr {
            assert(fview(fr)->Arr_0->Some_0 =~= seq![FV::Bulk(Some(ping()))]);
        }
    }
}
/// `a == b` on byte slices (R7 operator site; body is that operator)
#[verifier::external_body]
fn verif_slice_eq(a: &[u8], b: &[u8; 4]) -> (r: bool) ensures r == (a@ == b@), { a == b }
/// `buffer.drain(..n)` as a statement (RXPR site; body is that expression): removes the first n elements
#[verifier::external_body]
fn verif_drain_prefix(v: &mut Vec<u8>, n: usize)
    requires n <= old(v)@.len(),
    ensures final(v)@ == old(v)@.subrange(n as int, old(v)@.len() as int),
{ v.drain(..n); }
/// `a.starts_with(b)` on byte slices (RCALL site; body is that call)
#[verifier::external_body]
fn verif_starts_with(s: &[u8], needle: &[u8]) -> (r: bool)
    ensures r == (needle@.len() <= s@.len() && s@.subrange(0, needle@.len() as int) == needle@),
{ s.starts_with(needle) }

/// skipping is local: once the skipped prefix is exhausted inside s, appended bytes are untouched
pub proof fn lemma_skip_extend(s: Seq<u8>, e: Seq<u8>, which: int)
    ensures skip(s, which).len() > 0 ==> skip(s + e, which) == skip(s, which) + e,
    decreases s.len()
{
    if s.len() > 0 {
        let x = s + e;
        assert(x[0] == s[0]);
        assert(x.subrange(1, x.len() as int) =~= s.subrange(1, s.len() as int) + e);
        lemma_skip_extend(s.subrange(1, s.len() as int), e, which);
    }
}
/// THE CHUNKING THEOREM AT BUFFER LEVEL. Once the unconsumed bytes u determine a frame (or a protocol error), any bytes
/// that arrive later (u + e: the same stream cut at a later point) determine the SAME frame (error): where the network
/// happened to split the stream cannot change what is parsed; only `More` (wait for more bytes) is revisable.
pub proof fn lemma_next_extend(u: Seq<u8>, e: Seq<u8>)
    ensures
        spec_next(u) matches Next::Frame(f, _) ==> (spec_next(u + e) matches Next::Frame(f2, _) && f2 == f),
        spec_next(u) is Bad ==> spec_next(u + e) is Bad,
{
    let w = skip(u, 0);
    if w.len() > 0 {
        lemma_skip_extend(u, e, 0);
        let w2 = w + e;
        assert(skip(u + e, 0) == w2);
        assert(w2[0] == w[0]);
        if w.len() < 4 && w == ping().subrange(0, w.len() as int) {
        } else if w.len() >= 4 && w.subrange(0, 4) == ping() {
            assert(w2.subrange(0, 4) =~= w.subrange(0, 4));
        } else {
            // w is not a prefix of / prefixed by PING; neither is w + e
            if w.len() >= 4 { assert(w2.subrange(0, 4) =~= w.subrange(0, 4)); }
            else {
                if w2.len() < 4 && w2 == ping().subrange(0, w2.len() as int) {
                    assert(w =~= ping().subrange(0, w.len() as int)) by { assert forall|i: int| 0 <= i < w.len() implies w[i] == ping()[i] by { assert(w2[i] == w[i]); } }
                }
                if w2.len() >= 4 && w2.subrange(0, 4) == ping() {
                    assert(w =~= ping().subrange(0, w.len() as int)) by { assert forall|i: int| 0 <= i < w.len() implies w[i] == ping()[i] by { assert(w2.subrange(0, 4)[i] == w[i]); } }
                }
            }
            lemma_frame_extend(w, e);
        }
    }
}

impl RespParser {
//@@ unit parser_feed fn src/protocol/parser.rs RespParser::feed
    fn feed(&mut self, data: &[u8])
        requires parser_wf(*old(self)), old(self).buffer@.len() + data@.len() < 0x2000_0000_0000_0000,
        ensures parser_wf(*final(self)), unconsumed(*final(self)) =~= unconsumed(*old(self)) + data@,
//@@ body
//@@ end
//@@ unit parser_parse fn src/protocol/parser.rs RespParser::parse
//@@   rewrite RBSTR
//@@   rewrite RCALL starts_with "b\"PING\"" verif_starts_with
//@@   rewrite R7 "&self.buffer[self.position..self.position+4] == b\"PING\"" verif_slice_eq
//@@   rewrite RXPR "self.buffer.drain(..self.position)" "verif_drain_prefix(&mut self.buffer, self.position)"
//@@   loop 0
//@@|     invariant self.buffer@ == old(self).buffer@, self.position <= self.buffer@.len(),
//@@|         wof(*self) == wof(*old(self)),
//@@|     decreases self.buffer@.len() - self.position,
//@@   at "self.position += 1;" #0
//@@|     proof { assert(unconsumed(*self).subrange(1, unconsumed(*self).len() as int) =~= self.buffer@.subrange(self.position + 1, self.buffer@.len() as int)); }
//@@   at "if self.position >= self.buffer.len()" #1
//@@|     proof { assert(wof(*old(self)) == unconsumed(*self)); }
//@@   at "self.position += 4;"
//@@|     proof { assert(unconsumed(*self).subrange(0, 4) =~= self.buffer@.subrange(self.position as int, self.position + 4)); }
//@@|     let ghost w0 = unconsumed(*self);
//@@   at "while self.position < self.buffer.len()" #1
//@@|     proof { assert(unconsumed(*self) =~= w0.subrange(4, w0.len() as int)); }
//@@   at "self.position += consumed;"
//@@|     let ghost w0 = unconsumed(*self);
//@@   at "while self.position < self.buffer.len()" #2
//@@|     proof { assert(unconsumed(*self) =~= w0.subrange(consumed as int, w0.len() as int)); }
//@@   at "return Ok(Some(RespFrame::Array(Some(vec!["
//@@|     proof {
//@@|         lemma_ping_frame();
//@@|         assert(w0.subrange(0, 4) == ping());
//@@|         assert(skip(unconsumed(*self), 1) == unconsumed(*self));
//@@|         assert(spec_next(unconsumed(*old(self))) == Next::Frame(ping_frame(), unconsumed(*self)));
//@@|     }
//@@   at "match parse_frame(&self.buffer[self.position..])?"
//@@|     proof {
//@@|         let w = unconsumed(*self);
//@@|         assert(w == wof(*old(self)));
//@@|         assert(!(w.len() < 4 && w == ping().subrange(0, w.len() as int)));
//@@|         assert(w.len() >= 4 ==> w.subrange(0, 4) =~= self.buffer@.subrange(self.position as int, self.position + 4));
//@@|         assert(!(w.len() >= 4 && w.subrange(0, 4) == ping()));
//@@|     }
//@@   loop 1
//@@|     invariant self.buffer@ == old(self).buffer@, self.position <= self.buffer@.len(),
//@@|         skip(unconsumed(*self), 1) == skip(wof(*old(self)).subrange(4, wof(*old(self)).len() as int), 1),
//@@|     decreases self.buffer@.len() - self.position,
//@@   at "self.position += 1;" #1
//@@|     proof { assert(unconsumed(*self).subrange(1, unconsumed(*self).len() as int) =~= self.buffer@.subrange(self.position + 1, self.buffer@.len() as int)); }
//@@   loop 2
//@@|     invariant self.buffer@ == old(self).buffer@, self.position <= self.buffer@.len(),
//@@|         spec_frame(wof(*old(self))) matches PR::Done(_, n) && skip(unconsumed(*self), 2) == skip(wof(*old(self)).subrange(n, wof(*old(self)).len() as int), 2),
//@@|     decreases self.buffer@.len() - self.position,
//@@   at "self.position += 1;" #2
//@@|     proof { assert(unconsumed(*self).subrange(1, unconsumed(*self).len() as int) =~= self.buffer@.subrange(self.position + 1, self.buffer@.len() as int)); }
    fn parse(&mut self) -> (r: Result<Option<RespFrame>>)
        requires parser_wf(*old(self)), alloc_budget() >= old(self).buffer@.len(),
        ensures parser_wf(*final(self)),
            match spec_next(unconsumed(*old(self))) {
                Next::More => r matches Ok(None) && skip(unconsumed(*final(self)), 0) == skip(unconsumed(*old(self)), 0),
                Next::Bad => r is Err,
                Next::Frame(f, rest) => r matches Ok(Some(fr)) && fview(fr) == f && unconsumed(*final(self)) =~= rest,
            },
//@@ body
//@@ end
}

} // verus!
fn main() {}
