//@@ include contracts/inc_cmd_header.rs
verus! {
//@@ item src/storage/commands/executor.rs SetOptions
/// MODEL of UnifiedCommandExecutor (the implementation scripts reach through redis.call): the storage engine model
pub struct UnifiedCommandExecutor { pub storage: EngineModel }
/// the script path agrees with the reference model: the reply frame for a success, an Err / error frame for a refusal
pub open spec fn exec_done(r: Result<RespFrame>, f: UnifiedCommandExecutor, spec: (RV, DS), ttl: TTL) -> bool {
    f.storage.ds@ == spec.1 && f.storage.ttl@ == ttl && match spec.0 {
        RV::WrongType | RV::OtherErr => !(r matches Ok(fr) && !(fr is Error)),
        rv => r matches Ok(fr) && reply_matches(fr, rv),
    }
}
pub open spec fn opts_of(o: SetOptions) -> SetOpts { SetOpts { exp: (match o.expiration { Some(d) => Some(dur_nanos(d)), None => None }), nx: o.nx, xx: o.xx } }

impl UnifiedCommandExecutor {
//@@ unit exec_set arm src/storage/commands/executor.rs UnifiedCommandExecutor::execute_string "StringCommand::Set { key, value, options }"
//@@   rewrite R3
//@@   rewrite RXPR "self.storage.set_string_ex(db, key, value, exp).map(|_| true)" "verif_unit_true(self.storage.set_string_ex(db, key, value, exp))"
//@@   rewrite RXPR "self.storage.set_string(db, key, value).map(|_| true)" "verif_unit_true(self.storage.set_string_t(db, key, value))"
    fn exec_set(&mut self, db: usize, key: Vec<u8>, value: Vec<u8>, options: SetOptions) -> (r: Result<RespFrame>)
        requires !options.get, !options.keepttl,
        ensures
            // C12 / C01 / C02: SET through the script path has the effect and the reply the direct command has (spec_set is the
            // very function handle_set is proved against); NX together with XX is refused
            (options.nx && options.xx) ==> (r matches Ok(f) && f is Error) && final(self).storage.ds@ == old(self).storage.ds@ && final(self).storage.ttl@ == old(self).storage.ttl@,
            !(options.nx && options.xx) && (r is Ok || !mem_exhausted(old(self).storage)) ==> ({
                let s = spec_set(old(self).storage.ds@, old(self).storage.ttl@, db as int, key@, value@, opts_of(options));
                (r matches Ok(fr) && reply_matches(fr, s.0)) && final(self).storage.ds@ == s.1 && final(self).storage.ttl@ == s.2
            }),
//@@ body
//@@ end

//@@ unit exec_get arm src/storage/commands/executor.rs UnifiedCommandExecutor::execute_string "StringCommand::Get { key }"
    fn exec_get(&mut self, db: usize, key: Vec<u8>) -> (r: Result<RespFrame>)
        ensures final(self).storage.ds@ == old(self).storage.ds@, final(self).storage.ttl@ == old(self).storage.ttl@,
            match ds_get(old(self).storage.ds@, db as int, key@) {
                None => r matches Ok(f) && f == RespFrame::BulkString(None),
                Some(DV::Str(b)) => r matches Ok(f) && bulk_reply(f) == Some(Some(b)),
                Some(_) => !(r matches Ok(f) && !(f is Error)),
            },
//@@ body
//@@ end
//@@ unit exec_incr arm src/storage/commands/executor.rs UnifiedCommandExecutor::execute_string "StringCommand::Incr { key }"
    fn exec_incr(&mut self, db: usize, key: Vec<u8>) -> (r: Result<RespFrame>)
        ensures exec_done(r, *final(self), spec_incrby(old(self).storage.ds@, db as int, key@, 1i64), old(self).storage.ttl@),
//@@ body
//@@ end
//@@ unit exec_incrby arm src/storage/commands/executor.rs UnifiedCommandExecutor::execute_string "StringCommand::IncrBy { key, increment }"
    fn exec_incrby(&mut self, db: usize, key: Vec<u8>, increment: i64) -> (r: Result<RespFrame>)
        ensures exec_done(r, *final(self), spec_incrby(old(self).storage.ds@, db as int, key@, increment), old(self).storage.ttl@),
//@@ body
//@@ end
//@@ unit exec_decr arm src/storage/commands/executor.rs UnifiedCommandExecutor::execute_string "StringCommand::Decr { key }"
    fn exec_decr(&mut self, db: usize, key: Vec<u8>) -> (r: Result<RespFrame>)
        ensures exec_done(r, *final(self), spec_incrby(old(self).storage.ds@, db as int, key@, -1i64), old(self).storage.ttl@),
//@@ body
//@@ end
//@@ unit exec_decrby arm src/storage/commands/executor.rs UnifiedCommandExecutor::execute_string "StringCommand::DecrBy { key, decrement }"
    fn exec_decrby(&mut self, db: usize, key: Vec<u8>, decrement: i64) -> (r: Result<RespFrame>)
        ensures
            decrement == i64::MIN ==> (r matches Ok(f) && f is Error) && final(self).storage.ds@ == old(self).storage.ds@ && final(self).storage.ttl@ == old(self).storage.ttl@,
            decrement != i64::MIN ==> exec_done(r, *final(self), spec_incrby(old(self).storage.ds@, db as int, key@, (-decrement) as i64), old(self).storage.ttl@),
//@@ body
//@@ end
//@@ unit exec_setnx arm src/storage/commands/executor.rs UnifiedCommandExecutor::execute_string "StringCommand::SetNx { key, value }"
    fn exec_setnx(&mut self, db: usize, key: Vec<u8>, value: Vec<u8>) -> (r: Result<RespFrame>)
        ensures (r is Ok || !mem_exhausted(old(self).storage)) ==> (
            if old(self).storage.ds@.contains_key((db as int, key@)) { exec_done(r, *final(self), (RV::Int(0), old(self).storage.ds@), old(self).storage.ttl@) }
            else { exec_done(r, *final(self), (RV::Int(1), old(self).storage.ds@.insert((db as int, key@), DV::Str(value@))), old(self).storage.ttl@.remove((db as int, key@))) }),
//@@ body
//@@ end
//@@ unit exec_setex arm src/storage/commands/executor.rs UnifiedCommandExecutor::execute_string "StringCommand::SetEx { key, value, seconds }"
    fn exec_setex(&mut self, db: usize, key: Vec<u8>, value: Vec<u8>, seconds: u64) -> (r: Result<RespFrame>)
        ensures (r is Ok || !mem_exhausted(old(self).storage)) ==>
            exec_done(r, *final(self), (RV::Okay, old(self).storage.ds@.insert((db as int, key@), DV::Str(value@))), old(self).storage.ttl@.insert((db as int, key@), seconds as int * 1_000_000_000)),
//@@ body
//@@ end
//@@ unit exec_psetex arm src/storage/commands/executor.rs UnifiedCommandExecutor::execute_string "StringCommand::PSetEx { key, value, milliseconds }"
    fn exec_psetex(&mut self, db: usize, key: Vec<u8>, value: Vec<u8>, milliseconds: u64) -> (r: Result<RespFrame>)
        ensures (r is Ok || !mem_exhausted(old(self).storage)) ==>
            exec_done(r, *final(self), (RV::Okay, old(self).storage.ds@.insert((db as int, key@), DV::Str(value@))), old(self).storage.ttl@.insert((db as int, key@), milliseconds as int * 1_000_000)),
//@@ body
//@@ end
//@@ unit exec_strlen arm src/storage/commands/executor.rs UnifiedCommandExecutor::execute_string "StringCommand::StrLen { key }"
    fn exec_strlen(&mut self, db: usize, key: Vec<u8>) -> (r: Result<RespFrame>)
        ensures final(self).storage.ds@ == spec_strlen(old(self).storage.ds@, db as int, key@).1,
            match spec_strlen(old(self).storage.ds@, db as int, key@).0 { RV::WrongType | RV::OtherErr => !(r matches Ok(fr) && !(fr is Error)), rv => r matches Ok(fr) && reply_matches(fr, rv) },
//@@ body
//@@ end
//@@ unit exec_append arm src/storage/commands/executor.rs UnifiedCommandExecutor::execute_string "StringCommand::Append { key, value }"
    fn exec_append(&mut self, db: usize, key: Vec<u8>, value: Vec<u8>) -> (r: Result<RespFrame>)
        ensures final(self).storage.ds@ == spec_append(old(self).storage.ds@, db as int, key@, value@).1,
            match spec_append(old(self).storage.ds@, db as int, key@, value@).0 { RV::WrongType | RV::OtherErr => !(r matches Ok(fr) && !(fr is Error)), rv => r matches Ok(fr) && reply_matches(fr, rv) },
//@@ body
//@@ end
}
/// `result.map(|_| true)` on a unit result (RXPR site)
pub fn verif_unit_true(r: Result<()>) -> (o: Result<bool>)
    ensures r is Ok ==> o == Ok::<bool, FerrousError>(true), r matches Err(e) ==> o == Err::<bool, FerrousError>(e),
{ match r { Ok(_) => Ok(true), Err(e) => Err(e) } }

} // verus!
fn main() {}
