// shared by the direct SET handler (srv_strings) and the script path's parser (c12_parse): ONE grammar, so that "the same options" means the same spec value
// ---- SET key value [EX s | PX ms] [NX | XX]
/// upper-cased lossy decoding of an option word (uninterpreted; `String::from_utf8_lossy(option).to_uppercase()`, RXPR site)
pub uninterp spec fn spec_upper(b: Seq<u8>) -> Seq<char>;
#[verifier::external_body]
pub fn verif_upper(b: &Arc<Vec<u8>>) -> (r: String) ensures r@ == spec_upper(b@), { unimplemented!() }
/// strict UTF-8 decoding followed by decimal u64 parsing (`String::from_utf8(..)` then `.parse::<u64>()`)
pub uninterp spec fn spec_utf8(b: Seq<u8>) -> Option<Seq<char>>;
pub uninterp spec fn spec_str_u64(s: Seq<char>) -> Option<u64>;
pub struct Utf8Err { pub g: Ghost<int> }
pub struct IntErr { pub g: Ghost<int> }
#[verifier::external_body]
pub fn verif_from_utf8(v: Vec<u8>) -> (r: std::result::Result<String, Utf8Err>)
    ensures match spec_utf8(v@) { Some(s) => r matches Ok(st) && st@ == s, None => r is Err },
{ unimplemented!() }
#[verifier::external_body]
pub fn verif_parse_u64<F>(s: String) -> (r: std::result::Result<u64, IntErr>)
    ensures match spec_str_u64(s@) { Some(n) => r == Ok::<u64, IntErr>(n), None => r is Err },
{ unimplemented!() }
pub open spec fn time_arg(parts: Seq<RespFrame>, i: int) -> Option<u64> {
    match arg(parts, i) { Some(b) => match spec_utf8(b) { Some(s) => spec_str_u64(s), None => None }, None => None }
}
/// the options of SET read left to right from position i; None = syntax error / invalid expire time
pub open spec fn set_opts(parts: Seq<RespFrame>, i: int, o: SetOpts) -> Option<SetOpts>
    decreases parts.len() - i
{
    if i >= parts.len() { Some(o) } else {
        match arg(parts, i) {
            None => None,
            Some(w) => {
                let u = spec_upper(w);
                if u == "EX"@ { if i + 1 >= parts.len() { None } else { match time_arg(parts, i + 1) { Some(s) => if s == 0 { None } else { set_opts(parts, i + 2, SetOpts { exp: Some(s as int * 1_000_000_000), nx: o.nx, xx: o.xx }) }, None => None } } }
                else if u == "PX"@ { if i + 1 >= parts.len() { None } else { match time_arg(parts, i + 1) { Some(s) => if s == 0 { None } else { set_opts(parts, i + 2, SetOpts { exp: Some(s as int * 1_000_000), nx: o.nx, xx: o.xx }) }, None => None } } }
                else if u == "NX"@ { set_opts(parts, i + 1, SetOpts { exp: o.exp, nx: true, xx: o.xx }) }
                else if u == "XX"@ { set_opts(parts, i + 1, SetOpts { exp: o.exp, nx: o.nx, xx: true }) }
                else { None }
            },
        }
    }
}
/// remaining time in whole seconds, rounded up; -2 only when nothing remains
pub open spec fn ttl_seconds(n: int) -> int { if n == 0 { -2 } else if n % 1_000_000_000 == 0 { n / 1_000_000_000 } else { n / 1_000_000_000 + 1 } }
/// DEL k1 .. : keys are removed left to right; a key named twice counts once (it is gone the second time); arguments that are
/// not bulk strings are skipped
pub open spec fn del_upto(ds: DS, ttl: TTL, db: int, parts: Seq<RespFrame>, n: int) -> (int, DS, TTL)
    decreases n
{
    if n <= 1 { (0, ds, ttl) } else {
        let p = del_upto(ds, ttl, db, parts, n - 1);
        match arg(parts, n - 1) {
            Some(k) => (p.0 + (if p.1.contains_key((db, k)) { 1int } else { 0int }), p.1.remove((db, k)), p.2.remove((db, k))),
            None => p,
        }
    }
}
/// EXISTS k1 .. : how many of the named keys are there (a key named twice counts twice)
pub open spec fn exists_upto(ds: DS, db: int, parts: Seq<RespFrame>, n: int) -> int
    decreases n
{
    if n <= 1 { 0 } else { exists_upto(ds, db, parts, n - 1) + (match arg(parts, n - 1) { Some(k) => if ds.contains_key((db, k)) { 1int } else { 0int }, None => 0int }) }
}

