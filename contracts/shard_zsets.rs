//@@ include contracts/inc_shard_header.rs
//@@ include contracts/inc_value_units.rs
//@@ include prelude/zset_stream_stubs.rs
verus! {
spec fn holds_non_zset(s: SV, key: Vec<u8>) -> bool { s.data.contains_key(key) && !(s.data[key].value is SortedSet) }
spec fn holds_non_stream(s: SV, key: Vec<u8>) -> bool { s.data.contains_key(key) && !(s.data[key].value is Stream) }
spec fn zset_at(s: SV, key: Vec<u8>) -> Option<SkipList<Vec<u8>, f64>> { if s.data.contains_key(key) { match s.data[key].value { Value::SortedSet(z) => Some(*z), _ => None } } else { None } }
spec fn stream_at(s: SV, key: Vec<u8>) -> Option<Stream> { if s.data.contains_key(key) { match s.data[key].value { Value::Stream(st) => Some(st), _ => None } } else { None } }

impl StorageEngine {
//@@ unit zadd fn src/storage/engine.rs StorageEngine::zadd
//@@   params drop "db: DatabaseIndex" add "shard_guard: &mut DatabaseShard"
//@@   rewrite R2
    fn zadd(&self, shard_guard: &mut DatabaseShard, key: Key, member: Vec<u8>, score: f64) -> (r: Result<bool>)
        ensures
            !f64_is_nan(score) ==> step_ok_shared(eff(*old(shard_guard), key), sv(*final(shard_guard)), key),
            // a score that is not a number is refused before anything is touched (the skip list's insert REQUIRES a number)
            f64_is_nan(score) ==> r is Err && unchanged(sv(*old(shard_guard)), sv(*final(shard_guard))),
            holds_non_zset(eff(*old(shard_guard), key), key) ==> r is Err && unchanged(eff(*old(shard_guard), key), sv(*final(shard_guard))),
            // accepted: the key exists afterwards and is marked for WATCH (the member set lives behind a shared reference)
            r is Ok ==> sv(*final(shard_guard)).data.contains_key(key) && sv(*final(shard_guard)).data[key].value is SortedSet && marks(sv(*final(shard_guard))).contains(key@),
//@@ body
//@@ end

//@@ unit zincrby fn src/storage/engine.rs StorageEngine::zincrby
//@@   params drop "db: DatabaseIndex" add "shard_guard: &mut DatabaseShard"
//@@   rewrite R2
//@@   rewrite R7 "curr_score + increment" verif_f64_add
    fn zincrby(&self, shard_guard: &mut DatabaseShard, key: Key, member: Vec<u8>, increment: f64) -> (r: Result<f64>)
        ensures
            !f64_is_nan(increment) ==> step_ok_shared(eff(*old(shard_guard), key), sv(*final(shard_guard)), key),
            f64_is_nan(increment) ==> r is Err && unchanged(sv(*old(shard_guard)), sv(*final(shard_guard))),
            holds_non_zset(eff(*old(shard_guard), key), key) ==> r is Err && unchanged(eff(*old(shard_guard), key), sv(*final(shard_guard))),
            r matches Ok(s) ==> !f64_is_nan(s) && sv(*final(shard_guard)).data.contains_key(key) && marks(sv(*final(shard_guard))).contains(key@),
//@@ body
//@@ end

//@@ unit zrem fn src/storage/engine.rs StorageEngine::zrem
//@@   params drop "db: DatabaseIndex" add "shard_guard: &mut DatabaseShard"
//@@   rewrite R2
    fn zrem(&self, shard_guard: &mut DatabaseShard, key: &[u8], member: &[u8]) -> (r: Result<bool>)
        ensures
            step_ok_shared(eff(*old(shard_guard), key_of(key@)), sv(*final(shard_guard)), key_of(key@)),
            holds_non_zset(eff(*old(shard_guard), key_of(key@)), key_of(key@)) ==> r is Err && unchanged(eff(*old(shard_guard), key_of(key@)), sv(*final(shard_guard))),
            !eff(*old(shard_guard), key_of(key@)).data.contains_key(key_of(key@)) ==> r == Ok::<bool, FerrousError>(false) && unchanged(eff(*old(shard_guard), key_of(key@)), sv(*final(shard_guard))),
            // a removal is marked; nothing removed: nothing changes
            r == Ok::<bool, FerrousError>(true) ==> marks(sv(*final(shard_guard))).contains(key@),
            r == Ok::<bool, FerrousError>(false) ==> unchanged(eff(*old(shard_guard), key_of(key@)), sv(*final(shard_guard))),
//@@ body
//@@ end

// ---- streams: the key (and with it the Stream object that carries the highest ID ever added) must survive XDEL/XTRIM,
// even when the log becomes empty (C15: "XADD * returns an ID greater than every ID ever added, even after deletions")
//@@ unit xdel fn src/storage/engine.rs StorageEngine::xdel
//@@   params drop "db: DatabaseIndex" add "shard_guard: &mut DatabaseShard"
//@@   rewrite R2
    fn xdel(&self, shard_guard: &mut DatabaseShard, key: &[u8], ids: Vec<StreamId>) -> (r: Result<usize>)
        ensures
            step_ok_shared(eff(*old(shard_guard), key_of(key@)), sv(*final(shard_guard)), key_of(key@)),
            holds_non_stream(eff(*old(shard_guard), key_of(key@)), key_of(key@)) ==> r is Err && unchanged(eff(*old(shard_guard), key_of(key@)), sv(*final(shard_guard))),
            !eff(*old(shard_guard), key_of(key@)).data.contains_key(key_of(key@)) ==> r == Ok::<usize, FerrousError>(0) && unchanged(eff(*old(shard_guard), key_of(key@)), sv(*final(shard_guard))),
            // the stream object stays in place whatever was deleted
            eff(*old(shard_guard), key_of(key@)).data.contains_key(key_of(key@)) ==> sv(*final(shard_guard)).data == eff(*old(shard_guard), key_of(key@)).data && sv(*final(shard_guard)).exp == eff(*old(shard_guard), key_of(key@)).exp,
            r matches Ok(n) ==> n > 0 ==> marks(sv(*final(shard_guard))).contains(key@),
//@@ body
//@@ end

// ---- sorted-set reads (ZSCORE / ZCARD): through the lazy purge (C02), another type refuses, a missing key answers nil / 0, nothing is written;
// what the skip list answers is its own business (interior state, see the header of prelude/zset_stream_stubs.rs)
//@@ unit zscore fn src/storage/engine.rs StorageEngine::zscore
//@@   params drop "db: DatabaseIndex" add "shard_guard: &mut DatabaseShard"
//@@   rewrite R2
    fn zscore(&self, shard_guard: &mut DatabaseShard, key: &[u8], member: &[u8]) -> (r: Result<Option<f64>>)
        ensures
            unchanged(eff(*old(shard_guard), key_of(key@)), sv(*final(shard_guard))),
            holds_non_zset(eff(*old(shard_guard), key_of(key@)), key_of(key@)) ==> r is Err,
            !eff(*old(shard_guard), key_of(key@)).data.contains_key(key_of(key@)) ==> r matches Ok(None),
            eff(*old(shard_guard), key_of(key@)).data.contains_key(key_of(key@)) && !holds_non_zset(eff(*old(shard_guard), key_of(key@)), key_of(key@)) ==> r is Ok,
            // C04: a score handed out is a number
            r matches Ok(Some(s)) ==> !f64_is_nan(s),
//@@ body
//@@ end
//@@ unit zcard fn src/storage/engine.rs StorageEngine::zcard
//@@   params drop "db: DatabaseIndex" add "shard_guard: &mut DatabaseShard"
//@@   rewrite R2
    fn zcard(&self, shard_guard: &mut DatabaseShard, key: &[u8]) -> (r: Result<usize>)
        ensures
            unchanged(eff(*old(shard_guard), key_of(key@)), sv(*final(shard_guard))),
            holds_non_zset(eff(*old(shard_guard), key_of(key@)), key_of(key@)) ==> r is Err,
            !eff(*old(shard_guard), key_of(key@)).data.contains_key(key_of(key@)) ==> r == Ok::<usize, FerrousError>(0),
            eff(*old(shard_guard), key_of(key@)).data.contains_key(key_of(key@)) && !holds_non_zset(eff(*old(shard_guard), key_of(key@)), key_of(key@)) ==> r is Ok,
//@@ body
//@@ end

// ZRANGEBYSCORE / ZREVRANGEBYSCORE / ZCOUNT at the engine: the two bounds reach the skip list in the order (min, max), the answer is reversed
// exactly when the reverse form is asked for, ZCOUNT is its length
//@@ unit zrangebyscore fn src/storage/engine.rs StorageEngine::zrangebyscore
//@@   params drop "db: DatabaseIndex" add "shard_guard: &mut DatabaseShard"
//@@   rewrite R2
//@@   rewrite RT "items.reverse();" "verif_reverse_items(&mut items);"
    fn zrangebyscore(&self, shard_guard: &mut DatabaseShard, key: &[u8], min_score: f64, max_score: f64, reverse: bool) -> (r: Result<Vec<(Vec<u8>, f64)>>)
        ensures
            unchanged(eff(*old(shard_guard), key_of(key@)), sv(*final(shard_guard))),
            holds_non_zset(eff(*old(shard_guard), key_of(key@)), key_of(key@)) ==> r is Err,
            !eff(*old(shard_guard), key_of(key@)).data.contains_key(key_of(key@)) ==> (r matches Ok(v) && v@.len() == 0),
            zset_at(eff(*old(shard_guard), key_of(key@)), key_of(key@)) matches Some(z) ==> (r matches Ok(v)
                && v@ == (if reverse { spec_sl_by_score(z, min_score, max_score).reverse() } else { spec_sl_by_score(z, min_score, max_score) })),
//@@ body
//@@ end

// ---- stream reads (C15: XRANGE / XREVRANGE / XLEN): the engine hands bounds, count and DIRECTION to the stream object unchanged, answers
// from the stream stored under the key (after the lazy purge), refuses another type, and writes nothing
//@@ unit xrange fn src/storage/engine.rs StorageEngine::xrange
//@@   params drop "db: DatabaseIndex" add "shard_guard: &mut DatabaseShard"
//@@   rewrite R2
    fn xrange(&self, shard_guard: &mut DatabaseShard, key: &[u8], start: StreamId, end: StreamId, count: Option<usize>) -> (r: Result<Vec<StreamEntry>>)
        ensures
            unchanged(eff(*old(shard_guard), key_of(key@)), sv(*final(shard_guard))),
            holds_non_stream(eff(*old(shard_guard), key_of(key@)), key_of(key@)) ==> r is Err,
            !eff(*old(shard_guard), key_of(key@)).data.contains_key(key_of(key@)) ==> (r matches Ok(v) && v@.len() == 0),
            stream_at(eff(*old(shard_guard), key_of(key@)), key_of(key@)) matches Some(st) ==> (r matches Ok(v) && v@ == spec_stream_range(st, start, end, count, false)),
//@@ body
//@@ end
//@@ unit xrevrange fn src/storage/engine.rs StorageEngine::xrevrange
//@@   params drop "db: DatabaseIndex" add "shard_guard: &mut DatabaseShard"
//@@   rewrite R2
    fn xrevrange(&self, shard_guard: &mut DatabaseShard, key: &[u8], start: StreamId, end: StreamId, count: Option<usize>) -> (r: Result<Vec<StreamEntry>>)
        ensures
            unchanged(eff(*old(shard_guard), key_of(key@)), sv(*final(shard_guard))),
            holds_non_stream(eff(*old(shard_guard), key_of(key@)), key_of(key@)) ==> r is Err,
            !eff(*old(shard_guard), key_of(key@)).data.contains_key(key_of(key@)) ==> (r matches Ok(v) && v@.len() == 0),
            stream_at(eff(*old(shard_guard), key_of(key@)), key_of(key@)) matches Some(st) ==> (r matches Ok(v) && v@ == spec_stream_range(st, start, end, count, true)),
//@@ body
//@@ end
//@@ unit xlen fn src/storage/engine.rs StorageEngine::xlen
//@@   params drop "db: DatabaseIndex" add "shard_guard: &mut DatabaseShard"
//@@   rewrite R2
    fn xlen(&self, shard_guard: &mut DatabaseShard, key: &[u8]) -> (r: Result<usize>)
        ensures
            unchanged(eff(*old(shard_guard), key_of(key@)), sv(*final(shard_guard))),
            holds_non_stream(eff(*old(shard_guard), key_of(key@)), key_of(key@)) ==> r is Err,
            !eff(*old(shard_guard), key_of(key@)).data.contains_key(key_of(key@)) ==> r == Ok::<usize, FerrousError>(0),
            stream_at(eff(*old(shard_guard), key_of(key@)), key_of(key@)) matches Some(st) ==> r == Ok::<usize, FerrousError>(spec_stream_len(st)),
//@@ body
//@@ end

// XREAD, one (key, id) pair (the body of the engine's per-key loop): the stream under THIS key is asked for the entries after THIS id with the
// command's COUNT; a non-empty answer is appended under the key's name, an empty one (or a missing key) adds nothing; another type refuses
//@@ unit xread_step loopbody src/storage/engine.rs StorageEngine::xread "for (key, after_id) in keys_and_ids"
//@@   rewrite R2
//@@   tail Ok(Vec::new())
    fn xread_step(&self, shard_guard: &mut DatabaseShard, key: &[u8], after_id: StreamId, count: Option<usize>, results: &mut Vec<(Vec<u8>, Vec<StreamEntry>)>) -> (r: Result<Vec<(Vec<u8>, Vec<StreamEntry>)>>)
        ensures
            unchanged(eff(*old(shard_guard), key_of(key@)), sv(*final(shard_guard))),
            holds_non_stream(eff(*old(shard_guard), key_of(key@)), key_of(key@)) ==> r is Err,
            !eff(*old(shard_guard), key_of(key@)).data.contains_key(key_of(key@)) ==> r is Ok && final(results)@ == old(results)@,
            stream_at(eff(*old(shard_guard), key_of(key@)), key_of(key@)) matches Some(st) ==> r is Ok && ({
                let e = spec_stream_range_after(st, after_id, count);
                if e.len() > 0 { final(results)@.len() == old(results)@.len() + 1 && final(results)@.drop_last() == old(results)@ && final(results)@.last().0@ == key@ && final(results)@.last().1@ == e }
                else { final(results)@ == old(results)@ }
            }),
//@@ body
//@@ end

//@@ unit xtrim fn src/storage/engine.rs StorageEngine::xtrim
//@@   params drop "db: DatabaseIndex" add "shard_guard: &mut DatabaseShard"
//@@   rewrite R2
    fn xtrim(&self, shard_guard: &mut DatabaseShard, key: &[u8], max_len: usize) -> (r: Result<usize>)
        ensures
            step_ok_shared(eff(*old(shard_guard), key_of(key@)), sv(*final(shard_guard)), key_of(key@)),
            holds_non_stream(eff(*old(shard_guard), key_of(key@)), key_of(key@)) ==> r is Err && unchanged(eff(*old(shard_guard), key_of(key@)), sv(*final(shard_guard))),
            !eff(*old(shard_guard), key_of(key@)).data.contains_key(key_of(key@)) ==> r == Ok::<usize, FerrousError>(0) && unchanged(eff(*old(shard_guard), key_of(key@)), sv(*final(shard_guard))),
            eff(*old(shard_guard), key_of(key@)).data.contains_key(key_of(key@)) ==> sv(*final(shard_guard)).data == eff(*old(shard_guard), key_of(key@)).data && sv(*final(shard_guard)).exp == eff(*old(shard_guard), key_of(key@)).exp,
            r matches Ok(n) ==> n > 0 ==> marks(sv(*final(shard_guard))).contains(key@),
//@@ body
//@@ end
}

} // verus!
fn main() {}
