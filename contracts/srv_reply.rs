//@@ include contracts/inc_srv_header.rs
verus! {
// C05: "exactly one well-formed RESP reply for every command it receives, in the order received ... a frame that violates the
// protocol is answered with an error instead of silence". process_connection works in three phases; phase 2 (one response per
// parsed frame, appended in order, also when the handler fails) is unit conn_frame_step in group srv_conn. This group holds the
// other steps: phase 1's parse loop (which frames are taken, and what a protocol violation sets in motion), the statement that
// turns a recorded protocol violation into one error reply, and phase 3's two send loops (each response is handed to the
// connection's write buffer exactly once, in the order of `responses`; NoResponse markers produce nothing).

/// `msg.contains("...")` on an error text (RCALL site): which kind of failure the text names — uninterpreted
pub uninterp spec fn msg_has(m: Seq<char>, pat: Seq<char>) -> bool;
#[verifier::external_body]
pub fn verif_msg_contains(m: &String, pat: &str) -> (r: bool) ensures r == msg_has(m@, pat@), { unimplemented!() }
/// `e.to_string()` on the crate's error type (Display; RCALL site)
#[verifier::external_body]
pub fn verif_err_to_string(e: FerrousError) -> String { unimplemented!() }

/// what the parser hands back for the bytes buffered on a connection (uninterpreted here; the parser itself is C20's subject)
pub struct ParseStub { pub g: Ghost<int> }
impl Connection {
    /// MODEL of Connection::parse_frame: some result; touches nothing the units below speak about
    #[verifier::external_body]
    pub fn parse_frame(&mut self) -> (r: Result<Option<RespFrame>>)
        ensures final(self).out == old(self).out, final(self).state == old(self).state,
    { unimplemented!() }
    /// MODEL of Connection::close
    #[verifier::external_body]
    pub fn close(&mut self) -> (r: Result<()>)
        ensures final(self).out == old(self).out,
    { unimplemented!() }
    /// MODEL of Connection::send_frame: a frame that is accepted is appended to the write buffer, whole and after everything accepted
    /// before; a refused frame (the socket failed) leaves the buffer as it was
    #[verifier::external_body]
    pub fn send_frame(&mut self, frame: &RespFrame) -> (r: Result<()>)
        ensures
            final(self).db_index == old(self).db_index, final(self).transaction_state == old(self).transaction_state, final(self).state == old(self).state, final(self).is_monitoring == old(self).is_monitoring,
            r is Ok ==> final(self).out.sent@ == old(self).out.sent@.push(*frame),
            r is Err ==> final(self).out.sent@ == old(self).out.sent@,
    { unimplemented!() }
    /// MODEL of Connection::flush: moves buffered bytes to the socket; the sequence of frames accepted is not changed by it
    #[verifier::external_body]
    pub fn flush(&mut self) -> (r: Result<()>)
        ensures final(self).db_index == old(self).db_index, final(self).transaction_state == old(self).transaction_state, final(self).state == old(self).state, final(self).is_monitoring == old(self).is_monitoring,
            final(self).out == old(self).out,
    { unimplemented!() }
}

/// ghost record of what the parser answered (so that the step's contract can speak about it)
pub struct ParseLog { pub last: Ghost<Result<Option<RespFrame>>> }
/// `conn.parse_frame()` (RT site): the MODEL method above, its answer also noted in the ghost record
pub fn verif_parse_frame(conn: &mut Connection, plog: &mut ParseLog) -> (r: Result<Option<RespFrame>>)
    ensures final(conn).out == old(conn).out, final(conn).state == old(conn).state, final(plog).last@ == r,
{ let r = conn.parse_frame(); plog.last = Ghost(r); r }
/// the two parser answers that are not protocol violations: "no complete frame yet" and a failed socket
pub open spec fn need_more(e: FerrousError) -> bool { e matches FerrousError::Protocol(m) && msg_has(m@, "Need more data"@) }
pub open spec fn socket_gone(e: FerrousError) -> bool { e matches FerrousError::Connection(m) && (msg_has(m@, "Broken pipe"@) || msg_has(m@, "Connection reset"@)) }

//@@ unit parse_loop_step loopbody src/network/server.rs Server::process_connection "loop"
//@@   rewrite R3
//@@   rewrite RCALL contains "*" verif_msg_contains
//@@   rewrite? RCALL to_string "e" verif_err_to_string
//@@   rewrite RT "break;" "return Ok(false);"
//@@   rewrite RT "break," "return Ok(false),"
//@@   rewrite? RT "protocol_error = Some(" "*protocol_error = Some("
//@@   rewrite RT "conn.parse_frame()" "verif_parse_frame(conn, plog)"
//@@   opt same-return-type
//@@   tail Ok(true)
fn parse_loop_step(conn: &mut Connection, id: u64, frames_to_process: &mut Vec<RespFrame>, protocol_error: &mut Option<String>, plog: &mut ParseLog) -> (r: Result<bool>)
    requires *old(protocol_error) is None,
    ensures
        // a complete frame: taken, appended in order, and the loop goes on
        final(plog).last@ matches Ok(Some(f)) ==> r == Ok::<bool, FerrousError>(true) && final(frames_to_process)@ == old(frames_to_process)@.push(f) && *final(protocol_error) is None,
        // nothing is ever dropped from the list
        !(final(plog).last@ matches Ok(Some(f))) ==> !(r == Ok::<bool, FerrousError>(true)) && final(frames_to_process)@ == old(frames_to_process)@,
        // no complete frame yet: the loop stops, nothing is recorded
        (final(plog).last@ matches Ok(None)) || (final(plog).last@ matches Err(e) && need_more(e)) ==> r == Ok::<bool, FerrousError>(false) && *final(protocol_error) is None,
        // C05: any other parser error that is not a failed socket is a protocol violation: it is RECORDED (and answered by the next
        // unit), never passed over in silence
        (final(plog).last@ matches Err(e) && !need_more(e) && !socket_gone(e)) ==> r == Ok::<bool, FerrousError>(false) && *final(protocol_error) is Some,
//@@ body
//@@ end

//@@ unit protocol_error_reply stmts src/network/server.rs Server::process_connection "if let Some(msg) = protocol_error" upto "let frames_processed_count"
//@@   rewrite R3
//@@   rewrite RT "should_close = true;" "*should_close = true;"
fn protocol_error_reply(protocol_error: Option<String>, responses: &mut Vec<RespFrame>, should_close: &mut bool)
    ensures
        // C05: a protocol violation is answered with exactly one error reply, after the replies to everything parsed before it, and the
        // connection is closed afterwards; without a violation nothing is added
        protocol_error is Some ==> final(responses)@.len() == old(responses)@.len() + 1 && final(responses)@.take(old(responses)@.len() as int) =~= old(responses)@
            && final(responses)@[old(responses)@.len() as int] is Error && *final(should_close),
        protocol_error is None ==> final(responses)@ == old(responses)@ && *final(should_close) == *old(should_close),
//@@ body
//@@ end

//@@ unit send_batch_step loopbody src/network/server.rs Server::process_connection "for response in responses" #1 of 2
//@@   rewrite R3
//@@   rewrite RT "continue;" "return;"
fn send_batch_step(conn: &mut Connection, id: u64, response: RespFrame)
    ensures
        final(conn).db_index == old(conn).db_index, final(conn).transaction_state == old(conn).transaction_state, final(conn).state == old(conn).state, final(conn).is_monitoring == old(conn).is_monitoring,
        // C05: a NoResponse marker puts nothing on the wire; every other response is handed to the write buffer exactly once, after
        // everything handed over before it — or not at all if the socket refused it — and never twice, never reordered
        response is NoResponse ==> final(conn).out.sent@ == old(conn).out.sent@,
        !(response is NoResponse) ==> final(conn).out.sent@ == old(conn).out.sent@.push(response) || final(conn).out.sent@ == old(conn).out.sent@,
//@@ body
//@@ end

//@@ unit send_immediate_step loopbody src/network/server.rs Server::process_connection "for response in responses" #0 of 2
//@@   rewrite R3
//@@   rewrite RCALL contains "*" verif_msg_contains
//@@   rewrite RT "continue;" "return Ok(true);"
//@@   rewrite RGUARD
//@@   opt same-return-type
//@@   tail Ok(true)
fn send_immediate_step(conn: &mut Connection, id: u64, response: RespFrame) -> (r: Result<bool>)
    ensures
        final(conn).db_index == old(conn).db_index, final(conn).transaction_state == old(conn).transaction_state, final(conn).is_monitoring == old(conn).is_monitoring,
        response is NoResponse ==> final(conn).out.sent@ == old(conn).out.sent@ && r is Ok,
        !(response is NoResponse) ==> final(conn).out.sent@ == old(conn).out.sent@.push(response) || final(conn).out.sent@ == old(conn).out.sent@,
        // the loop is abandoned only when the socket is gone (the connection is marked Closing)
        r is Err ==> final(conn).state == ConnectionState::Closing,
        r is Ok ==> final(conn).state == old(conn).state,
//@@ body
//@@ end

} // verus!
fn main() {}
