//@@ include contracts/inc_srv_header.rs
verus! {
/// MODEL of the AOF engine seen from the dispatcher: the ghost sequence of commands handed to append_command
/// (AofEngine::append_command's own step — whole frame to the file — is unit aof_append_step in c11_aof)
pub struct AofModel { pub log: Ghost<Seq<Seq<RespFrame>>> }
impl AofModel {
    #[verifier::external_body]
    pub fn append_command(&mut self, parts: &[RespFrame]) -> (r: Result<()>)
        ensures final(self).log@ == old(self).log@.push(parts@),
    { unimplemented!() }
}
pub struct Server { pub aof_engine: Option<AofModel> }
/// classification of a command name (the real is_write_command body is enumerated over the dispatch table in the table unit)
pub uninterp spec fn spec_is_write(name: Seq<char>) -> bool;
/// `self.is_write_command(&command_name)` (RT site: the &self method becomes a free function so that the AOF handle can be
/// borrowed mutably — interior mutability of the real AofEngine made explicit)
#[verifier::external_body]
pub fn spec_is_write_exec(name: &String) -> (r: bool) ensures r == spec_is_write(name@), { unimplemented!() }

impl Server {
//@@ unit aof_log_block stmts src/network/server.rs Server::process_normal_command "if let Some(aof) = &self.aof_engine" upto "let result = match command_name.as_str()"
//@@   rewrite R3
//@@   rewrite RT "&self.aof_engine" "&mut self.aof_engine"
//@@   rewrite RT "self.is_write_command(&command_name)" "spec_is_write_exec(&command_name)"
    fn aof_log_block(&mut self, parts: &[RespFrame], db: usize, conn_id: u64, command_name: String)
        ensures
            // C11: with an AOF configured, the dispatcher hands a command to the log exactly when it is classified as a write,
            // exactly once, with exactly the parts it is about to execute (called once per EXECUTED command: direct, or per
            // queued command at EXEC time through process_command_parts)
            match old(self).aof_engine {
                Some(a) => final(self).aof_engine matches Some(b) && (if spec_is_write(command_name@) { b.log@ == a.log@.push(parts@) } else { b.log@ == a.log@ }),
                None => final(self).aof_engine is None,
            },
//@@ body
//@@ end
}
} // verus!
fn main() {}
