//@@ include contracts/inc_cmd_header.rs
verus! {

//@@ unit handle_sadd fn src/storage/commands/sets.rs handle_sadd
//@@   params drop "storage: &Arc<StorageEngine>" add "storage: &mut EngineModel"
//@@   rewrite R3
//@@   loop 0
//@@|     invariant 2 <= i <= parts@.len(), members@.len() == i - 2, forall|j: int| 2 <= j < i ==> (#[trigger] parts@[j] matches RespFrame::BulkString(Some(_))),
//@@|         forall|j: int| 0 <= j < i - 2 ==> members@[j] == arg_vec(parts@, j + 2)->Some_0,
//@@   at "match storage.sadd(db, key, members)"
//@@| assert(members@ =~= args_from(parts@, 2));

pub fn handle_sadd(storage: &mut EngineModel, db: usize, parts: &[RespFrame]) -> (r: Result<RespFrame>)
    ensures
        (parts@.len() < 3 || arg(parts@, 1) is None || !all_bulk(parts@, 2)) ==> cmd_refused(r, old(storage).ds@, final(storage).ds@),
        parts@.len() >= 3 && arg(parts@, 1) is Some && all_bulk(parts@, 2) ==> cmd_ok(r, final(storage).ds@, spec_sadd(old(storage).ds@, db as int, arg(parts@, 1)->Some_0, args_from(parts@, 2))),
//@@ body
//@@ end

//@@ unit handle_sismember fn src/storage/commands/sets.rs handle_sismember
//@@   params drop "storage: &Arc<StorageEngine>" add "storage: &mut EngineModel"
//@@   rewrite R3
pub fn handle_sismember(storage: &mut EngineModel, db: usize, parts: &[RespFrame]) -> (r: Result<RespFrame>)
    ensures
        (parts@.len() != 3 || arg(parts@, 1) is None || arg(parts@, 2) is None) ==> cmd_refused(r, old(storage).ds@, final(storage).ds@),
        parts@.len() == 3 && arg(parts@, 1) is Some && arg(parts@, 2) is Some ==> cmd_ok(r, final(storage).ds@, spec_sismember(old(storage).ds@, db as int, arg(parts@, 1)->Some_0, arg(parts@, 2)->Some_0)),
//@@ body
//@@ end

//@@ unit handle_scard fn src/storage/commands/sets.rs handle_scard
//@@   params drop "storage: &Arc<StorageEngine>" add "storage: &mut EngineModel"
//@@   rewrite R3
pub fn handle_scard(storage: &mut EngineModel, db: usize, parts: &[RespFrame]) -> (r: Result<RespFrame>)
    ensures
        (parts@.len() != 2 || arg(parts@, 1) is None) ==> cmd_refused(r, old(storage).ds@, final(storage).ds@),
        parts@.len() == 2 && arg(parts@, 1) is Some ==> cmd_ok(r, final(storage).ds@, spec_scard(old(storage).ds@, db as int, arg(parts@, 1)->Some_0)),
//@@ body
//@@ end

//@@ unit handle_smembers fn src/storage/commands/sets.rs handle_smembers
//@@   params drop "storage: &Arc<StorageEngine>" add "storage: &mut EngineModel"
//@@   rewrite R3
//@@   rewrite RXPR "members.into_iter().map(|m| RespFrame::from_bytes(m)).collect()" "verif_bulk_frames_set(members)"
//@@   at "let frames: Vec<RespFrame>"
//@@| proof { members@.unique_seq_to_set(); }
//@@| let ghost mv = members@;
//@@   at "Ok(RespFrame::Array(Some(frames)))"
//@@| assert forall|i: int| 0 <= i < frames@.len() implies mv.to_set().contains(key_of(mv[i]@)) by { assert(key_of(mv[i]@) == mv[i]); assert(mv.to_set().contains(mv[i])); }
//@@| assert forall|i: int, j: int| 0 <= i < j < frames@.len() implies bulk_reply(frames@[i]) != bulk_reply(frames@[j]) by { assert(mv[i] != mv[j]); assert(key_of(mv[i]@) == mv[i]); assert(key_of(mv[j]@) == mv[j]); }
pub fn handle_smembers(storage: &mut EngineModel, db: usize, parts: &[RespFrame]) -> (r: Result<RespFrame>)
    ensures
        (parts@.len() != 2 || arg(parts@, 1) is None) ==> cmd_refused(r, old(storage).ds@, final(storage).ds@),
        parts@.len() == 2 && arg(parts@, 1) is Some ==> cmd_ok(r, final(storage).ds@, spec_smembers(old(storage).ds@, db as int, arg(parts@, 1)->Some_0)),
//@@ body
//@@ end

} // verus!
fn main() {}
