//@@ include contracts/inc_cmd_header.rs
verus! {

//@@ unit handle_sadd fn src/storage/commands/sets.rs handle_sadd
//@@   params drop "storage: &Arc<StorageEngine>" add "storage: &mut EngineModel"
//@@   rewrite R3
//@@   loop 0
//@@|     invariant 2 <= i <= parts@.len(), members@.len() == i - 2, forall|j: int| 2 <= j < i ==> (#[trigger] parts@[j] matches RespFrame::BulkString(Some(_))),
//@@|         forall|j: int| 0 <= j < i - 2 ==> members@[j] == arg_vec(parts@, j + 2)->Some_0,
//@@   at "match storage.sadd(db, key, members)"
//@@| assert(members@ =~= args_from(parts@, 2));

pub fn handle_sadd(storage: &mut EngineModel, db: usize, parts: &[RespFrame]) -> (r: Result<RespFrame>)
    ensures
        (parts@.len() < 3 || arg(parts@, 1) is None || !all_bulk(parts@, 2)) ==> cmd_refused(r, old(storage).ds@, final(storage).ds@),
        parts@.len() >= 3 && arg(parts@, 1) is Some && all_bulk(parts@, 2) ==> cmd_ok(r, final(storage).ds@, spec_sadd(old(storage).ds@, db as int, arg(parts@, 1)->Some_0, args_from(parts@, 2))),
//@@ body
//@@ end

//@@ unit handle_sismember fn src/storage/commands/sets.rs handle_sismember
//@@   params drop "storage: &Arc<StorageEngine>" add "storage: &mut EngineModel"
//@@   rewrite R3
pub fn handle_sismember(storage: &mut EngineModel, db: usize, parts: &[RespFrame]) -> (r: Result<RespFrame>)
    ensures
        (parts@.len() != 3 || arg(parts@, 1) is None || arg(parts@, 2) is None) ==> cmd_refused(r, old(storage).ds@, final(storage).ds@),
        parts@.len() == 3 && arg(parts@, 1) is Some && arg(parts@, 2) is Some ==> cmd_ok(r, final(storage).ds@, spec_sismember(old(storage).ds@, db as int, arg(parts@, 1)->Some_0, arg(parts@, 2)->Some_0)),
//@@ body
//@@ end

//@@ unit handle_scard fn src/storage/commands/sets.rs handle_scard
//@@   params drop "storage: &Arc<StorageEngine>" add "storage: &mut EngineModel"
//@@   rewrite R3
pub fn handle_scard(storage: &mut EngineModel, db: usize, parts: &[RespFrame]) -> (r: Result<RespFrame>)
    ensures
        (parts@.len() != 2 || arg(parts@, 1) is None) ==> cmd_refused(r, old(storage).ds@, final(storage).ds@),
        parts@.len() == 2 && arg(parts@, 1) is Some ==> cmd_ok(r, final(storage).ds@, spec_scard(old(storage).ds@, db as int, arg(parts@, 1)->Some_0)),
//@@ body
//@@ end

//@@ unit handle_smembers fn src/storage/commands/sets.rs handle_smembers
//@@   params drop "storage: &Arc<StorageEngine>" add "storage: &mut EngineModel"
//@@   rewrite R3
//@@   rewrite RXPR "members.into_iter().map(|m| RespFrame::from_bytes(m)).collect()" "verif_bulk_frames_set(members)"
//@@   at "let frames: Vec<RespFrame>"
//@@| proof { members@.unique_seq_to_set(); }
//@@| let ghost mv = members@;
//@@   at "Ok(RespFrame::Array(Some(frames)))"
//@@| assert forall|i: int| 0 <= i < frames@.len() implies mv.to_set().contains(key_of(mv[i]@)) by { assert(key_of(mv[i]@) == mv[i]); assert(mv.to_set().contains(mv[i])); }
//@@| assert forall|i: int, j: int| 0 <= i < j < frames@.len() implies bulk_reply(frames@[i]) != bulk_reply(frames@[j]) by { assert(mv[i] != mv[j]); assert(key_of(mv[i]@) == mv[i]); assert(key_of(mv[j]@) == mv[j]); }
pub fn handle_smembers(storage: &mut EngineModel, db: usize, parts: &[RespFrame]) -> (r: Result<RespFrame>)
    ensures
        (parts@.len() != 2 || arg(parts@, 1) is None) ==> cmd_refused(r, old(storage).ds@, final(storage).ds@),
        parts@.len() == 2 && arg(parts@, 1) is Some ==> cmd_ok(r, final(storage).ds@, spec_smembers(old(storage).ds@, db as int, arg(parts@, 1)->Some_0)),
//@@ body
//@@ end

// ======================= SREM key member [member ...] =========================
/// the members named by arguments 2..n (an argument that is not a bulk string is skipped, as the handler does)
pub open spec fn named_upto(parts: Seq<RespFrame>, n: int) -> Set<Vec<u8>>
    decreases n
{ if n <= 2 { Set::empty() } else { match arg_vec(parts, n - 1) { Some(v) => named_upto(parts, n - 1).insert(v), None => named_upto(parts, n - 1) } } }
pub open spec fn refs_set(v: Seq<&Vec<u8>>, n: int) -> Set<Vec<u8>>
    decreases n
{ if n <= 0 { Set::empty() } else { refs_set(v, n - 1).insert(*v[n - 1]) } }
pub proof fn lemma_refs_set_push(v: Seq<&Vec<u8>>, x: &Vec<u8>, n: int)
    requires 0 <= n <= v.len(),
    ensures refs_set(v.push(x), n) == refs_set(v, n),
    decreases n
{ if n > 0 { lemma_refs_set_push(v, x, n - 1); assert(v.push(x)[n - 1] == v[n - 1]); } }
/// SREM: the named members leave; the reply counts those that were there; an emptied set ceases to exist as a key (engine: unit srem of shard_sets)
pub open spec fn spec_srem(ds: DS, db: int, k: Seq<u8>, ms: Set<Vec<u8>>) -> (RV, DS) {
    match ds_get(ds, db, k) {
        None => (RV::Int(0), ds),
        Some(DV::Set(m)) => (RV::Int((m.len() - m.difference(ms).len()) as int), if m.difference(ms).len() == 0 { ds.remove((db, k)) } else { ds.insert((db, k), DV::Set(m.difference(ms))) }),
        Some(_) => (RV::WrongType, ds),
    }
}
impl EngineModel {
    /// ASSUMED CONTRACT (engine.rs StorageEngine::srem — unit srem of shard_sets), members handed over as references
    #[verifier::external_body]
    pub fn srem(&mut self, db: usize, key: &[u8], members: &Vec<&Vec<u8>>) -> (r: Result<usize>)
        ensures res_int(r, spec_srem(old(self).ds@, db as int, key@, refs_set(members@, members@.len() as int)).0),
            final(self).ds@ == spec_srem(old(self).ds@, db as int, key@, refs_set(members@, members@.len() as int)).1,
    { unimplemented!() }
}
impl EngineModel {
    /// the same engine function with the members handed over by value vector (script path)
    #[verifier::external_body]
    pub fn srem_v(&mut self, db: usize, key: &[u8], members: &Vec<Vec<u8>>) -> (r: Result<usize>)
        ensures res_int(r, spec_srem(old(self).ds@, db as int, key@, vecs_set(members@)).0),
            final(self).ds@ == spec_srem(old(self).ds@, db as int, key@, vecs_set(members@)).1,
    { unimplemented!() }
}
//@@ unit handle_srem fn src/storage/commands/sets.rs handle_srem
//@@   params drop "storage: &Arc<StorageEngine>" add "storage: &mut EngineModel"
//@@   rewrite R3
//@@   rewrite RT "let mut members = Vec::new();" "let mut members: Vec<&Vec<u8>> = Vec::new();"
//@@   rewrite RFORC 0
//@@   rewrite RT "RespFrame::BulkString(Some(bytes)) => members.push(bytes.as_ref())," "RespFrame::BulkString(Some(bytes)) => { members.push(bytes.as_ref()); proof { lemma_refs_set_push(m0, members@.last(), m0.len() as int); assert(members@ =~= m0.push(members@.last())); reveal_with_fuel(refs_set, 2); } },"
//@@   loop 0
//@@|     invariant 2 <= i__n <= i__end, i__end == parts@.len(), *storage == *old(storage),
//@@|         refs_set(members@, members@.len() as int) == named_upto(parts@, i__n as int),
//@@|     decreases i__end - i__n,
//@@   loopstart 0
//@@|     let ghost m0 = members@;
//@@|     proof { reveal_with_fuel(named_upto, 2); }
pub fn handle_srem(storage: &mut EngineModel, db: usize, parts: &[RespFrame]) -> (r: Result<RespFrame>)
    ensures
        (parts@.len() < 3 || arg(parts@, 1) is None) ==> cmd_refused(r, old(storage).ds@, final(storage).ds@),
        parts@.len() >= 3 && arg(parts@, 1) is Some ==> cmd_ok(r, final(storage).ds@, spec_srem(old(storage).ds@, db as int, arg(parts@, 1)->Some_0, named_upto(parts@, parts@.len() as int))),
//@@ body
//@@ end

// ======================= SPOP key [count] =========================
/// the set stored at (db, k), absent = empty
pub open spec fn set_left(ds: DS, db: int, k: Seq<u8>) -> Set<Vec<u8>> { match ds_get(ds, db, k) { Some(DV::Set(s)) => s, _ => Set::empty() } }
pub open spec fn seq_members(p: Seq<Seq<u8>>) -> Set<Vec<u8>> { p.map_values(|b: Seq<u8>| key_of(b)).to_set() }
/// SPOP's effect for a key that holds a set or nothing: WHICH members go is the engine's random choice — some duplicate-free selection of
/// min(count, cardinality) members — they leave the set, and nothing else in the dataset changes
pub open spec fn spop_sel(ds0: DS, ds1: DS, db: int, k: Seq<u8>, count: usize, p: Seq<Seq<u8>>) -> bool {
    match ds_get(ds0, db, k) {
        None => p.len() == 0 && ds1 == ds0,
        Some(DV::Set(s)) => p.no_duplicates() && (forall|i: int| 0 <= i < p.len() ==> s.contains(key_of(#[trigger] p[i])))
            && p.len() == (if count <= s.len() { count as int } else { s.len() as int })
            && (forall|d: int, kk: Seq<u8>| (d != db || kk != k) ==> #[trigger] ds_get(ds1, d, kk) == ds_get(ds0, d, kk))
            && set_left(ds1, db, k) =~= s.difference(seq_members(p)),
        Some(_) => false,
    }
}
impl EngineModel {
    /// ASSUMED CONTRACT (engine.rs StorageEngine::spop; not under contract itself: it shuffles with a thread-local RNG)
    #[verifier::external_body]
    pub fn spop(&mut self, db: usize, key: Vec<u8>, count: usize) -> (r: Result<Vec<Vec<u8>>>)
        ensures match ds_get(old(self).ds@, db as int, key@) {
            Some(DV::Set(_)) | None => r matches Ok(v) && spop_sel(old(self).ds@, final(self).ds@, db as int, key@, count, v@.map_values(|m: Vec<u8>| m@)),
            Some(_) => (r matches Err(e) && e == wt()) && final(self).ds@ == old(self).ds@,
        },
    { unimplemented!() }
}
/// `members.into_iter().next()` (RXPR site): the first popped member, if any
#[verifier::external_body]
pub fn verif_first_member(v: Vec<Vec<u8>>) -> (r: Option<Vec<u8>>)
    ensures v@.len() == 0 ==> r is None, v@.len() > 0 ==> (r matches Some(m) && m@ == v@[0]@),
{ unimplemented!() }
/// the members a reply names: the one bulk string (or none, for nil) of the single-member form, the elements of the array form
pub open spec fn popped_of(f: RespFrame, array_form: bool) -> Seq<Seq<u8>> {
    if array_form { match f { RespFrame::Array(Some(v)) => Seq::new(v@.len(), |i: int| bulk_reply(v@[i])->Some_0->Some_0), _ => Seq::empty() } }
    else { match f { RespFrame::BulkString(Some(b)) => seq![b@], _ => Seq::empty() } }
}
pub open spec fn spop_reply_shape(f: RespFrame, array_form: bool) -> bool {
    if array_form { f matches RespFrame::Array(Some(v)) && forall|i: int| 0 <= i < v@.len() ==> (bulk_reply(#[trigger] v@[i]) matches Some(Some(_))) }
    else { f is BulkString }
}
//@@ unit handle_spop fn src/storage/commands/sets.rs handle_spop
//@@   params drop "storage: &Arc<StorageEngine>" add "storage: &mut EngineModel"
//@@   rewrite R3
//@@   rewrite RCALL parse "String::from_utf8_lossy(bytes)" verif_cow_parse
//@@   rewrite RXPR "members.into_iter().next()" "verif_first_member(members)"
//@@   rewrite RXPR "members.into_iter() .map(|m| RespFrame::from_bytes(m)) .collect()" "verif_bulk_frames(members)"
//@@   at "if" #1
//@@|     let ghost mv = members@.map_values(|m: Vec<u8>| m@);
//@@   at "match members.into_iter().next()"
//@@|     proof { assert(mv.len() <= 1); }
//@@   rewrite RT "Some(member) => Ok(RespFrame::from_bytes(member))," "Some(member) => { let f0 = RespFrame::from_bytes(member); proof { assert(popped_of(f0, false) =~= mv); } Ok(f0) },"
//@@   rewrite RT "None => Ok(RespFrame::null_bulk())," "None => { let f0 = RespFrame::null_bulk(); proof { assert(popped_of(f0, false) =~= mv); } Ok(f0) },"
//@@   at "Ok(RespFrame::Array(Some(frames)))"
//@@|     proof { assert(popped_of(RespFrame::Array(Some(frames)), true) =~= mv); }
pub fn handle_spop(storage: &mut EngineModel, db: usize, parts: &[RespFrame]) -> (r: Result<RespFrame>)
    ensures
        (parts@.len() < 2 || parts@.len() > 3 || arg(parts@, 1) is None || (parts@.len() == 3 && num_arg::<usize>(parts@, 2) is None)) ==> cmd_refused(r, old(storage).ds@, final(storage).ds@),
        (parts@.len() == 2 || (parts@.len() == 3 && num_arg::<usize>(parts@, 2) is Some)) && arg(parts@, 1) is Some ==> ({
            let k = arg(parts@, 1)->Some_0;
            let count = if parts@.len() == 3 { num_arg::<usize>(parts@, 2)->Some_0 } else { 1usize };
            // C03: the reply FORM follows the command's form — SPOP key answers one bulk string (nil when nothing is there), SPOP key count
            // answers an array, also for count 1 and for a missing key — and the members it names are exactly the ones that left the set
            match ds_get(old(storage).ds@, db as int, k) {
                Some(DV::Set(_)) | None => r matches Ok(f) && spop_reply_shape(f, parts@.len() == 3) && spop_sel(old(storage).ds@, final(storage).ds@, db as int, k, count, popped_of(f, parts@.len() == 3)),
                Some(_) => (r matches Ok(f) && f is Error) && final(storage).ds@ == old(storage).ds@,
            }
        }),
//@@ body
//@@ end

// ======================= SPOP on the script path (C12: redis.call('SPOP', ...) answers as the direct SPOP does) =========================
/// MODEL of UnifiedCommandExecutor (the implementation scripts reach through redis.call): the storage engine model
pub struct UnifiedCommandExecutor { pub storage: EngineModel }
impl UnifiedCommandExecutor {
//@@ unit exec_srem arm src/storage/commands/executor.rs UnifiedCommandExecutor::execute_set "SetCommand::SRem { key, members }"
//@@   params drop "&self" add "&mut self"
//@@   rewrite RT "self.storage.srem(db, &key, &members)" "self.storage.srem_v(db, &key, &members)"
    fn exec_srem(&mut self, db: usize, key: Vec<u8>, members: Vec<Vec<u8>>) -> (r: Result<RespFrame>)
        ensures
            // the effect and the reply of the direct SREM for the same members (handle_srem above)
            r is Ok ==> cmd_ok(r, final(self).storage.ds@, spec_srem(old(self).storage.ds@, db as int, key@, vecs_set(members@))),
            r is Err ==> spec_srem(old(self).storage.ds@, db as int, key@, vecs_set(members@)).0 is WrongType && final(self).storage.ds@ == old(self).storage.ds@,
//@@ body
//@@ end
//@@ unit exec_spop arm src/storage/commands/executor.rs UnifiedCommandExecutor::execute_set "SetCommand::SPop { key, count }"
//@@   params drop "&self" add "&mut self"
//@@   rewrite? RXPR "members.into_iter().next()" "verif_first_member(members)"
//@@   rewrite? RXPR "members.into_iter() .map(|m| RespFrame::from_bytes(m)) .collect()" "verif_bulk_frames(members)"
//@@   rewrite? RT "Some(member) => Ok(RespFrame::from_bytes(member))," "Some(member) => { let f0 = RespFrame::from_bytes(member); proof { assert(popped_of(f0, false) =~= mv); } Ok(f0) },"
//@@   rewrite? RT "None => Ok(RespFrame::null_bulk())," "None => { let f0 = RespFrame::null_bulk(); proof { assert(popped_of(f0, false) =~= mv); } Ok(f0) },"
//@@   after "let members = self.storage.spop("
//@@|     let ghost mv = members@.map_values(|m: Vec<u8>| m@);
//@@   at "Ok(RespFrame::Array(Some(frames)))"
//@@|     proof { assert(popped_of(RespFrame::Array(Some(frames)), true) =~= mv); }
    fn exec_spop(&mut self, db: usize, key: Vec<u8>, count: Option<usize>) -> (r: Result<RespFrame>)
        ensures ({
            let n = match count { Some(c) => c, None => 1usize };
            // the same reply form and the same effect as the direct command (handle_spop above): without a count one bulk string or nil, with a
            // count an array — also for count 1 and for a missing key
            match ds_get(old(self).storage.ds@, db as int, key@) {
                Some(DV::Set(_)) | None => r matches Ok(f) && spop_reply_shape(f, count is Some) && spop_sel(old(self).storage.ds@, final(self).storage.ds@, db as int, key@, n, popped_of(f, count is Some)),
                Some(_) => !(r matches Ok(f) && !(f is Error)) && final(self).storage.ds@ == old(self).storage.ds@,
            }
        }),
//@@ body
//@@ end
}

} // verus!
fn main() {}
