//! vx-extract: dump an AST index (byte spans) of a Rust source file as JSON.
//! Usage: vx-extract <file.rs>   → JSON on stdout.
//! All spans are [start_byte, end_byte) into the file's bytes, so callers copy the
//! ORIGINAL text, never a pretty-printed form.
use proc_macro2::Span;
use quote::ToTokens;
use serde_json::{json, Value};
use syn::spanned::Spanned;
use syn::visit::{self, Visit};

struct LineIdx {
    starts: Vec<usize>, // byte offset of each line start
    src: String,
}
impl LineIdx {
    fn new(src: &str) -> Self {
        let mut starts = vec![0usize];
        for (i, b) in src.bytes().enumerate() {
            if b == b'\n' {
                starts.push(i + 1);
            }
        }
        LineIdx { starts, src: src.to_string() }
    }
    fn off(&self, line: usize, col_chars: usize) -> usize {
        let ls = self.starts[line - 1];
        let rest = &self.src[ls..];
        let mut n = 0usize;
        for (bi, _) in rest.char_indices() {
            if n == col_chars {
                return ls + bi;
            }
            n += 1;
        }
        ls + rest.len()
    }
    fn span(&self, s: Span) -> (usize, usize) {
        let a = s.start();
        let b = s.end();
        (self.off(a.line, a.column), self.off(b.line, b.column))
    }
}

fn sp(li: &LineIdx, s: Span) -> Value {
    let (a, b) = li.span(s);
    json!([a, b])
}

struct FnVisitor<'a> {
    li: &'a LineIdx,
    loops: Vec<Value>,
    arms: Vec<Value>,
    matches: Vec<Value>,
    stmts: Vec<Value>,
    closures: Vec<Value>,
    macros: Vec<Value>,
    binops: Vec<Value>,
    returns: Vec<Value>,
    tries: Vec<Value>,
    calls: Vec<Value>,
    pcalls: Vec<Value>,
    bytestrs: Vec<Value>,
    ifs: Vec<Value>,
    depth: usize,
}

impl<'a> FnVisitor<'a> {
    fn new(li: &'a LineIdx) -> Self {
        FnVisitor { li, loops: vec![], arms: vec![], matches: vec![], stmts: vec![], closures: vec![], macros: vec![], binops: vec![], returns: vec![], tries: vec![], calls: vec![], pcalls: vec![], bytestrs: vec![], ifs: vec![], depth: 0 }
    }
}

impl<'a, 'ast> Visit<'ast> for FnVisitor<'a> {
    fn visit_block(&mut self, b: &'ast syn::Block) {
        let (_bs, be) = self.li.span(b.span());
        self.depth += 1;
        for st in &b.stmts {
            let (s, e) = self.li.span(st.span());
            self.stmts.push(json!({"span": [s, e], "depth": self.depth, "block_end": be - 1}));
        }
        visit::visit_block(self, b);
        self.depth -= 1;
    }
    fn visit_expr_while(&mut self, e: &'ast syn::ExprWhile) {
        self.loops.push(json!({"kind": "while", "span": sp(self.li, e.span()), "body": sp(self.li, e.body.span()), "cond": sp(self.li, e.cond.span())}));
        visit::visit_expr_while(self, e);
    }
    fn visit_expr_for_loop(&mut self, e: &'ast syn::ExprForLoop) {
        self.loops.push(json!({"kind": "for", "span": sp(self.li, e.span()), "body": sp(self.li, e.body.span()), "pat": sp(self.li, e.pat.span()), "iter": sp(self.li, e.expr.span())}));
        visit::visit_expr_for_loop(self, e);
    }
    fn visit_expr_loop(&mut self, e: &'ast syn::ExprLoop) {
        self.loops.push(json!({"kind": "loop", "span": sp(self.li, e.span()), "body": sp(self.li, e.body.span())}));
        visit::visit_expr_loop(self, e);
    }
    fn visit_arm(&mut self, a: &'ast syn::Arm) {
        let pat = a.pat.to_token_stream().to_string();
        self.arms.push(json!({"pat": pat, "span": sp(self.li, a.span()), "body": sp(self.li, a.body.span()), "guard": a.guard.is_some()}));
        visit::visit_arm(self, a);
    }
    fn visit_expr_match(&mut self, m: &'ast syn::ExprMatch) {
        let mut arms = vec![];
        for a in &m.arms {
            let guard = a.guard.as_ref().map(|(iff, g)| json!({"if": sp(self.li, iff.span()), "expr": sp(self.li, g.span())}));
            arms.push(json!({"pat": a.pat.to_token_stream().to_string(), "pat_span": sp(self.li, a.pat.span()), "guard": guard,
                "arrow": sp(self.li, a.fat_arrow_token.span()), "body": sp(self.li, a.body.span()), "span": sp(self.li, a.span())}));
        }
        self.matches.push(json!({"span": sp(self.li, m.span()), "arms": arms}));
        visit::visit_expr_match(self, m);
    }
    fn visit_expr_closure(&mut self, c: &'ast syn::ExprClosure) {
        let mut unders = vec![];
        for p in &c.inputs {
            if let syn::Pat::Wild(w) = p {
                unders.push(sp(self.li, w.span()));
            }
        }
        let ret = match &c.output { syn::ReturnType::Type(arrow, ty) => json!([sp(self.li, arrow.span())[0], sp(self.li, ty.span())[1]]), _ => Value::Null };
        self.closures.push(json!({"span": sp(self.li, c.span()), "wild_params": unders, "body": sp(self.li, c.body.span()), "ret": ret}));
        visit::visit_expr_closure(self, c);
    }
    fn visit_macro(&mut self, m: &'ast syn::Macro) {
        let name = m.path.to_token_stream().to_string().replace(' ', "");
        self.macros.push(json!({"name": name, "span": sp(self.li, m.span())}));
        // `vec![e1, e2, ..]`: the arguments are ordinary expressions; index what is inside them too
        if name == "vec" {
            if let Ok(es) = m.parse_body_with(syn::punctuated::Punctuated::<syn::Expr, syn::Token![,]>::parse_terminated) {
                for e in es.iter() { self.visit_expr(e); }
            }
        }
        visit::visit_macro(self, m);
    }
    fn visit_expr_binary(&mut self, b: &'ast syn::ExprBinary) {
        let op = b.op.to_token_stream().to_string();
        self.binops.push(json!({"op": op, "span": sp(self.li, b.span()), "lhs": sp(self.li, b.left.span()), "rhs": sp(self.li, b.right.span())}));
        visit::visit_expr_binary(self, b);
    }
    fn visit_expr_return(&mut self, r: &'ast syn::ExprReturn) {
        self.returns.push(sp(self.li, r.span()));
        visit::visit_expr_return(self, r);
    }
    fn visit_expr_try(&mut self, t: &'ast syn::ExprTry) {
        self.tries.push(sp(self.li, t.span()));
        visit::visit_expr_try(self, t);
    }
    fn visit_expr_method_call(&mut self, c: &'ast syn::ExprMethodCall) {
        self.calls.push(json!({"method": c.method.to_string(), "span": sp(self.li, c.span()), "recv": sp(self.li, c.receiver.span())}));
        visit::visit_expr_method_call(self, c);
    }
    fn visit_expr_call(&mut self, c: &'ast syn::ExprCall) {
        let f = c.func.to_token_stream().to_string().replace(' ', "");
        self.pcalls.push(json!({"func": f, "span": sp(self.li, c.span()), "func_span": sp(self.li, c.func.span())}));
        visit::visit_expr_call(self, c);
    }
    fn visit_lit_byte_str(&mut self, l: &'ast syn::LitByteStr) {
        self.bytestrs.push(json!({"span": sp(self.li, l.span()), "bytes": l.value()}));
    }
    fn visit_expr_if(&mut self, i: &'ast syn::ExprIf) {
        self.ifs.push(json!({"span": sp(self.li, i.span()), "cond": sp(self.li, i.cond.span()), "then": sp(self.li, i.then_branch.span())}));
        visit::visit_expr_if(self, i);
    }
    // do not descend into nested fn items
    fn visit_item_fn(&mut self, _f: &'ast syn::ItemFn) {}
}

struct Top<'a> {
    li: &'a LineIdx,
    prefix: Vec<String>,
    fns: Vec<Value>,
    items: Vec<Value>,
}

impl<'a> Top<'a> {
    fn path(&self, name: &str) -> String {
        let mut p = self.prefix.clone();
        p.push(name.to_string());
        p.join("::")
    }
    fn add_fn(&mut self, name: &str, attrs: &[syn::Attribute], vis_span: Option<Span>, sig: &syn::Signature, block: &syn::Block, whole: Span) {
        let li = self.li;
        let (ws, we) = li.span(whole);
        let (bs, be) = li.span(block.span());
        // start of the signature proper (after attributes / doc comments)
        let sig_start = match vis_span {
            Some(v) => {
                let (a, b) = li.span(v);
                if a == b { li.span(sig.span()).0 } else { a }
            }
            None => li.span(sig.span()).0,
        };
        let mut fv = FnVisitor::new(li);
        fv.visit_block(block);
        let has_self = sig.receiver().is_some();
        let self_span = sig.receiver().map(|r| sp(li, r.span()));
        let ret = match &sig.output {
            syn::ReturnType::Default => Value::Null,
            syn::ReturnType::Type(_, t) => sp(li, t.span()),
        };
        let inputs: Vec<Value> = sig.inputs.iter().map(|a| sp(li, a.span())).collect();
        let attr_spans: Vec<Value> = attrs.iter().map(|a| sp(li, a.span())).collect();
        self.fns.push(json!({
            "path": self.path(name), "name": name,
            "item": [ws, we], "sig_start": sig_start, "body": [bs, be],
            "has_self": has_self, "self_span": self_span, "ret": ret, "inputs": inputs,
            "ident": sp(li, sig.ident.span()),
            "paren": sp(li, sig.paren_token.span.join()),
            "attrs": attr_spans,
            "loops": fv.loops, "arms": fv.arms, "matches": fv.matches, "stmts": fv.stmts, "closures": fv.closures,
            "macros": fv.macros, "binops": fv.binops, "returns": fv.returns, "tries": fv.tries,
            "calls": fv.calls, "pcalls": fv.pcalls, "bytestrs": fv.bytestrs, "ifs": fv.ifs,
        }));
    }
    fn add_item(&mut self, kind: &str, name: &str, attrs: &[syn::Attribute], whole: Span, extra: Value) {
        let li = self.li;
        let (ws, we) = li.span(whole);
        // start after outer attributes
        let mut start = ws;
        for a in attrs {
            let (_, e) = li.span(a.span());
            if e > start { start = e; }
        }
        self.items.push(json!({"kind": kind, "path": self.path(name), "name": name, "item": [ws, we], "after_attrs": start, "extra": extra}));
    }
}

fn type_name(t: &syn::Type) -> String {
    match t {
        syn::Type::Path(p) => p.path.segments.last().map(|s| s.ident.to_string()).unwrap_or_default(),
        _ => t.to_token_stream().to_string(),
    }
}

impl<'a, 'ast> Visit<'ast> for Top<'a> {
    fn visit_item_fn(&mut self, f: &'ast syn::ItemFn) {
        self.add_fn(&f.sig.ident.to_string(), &f.attrs, Some(f.vis.span()), &f.sig, &f.block, f.span());
    }
    fn visit_item_impl(&mut self, i: &'ast syn::ItemImpl) {
        let ty = type_name(&i.self_ty);
        let name = match &i.trait_ {
            Some((_, p, _)) => format!("<{} as {}>", ty, p.segments.last().map(|s| s.ident.to_string()).unwrap_or_default()),
            None => ty,
        };
        self.add_item("impl", &name, &i.attrs, i.span(), json!({}));
        self.prefix.push(name);
        for it in &i.items {
            if let syn::ImplItem::Fn(m) = it {
                self.add_fn(&m.sig.ident.to_string(), &m.attrs, Some(m.vis.span()), &m.sig, &m.block, m.span());
            }
            if let syn::ImplItem::Const(c) = it {
                self.add_item("const", &c.ident.to_string(), &c.attrs, c.span(), json!({}));
            }
        }
        self.prefix.pop();
    }
    fn visit_item_mod(&mut self, m: &'ast syn::ItemMod) {
        self.prefix.push(m.ident.to_string());
        visit::visit_item_mod(self, m);
        self.prefix.pop();
    }
    fn visit_item_struct(&mut self, s: &'ast syn::ItemStruct) {
        let fields: Vec<Value> = s.fields.iter().map(|f| json!({"name": f.ident.as_ref().map(|i| i.to_string()), "span": sp(self.li, f.span()), "ty": sp(self.li, f.ty.span())})).collect();
        self.add_item("struct", &s.ident.to_string(), &s.attrs, s.span(), json!({"fields": fields}));
    }
    fn visit_item_enum(&mut self, e: &'ast syn::ItemEnum) {
        let vars: Vec<Value> = e.variants.iter().map(|v| json!({"name": v.ident.to_string(), "span": sp(self.li, v.span())})).collect();
        self.add_item("enum", &e.ident.to_string(), &e.attrs, e.span(), json!({"variants": vars}));
    }
    fn visit_item_const(&mut self, c: &'ast syn::ItemConst) {
        self.add_item("const", &c.ident.to_string(), &c.attrs, c.span(), json!({}));
    }
    fn visit_item_type(&mut self, t: &'ast syn::ItemType) {
        self.add_item("type", &t.ident.to_string(), &t.attrs, t.span(), json!({}));
    }
}

fn main() {
    let args: Vec<String> = std::env::args().collect();
    if args.len() != 2 {
        eprintln!("usage: vx-extract <file.rs>");
        std::process::exit(2);
    }
    let src = std::fs::read_to_string(&args[1]).expect("read");
    let file = match syn::parse_file(&src) {
        Ok(f) => f,
        Err(e) => {
            eprintln!("parse error: {}", e);
            std::process::exit(3);
        }
    };
    let li = LineIdx::new(&src);
    let mut top = Top { li: &li, prefix: vec![], fns: vec![], items: vec![] };
    top.visit_file(&file);
    let out = json!({"file": args[1], "len": src.len(), "fns": top.fns, "items": top.items});
    println!("{}", serde_json::to_string(&out).unwrap());
}
