#!/bin/sh
# usage: tools/try_seed_copy.sh <patch.diff> <ID> [tier] [-R]  — like try_seed.sh but on a scratch copy of /repo's sources
# (VERIF_REPO), so that /repo itself is not touched (use while a long in-place run reads /repo). Verus and table checks only.
P="$1"; ID="$2"; T="${3:-quick}"; REV="$4"
W=$(mktemp -d /tmp/seedcopy.XXXXXX)
cp -r /repo/src /repo/Cargo.toml /repo/Cargo.lock "$W"/ 2>/dev/null
[ -d /repo/tests ] && cp -r /repo/tests "$W"/
(cd "$W" && git init -q . && git apply $REV "$P") || { echo "PATCH-DOES-NOT-APPLY $P"; rm -rf "$W"; exit 8; }
cp "/verif/evidence/$ID.json" "/verif/build/evidence_$ID.keep" 2>/dev/null
cd /verif && VERIF_REPO="$W" ./check "$ID" "$T"; rc=$?
cp "/verif/evidence/$ID.json" "/verif/build/evidence_$ID.seeded" 2>/dev/null
[ -f "/verif/build/evidence_$ID.keep" ] && mv "/verif/build/evidence_$ID.keep" "/verif/evidence/$ID.json"
rm -rf "$W"
echo "seed=$P property=$ID rc=$rc"
exit $rc
