#!/usr/bin/env python3
"""Writes contracts/cmd_<group>.rs (handler contracts against the reference model) from a compact table.
Run by hand when the table changes; the generated templates are committed."""
import sys

def handler(file, name, arity, args, spec, extra_rewrites=(), parse=False, frames=None, lines_before=''):
    """args: list of (index, kind) with kind in 'bytes' | 'num:<T>' ; arity: ('==', n) or ('>=', n); spec: text using {a1},{a2},.. and elems"""
    conds_bad, conds_ok, subst = [], [], {}
    op, n = arity
    conds_bad.append(f'parts@.len() {"!=" if op == "==" else "<"} {n}')
    conds_ok.append(f'parts@.len() {op} {n}')
    for (i, kind) in args:
        if kind == 'bytes':
            conds_bad.append(f'arg(parts@, {i}) is None'); conds_ok.append(f'arg(parts@, {i}) is Some'); subst[f'a{i}'] = f'arg(parts@, {i})->Some_0'
            subst[f'v{i}'] = f'arg_vec(parts@, {i})->Some_0'
        elif kind.startswith('num:'):
            t = kind[4:]
            conds_bad.append(f'num_arg::<{t}>(parts@, {i}) is None'); conds_ok.append(f'num_arg::<{t}>(parts@, {i}) is Some'); subst[f'a{i}'] = f'num_arg::<{t}>(parts@, {i})->Some_0 as int'
        elif kind == 'rest':
            conds_bad.append(f'!all_bulk(parts@, {i})'); conds_ok.append(f'all_bulk(parts@, {i})'); subst['rest'] = f'args_from(parts@, {i})'
    sp = spec.format(**subst)
    rw = ['//@@   rewrite R3']
    if parse:
        rw += ['//@@   rewrite R1', '//@@   rewrite RCALL parse "String::from_utf8_lossy(bytes)" verif_cow_parse']
    rw += list(extra_rewrites)
    out = f'''//@@ unit {name} fn {file} {name}
//@@   params drop "storage: &Arc<StorageEngine>" add "storage: &mut EngineModel"
''' + '\n'.join(rw) + '\n' + lines_before + f'''pub fn {name}(storage: &mut EngineModel, db: usize, parts: &[RespFrame]) -> (r: Result<RespFrame>)
    ensures
        ({' || '.join(conds_bad)}) ==> cmd_refused(r, old(storage).ds@, final(storage).ds@),
        {' && '.join(conds_ok)} ==> cmd_ok(r, final(storage).ds@, {sp}),
//@@ body
//@@ end

'''
    return out

DS = 'old(storage).ds@, db as int'
L = 'src/storage/commands/lists.rs'
def lists():
    o = '//@@ include contracts/inc_cmd_header.rs\nverus! {\n\n'
    push_loop = lambda m: ('''//@@   loop 0
//@@|     invariant 2 <= i <= parts@.len(), elements@.len() == i - 2, forall|j: int| 2 <= j < i ==> (#[trigger] parts@[j] matches RespFrame::BulkString(Some(_))),
//@@|         forall|j: int| 0 <= j < i - 2 ==> elements@[j] == arg_vec(parts@, j + 2)->Some_0,
//@@   at "match storage.%s(db, key, elements)"
//@@| assert(elements@ =~= args_from(parts@, 2));
''' % m,)
    o += handler(L, 'handle_lpush', ('>=', 3), [(1, 'bytes'), (2, 'rest')], 'spec_push(%s, {a1}, {rest}, true)' % DS, extra_rewrites=push_loop('lpush'))
    o += handler(L, 'handle_rpush', ('>=', 3), [(1, 'bytes'), (2, 'rest')], 'spec_push(%s, {a1}, {rest}, false)' % DS, extra_rewrites=push_loop('rpush'))
    o += handler(L, 'handle_lpop', ('==', 2), [(1, 'bytes')], 'spec_pop(%s, {a1}, true)' % DS)
    o += handler(L, 'handle_rpop', ('==', 2), [(1, 'bytes')], 'spec_pop(%s, {a1}, false)' % DS)
    o += handler(L, 'handle_llen', ('==', 2), [(1, 'bytes')], 'spec_llen(%s, {a1})' % DS)
    o += handler(L, 'handle_lindex', ('==', 3), [(1, 'bytes'), (2, 'num:isize')], 'spec_lindex(%s, {a1}, {a2})' % DS, parse=True)
    o += handler(L, 'handle_lset', ('==', 4), [(1, 'bytes'), (2, 'num:isize'), (3, 'bytes')], 'spec_lset(%s, {a1}, {a2}, {v3})' % DS, parse=True)
    o += handler(L, 'handle_ltrim', ('==', 4), [(1, 'bytes'), (2, 'num:isize'), (3, 'num:isize')], 'spec_ltrim(%s, {a1}, {a2}, {a3})' % DS, parse=True)
    o += handler(L, 'handle_lrange', ('==', 4), [(1, 'bytes'), (2, 'num:isize'), (3, 'num:isize')], 'spec_lrange(%s, {a1}, {a2}, {a3})' % DS, parse=True,
                 extra_rewrites=('//@@   rewrite RXPR "elements.into_iter().map(|e| RespFrame::from_bytes(e)).collect()" "verif_bulk_frames(elements)"',))
    o += '} // verus!\nfn main() {}\n'
    open('/verif/contracts/cmd_lists.rs', 'w').write(o)

S = 'src/storage/commands/sets.rs'
H = 'src/storage/commands/hashes.rs'
def sets():
    o = '//@@ include contracts/inc_cmd_header.rs\nverus! {\n\n'
    loop = ('''//@@   loop 0
//@@|     invariant 2 <= i <= parts@.len(), members@.len() == i - 2, forall|j: int| 2 <= j < i ==> (#[trigger] parts@[j] matches RespFrame::BulkString(Some(_))),
//@@|         forall|j: int| 0 <= j < i - 2 ==> members@[j] == arg_vec(parts@, j + 2)->Some_0,
//@@   at "match storage.sadd(db, key, members)"
//@@| assert(members@ =~= args_from(parts@, 2));
''',)
    o += handler(S, 'handle_sadd', ('>=', 3), [(1, 'bytes'), (2, 'rest')], 'spec_sadd(%s, {a1}, {rest})' % DS, extra_rewrites=loop)
    o += handler(S, 'handle_sismember', ('==', 3), [(1, 'bytes'), (2, 'bytes')], 'spec_sismember(%s, {a1}, {a2})' % DS)
    o += handler(S, 'handle_scard', ('==', 2), [(1, 'bytes')], 'spec_scard(%s, {a1})' % DS)
    o += handler(S, 'handle_smembers', ('==', 2), [(1, 'bytes')], 'spec_smembers(%s, {a1})' % DS,
                 extra_rewrites=('//@@   rewrite RXPR "members.into_iter().map(|m| RespFrame::from_bytes(m)).collect()" "verif_bulk_frames_set(members)"',
                                 '//@@   at "let frames: Vec<RespFrame>"', '//@@| proof { members@.unique_seq_to_set(); }', '//@@| let ghost mv = members@;',
                                 '//@@   at "Ok(RespFrame::Array(Some(frames)))"',
                                 '//@@| assert forall|i: int| 0 <= i < frames@.len() implies mv.to_set().contains(key_of(mv[i]@)) by { assert(key_of(mv[i]@) == mv[i]); assert(mv.to_set().contains(mv[i])); }',
                                 '//@@| assert forall|i: int, j: int| 0 <= i < j < frames@.len() implies bulk_reply(frames@[i]) != bulk_reply(frames@[j]) by { assert(mv[i] != mv[j]); assert(key_of(mv[i]@) == mv[i]); assert(key_of(mv[j]@) == mv[j]); }'))
    o += '} // verus!\nfn main() {}\n'
    open('/verif/contracts/cmd_sets.rs', 'w').write(o)
def hashes():
    o = '//@@ include contracts/inc_cmd_header.rs\nverus! {\n\n'
    o += handler(H, 'handle_hget', ('==', 3), [(1, 'bytes'), (2, 'bytes')], 'spec_hget(%s, {a1}, {a2})' % DS)
    o += handler(H, 'handle_hlen', ('==', 2), [(1, 'bytes')], 'spec_hlen(%s, {a1})' % DS)
    o += handler(H, 'handle_hexists', ('==', 3), [(1, 'bytes'), (2, 'bytes')], 'spec_hexists(%s, {a1}, {a2})' % DS)
    o += '} // verus!\nfn main() {}\n'
    open('/verif/contracts/cmd_hashes.rs', 'w').write(o)

if __name__ == '__main__':
    lists(); sets(); hashes()
    print('written')
