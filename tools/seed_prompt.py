#!/usr/bin/env python3
"""Print the prompt handed to a seeding sub-agent for one property (property text + worktree path only)."""
import json, sys
pid = sys.argv[1]
for l in open('/verif/properties.jsonl'):
    p = json.loads(l)
    if p['id'] == pid:
        break
else:
    sys.exit('no such property')
wt = f'/tmp/seed/{pid}/wt'
out = f'/tmp/seed/{pid}/out'
print(f"""You are helping test a verification effort by playing the role of a developer who introduces a subtle regression.

Project: iGentAI/ferrous, a Redis-compatible in-memory key-value server written in Rust. You have your own scratch git worktree of it at {wt} (pristine checkout, a warm `target/` directory is already there). Work ONLY inside {wt} and {out}. Never read or touch /repo or /verif. The sandbox has no network; always pass --offline to cargo.

The property that must hold for ferrous:

  Title: {p['title']}
  Statement: {p['statement']}
  Quantified over: {p['quantifier']['text']}

Task: produce TWO independent, alternative changes (A and B) to the source under {wt}/src, each of which BREAKS this property, while
  (1) the crate still compiles without new warnings-as-errors, and
  (2) the existing test suite still passes unchanged:  cd {wt} && cargo test --workspace --no-fail-fast --offline   (163 tests; do not edit, add to, or delete existing tests).
A and B must be in different functions / different mechanisms (e.g. one in index arithmetic, one in bookkeeping), ideally in different layers of the code base (e.g. one nearer the command/protocol layer, one in the storage/data-structure layer), and each is applied alone to the pristine tree.

Make each change REALISTIC and SUBTLE: the kind of edit that looks like an innocent refactor, optimisation or off-by-one, a few lines at most, with no tell-tale comments. It must need something SPECIFIC to manifest — an unusual input or boundary value, a multi-step sequence of operations, a particular interleaving, a crash/fault at a particular point, or two cooperating sites that each look fine alone — not something ordinary use would expose at once.

For each change also write a DEMONSTRATION: a self-contained Rust integration test file (placed at {wt}/tests/demo_{pid}_A.rs resp. demo_{pid}_B.rs, using only the public API of the `ferrous` library crate — e.g. ferrous::storage::engine::StorageEngine, ferrous::protocol::..., or starting a Server on a local port if really needed) that FAILS with the change applied and PASSES on the pristine tree. Confirm both directions yourself by running it (cargo test --offline --test demo_{pid}_A). If something you need is private, pick a different demonstration route rather than changing visibility.

Deliverables, written to {out}/ :
  A.diff, B.diff        — `git diff` of src/ only (NOT including the demo test), each relative to the pristine tree, applicable with `git apply`
  demo_{pid}_A.rs, demo_{pid}_B.rs   — the demonstration tests (copies)
  A.json, B.json        — {{"property": "{pid}", "files": [...], "function": "...", "what_changed": "...", "needs_to_manifest": "...", "how_confirmed": "commands you ran and their outcome"}}
Before finishing, restore the worktree to pristine source (git -C {wt} checkout -- src) but you may leave the demo tests in tests/. In your final message, summarise the two changes in a few lines each.""")
