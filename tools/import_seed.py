#!/usr/bin/env python3
"""tools/import_seed.py <PID> <A|B> <round>  — copy a confirmed sub-agent seed from /tmp/seed/<PID>/out into seeded/<PID>_<round><X>/"""
import json, os, shutil, sys
pid, x, rnd = sys.argv[1], sys.argv[2], sys.argv[3]
src = f'/tmp/seed/{pid}/out'
dst = f'/verif/seeded/{pid}_{rnd}{x}'
os.makedirs(dst, exist_ok=True)
shutil.copy(f'{src}/{x}.diff', f'{dst}/patch.diff')
shutil.copy(f'{src}/demo_{pid}_{x}.rs', f'{dst}/demo_{pid}_{x}.rs')
meta = json.load(open(f'{src}/{x}.json'))
meta['id'] = f'{pid}_{rnd}{x}'
meta['origin'] = f'fresh sub-agent (round {rnd}) given only the property text and a scratch worktree'
meta['base_commit'] = os.popen('git -C /repo rev-parse --short HEAD').read().strip()
conf = open(f'{src}/confirm_{x}.log').read()
meta['confirmed'] = [l for l in conf.split('\n') if l.startswith(('== ', 'test result', 'applied', 'SUMMARY', 'HEAD'))]
json.dump(meta, open(f'{dst}/meta.json', 'w'), indent=1)
print(dst)
