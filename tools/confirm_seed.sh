#!/bin/bash
# usage: tools/confirm_seed.sh <ID> <A|B> [srcdir]  — confirm a seeded change in a scratch worktree of /repo HEAD:
#   (1) patch applies, (2) crate builds, (3) existing suite passes with it, (4) demo FAILS with it, (5) demo PASSES without it.
ID=$1; X=$2; SRC=${3:-/tmp/seed/$ID/out}
WT=/tmp/seedwt
LOG=$SRC/confirm_$X.log
exec > $LOG 2>&1
if [ ! -d $WT ]; then git -C /repo worktree add --detach $WT HEAD >/dev/null 2>&1; cp -r /repo/target $WT/target 2>/dev/null; fi
cd $WT && git reset -q --hard && git checkout -q --detach $(git -C /repo rev-parse HEAD) && git clean -fdq tests/ src/
echo "HEAD $(git rev-parse --short HEAD)"
cp $SRC/demo_${ID}_$X.rs tests/
echo "== demo on unpatched tree"
cargo test --offline --test demo_${ID}_$X 2>&1 | grep -E "^test result|^error(\[|:)|^test .* FAILED" | head -8
if git apply --check $SRC/$X.diff 2>/dev/null; then git apply $SRC/$X.diff; echo "applied cleanly";
elif git apply --3way $SRC/$X.diff >/dev/null 2>&1 && [ -z "$(git diff --name-only --diff-filter=U)" ]; then echo "applied with 3way";
else git reset -q --hard; echo "SUMMARY $ID $X PATCH-DOES-NOT-APPLY"; exit 0; fi
echo "== demo on patched tree"
cargo test --offline --test demo_${ID}_$X 2>&1 | grep -E "^test result|^error(\[|:)|^test .* FAILED" | head -8
echo "== suite on patched tree"
rm -f tests/demo_${ID}_$X.rs
cargo test --workspace --no-fail-fast --offline 2>&1 | grep -E "^test result|^error(\[|:)" 
git reset -q --hard; git clean -fdq tests/ src/
echo "SUMMARY $ID $X done"
