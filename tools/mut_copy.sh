#!/bin/sh
# usage: tools/mut_copy.sh <ID> <file under /repo> <python-expr replacing old by new: OLD|||NEW>  — hand mutation on a scratch copy (VERIF_REPO); /repo untouched
ID="$1"; F="$2"; SPEC="$3"
W=$(mktemp -d /tmp/mutcopy.XXXXXX)
cp -r /repo/src /repo/Cargo.toml "$W"/
python3 - "$W/$F" "$SPEC" <<'PY' || { rm -rf "$W"; exit 8; }
import sys
p, spec = sys.argv[1], sys.argv[2]
old, new = spec.split('|||')
c = open(p).read()
if c.count(old) < 1: sys.exit('MUTATION-ANCHOR-NOT-FOUND')
open(p, 'w').write(c.replace(old, new, 1))
PY
cp "/verif/evidence/$ID.json" "/verif/build/evidence_$ID.keep" 2>/dev/null
cd /verif && VERIF_REPO="$W" ./check "$ID" quick | grep -E "^(VIOLATION|OK|UNDECIDED|KNOWN|  obligation|  reason)" | head -8; 
[ -f "/verif/build/evidence_$ID.keep" ] && mv "/verif/build/evidence_$ID.keep" "/verif/evidence/$ID.json"
rm -rf "$W"
