#!/bin/sh
# usage: tools/run_all.sh [tier]  — every registered check on /repo's working tree, sequentially; prints one line per check
T="${1:-quick}"
cd /verif || exit 9
rc=0
for id in $(python3 -c "import json;print(' '.join(c['property_id'] for c in json.load(open('MANIFEST.json'))['checks']))"); do
  ./check "$id" "$T" > "build/run_$id.log" 2>&1; r=$?
  tail -1 "build/run_$id.log" | cut -c1-200
  [ $r -ne 0 ] && { echo "  exit=$r"; rc=1; }
done
exit $rc
